#!/bin/sh
# regenerate gen/*.json, lean/AV/Gen/*.lean and harness/gen_tables.go from /repo's current tree
cd "$(dirname "$0")"
python3 translators/t1_ontology.py "${VERIF_REPO:-/repo}" gen/ontology.json && bin/t2 "${VERIF_REPO:-/repo}" > gen/impl.json && python3 translators/gen_lean.py gen lean && python3 translators/gen_harness.py gen harness
