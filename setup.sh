#!/bin/sh
# Build the framework from files on disk only (offline): translators, harness,
# generated tables, the Lean library (all proof modules) and the model driver.
set -e
cd "$(dirname "$0")"
export GOFLAGS=-mod=mod GOPROXY=off GOSUMDB=off GOTOOLCHAIN=local
mkdir -p bin gen evidence work
(cd translators/t2 && go build -o ../../bin/t2 .)
if [ -d translators/t3 ]; then (cd translators/t3 && go build -o ../../bin/t3 .); fi
python3 translators/t1_ontology.py "${VERIF_REPO:-/repo}" gen/ontology.json
bin/t2 "${VERIF_REPO:-/repo}" > gen/impl.json
python3 translators/gen_lean.py gen lean
[ -f translators/gen_sites.py ] && python3 translators/gen_sites.py "${VERIF_REPO:-/repo}" gen lean || true
python3 translators/gen_harness.py gen harness
cp "${VERIF_REPO:-/repo}"/go.sum harness/go.sum
sed -i "s#^replace github.com/go-fed/activity => .*#replace github.com/go-fed/activity => ${VERIF_REPO:-/repo}#" harness/go.mod
(cd harness && go build -tags verif -o ../bin/harness .)
(cd lean && lake build AV avdrv)
echo "setup: ok"
