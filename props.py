"""Per-property configuration of ./check (what to build, what to run)."""

STREAMS_TB = [
    "Go compiler/runtime, encoding/json, net/url, time (modelled, not verified)",
]

PROPS = {
    "C13": {
        "level": "proof",
        "lean_modules": ["AV.GenProps.C13", "AV.Props.C13"],
        "support_modules": ["AV.Streams.Closure", "AV.Spec.C13"],
        "theorems": [
            "AV.GenProps.c13_table", "AV.GenProps.names_nodup",
            "AV.Props.C13.extends_iff", "AV.Props.C13.extendedBy_iff", "AV.Props.C13.extends_converse",
            "AV.Props.C13.isOrExtends_iff", "AV.Props.C13.disjoint_iff", "AV.Props.C13.disjoint_symm",
            "AV.Props.C13.disjoint_irrefl",
            "AV.Props.C13.shipped_extends", "AV.Props.C13.shipped_extendedBy", "AV.Props.C13.shipped_isOrExtends",
            "AV.Props.C13.shipped_disjoint", "AV.Props.C13.shipped_converse", "AV.Props.C13.shipped_disjoint_symm",
            "AV.Props.C13.shipped_disjoint_irrefl",
        ],
        "translator_scope": [r"type_", r"T1", r"gen_lean", r"gen_harness", r"gen_pkg", r"predicate", r"IsOrExtends", r"IsExtending"],
        "runners": [{"args": ["c13"], "timeout": 600}],
        "exhaustive": {"quick": True, "thorough": True},
        "rule": "all 63x63 ordered type pairs x {Extends, IsExtendedBy, IsOrExtends, IsDisjointWith, IsExtending} on real values; "
                "non-trivial = pair related by ancestry, disjointness or identity; distinct by input hash",
        "trusted_base": STREAMS_TB,
        "assumptions": ["type names identify types (names_nodup is proved on the regenerated table)"],
    },
    "C14": {
        "level": "proof",
        "lean_modules": ["AV.GenProps.C14", "AV.Props.C14"],
        "support_modules": ["AV.Streams.Resolver", "AV.Spec.C14"],
        "theorems": [
            "AV.GenProps.c14_table",
            "AV.Props.C14.spec_first", "AV.Props.C14.spec_none", "AV.Props.C14.typeResolve_eq_spec",
            "AV.Props.C14.typeResolve_unknown", "AV.Props.C14.predApply_eq", "AV.Props.C14.jsonHandle_first",
            "AV.Props.C14.unmatched_errors", "AV.Props.C14.shipped_diag", "AV.Props.C14.shipped_typeResolver",
            "AV.Props.C14.shipped_predResolver",
        ],
        "translator_scope": [r"resolver", r"Resolver", r"constructor", r"IsUnmatchedErr", r"ToType", r"gen_lean", r"gen_harness", r"manager", r"T2 failed"],
        "runners": [{"args": ["c14"], "timeout": 900}],
        "exhaustive": {"quick": False, "thorough": False},
        "rule": "exhaustive (value type x callback type) for TypeResolver, TypePredicatedResolver (63x63 each) and JSONResolver (63x63 documents), "
                "plus random callback lists 0..8 with duplicates / mixed vocabularies / callbacks returning nil, an application error or an unmatched error, "
                "multi-valued and unknown 'type', alias contexts, predicates passing/failing/erroring, and 34 wrong-shaped constructor arguments; "
                "non-trivial = some callback is written for the value's own type; distinct by input hash",
        "trusted_base": STREAMS_TB,
        "assumptions": ["Go interface satisfaction: a value implements exactly its own type's vocab interface (the LessThan method pins it); validated by the exhaustive run"],
    },
    "C12": {
        "level": "proof",
        "lean_modules": ["AV.GenProps.C12", "AV.Props.C12"],
        "support_modules": ["AV.Spec.C12", "AV.Streams.Decode", "AV.Streams.Literal", "AV.Core.Iri"],
        "theorems": [
            "AV.GenProps.c12_table",
            "AV.Props.C12.type_row", "AV.Props.C12.props_exact", "AV.Props.C12.known_keys_exact", "AV.Props.C12.prop_row",
            "AV.Props.C12.kinds_exact", "AV.Props.C12.kinds_descendants", "AV.Props.C12.inherit_mono",
            "AV.Props.C12.shipped_props", "AV.Props.C12.shipped_known_keys", "AV.Props.C12.shipped_kinds",
        ],
        "translator_scope": [r"type_", r"property_", r"T1", r"gen_lean", r"gen_harness", r"manager", r"T2 failed", r"values"],
        "runners": [{"args": ["c12"], "timeout": 1200}],
        "exhaustive": {"quick": False, "thorough": False},
        "rule": "exhaustive: every (type, property) pair x {plain key with an IRI, plain key with a 2-element list, Map key} decoded by the real code and located (typed accessor / unknown); "
                "every (property, kind) pair over 63 type kinds + 14 literal/IRI/odd probes located by Is*/GetType; plus sampled literal lexical forms "
                "(durations incl. negative/date-only/large, dateTimes over years 1..9999, zones, month ends, fractions, counts, booleans) compared with the denotation; "
                "non-trivial = the ontology gives the type that property / some declared kind accepts the probe / well-formed literal in range; distinct by input hash",
        "trusted_base": STREAMS_TB + ["time.Parse/RFC 3339, float64->int conversion and regexp are re-implemented in Lean (AV/Streams/Literal.lean) and compared each run, not verified"],
        "assumptions": ["element acceptance by nested types needs only the `type` member (nested property deserializers never fail); validated by the exhaustive (property, kind) run"],
    },
    "C09": {
        "level": "proof",
        "lean_modules": ["AV.Props.C09"],
        "support_modules": ["AV.Core.Prog", "AV.Spec.Monitors", "AV.Lemmas.LockRules", "AV.Lemmas.LockOps", "AV.Lemmas.LockProofs",
                            "AV.Pub.Val", "AV.Pub.Calls", "AV.Pub.Util", "AV.Pub.SideEffect", "AV.Pub.FedCallbacks", "AV.Pub.SocialCallbacks", "AV.Pub.BaseActor"],
        "theorems": [
            "AV.Props.C09.clean_of_ok", "AV.Props.C09.postOutbox", "AV.Props.C09.send", "AV.Props.C09.getInbox", "AV.Props.C09.getOutbox",
            "AV.Props.C09.handler", "AV.Props.C09.postInbox_sideEffects", "AV.Props.C09.postInbox_partial", "AV.Props.C09.inboxForwarding_partial",
            "AV.Props.C09.inboxForwarding_full_fails", "AV.Props.C09.not_full",
        ],
        "translator_scope": [r"gen_lean", r"T2 failed"],
        "runners": [{"args": ["pub-C09", "400", "14", "inbox,outbox,send,get"], "timeout": 1500}],
        "exhaustive": {"quick": False, "thorough": False},
        "rule": "generated scenarios over every default side-effect path of both protocols (15 inbox activity types, 14 outbox value kinds via POST and Send, GET inbox/outbox/handler) with random addressing, ownership, callback configurations; "
                "for each scenario the fault-free run and runs with one fallible call failing (quick: up to 14 fault positions per scenario spread over the run, thorough: every position); "
                "every recorded trace is replayed call-for-call against the Lean model and checked by the lock monitor; non-trivial = the request takes at least one lock; distinct by scenario hash",
        "trusted_base": ["hand transcription of pub into AV/Pub/*.lean, tied to the code by call-for-call trace replay on every run",
                         "Go fakes (harness/fake.go) snapshot values at call time; pointer aliasing between application and library is outside the model"],
        "assumptions": ["the application's Lock/Unlock/Database answers are arbitrary (quantified over all environments in the theorems)",
                        "panicking runs are excluded from the 'nothing held at return' clause (crashes are C11's subject)"],
    },
    "C07": {
        "level": "proof",
        "lean_modules": ["AV.Props.C07"],
        "support_modules": ["AV.Core.Prog", "AV.Spec.Monitors", "AV.Lemmas.GateProofs", "AV.Pub.BaseActor", "AV.Pub.SideEffect", "AV.Pub.Util"],
        "theorems": [
            "AV.Props.C07.clean_of_gt", "AV.Props.C07.postOutbox", "AV.Props.C07.getOutbox", "AV.Props.C07.getInbox",
            "AV.Props.C07.gt_authorize", "AV.Props.C07.postInbox", "AV.Props.C07.handler",
            "AV.Props.C07.notAP_postInbox", "AV.Props.C07.notAP_postOutbox", "AV.Props.C07.notAP_getInbox", "AV.Props.C07.notAP_getOutbox",
            "AV.Props.C07.notAP_handler", "AV.Props.C07.disabled_postInbox", "AV.Props.C07.disabled_postOutbox",
        ],
        "translator_scope": [r"gen_lean", r"T2 failed"],
        "runners": [{"args": ["pub-C07", "1500", "6", "gate,gate,gate,inbox,outbox,get"], "thorough_args": [], "timeout": 1500}],
        "exhaustive": {"quick": False, "thorough": False},
        "rule": "random draws from the product {PostInbox, PostOutbox, GetInbox, GetOutbox, handler} x protocol configuration x authentication {ok, denied, error} x block {no, yes, error} x HTTP method x "
                "ActivityPub / non-ActivityPub header variants x body {valid activity of each handled type, bare object, unknown type, non-JSON, JSON array}, plus side-effect scenarios with single faults; "
                "each trace is replayed against the model and run through the gate monitor; non-trivial = conclusive replay; distinct by scenario hash",
        "trusted_base": ["hand transcription of pub/base_actor.go, handlers.go, side_effect_actor.go (tied by trace replay each run)", "the 9 accepted media types are re-derived in the model exactly as pub/util.go's init() builds them"],
        "assumptions": ["the request-body hooks are not side-effect callbacks in the sense of the statement (they run after authentication and before the block check)"],
    },
    "C10": {
        "level": "proof",
        "lean_modules": ["AV.Props.C10"],
        "support_modules": ["AV.Core.Prog", "AV.Spec.Monitors", "AV.Lemmas.LockRules", "AV.Lemmas.LockOps", "AV.Lemmas.LockProofs", "AV.Pub.BaseActor"],
        "theorems": [
            "AV.Props.C10.clean_of_oc", "AV.Props.C10.quiet_keeps", "AV.Props.C10.oc_respond", "AV.Props.C10.oc_authorize",
            "AV.Props.C10.getOutbox", "AV.Props.C10.getInbox", "AV.Props.C10.handler", "AV.Props.C10.postInbox", "AV.Props.C10.postOutbox",
        ],
        "translator_scope": [r"gen_lean", r"T2 failed"],
        "runners": [{"args": ["pub-C10", "960", "8", "gate,ids,inbox,outbox,get,missing"], "timeout": 1500}],
        "exhaustive": {"quick": False, "thorough": False},
        "rule": "C07's request product, bodies whose id is absent / null / empty / a number / an object / a relative reference / an absolute IRI, and side-effect scenarios with single faults; a counting ResponseWriter records every status, the header snapshot at WriteHeader and every body write "
                "(so 'nothing written' and an implicit 200 are told apart); each trace is replayed against the model and judged by the once-monitor and the status table; non-trivial = conclusive replay; distinct by scenario hash",
        "trusted_base": ["hand transcription (tied by trace replay each run)", "fake Authenticate hooks write their own 401 when they refuse, as the interface documentation demands"],
        "assumptions": ["an error returned because the body Write itself failed or was short is not counted as 'written and failed' (the status has necessarily gone out)"],
    },
    "C20": {
        "level": "proof",
        "lean_modules": ["AV.Props.C20"],
        "support_modules": ["AV.Spec.C20", "AV.Core.Sha256", "AV.Core.Time", "AV.Pub.Util", "AV.Pub.BaseActor"],
        "theorems": [
            "AV.Props.C20.firstOcc_sublist", "AV.Props.C20.firstOcc_nodup", "AV.Props.C20.firstOcc_complete",
            "AV.Props.C20.dedupeKey_eq", "AV.Props.C20.dedupeGo_eq", "AV.Props.C20.dedupe_spec", "AV.Props.C20.respond_headers",
            "AV.Props.C20.handler_status", "AV.Props.C20.sha256_abc", "AV.Props.C20.sha256_empty", "AV.Props.C20.base64_vectors",
        ],
        "translator_scope": [r"gen_lean", r"T2 failed"],
        "runners": [{"args": ["pub-C20", "1500", "4", "get"], "timeout": 1500}],
        "exhaustive": {"quick": False, "thorough": False},
        "rule": "random ordered-collection pages with 0..30 items (IRIs or embedded activities, duplicates anywhere) served by GetInbox/GetOutbox; handler values of ten types with bto/bcc at object depth 0..4, tombstones and missing values; clocks over years 1940..2100 and several zones; short body writes; single faults. "
                "Independent oracles recomputed in Lean from the recorded bytes and clock: SHA-256/base64 Digest, RFC 7231 Date, first-occurrence de-duplication, bto/bcc absence. non-trivial = a body was written; distinct by scenario hash",
        "trusted_base": ["Lean SHA-256/base64/IMF-date implementations (FIPS/RFC vectors proved by kernel evaluation; compared with Go's output on every case)", "hand transcription (trace replay)"],
        "assumptions": ["de-duplication theorem is for pages whose items all have a usable id (otherwise the code returns an error, which the replay also checks)"],
    },
    "C03": {
        "level": "proof",
        "lean_modules": ["AV.Lemmas.HiddenProofs", "AV.Props.C03"],
        "support_modules": ["AV.Spec.C20", "AV.Lemmas.HiddenProofs", "AV.Lemmas.JsonLemmas", "AV.Lemmas.LockRules", "AV.Lemmas.LockOps", "AV.Lemmas.LockProofs", "AV.Pub.Util", "AV.Pub.SideEffect", "AV.Pub.BaseActor"],
        "theorems": [
            "AV.noHidden_clear", "AV.strip_noHidden1", "AV.stripOne_clean",
            "AV.Props.C03.runTrace_payloads", "AV.Props.C03.clean_of_ok", "AV.Props.C03.accepts", "AV.Props.C03.postOutbox",
            "AV.Props.C03.send", "AV.Props.C03.inboxSideEffects", "AV.Props.C03.handler_body", "AV.Props.C03.handler",
        ],
        "translator_scope": [r"gen_lean", r"T2 failed"],
        "runners": [{"args": ["pub-C03", "1200", "4", "outbox,send,inbox,get,outbox,send"], "timeout": 1500}],
        "exhaustive": {"quick": False, "thorough": False},
        "rule": "outbox POSTs and Sends of bare objects and of all activity types with random mixtures of to/bto/cc/bcc/audience (IRIs and embedded actors) on the activity and on 1..3 embedded objects, Social-only / Federating-only / both; inbox Follows answered automatically; handler values with bto/bcc at object depth 0..4; single faults. "
                "Payload bytes and bodies are re-parsed and searched for bto/bcc members on the value and along its `object` property (a member named object on a type without that property is an uninterpreted extension member). non-trivial = something was delivered or served; distinct by scenario hash",
        "trusted_base": ["hand transcription (trace replay each run)", "fakes snapshot payload bytes at call time"],
        "assumptions": ["inbox forwarding re-sends a received activity unchanged and is not 'an activity that originated from this server's outbox'"],
    },
    "C05": {
        "level": "proof",
        "lean_modules": ["AV.Props.C05"],
        "support_modules": ["AV.Spec.Monitors", "AV.Lemmas.JsonLemmas", "AV.Lemmas.LockRules", "AV.Lemmas.LockOps", "AV.Lemmas.LockProofs", "AV.Pub.Util", "AV.Pub.SideEffect", "AV.Pub.SocialCallbacks", "AV.Pub.BaseActor"],
        "theorems": [
            "AV.Props.C05.stored_true_safe", "AV.Props.C05.nd_safe", "AV.Props.C05.addToOutbox_stored", "AV.Props.C05.postOutbox_stored",
            "AV.Props.C05.deliver_order", "AV.Props.C05.stored_trace_meaning", "AV.Props.C05.send_trace",
            "AV.Props.C05.postOutboxScheme_order", "AV.Props.C05.postOutbox_trace",
            "AV.Props.C05.items_prependId", "AV.Props.C05.outbox_history",
        ],
        "translator_scope": [r"gen_lean", r"T2 failed"],
        "runners": [{"args": ["pub-C05", "900", "6", "create,outbox,send,history,create"], "timeout": 1500}],
        "exhaustive": {"quick": False, "thorough": False},
        "rule": "bare Notes/Articles and Creates with 0..3 embedded Notes whose five addressing properties and attributedTo draw overlapping ids from a pool of 9 (IRIs and embedded actors), every other outbox activity type, through POST and Send, Social-only / Federating-only / both, default and application-replaced callbacks; histories of 1..8 posts to two outboxes with faults part-way; every scenario also with single faults at up to 6 (thorough: all) fallible calls. "
                "non-trivial = SetOutbox was reached; distinct by scenario hash",
        "trusted_base": ["hand transcription (trace replay each run)", "fake Database keeps the outbox page it was given"],
        "assumptions": ["the Database returns from GetOutbox what SetOutbox last stored (history theorem)"],
    },
    "C06": {
        "level": "proof",
        "lean_modules": ["AV.Lemmas.Frame", "AV.Props.C06"],
        "support_modules": ["AV.Spec.C06", "AV.Lemmas.Frame", "AV.Lemmas.LockRules", "AV.Pub.Util", "AV.Pub.SideEffect", "AV.Pub.FedCallbacks", "AV.Pub.BaseActor"],
        "theorems": [
            "AV.Props.C06.postInbox_blocked", "AV.Props.C06.authorize_blocked",
            "AV.Props.C06.mustHave_pure", "AV.Props.C06.mustHave_spec", "AV.Props.C06.fedUpdate_guard", "AV.Props.C06.fedDelete_guard",
            "AV.Props.C06.findMe_true", "AV.Props.C06.verifyTail_ret", "AV.Props.C06.acceptFollow_safe", "AV.Props.C06.fedAccept_safe",
            "AV.Props.C06.undoTail_ret", "AV.Props.C06.undoLoop_safe", "AV.Props.C06.fedUndo_safe",
            "AV.SafeP.frame",
        ],
        "translator_scope": [r"gen_lean", r"T2 failed"],
        "runners": [{"args": ["pub-C06", "1200", "4", "authority,authority,inbox,authority,gate"], "timeout": 1500}],
        "exhaustive": {"quick": False, "thorough": False},
        "rule": "inbox POSTs: Update/Delete whose activity id and 1..3 object ids (IRIs or embedded) draw hosts from {equal, other port, other case, sub-domain, other domain}; Accepts of a Follow given embedded / by IRI / of another actor / not a Follow, against a store where the Follow is present, absent (error or nil), of another type, has another actor, lacks the accepting actor, or has several actors/objects; Undos of 1..2 fetched activities whose actor sets are random subsets of a pool of 3 against 1..3 Undo actors; every handled type with 1..3 actors each IRI or embedded and a random blocked id; single faults. "
                "non-trivial = the block check was reached; distinct by scenario hash",
        "trusted_base": ["hand transcription (trace replay each run)", "the spec predicates (originSpec, storedFollowOk, undoOk, actorIdsOf) are the ones the theorems are stated with, evaluated by the driver on the real traces"],
        "assumptions": ["hosts are compared as Go's url.URL.Host strings (no case or port normalisation) — the property's 'same host' is read that way"],
    },
    "C02": {
        "level": "proof",
        "lean_modules": ["AV.Lemmas.Det", "AV.Props.C02"],
        "support_modules": ["AV.Spec.C02", "AV.Pub.Util", "AV.Pub.SideEffect"],
        "theorems": [
            "AV.run_det", "AV.runD_bind", "AV.runD_try",
            "AV.Props.C02.mem_filterPublic", "AV.Props.C02.dedupe_spec", "AV.Props.C02.deref_det", "AV.Props.C02.resolveActors_det",
        ],
        "translator_scope": [r"gen_lean", r"T2 failed"],
        "runners": [{"args": ["pub-C02", "1000", "5", "graph,graph,send,graph,outbox"], "timeout": 1500}],
        "exhaustive": {"quick": False, "thorough": False},
        "rule": "federation graphs of 3..7 remote actors (reachable / garbled / unknown type / unreachable, any subset with an application-stored inbox) and 1..4 collections, ordered collections and pages with 0..4 random members each (nested, cyclic, containing local actors), delivery depth 1..4; bare Notes, Likes, Announces addressed through the five properties from a pool that adds both Public spellings, the sender and a dead IRI, duplicates, IRIs and embedded actors; POST and Send; single faults. "
                "non-trivial = something was delivered; distinct by scenario hash",
        "trusted_base": ["hand transcription (trace replay each run)", "the oracle reads the federation graph off the implementation's own Dereference answers and evaluates AV.Spec.C02.reachActors (the function of the theorem) on it"],
        "assumptions": ["'Public is never dereferenced' is read for the addressed recipients; a Public IRI listed inside a fetched collection is fetched like any member"],
    },
    "C17": {
        "level": "proof",
        "lean_modules": ["AV.Lemmas.JsonLemmas", "AV.Props.C17"],
        "support_modules": ["AV.Spec.C17", "AV.Lemmas.Frame", "AV.Lemmas.JsonLemmas", "AV.Pub.Util", "AV.Pub.SideEffect"],
        "theorems": [
            "AV.Props.C17.frame_inv", "AV.Props.C17.hasIFV_Hv", "AV.Props.C17.colMembers_ret", "AV.Props.C17.recipLoop_ret",
            "AV.Props.C17.fwdLoad_safe", "AV.Props.C17.afterLoad_safe", "AV.Props.C17.inboxForwarding_safe", "AV.J.beq_refl",
        ],
        "translator_scope": [r"gen_lean", r"T2 failed"],
        "runners": [{"args": ["pub-C17", "900", "4", "forward,forward,inbox,forward"], "timeout": 1500}],
        "exhaustive": {"quick": False, "thorough": False},
        "rule": "activities whose to/cc/audience draw 1..3 values each from owned collections (ordered and unordered), a foreign collection, an owned non-collection, local and remote actors and Public; reply chains of 0..5 links through inReplyTo/tag/object/target, each link embedded or an IRI to fetch, the owned link at a random level or absent; forwarding depth 1..4; filter all / one collection / none; each activity delivered 1..3 times to one or two local inboxes, earlier deliveries with a fault part-way; plus the general inbox family; single faults on the last delivery. "
                "non-trivial = the forwarding stage was reached; distinct by scenario hash",
        "trusted_base": ["hand transcription (trace replay each run)", "the oracle decides 'an owned value is reachable within the depth' with AV.Spec.C17.ownsValueSpec on the scenario's own ownership table and documents"],
        "assumptions": [],
    },
    "C11": {
        "level": "proof",
        "lean_modules": ["AV.Lemmas.Panic", "AV.Lemmas.IdLemmas", "AV.Lemmas.PanicProofs", "AV.Props.C11"],
        "support_modules": ["AV.Pub.Val", "AV.Pub.Util", "AV.Pub.SideEffect", "AV.Pub.FedCallbacks", "AV.Pub.SocialCallbacks", "AV.Pub.BaseActor", "AV.Streams.Literal", "AV.Streams.Decode"],
        "theorems": [
            "AV.PanicsIn.sound", "AV.getId_hasScheme", "AV.idsOf_nonnil",
            "AV.Pub.hasInboxForwardingValues.pnG", "AV.Pub.resolveActors.pnG", "AV.Pub.inboxForwarding.pn", "AV.Pub.fedCb.pn",
            "AV.Props.C11.postInbox_panics", "AV.Props.C11.postOutbox_panics", "AV.Props.C11.getInbox_panics", "AV.Props.C11.getOutbox_panics",
            "AV.Props.C11.handler_panics", "AV.Props.C11.send_panics", "AV.Props.C11.handler_never_panics",
            "AV.Props.C11.duration_total", "AV.Props.C11.no_literal_panics",
        ],
        "translator_scope": [r"gen_lean", r"T2 failed"],
        "runners": [{"args": ["c11-decode", "25"], "timeout": 900},
                    {"args": ["pub-C11", "1500", "2", "hostile,hostile,hostile,get,hostile,getsocial"], "timeout": 1500}],
        "exhaustive": {"quick": False, "thorough": False},
        "rule": "decoder: every example embedded in the four vocabulary files, unmutated and with 25 (thorough: all) single mutations — each member at each depth removed, nulled, emptied or replaced by a value of another kind (17 kinds) — plus every property of the vocabulary given 17 hostile literals (scalar and in an array), plus random byte strings over a JSON-ish alphabet; through streams.ToType and Serialize under recover and a watchdog. handlers: scenarios of every family (inbox, outbox, Send, forwarding, authority, delivery graph, Create, GET) with one or two such mutations applied to the request body, to a document the Transport returns or to a value the Database returns; every Actor method, Send and the handler under recover and a 10 s watchdog; single faults. non-trivial = decoded or rejected / replay conclusive",
        "trusted_base": ["hand transcription (trace replay each run): a panic of the real code must be a panic of the model at a listed site", "recover()/watchdog in the harness"],
        "assumptions": ["an application that returns a nil value or nil URL with a nil error breaks its interface contract; panics that need it are not counted as hostile input (DESIGN 5/C11 lists the 26 sites and their class)"],
    },
}
