"""Per-property configuration of ./check (what to build, what to run)."""

STREAMS_TB = [
    "Go compiler/runtime, encoding/json, net/url, time (modelled, not verified)",
]

PROPS = {
    "C13": {
        "level": "proof",
        "lean_modules": ["AV.GenProps.C13", "AV.Props.C13"],
        "support_modules": ["AV.Streams.Closure", "AV.Spec.C13"],
        "theorems": [
            "AV.GenProps.c13_table", "AV.GenProps.names_nodup",
            "AV.Props.C13.extends_iff", "AV.Props.C13.extendedBy_iff", "AV.Props.C13.extends_converse",
            "AV.Props.C13.isOrExtends_iff", "AV.Props.C13.disjoint_iff", "AV.Props.C13.disjoint_symm",
            "AV.Props.C13.disjoint_irrefl",
            "AV.Props.C13.shipped_extends", "AV.Props.C13.shipped_extendedBy", "AV.Props.C13.shipped_isOrExtends",
            "AV.Props.C13.shipped_disjoint", "AV.Props.C13.shipped_converse", "AV.Props.C13.shipped_disjoint_symm",
            "AV.Props.C13.shipped_disjoint_irrefl",
        ],
        "translator_scope": [r"type_", r"T1", r"gen_lean", r"gen_harness", r"gen_pkg", r"predicate", r"IsOrExtends", r"IsExtending"],
        "runners": [{"args": ["c13"], "timeout": 600}],
        "exhaustive": {"quick": True, "thorough": True},
        "rule": "all 63x63 ordered type pairs x {Extends, IsExtendedBy, IsOrExtends, IsDisjointWith, IsExtending} on real values; "
                "non-trivial = pair related by ancestry, disjointness or identity; distinct by input hash",
        "trusted_base": STREAMS_TB,
        "assumptions": ["type names identify types (names_nodup is proved on the regenerated table)"],
    },
}
