"""Per-property configuration of ./check (what to build, what to run)."""

STREAMS_TB = [
    "Go compiler/runtime, encoding/json, net/url, time (modelled, not verified)",
]

PROPS = {
    "C13": {
        "level": "proof",
        "lean_modules": ["AV.GenProps.C13", "AV.Props.C13"],
        "support_modules": ["AV.Streams.Closure", "AV.Spec.C13"],
        "theorems": [
            "AV.GenProps.c13_table", "AV.GenProps.names_nodup",
            "AV.Props.C13.extends_iff", "AV.Props.C13.extendedBy_iff", "AV.Props.C13.extends_converse",
            "AV.Props.C13.isOrExtends_iff", "AV.Props.C13.disjoint_iff", "AV.Props.C13.disjoint_symm",
            "AV.Props.C13.disjoint_irrefl",
            "AV.Props.C13.shipped_extends", "AV.Props.C13.shipped_extendedBy", "AV.Props.C13.shipped_isOrExtends",
            "AV.Props.C13.shipped_disjoint", "AV.Props.C13.shipped_converse", "AV.Props.C13.shipped_disjoint_symm",
            "AV.Props.C13.shipped_disjoint_irrefl",
        ],
        "translator_scope": [r"type_", r"T1", r"gen_lean", r"gen_harness", r"gen_pkg", r"predicate", r"IsOrExtends", r"IsExtending"],
        "runners": [{"args": ["c13"], "timeout": 600}],
        "exhaustive": {"quick": True, "thorough": True},
        "rule": "all 63x63 ordered type pairs x {Extends, IsExtendedBy, IsOrExtends, IsDisjointWith, IsExtending} on real values; "
                "non-trivial = pair related by ancestry, disjointness or identity; distinct by input hash",
        "trusted_base": STREAMS_TB,
        "assumptions": ["type names identify types (names_nodup is proved on the regenerated table)"],
    },
    "C14": {
        "level": "proof",
        "lean_modules": ["AV.GenProps.C14", "AV.Props.C14"],
        "support_modules": ["AV.Streams.Resolver", "AV.Spec.C14"],
        "theorems": [
            "AV.GenProps.c14_table",
            "AV.Props.C14.spec_first", "AV.Props.C14.spec_none", "AV.Props.C14.typeResolve_eq_spec",
            "AV.Props.C14.typeResolve_unknown", "AV.Props.C14.predApply_eq", "AV.Props.C14.jsonHandle_first",
            "AV.Props.C14.unmatched_errors", "AV.Props.C14.shipped_diag", "AV.Props.C14.shipped_typeResolver",
            "AV.Props.C14.shipped_predResolver",
        ],
        "translator_scope": [r"resolver", r"Resolver", r"constructor", r"IsUnmatchedErr", r"ToType", r"gen_lean", r"gen_harness", r"manager", r"T2 failed"],
        "runners": [{"args": ["c14"], "timeout": 900}],
        "exhaustive": {"quick": False, "thorough": False},
        "rule": "exhaustive (value type x callback type) for TypeResolver, TypePredicatedResolver (63x63 each) and JSONResolver (63x63 documents), "
                "plus random callback lists 0..8 with duplicates / mixed vocabularies / callbacks returning nil, an application error or an unmatched error, "
                "multi-valued and unknown 'type', alias contexts, predicates passing/failing/erroring, and 34 wrong-shaped constructor arguments; "
                "non-trivial = some callback is written for the value's own type; distinct by input hash",
        "trusted_base": STREAMS_TB,
        "assumptions": ["Go interface satisfaction: a value implements exactly its own type's vocab interface (the LessThan method pins it); validated by the exhaustive run"],
    },
}
