"""C15: astool is deterministic, reproduces the shipped code, and compiles extensions.
Called from check.py (`./check C15`).  Everything is rebuilt from /repo's working tree; scratch trees live under
/var/tmp and are removed before returning."""
import filecmp, hashlib, json, os, shutil, subprocess, sys, tempfile

ROOT = os.path.dirname(os.path.abspath(__file__))
REPO = os.environ.get("VERIF_REPO", "/repo")
SPECS = ["activitystreams.jsonld", "security-v1.jsonld", "toot.jsonld", "forgefed.jsonld"]


def run(cmd, cwd=None, env=None, timeout=1800):
    p = subprocess.run(cmd, cwd=cwd, env=env, stdout=subprocess.PIPE, stderr=subprocess.STDOUT, text=True, timeout=timeout)
    return p.returncode, p.stdout


def tree_files(root):
    out = {}
    for d, _, fs in os.walk(root):
        for f in fs:
            p = os.path.join(d, f)
            out[os.path.relpath(p, root)] = hashlib.sha1(open(p, "rb").read()).hexdigest()
    return out


def check(tier, seed, goenv, log):
    """returns (cases, failures, notes); failures = list of dicts {what, detail, input}"""
    failures, cases, notes = [], 0, []
    scratch = tempfile.mkdtemp(prefix="av15.", dir="/var/tmp")
    try:
        tool = os.path.join(scratch, "astool")
        rc, out = run(["go", "build", "-o", tool, "."], cwd=os.path.join(REPO, "astool"), env=goenv)
        if rc != 0:
            return 1, [{"what": "astool does not build", "detail": out[-2000:], "input": None}], notes
        specs = []
        for s in SPECS:
            specs += ["-spec", os.path.join(REPO, "astool", s)]
        # (1) two runs in fresh processes: identical to each other and to the shipped tree
        runs = []
        for i in range(3 if tier == "thorough" else 2):
            d = os.path.join(scratch, "run%d" % i)
            os.makedirs(d)
            env = dict(goenv)
            rc, out = run([tool] + specs + ["-path", "github.com/go-fed/activity", "./streams"], cwd=d, env=env)
            cases += 1
            if rc != 0:
                failures.append({"what": "astool failed on the shipped vocabularies", "detail": out[-2000:], "input": {"run": i}})
                return cases, failures, notes
            runs.append(tree_files(os.path.join(d, "streams")))
        for i in range(1, len(runs)):
            if runs[i] != runs[0]:
                diff = sorted(k for k in set(runs[0]) | set(runs[i]) if runs[0].get(k) != runs[i].get(k))[:10]
                failures.append({"what": "two runs of astool on the same input differ", "detail": "files: %s" % diff, "input": {"runs": [0, i]}})
        shipped = tree_files(os.path.join(REPO, "streams"))
        gen = runs[0]
        differ = sorted(k for k in gen if shipped.get(k) != gen[k])
        missing = sorted(k for k in shipped if k not in gen and (os.path.basename(k).startswith("gen_")))
        cases += 1
        if differ or missing:
            failures.append({"what": "astool's output differs from the shipped streams package",
                             "detail": "differing/absent in /repo/streams: %s; generated files in /repo/streams that astool no longer writes: %s" % (differ[:10], missing[:10]),
                             "input": {"specs": SPECS}})
        notes.append("shipped tree: %d generated files compared" % len(gen))
        # (2) extension vocabularies
        n_ext = 4 if tier == "thorough" else 1
        t2 = os.path.join(ROOT, "bin", "t2")
        # random extensions, and as many directed ones (several parents, withheld properties reachable through another parent)
        for e in range(2 * n_ext):
            eseed = seed * 1000 + e // 2
            mode = ["random", "structured"][e % 2]
            d = os.path.join(scratch, "ext%d" % e)
            os.makedirs(os.path.join(d, "astool"))
            ext = os.path.join(d, "astool", "ext.jsonld")
            rc, out = run([sys.executable, os.path.join(ROOT, "translators/gen_extension.py"), str(eseed), ext, mode])
            ont = json.load(open(ext))
            for s in SPECS:
                shutil.copy(os.path.join(REPO, "astool", s), os.path.join(d, "astool", s))
            rc, out = run([tool] + specs + ["-spec", ext, "-path", "ext.example/gen", "./streams"], cwd=d, env=goenv)
            cases += 1
            if rc != 0:
                failures.append({"what": "astool rejects a well-formed extension vocabulary", "detail": out[-2500:], "input": {"extSeed": eseed, "mode": mode, "ontology": ont}})
                continue
            open(os.path.join(d, "go.mod"), "w").write("module ext.example/gen\n\ngo 1.16\n")
            rc, out = run(["go", "build", "./..."], cwd=d, env=goenv)
            cases += 1
            if rc != 0:
                failures.append({"what": "the code astool emits for an extension vocabulary does not compile", "detail": out[-2500:], "input": {"extSeed": eseed, "mode": mode, "ontology": ont}})
                continue
            # the regenerated tables of the extended vocabulary must satisfy the same kernel-checked table theorems
            # (C12 landing order, C13 hierarchy predicates = closure of the ontology, C14 resolver dispatch)
            g = os.path.join(d, "gen")
            os.makedirs(g)
            rc1, out1 = run([sys.executable, os.path.join(ROOT, "translators/t1_ontology.py"), d, os.path.join(g, "ontology.json")], env=dict(os.environ, T1_EXTRA="ext.jsonld"))
            rc2, out2 = run([t2, d])
            if rc1 != 0 or rc2 != 0:
                failures.append({"what": "the translators cannot read the generated extension tree (its shape differs from the shipped templates)",
                                 "detail": (out1 + out2)[-2500:], "input": {"extSeed": eseed, "mode": mode, "ontology": ont}})
                continue
            open(os.path.join(g, "impl.json"), "w").write(out2)
            errs = json.loads(out2).get("errors", [])
            if errs:
                failures.append({"what": "generated extension code departs from the template shapes", "detail": "; ".join(errs[:5]), "input": {"extSeed": eseed, "mode": mode, "ontology": ont}})
                continue
            rc, out = run([sys.executable, os.path.join(ROOT, "translators/gen_lean.py"), g, os.path.join(ROOT, "lean")])
            rc, out = run(["lake", "build", "AV.GenProps.C12", "AV.GenProps.C13", "AV.GenProps.C14"], cwd=os.path.join(ROOT, "lean"))
            cases += 1
            if rc != 0:
                errl = [l for l in out.splitlines() if "error" in l][:6]
                # which rows of the tables fail?  (diagnosis only: the verdict is the kernel's)
                diag = os.path.join(scratch, "diag.lean")
                open(diag, "w").write("import AV.Spec.C12\nimport AV.Gen.Impl\nimport AV.Gen.Ontology\nopen AV\n"
                                      "#eval (Gen.ontology.props.filter fun p => !c12PropB Gen.impl Gen.ontology p).map (·.name)\n"
                                      "#eval (Gen.ontology.types.filter fun t => !c12TypeB Gen.impl Gen.ontology t).map (·.name)\n")
                run(["lake", "build", "AV.Gen.Impl", "AV.Gen.Ontology", "AV.Spec.C12"], cwd=os.path.join(ROOT, "lean"))
                rcd, outd = run(["lake", "env", "lean", diag], cwd=os.path.join(ROOT, "lean"))
                known = None
                try:
                    lines = [l for l in outd.splitlines() if l.startswith("[")]
                    badp, badt = json.loads(lines[0]), json.loads(lines[1])
                    impl = {p["name"]: p for p in json.loads(out2)["props"]}
                    onto = {p["name"]: p for p in json.load(open(os.path.join(g, "ontology.json")))["props"]}
                    only12 = all(("error" not in l) or ("C12" in l) or ("build failed" in l) or ("Lean exited" in l) for l in out.splitlines())
                    if badp and not badt and only12 and all("rdf:langString" in onto[n]["range"] and not impl[n]["natLang"] for n in badp):
                        known = "C15-natlang-order"
                except Exception:
                    known = None
                failures.append({"what": "the table theorems (C12/C13/C14) fail on the tables regenerated from the extension's code" +
                                         (": natural-language property generated without its language map" if known else ""),
                                 "detail": "\n".join(errl) + "\n" + outd[-600:], "input": {"extSeed": eseed, "mode": mode, "ontology": ont}, "known": known})
            notes.append("extension %d (%s): %d members, compiled, table theorems %s" % (eseed, mode, len(ont["members"]), "hold" if rc == 0 else "FAIL"))
        return cases, failures, notes
    finally:
        shutil.rmtree(scratch, ignore_errors=True)
        # put the shipped vocabulary's tables back
        run(["sh", os.path.join(ROOT, "regen.sh")])
