#!/bin/sh
# usage: seedtest.sh <patch.diff> <Cxx> [tier]  — apply a seeded change to /repo, run the check, undo it.
set -u
P="$1"; C="$2"; T="${3:-quick}"
git -C /repo apply "$P" || { echo "seedtest: patch does not apply"; exit 2; }
./check "$C" --tier "$T" > work/seed.$$.log 2>&1; rc=$?
git -C /repo checkout -- . && git -C /repo clean -fdq -- pub streams astool >/dev/null 2>&1
./regen.sh >/dev/null 2>&1
grep -E 'VIOLATION|KNOWN-FINDING|\[check\]' work/seed.$$.log | head -8
echo "rc=$rc"; rm -f work/seed.$$.log
