HOOK_COMMITS = []

PENDING = "check not built yet in this session (work in progress; see DESIGN.md section 5 for the planned model and theorems)"

META = {
    "C13": {
        "category": "proof",
        "design_ref": "DESIGN.md section 5 / C13",
        "technique": "Lean 4 theorems over tables regenerated from the generated Go (T2) and the ontology (T1): closure = TransGen (generic), table condition by kernel evaluation (decide +kernel); exhaustive 63x63x5 behavioural cross-check of T2",
        "text": "For every ordered pair of shipped types the four generated predicate families equal the transitive closure / ancestor-disjointness of the ontology: proved generically for any table passing a decidable condition, and the condition is kernel-evaluated on the tables re-extracted from /repo on every run. The extraction itself is validated exhaustively against the running code.",
        "note": "Trusted: Lean kernel (propext, Quot.sound), T1 json reader, T2 go/ast extractor (validated exhaustively against behaviour each run), harness. Predicates compare type names only; name uniqueness is a proved table fact.",
    },
}

META["C14"] = {
    "category": "proof",
    "design_ref": "DESIGN.md section 5 / C14",
    "technique": "Lean 4: resolver if-chains extracted from generated Go (T2), diagonal-chain condition by kernel evaluation, generic theorem 'diagonal chain => resolver = first callback written for the value's own type'; exhaustive 3x63x63 + random behavioural correspondence",
    "text": "The three generated resolvers are modelled as interpreters of the if-chains re-extracted from /repo on every run; for any chain that is diagonal (decidable, kernel-checked on the regenerated data for all 63 types) the TypeResolver/TypePredicatedResolver provably invoke exactly the first callback whose parameter is the value's own interface and otherwise return an unmatched error; the JSON resolver's selection is proved first-match. Constructors accept exactly the 63 legal signatures (table fact). The model is run against the real resolvers on ~15k cases per run, with a chain-independent spec monitor on the implementation's own behaviour.",
    "note": "Trusted: Lean kernel, T2 extractor (regex over go/printer output of the resolver bodies; any unrecognised arm is an error), harness. Interface satisfaction in Go is assumed to be by own type only and is validated exhaustively.",
}

META["C12"] = {
    "category": "proof",
    "design_ref": "DESIGN.md section 5 / C12",
    "technique": "Lean 4: per-type property sets and per-property kind sets extracted from generated Go (T2) proved equal to the ontology's domain/inheritance/withheld and range/descendant reading (T1) via a kernel-evaluated table condition + generic lifting theorems; exhaustive (type,property) and (property,kind) behavioural probes; Lean re-implementation of the literal codecs compared with typed accessors",
    "text": "Every generated type has exactly the properties the ontology gives it (domain through ancestors, minus withheld, plus id/type), every property exactly the declared kinds (ranged types with all descendants, declared literals, always an IRI), functional/natural-language flags as declared, and the skip list that separates known from unknown members is exactly the property names: proved for any tables passing a decidable condition which the kernel evaluates on the tables re-extracted from /repo each run. The literal accessors' values are compared with an independent denotation (365-day years, 30-day months; civil-date algorithm) on sampled lexical forms - that part is correspondence, not proof.",
    "note": "Trusted: Lean kernel, T1/T2, harness reflection over the public accessors. Literal denotation: Lean re-implementation validated against Go's time/regexp behaviour by sampling only.",
}

META["C09"] = {
    "category": "proof",
    "design_ref": "DESIGN.md section 5 / C09",
    "technique": "Lean 4: pub transcribed as free-monad programs over the application-interface alphabet; lock discipline as a trace monitor; Hoare-style judgement Lk proved sound once and discharged per function by a rule-applying tactic, for all inputs and all environments (= every fault pattern); negation of the full statement for inbox forwarding proved on a kernel-evaluated witness; model tied to the Go code by call-for-call trace replay incl. single-fault runs",
    "text": "For every request, configuration and EVERY sequence of answers of the application (so: the fault-free run, each single fault, any combination) the transcribed handlers keep the lock monitor alive and return with nothing held: full discipline (incl. no re-lock while held) for PostOutbox, Send, GetInbox, GetOutbox, the GET handler and the inbox side effects; for the inbox POST including inbox forwarding the balance/no-stray-unlock/access-under-lock part, while the re-lock clause is proved FALSE there with a concrete witness (recorded finding C09-fwd-relock; three other lock defects were repaired by fix: commits). Each run replays thousands of real traces (fault-free and single-fault) against the model and runs the same monitor on the implementation's own traces.",
    "note": "Trusted: Lean kernel (propext, Quot.sound, Classical.choice where simp uses it), the hand transcription (validated by replay each run), the Go fakes and driver. Panics are tolerated by this judgement (C11). Go-level aliasing and the scheduler are outside.",
}

META["C07"] = {
    "category": "proof",
    "design_ref": "DESIGN.md section 5 / C07",
    "technique": "Lean 4: gate monitor over the call trace (effect calls forbidden until authentication=yes and, for inbox POSTs, blocked=no); theorem 'an open gate accepts every program' by induction on programs + a walk of each entry point's prefix, for all requests, configurations and environments; program equalities for non-ActivityPub requests and disabled protocols; trace-replay correspondence over the request product",
    "text": "For every request, configuration and every behaviour of the application, the five entry points make no Database/Transport/side-effect-callback call before the checks have passed (PostInbox additionally not before Blocked answered no); a non-ActivityPub request IS the program 'return not-handled' (no call, no write) and a disabled protocol's whole trace is the single status 405. Proved on the transcription; the transcription is replayed against ~5k real traces per run and the same monitor is applied to the implementation's traces.",
    "note": "Trusted: Lean kernel, transcription (validated by replay), fakes. 'Consulting the application' = any call across the application interfaces.",
}

META["C10"] = {
    "category": "proof",
    "design_ref": "DESIGN.md section 5 / C10",
    "technique": "Lean 4: write-discipline monitor (at most one status, headers before it, body after it) with the three end states as postcondition; the side-effect code is shown never to touch the response by re-using the lock-discipline proofs in 'quiet' mode (bridge lemma), then each entry point's skeleton is walked; for all requests and environments; status table checked on replayed real traces",
    "text": "For every request and every behaviour of the application each of the five entry points ends not-handled with nothing written, or with an error and nothing written by the library (except when the body write itself failed), or handled with exactly one status (none by the library when the application's Authenticate hook refused): proved. That all inbox/outbox side effects, delivery and forwarding make no ResponseWriter call is a corollary of the C09 proofs re-checked under a monitor that forbids writes. The documented status per branch (405/400/403/200/410/201+Location) is checked on every replayed trace by an independent monitor; one defect found there (unusable id answered 200) was repaired by a fix: commit.",
    "note": "Trusted: Lean kernel, transcription (validated by replay), counting writer. The status table is correspondence-level (monitor + model agreement), the exactly-once discipline is proof-level.",
}

META["C20"] = {
    "category": "proof",
    "design_ref": "DESIGN.md section 5 / C20",
    "technique": "Lean 4: first-occurrence de-duplication spec with sublist/no-duplicate/completeness theorems and a proof that the transcribed remove-loop computes it; header-discipline monitor proved for the GET tail; SHA-256/base64/IMF-date oracles written in Lean (FIPS and RFC vectors by kernel evaluation) applied to the bytes the real handlers wrote; trace replay",
    "text": "De-duplication is proved for lists of any length: the transcription of dedupeOrderedItems returns exactly the first occurrence of every id in the original order (subsequence, ids pairwise distinct, every id kept). Headers are set before the status with the constant Content-Type and a Date computed from the application's clock (proved for the GET tail). On every run the Digest, Date, body faithfulness (GetOutbox: identical; GetInbox: first occurrences; handler: only bto/bcc removed, at every object depth), 410 for Tombstones and ErrNotFound-without-writes are re-computed by independent Lean oracles from what the real code wrote.",
    "note": "Trusted: Lean kernel; crypto/sha256, encoding/base64 and time.Format are modelled by independent Lean implementations and compared byte-for-byte, not verified; transcription validated by replay.",
}

META["C03"] = {
    "category": "proof",
    "design_ref": "DESIGN.md section 5 / C03",
    "technique": "Lean 4: stripHiddenRecipients and clearSensitiveFields proved (structural / mutual induction over JSON, any depth) to leave no bto/bcc; every BatchDeliver payload of the outbox paths and of the automatic Accept/Reject proved to be a stripped activity by re-running the compositional lock-discipline proofs with a payload predicate; body monitor proved for the GET handler; trace replay + raw-JSON payload monitor on the real code",
    "text": "For every activity, configuration and environment, each payload the transcribed PostOutbox / Send / inbox side effects hand to the transport satisfies 'no bto/bcc on the activity nor on a typed value embedded in object', and every body the GET handler writes satisfies the same at every depth of object nesting: proved. The proofs cover all addressing mixtures and wrapping/normalisation paths because they quantify over the input. On each run real payload bytes and bodies are re-parsed and searched for bto/bcc.",
    "note": "Trusted: Lean kernel, transcription (replay-validated), the assumption that an element is 'a typed value' iff its type name is known to the vocabulary (validated by the C12 probes). 'Hidden recipients still receive the delivery' is checked under C02.",
}

META["C05"] = {
    "category": "proof",
    "design_ref": "DESIGN.md section 5 / C05 and section 9.5",
    "technique": "Lean 4: the full order monitor (BatchDeliver only after a successful SetOutbox AND with no failed persistence / id / callback step before it) proved for Send and outbox POST against every application: a fail-fast judgement Ff (a value is returned only if no such step failed; nothing stored or delivered) discharged for every function of the pre-store phase by a rule-applying tactic, a delivery-phase judgement Fd for prepare/resolveActors/deliver, the monitor's trace-level meaning, and the outbox history theorem by induction; trace replay of the real code + the same monitor on real traces + set-level oracles for wrap / fresh ids / Create normalisation / store / outbox page / Location",
    "text": "Proved for all inputs, configurations and application answers (so: every single fault and every combination): on every run of the transcribed Send and PostOutbox, every BatchDeliver event is preceded by a SetOutbox that succeeded, and every Database / id / callback step made before the outbox was updated - and the update itself - succeeded (send_failfast_trace, postOutbox_failfast_trace); any number of accepted posts leave the outbox page listing their ids newest first in front of the old items (given a Database that returns what it stored). The wrapping clause is a theorem too (wrapInCreate_spec: type Create, actor = the outbox's owner, object = the value, published and the ids of each of the five addressing properties copied, absent where the value has none), and so is the fresh-id clause (addNewIDs_spec: the activity carries the id NewID generated for it, and each embedded object of a Create the one generated for it). Of the Create normalisation, two per-phase lemmas are proved: whenever phases 1+2 return for an object, each of its five addressing properties has become its own elements followed by exactly the activity's ids it lacked and every other member is untouched (normObject_spec), and phase 3 leaves each of the activity's addressing properties as its former elements followed by the objects' ids it lacked (normPhase3_spec); their composition into one statement about normalizeRecipients (phase 0's id maps, the loop over all objects), the attribution unions, 'objects stored' and Location are decided per run by an independent set-level monitor over the real code's traces and by call-for-call agreement with the model; they are not theorems.",
    "note": "Trusted: Lean kernel, transcription (replay-validated, fault-free and single-fault), fakes. A failing Unlock is ignored by the library and hence by the monitor. Value-level clauses: per-run oracle only.",
}

META["C06"] = {
    "category": "proof",
    "design_ref": "DESIGN.md section 5 / C06",
    "technique": "Lean 4: four monitor/judgement theorems over the transcribed inbox path, for every request, configuration and application answer — (1) nothing is read/written/fetched/called before Blocked is asked and it is asked about exactly ToId of every actor; (2) the origin check is call-free and passes only same-host activities, a failing one makes Update/Delete do nothing, and a passing one lets Update write only the activity's own embedded objects and Delete remove only the ids of its objects, creating nothing (fedUpdate_writes, fedDelete_writes); (3) the Accept handler updates a collection only after Get returned a Follow with this actor among its actors and every accepting actor among its objects; (4) the Undo callback is reached only after every undone activity was fetched and its actors found among the Undo's. The same predicates and monitors are run by the driver over the real code's traces (trace replay).",
    "text": "Proved for all inputs and environments on the model; the correspondence harness replays the real code call-for-call against the model on host/actor/Follow-graph variants and runs the very monitors the theorems are about over the implementation's own traces.",
    "note": "Trusted: Lean kernel, transcription (replay-validated). 'no stored object changes otherwise' is proved in the form 'no Update/Delete/Create call is made' for the origin check and 'no Update call' for Accept; F3 (Blocked was asked about the activity id for embedded actors) was a genuine defect, repaired in the repository (fix: commit) and recorded in known_findings.json.",
}

META["C02"] = {
    "category": "proof",
    "design_ref": "DESIGN.md section 5 / C02 and section 9.5",
    "technique": "Lean 4: the whole of prepare refined to a declarative statement recipientsSpec (stored inbox of every addressed non-Public id that has one; inboxes of the actor documents reachable from the others within d levels of a fixed federation graph; first occurrences only; not the sender's inbox) for every activity, graph, stored-inbox table and depth, against a fault-free application that answers as that graph and table (prepare_det); the recursive expansion (resolveActors: fuel, accumulators, error catching) by induction on fuel and on the recipient list; dedupeIRIs returns each non-ignored recipient exactly once; Public filter lemma. Trace replay of the real code + an oracle that evaluates recipientsSpec on the scenario's ground truth and compares the BatchDeliver recipient set; no fetch outside the depth cone.",
    "text": "Proved on the model for all inputs: run against an application that answers every Dereference as a fixed federation graph, every InboxForActor from a fixed table and holds the sender's actor document, prepare returns exactly recipientsSpec - unreachable / garbled / unknown documents skipped without failing, nothing beyond the depth limit used, Public filtered before any lookup, no duplicates, never the sender's own inbox. The hand-over itself (one BatchDeliver with the stripped payload and that list) is deliverS2S's definition. Order of recipients: as the spec for activities whose recipients are not merged through Go maps; compared as a set per run. Faulty applications (a failing lock or store lookup) end the delivery: C09/C05's theorems.",
    "note": "Trusted: Lean kernel, transcription (replay-validated), fakes. F2 (delivery failed when the last recipient was unreachable) was a genuine defect, repaired (fix: commit).",
}

META["C17"] = {
    "category": "proof",
    "design_ref": "DESIGN.md section 5 / C17 and section 9.5",
    "technique": "Lean 4: (1) a trace monitor for InboxForwarding (recorded once and only if new; filter consulted about exactly the loaded collections and only after recording, loading an owned collection and an Owns-yes of the value search; payload = the received activity; recipients = members of the collections the filter kept; at most one BatchDeliver) proved to accept every run of the transcribed function for every application - induction over the recursion fuel of the depth-limited search, over the load loop with its deferred unlocks, and over the recipient loop; (2) the owned-value search refined to the declarative ownsValueSpec (some inReplyTo/object/target/tag value within d levels of the federation graph is owned) whenever it returns, by induction on fuel; (3) with the owned collections loaded, the activity is handed to the transport exactly when the search returns true (calls of the deterministic run). The same monitor and the same ownsValueSpec run over the real code's traces and the scenarios' ground truth.",
    "text": "Only-if direction, once-ness, unchanged payload and exact recipients: proved for all inputs and all answers of the application (fwdMon). If direction: against an application without lock/transport faults that answers Owns from a table and Dereference from a fixed graph, the search returns ownsValueSpec (hasIFV_det) and, given the loaded owned collections, BatchDeliver is called iff the search succeeds (afterLoad_delivers). The whole function, as one statement (inboxForwarding_iff_spec): against such an application, InboxForwarding hands the activity to the transport iff Exists said no (and the Create that records it succeeded), some to/cc/audience id is owned and stored as a Collection/OrderedCollection, and ownsValueSpec holds at the configured depth; an activity seen before is never handed over. Not a theorem: 'a repeated delivery is never forwarded again' as a statement across deliveries (it follows from the seen-before half given a Database whose Exists reflects earlier Creates) - oracle + replay on multi-delivery scenarios.",
    "note": "Known finding C17-member-ids (recipients are member ids, not inboxes) is printed as KNOWN-FINDING. Trusted: Lean kernel, transcription (replay-validated), fakes.",
}

META["C11"] = {
    "category": "proof",
    "design_ref": "DESIGN.md section 5 / C11",
    "technique": "Lean 4: a 'panic sites' judgement (PanicsIn S p: whatever the request, stored values, fetched documents and other answers, p can panic only at a site in S) proved sound against the run semantics and established for all ~100 transcribed pub functions by a per-function lemma generated with a small elaborator (unfold + structural automation; induction for the fuel-bounded recursions, showing the fuel never runs out under positive limits); nil-freeness of ids read off values (after the GetId repair) removes the .String()-on-nil sites; the remaining 26 sites each need a nil value/URL from the application or are the recorded finding. Decoder: duration codec proved total. Trace replay + grammar-based hostile-input fuzzing of the real decoder and handlers under recover/watchdog.",
    "text": "For every entry point (PostInbox, PostOutbox, GetInbox, GetOutbox, handler, Send): a panic outcome of the model lies in an explicit 26-element site list, for all inputs and environments with positive recursion limits; none of the recursion-fuel sites is in the list (no hang). The decoder is covered by the regenerated tables (C12-C14) for structure and by fuzzing for crashes; only the duration codec is modelled at the byte level.",
    "note": "Six genuine crash defects were repaired in /repo (fix: commits, recorded). Known finding C11-getinbox-social-only. The classification of the 26 remaining sites as 'needs a contract-breaking application' is argued in DESIGN.md, not proved.",
}

META["C04"] = {
    "category": "proof",
    "design_ref": "DESIGN.md section 5 / C04 and section 9.5",
    "technique": "Lean 4: 'written only after Owns said yes' (monitor ownMon) proved for the Add, Remove, Like and Announce side effects over every application by a frame argument on the call alphabet plus loop induction; 'an other-callback replaces the default entirely' proved as 'the post-dispatch program makes the otherCb call and nothing else'; 'the wrapped callback runs only after the default effect succeeded, once, and last' proved for the default callback of every handled type (monitor cbOrderMon; judgement Fw discharged per function by a rule-applying tactic; trace-level meaning proved); trace replay of the real code, the same monitors over its traces, and value oracles for Follow (none/accept/reject), Accept, Like and Announce",
    "text": "Ownership, replacement and callback-order clauses: theorems for all inputs and all answers of the application (every fault pattern). Value level, also for every application: what Add / Remove / Like / Announce hand to Update is the value Get returned with exactly the object ids appended / the matching elements removed / the activity id prepended to likes or shares (addLoop_writes, removeLoop_writes, likeLoop_writes, bumpCollection_spec); what the automatic Accept of a Follow, an Accept of our Follow and a client's Like hand to Update is the collection Followers / Following / Liked returned with the ids put in front one by one (followUpdateFollowers_writes, acceptUpdateFollowing_writes, likedSection_writes); every value a federated Create hands to Database.Create is an embedded object of the activity or a document the transport returned before, and nothing is updated or deleted (fedCreate_writes). The remaining value-level clauses (what exactly is stored for Create/Update/Delete, the content of the automatic Accept/Reject) are decided per run by replay agreement and independent oracles over the real code's traces, not theorems.",
    "note": "Trusted: Lean kernel, transcription (replay-validated), fakes. In the callback-order monitor a failing Unlock and an unreachable document (Dereference) are not failures of the default effect: the library ignores the former and may skip the latter.",
}

META["C16"] = {
    "category": "proof",
    "design_ref": "DESIGN.md section 5 / C16 and section 9.5",
    "technique": "Lean 4: the Update merge proved member-wise (induction over the supplied and the raw member lists: null in the raw object => absent, else supplied, else stored); the Tombstone's id / type / formerType / deleted / published / updated proved; Block proved undeliverable whenever its default effect succeeds, against any application (deterministic-answer semantics); a missing object proved to refuse the request before any call; Add/Remove: ownership theorems of C04 plus a value-level monitor theorem (every collection handed to Update is the one Get returned with exactly the object ids appended / every element whose id is one of them removed) for every application. Trace replay + per-member oracles on the real Get/Update values.",
    "text": "Value theorems hold for all stored/supplied/raw objects; the Add/Remove value theorems (addLoop_writes, removeLoop_writes) and the ownership theorems for every sequence of answers of the application. Like's front insertion into the liked collection is oracle-checked per run.",
    "note": "F9 (nulls were read from the activity's top level instead of the object) was a genuine defect, repaired (fix: commit). Trusted: Lean kernel, transcription (replay-validated).",
}

META["C18"] = {
    "category": "proof",
    "design_ref": "DESIGN.md section 5 / C18",
    "technique": "Lean 4: refinement of the generated container template (elements carrying their own index, Next/Prev navigating by it, re-index loops) to a plain list — per-operation simulation lemmas, the 'every element knows its index' invariant, forward/backward walk theorems by induction on fuel, lifted to arbitrary operation sequences by induction on the sequence; functional slot theorem. Tie: T2 regenerates, on every run, the normalised method-body hashes of all 103 generated properties and compares them with the transcribed template; reflection harness drives every property through random operation sequences against the model and the plain list.",
    "text": "For every operation sequence of any length: values, length, indexed access, forward and backward iteration equal the plain list's, and an out-of-range index fails exactly where the list operation is undefined. Proved once for the template; T2 shows every generated property instantiates that template.",
    "note": "F10 (Swap did not re-index the swapped elements, truncating iteration) was a genuine defect, repaired in generator and generated code (fix: commit). 'Each element reports exactly the kind last stored' is checked by the harness per kind (the model is kind-agnostic: a value is kind+payload).",
}

META["C19"] = {
    "category": "proof",
    "design_ref": "DESIGN.md section 5 / C19",
    "technique": "Lean 4: the transport's decision logic as pure functions with iff-theorems (body only for 200; success only for 200/201/202; batch error iff some attempt failed, naming each failure once, every recipient judged) and the header set of the request handed to the signer; correspondence harness with a recording signer, real RSA httpsig signers verified on the received request, and a scripted HTTP client, comparing signer arguments, received requests and return values with the model",
    "text": "partial: the theorems cover the bookkeeping and the request contents for all payloads, recipient lists and response scripts. 'Handed to the signer after the headers are set and not altered afterwards', 'exactly once per recipient' and signature verification are established per run on the real code's recorded calls. Freedom from data races and the interleaving of the batch goroutines are runtime behaviour no executable Lean model exhibits; the thorough tier runs concurrent batches under the Go race detector.",
    "note": "level = partial for the race-freedom clause; the rest is proof + correspondence.",
}

META["C08"] = {
    "category": "proof",
    "design_ref": "DESIGN.md section 5 / C08",
    "technique": "Lean 4: an interleaving semantics for any number of threads of lock-guarded read/modify/write sections at Database-call granularity (Lock blocks while held; read, write and unlock are separate schedulable steps); a lock-table/thread invariant ('who has read a collection under its lock still sees the stored value') preserved by every step; progress (no deadlock) ; by induction over arbitrary schedules: no update lost, nothing else stored, conditional additions leave no duplicate, same members as sequential execution. Correspondence: real goroutines of the real Actor under a cooperative random scheduler vs. sequential execution.",
    "text": "Unbounded in threads, sections and schedules on the model. The step from pub's code to the section shape is C09's lock-discipline theorem plus this run-time differential check; exhaustive enumeration of interleavings up to a preemption bound is not implemented (random schedules only).",
    "note": "Multiplicity of unconditional additions is checked at run time (sorted lists compared), not proved. Runtime data races are the race detector's business (thorough tier).",
}

META["C15"] = {
    "category": "translation_validation",
    "design_ref": "DESIGN.md section 5 / C15",
    "technique": "regeneration + Lean 4: astool is rebuilt and re-run on every check; its output is compared byte for byte across fresh runs and with the shipped package; for sampled extension vocabularies the emitted code is compiled, re-read by the translators, and the kernel-checked (decide +kernel) table theorems of C12/C13/C14 are re-proved on the regenerated tables",
    "text": "Not a theorem about astool: no executable model of the generator exists here, so 'for any well-formed extension' is decided per sampled extension (each sample's tables are proved, not tested, to satisfy C12/C13/C14). Determinism and reproduction of the shipped tree are decided by execution and comparison.",
    "note": "The universally quantified clause over all extensions is out of reach of this technique without modelling the generator; said so in DESIGN.md. C01 for extensions is not covered.",
}

_ALL = ["C%02d" % i for i in range(1, 21)]

META["C01"] = {
    "category": "proof",
    "design_ref": "DESIGN.md section 5 / C01 and section 9.5",
    "technique": "Lean 4: the decode/encode round trip as a total function computed from the regenerated tables (T1/T2: types, serialised properties, element plans, natural-language spellings, typeless types); whole-value exactness theorem for an executable canonical-form predicate (induction on nesting depth; extensionality of key-sorted member lists) under three decidable table conditions the kernel evaluates on the regenerated data; model = implementation and 'canonB => output = input' checked on ~13.5k generated documents per run with a model-independent oracle for the remaining clauses",
    "text": "Proved, for every document of any nesting depth and size: if the document is canonical (canonB: key-sorted members, each known property absent / a single non-null value / an array of n != 1 values / one language map under the Map spelling, never both spellings, nested typed values canonical, unknown members arbitrary) then decode->encode returns exactly that document (rt_canonical, rtDoc_canonical: but for @context members of child maps, which the serialiser always deletes); unknown members are carried through unchanged for ANY value, canonical or not (unknown_kept); what each property re-serialises to is what the output carries (known_kept). The three table conditions (skip list = spellings of the serialised properties, both directions; spellings pairwise distinct) are re-evaluated by the kernel on the tables regenerated from /repo each run, and the theorem is instantiated on them (c01_rt_canonical). Per run the driver evaluates canonB on every generated document and requires the implementation's output to equal the input where it holds (98% of the documents). NOT a theorem: second-round-trip stability for non-canonical documents and the computed top-level @context - decided per run by the oracle. A value carrying both spellings of a natural-language member loses one (recorded finding C01-both-spellings; excluded by canonB).",
    "note": "Trusted: Lean kernel (propext, Quot.sound, Classical.choice), T1/T2 extraction (validated by C12's exhaustive probes), the harness; literal and IRI re-serialisation is taken as the identity on the lexical forms the generator emits (C12 codecs; checked per run by model = implementation); @context aliases are not modelled. Stability and @context clauses: per-run oracle only.",
}

NOT_APPLICABLE = [{"property_id": p, "reason": PENDING} for p in _ALL if p not in META]
