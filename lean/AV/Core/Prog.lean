import AV.Core.Json
/-
Layer P core: `pub` request handlers as programs over the application boundary.

Every observable effect of `pub` is a call across one of the application
interfaces (Database, Transport, CommonBehavior, SocialProtocol,
FederatingProtocol, Clock, wrapped/other callbacks) or a write to the
ResponseWriter.  `Prog α` is the free monad over that call alphabet, with Go's
hazards explicit (`panic`).  An environment answers each call; `run` produces
the trace.  Properties are trace monitors (`Mon`), and `Safe M s p Q` is the
Hoare-style judgement "under every environment, p's trace keeps monitor M alive
from state s and ends in a state/outcome satisfying Q" — proved sound once.
-/
namespace AV

inductive Err where
  | objectRequired | targetRequired | notFound
  | injected            -- an error returned by the application (fault injection)
  | lib                 -- an error value created by the library (fmt.Errorf / streams errors)
  deriving DecidableEq, Repr, Inhabited

abbrev E (α : Type) := Except Err α

/-- IRIs as `String()`; a nil `*url.URL` is the distinguished "<nil>" -/
abbrev Iri := String
def nilIri : Iri := "<nil>"

/-- a dereferenced document as the library sees it: bytes → json.Unmarshal → streams.ToType -/
inductive Doc where
  | badJson                       -- json.Unmarshal into a map fails
  | undecodable (unmatched : Bool) -- ToType fails (unmatched error or another one)
  | val (j : J)
  deriving Inhabited

/-- what `FederatingCallbacks` / `SocialCallbacks` hand back -/
structure CbConfig where
  wrapped  : List String     -- type names T whose wrapped.<T> callback is non-nil
  onFollow : Nat             -- 0 do nothing, 1 auto-accept, 2 auto-reject, ≥3 invalid
  other    : List String     -- `other`: type name per legal callback; anything else (e.g. "~") is not a legal callback
  deriving Inhabited, Repr

inductive Call where
  -- pub.Database
  | lock (k : Iri) | unlock (k : Iri)
  | inboxContains (inbox id : Iri) | getInbox (inbox : Iri) | setInbox (v : J)
  | owns (id : Iri) | actorForOutbox (o : Iri) | actorForInbox (i : Iri) | outboxForInbox (i : Iri)
  | inboxForActor (a : Iri) | exists_ (id : Iri) | get (id : Iri)
  | create (v : J) | update (v : J) | delete (id : Iri)
  | getOutbox (o : Iri) | setOutbox (v : J) | newID (v : J)
  | followers (a : Iri) | following (a : Iri) | liked (a : Iri)
  -- CommonBehavior / Transport
  | newTransport (box : Iri) | deref (u : Iri) | batchDeliver (payload : J) (rcpts : List Iri)
  | authGetInbox | authGetOutbox | appGetOutbox
  -- FederatingProtocol
  | authPostInbox | appGetInbox | hookInbox (a : J) | blocked (ids : List Iri)
  | fedCallbacks | fedDefault (a : J) | maxFwdDepth | maxDeliveryDepth
  | filterForwarding (cols : List Iri) (a : J)
  -- SocialProtocol
  | authPostOutbox | hookOutbox (v : J) | socialCallbacks | socialDefault (a : J)
  -- application callbacks: wrapped.<T> (fed = federating side) and other[idx]
  | appCb (fed : Bool) (ty : String) (a : J) | otherCb (fed : Bool) (idx : Nat) (a : J)
  -- Clock, ResponseWriter
  | now | writeHeader (code : Nat) | setHeader (k v : String) | writeBody (body : J)
  deriving Inhabited

def Call.Resp : Call → Type
  | .lock _ | .unlock _ | .setInbox _ | .create _ | .update _ | .delete _ | .setOutbox _ => E Unit
  | .inboxContains _ _ | .owns _ | .exists_ _ => E Bool
  | .getInbox _ | .getOutbox _ | .followers _ | .following _ | .liked _ | .appGetInbox | .appGetOutbox => E J
  | .get _ => E (Option J)
  | .actorForOutbox _ | .actorForInbox _ | .outboxForInbox _ | .newID _ => E Iri
  | .inboxForActor _ => E (Option Iri)
  | .newTransport _ | .batchDeliver _ _ => E Unit
  | .deref _ => E Doc
  | .authGetInbox | .authGetOutbox | .authPostInbox | .authPostOutbox => E Bool
  | .hookInbox _ | .hookOutbox _ => E Unit
  | .blocked _ => E Bool
  | .fedCallbacks | .socialCallbacks => E CbConfig
  | .fedDefault _ | .socialDefault _ | .appCb _ _ _ | .otherCb _ _ _ => E Unit
  | .maxFwdDepth | .maxDeliveryDepth => Int
  | .filterForwarding _ _ => E (List Iri)
  | .now => Int × Int                  -- unix seconds, zone offset in minutes
  | .writeHeader _ | .setHeader _ _ => Unit
  | .writeBody _ => E Bool             -- all bytes written (n == len(raw))

inductive Prog (α : Type) where
  | ret (a : α)
  | fail (e : Err)
  | panic (site : String)
  | call (c : Call) (k : c.Resp → Prog α)

inductive Outcome (α : Type) where
  | ret (a : α) | fail (e : Err) | panic (site : String)
  deriving Inhabited

namespace Prog

def bind : Prog α → (α → Prog β) → Prog β
  | ret a, f => f a
  | fail e, _ => fail e
  | panic s, _ => panic s
  | call c k, f => call c (fun r => bind (k r) f)

instance : Monad Prog where
  pure := ret
  bind := bind

@[simp] theorem bind_ret (a : α) (f : α → Prog β) : (ret a >>= f) = f a := rfl
@[simp] theorem bind_fail (e : Err) (f : α → Prog β) : (fail e >>= f) = fail e := rfl
@[simp] theorem bind_panic (s : String) (f : α → Prog β) : (panic s >>= f) = panic s := rfl
@[simp] theorem bind_call (c : Call) (k : c.Resp → Prog α) (f : α → Prog β) :
    (call c k >>= f) = call c (fun r => k r >>= f) := rfl
@[simp] theorem pure_eq (a : α) : (pure a : Prog α) = ret a := rfl

/-- Go's `defer q` around `p`: `q` runs after `p` whether it returned a value or an error
(also on panic in Go; a panic is already a violation wherever it matters, so it just propagates). -/
def finally_ (p : Prog α) (q : Prog Unit) : Prog α :=
  match p with
  | ret a => q.bind fun _ => ret a
  | fail e => q.bind fun _ => fail e
  | panic s => panic s
  | call c k => call c (fun r => finally_ (k r) q)

/-- run `p`, turning an error result into a value (Go: `if err != nil { … }` handled by the caller) -/
def try_ (p : Prog α) : Prog (E α) :=
  match p with
  | ret a => ret (.ok a)
  | fail e => ret (.error e)
  | panic s => panic s
  | call c k => call c (fun r => try_ (k r))

/-- `for _, x := range xs { if err := f(x); err != nil { return err } }` -/
def forM_ (xs : List β) (f : β → Prog Unit) : Prog Unit :=
  match xs with
  | [] => ret ()
  | x :: rest => (f x).bind fun _ => forM_ rest f

/-- fold with early exit on error -/
def foldM_ (xs : List β) (init : σ) (f : σ → β → Prog σ) : Prog σ :=
  match xs with
  | [] => ret init
  | x :: rest => (f init x).bind fun s => foldM_ rest s f

end Prog

/-! ### Environments, traces, running -/

/-- one trace event: a call and the answer it got -/
structure Ev where
  call : Call
  resp : call.Resp

/-- an environment answers the n-th call -/
abbrev Env := (n : Nat) → (c : Call) → c.Resp

def run (p : Prog α) (env : Env) (n : Nat := 0) : List Ev × Outcome α :=
  match p with
  | .ret a => ([], .ret a)
  | .fail e => ([], .fail e)
  | .panic s => ([], .panic s)
  | .call c k =>
    let r := env n c
    let (tr, o) := run (k r) env (n + 1)
    (⟨c, r⟩ :: tr, o)

/-! ### Monitors and the safety judgement -/

/-- a trace monitor: a state machine over events; `none` = the property is violated -/
structure Mon where
  S : Type
  step : S → (c : Call) → c.Resp → Option S

def Mon.runTrace (M : Mon) : M.S → List Ev → Option M.S
  | s, [] => some s
  | s, ev :: rest =>
    match M.step s ev.call ev.resp with
    | none => none
    | some s' => M.runTrace s' rest

/-- `Safe M s p Q`: whatever the environment answers, `p` never makes the monitor fail, never panics,
and ends with monitor state and outcome satisfying `Q` (`none` = returned an error). -/
def Safe (M : Mon) : M.S → Prog α → (M.S → Option α → Prop) → Prop
  | s, .ret a, Q => Q s (some a)
  | s, .fail _, Q => Q s none
  | _, .panic _, _ => False
  | s, .call c k, Q => ∀ r, match M.step s c r with
      | none => False
      | some s' => Safe M s' (k r) Q

/-- like `Safe` but panics are tolerated (for properties that are not about crashes) -/
def SafeP (M : Mon) : M.S → Prog α → (M.S → Option α → Prop) → Prop
  | s, .ret a, Q => Q s (some a)
  | s, .fail _, Q => Q s none
  | _, .panic _, _ => True
  | s, .call c k, Q => ∀ r, match M.step s c r with
      | none => False
      | some s' => SafeP M s' (k r) Q

def Outcome.toOpt : Outcome α → Option α
  | .ret a => some a
  | _ => none

def Outcome.isPanic : Outcome α → Bool
  | .panic _ => true
  | _ => false

/-- **Soundness**: a `Safe` program, run against any environment from any call index, yields a trace
the monitor accepts, does not panic, and the final monitor state/outcome satisfy the postcondition. -/
theorem Safe.sound {M : Mon} {p : Prog α} {Q : M.S → Option α → Prop} {s : M.S}
    (h : Safe M s p Q) (env : Env) (n : Nat) :
    ∃ s', M.runTrace s (run p env n).1 = some s' ∧ (run p env n).2.isPanic = false ∧
      Q s' (run p env n).2.toOpt := by
  induction p generalizing s n with
  | ret a => exact ⟨s, rfl, rfl, h⟩
  | fail e => exact ⟨s, rfl, rfl, h⟩
  | panic site => exact absurd h (by simp [Safe])
  | call c k ih =>
    have hr := h (env n c)
    revert hr
    cases hs' : M.step s c (env n c) with
    | none => intro hr; exact hr.elim
    | some s' =>
      intro hr
      obtain ⟨s'', h1, h2, h3⟩ := ih (env n c) hr (n + 1)
      refine ⟨s'', ?_, h2, h3⟩
      show (match M.step s c (env n c) with
        | none => none
        | some s' => M.runTrace s' (run (k (env n c)) env (n + 1)).1) = some s''
      rw [hs']; exact h1

theorem SafeP.sound {M : Mon} {p : Prog α} {Q : M.S → Option α → Prop} {s : M.S}
    (h : SafeP M s p Q) (env : Env) (n : Nat) :
    ∃ s', M.runTrace s (run p env n).1 = some s' ∧
      ((run p env n).2.isPanic = false → Q s' (run p env n).2.toOpt) := by
  induction p generalizing s n with
  | ret a => exact ⟨s, rfl, fun _ => h⟩
  | fail e => exact ⟨s, rfl, fun _ => h⟩
  | panic site => exact ⟨s, rfl, fun hp => by simp [run, Outcome.isPanic] at hp⟩
  | call c k ih =>
    have hr := h (env n c)
    revert hr
    cases hs' : M.step s c (env n c) with
    | none => intro hr; exact hr.elim
    | some s' =>
      intro hr
      obtain ⟨s'', h1, h2⟩ := ih (env n c) hr (n + 1)
      refine ⟨s'', ?_, h2⟩
      show (match M.step s c (env n c) with
        | none => none
        | some s' => M.runTrace s' (run (k (env n c)) env (n + 1)).1) = some s''
      rw [hs']; exact h1

/-! ### Rules -/

theorem Safe.mono {M : Mon} {p : Prog α} {Q Q' : M.S → Option α → Prop} {s : M.S}
    (h : Safe M s p Q) (hq : ∀ s o, Q s o → Q' s o) : Safe M s p Q' := by
  induction p generalizing s with
  | ret a => exact hq _ _ h
  | fail e => exact hq _ _ h
  | panic site => exact h
  | call c k ih =>
    intro r
    have hr := h r
    revert hr
    cases M.step s c r with
    | none => intro hr; exact hr.elim
    | some s' => intro hr; exact ih r hr

/-- sequencing: the postcondition of `p` is the precondition of the continuation -/
theorem Safe.bind {M : Mon} {p : Prog α} {f : α → Prog β} {Q : M.S → Option β → Prop} {s : M.S}
    (h : Safe M s p (fun s' o => match o with
      | some a => Safe M s' (f a) Q
      | none => Q s' none)) : Safe M s (p >>= f) Q := by
  induction p generalizing s with
  | ret a => exact h
  | fail e => exact h
  | panic site => exact h
  | call c k ih =>
    intro r
    have hr := h r
    revert hr
    cases M.step s c r with
    | none => intro hr; exact hr.elim
    | some s' => intro hr; exact ih r hr

theorem SafeP.mono {M : Mon} {p : Prog α} {Q Q' : M.S → Option α → Prop} {s : M.S}
    (h : SafeP M s p Q) (hq : ∀ s o, Q s o → Q' s o) : SafeP M s p Q' := by
  induction p generalizing s with
  | ret a => exact hq _ _ h
  | fail e => exact hq _ _ h
  | panic site => trivial
  | call c k ih =>
    intro r
    have hr := h r
    revert hr
    cases M.step s c r with
    | none => intro hr; exact hr.elim
    | some s' => intro hr; exact ih r hr

theorem SafeP.bind {M : Mon} {p : Prog α} {f : α → Prog β} {Q : M.S → Option β → Prop} {s : M.S}
    (h : SafeP M s p (fun s' o => match o with
      | some a => SafeP M s' (f a) Q
      | none => Q s' none)) : SafeP M s (p >>= f) Q := by
  induction p generalizing s with
  | ret a => exact h
  | fail e => exact h
  | panic site => trivial
  | call c k ih =>
    intro r
    have hr := h r
    revert hr
    cases M.step s c r with
    | none => intro hr; exact hr.elim
    | some s' => intro hr; exact ih r hr

theorem Safe.toSafeP {M : Mon} {p : Prog α} {Q : M.S → Option α → Prop} {s : M.S}
    (h : Safe M s p Q) : SafeP M s p Q := by
  induction p generalizing s with
  | ret a => exact h
  | fail e => exact h
  | panic site => trivial
  | call c k ih =>
    intro r
    have hr := h r
    revert hr
    cases M.step s c r with
    | none => intro hr; exact hr.elim
    | some s' => intro hr; exact ih r hr

end AV
