/-
Civil-date arithmetic for the two time layouts `pub` writes: the RFC 7231
IMF-fixdate of the `Date` header and RFC 3339 (`time.RFC3339`) of serialised
dateTime values.  `time.Format` itself is modelled, not verified.
-/
namespace AV.Time

/-- (year, month, day) of a day count since 1970-01-01 (Hinnant's civil_from_days) -/
def civilOfDays (z : Int) : Int × Nat × Nat :=
  let z := z + 719468
  let era : Int := (if z ≥ 0 then z else z - 146096) / 146097
  let doe : Int := z - era * 146097
  let yoe : Int := (doe - doe / 1460 + doe / 36524 - doe / 146096) / 365
  let y : Int := yoe + era * 400
  let doy : Int := doe - (365 * yoe + yoe / 4 - yoe / 100)
  let mp : Int := (5 * doy + 2) / 153
  let d : Int := doy - (153 * mp + 2) / 5 + 1
  let m : Int := if mp < 10 then mp + 3 else mp - 9
  (if m ≤ 2 then y + 1 else y, m.toNat, d.toNat)

def pad2 (n : Nat) : String := if n < 10 then "0" ++ toString n else toString n
def pad4 (n : Int) : String :=
  let s := toString n.toNat
  String.ofList (List.replicate (4 - s.length) '0') ++ s

def dayNames : List String := ["Thu", "Fri", "Sat", "Sun", "Mon", "Tue", "Wed"]   -- 1970-01-01 was a Thursday
def monthNames : List String := ["Jan", "Feb", "Mar", "Apr", "May", "Jun", "Jul", "Aug", "Sep", "Oct", "Nov", "Dec"]

structure Civil where
  y : Int
  mo : Nat
  d : Nat
  h : Nat
  mi : Nat
  s : Nat
  wd : Nat
  deriving Repr, DecidableEq

/-- break a unix time (shifted by `offMin` minutes) into civil fields -/
def civil (unix : Int) (offMin : Int := 0) : Civil :=
  let t := unix + offMin * 60
  let days := t.fdiv 86400
  let secs := (t.fmod 86400).toNat
  let (y, mo, d) := civilOfDays days
  { y := y, mo := mo, d := d, h := secs / 3600, mi := secs % 3600 / 60, s := secs % 60, wd := (days.fmod 7).toNat }

/-- `t.UTC().Format("Mon, 02 Jan 2006 15:04:05") + " GMT"` -/
def imfFixdate (unix : Int) : String :=
  let c := civil unix
  dayNames.getD c.wd "???" ++ ", " ++ pad2 c.d ++ " " ++ monthNames.getD (c.mo - 1) "???" ++ " " ++ pad4 c.y ++ " " ++
    pad2 c.h ++ ":" ++ pad2 c.mi ++ ":" ++ pad2 c.s ++ " GMT"

/-- `t.Format(time.RFC3339)` for a time with zone offset `offMin` (whole seconds) -/
def rfc3339 (unix : Int) (offMin : Int) : String :=
  let c := civil unix offMin
  let zone := if offMin == 0 then "Z" else
    (if offMin < 0 then "-" else "+") ++ pad2 (offMin.natAbs / 60) ++ ":" ++ pad2 (offMin.natAbs % 60)
  pad4 c.y ++ "-" ++ pad2 c.mo ++ "-" ++ pad2 c.d ++ "T" ++ pad2 c.h ++ ":" ++ pad2 c.mi ++ ":" ++ pad2 c.s ++ zone

end AV.Time
