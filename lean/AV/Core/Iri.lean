/-
What `pub`/`streams` observe of a `*url.URL`: whether `url.Parse` yields a
non-empty scheme, `String()` and `.Host`.  `net/url` itself is modelled, not
verified (DESIGN §4): `getScheme` follows the Go function of that name; for the
generated grammar `scheme://host[:port]/path[?q][#f]` `hostOf` is `.Host`.
-/
namespace AV.Iri

def isAlpha (c : Char) : Bool := ('a' ≤ c && c ≤ 'z') || ('A' ≤ c && c ≤ 'Z')
def isSchemeCont (c : Char) : Bool := ('0' ≤ c && c ≤ '9') || c == '+' || c == '-' || c == '.'

/-- Go's `getScheme`: `some scheme` (possibly empty = no scheme) or `none` on "missing protocol scheme" -/
def getSchemeGo : List Char → Nat → List Char → Option (List Char)
  | [], _, _ => some []
  | c :: cs, i, acc =>
    if isAlpha c then getSchemeGo cs (i + 1) (acc ++ [c])
    else if isSchemeCont c then (if i == 0 then some [] else getSchemeGo cs (i + 1) (acc ++ [c]))
    else if c == ':' then (if i == 0 then none else some acc)
    else some []

def hasCtl (s : List Char) : Bool := s.any fun c => c.toNat < 0x20 || c.toNat == 0x7f

/-- `url.Parse(s)` succeeds with `len(u.Scheme) > 0` (for inputs whose remainder is well-formed) -/
def hasScheme (s : String) : Bool :=
  let cs := s.toList
  !hasCtl cs &&
  match getSchemeGo cs 0 [] with
  | some (_ :: _) => true
  | _ => false

/-- `.Host` of `scheme://host[:port]/…` (empty when there is no authority) -/
def hostOf (s : String) : String :=
  let cs := s.toList
  let rec afterScheme : List Char → List Char
    | ':' :: '/' :: '/' :: r => r
    | _ :: r => afterScheme r
    | [] => []
  let auth := (afterScheme cs).takeWhile fun c => c != '/' && c != '?' && c != '#'
  -- drop userinfo
  let auth := if auth.contains '@' then (auth.dropWhile (· != '@')).drop 1 else auth
  String.ofList auth

end AV.Iri
