/-
SHA-256 (FIPS 180-4) and base64 (RFC 4648, with padding) over byte lists: the
independent oracle for the `Digest` response header (C20).  Validated against
the FIPS test vectors by kernel evaluation in AV/Props/C20.lean.
-/
namespace AV.Sha256

def K : Array UInt32 := #[
  0x428a2f98, 0x71374491, 0xb5c0fbcf, 0xe9b5dba5, 0x3956c25b, 0x59f111f1, 0x923f82a4, 0xab1c5ed5,
  0xd807aa98, 0x12835b01, 0x243185be, 0x550c7dc3, 0x72be5d74, 0x80deb1fe, 0x9bdc06a7, 0xc19bf174,
  0xe49b69c1, 0xefbe4786, 0x0fc19dc6, 0x240ca1cc, 0x2de92c6f, 0x4a7484aa, 0x5cb0a9dc, 0x76f988da,
  0x983e5152, 0xa831c66d, 0xb00327c8, 0xbf597fc7, 0xc6e00bf3, 0xd5a79147, 0x06ca6351, 0x14292967,
  0x27b70a85, 0x2e1b2138, 0x4d2c6dfc, 0x53380d13, 0x650a7354, 0x766a0abb, 0x81c2c92e, 0x92722c85,
  0xa2bfe8a1, 0xa81a664b, 0xc24b8b70, 0xc76c51a3, 0xd192e819, 0xd6990624, 0xf40e3585, 0x106aa070,
  0x19a4c116, 0x1e376c08, 0x2748774c, 0x34b0bcb5, 0x391c0cb3, 0x4ed8aa4a, 0x5b9cca4f, 0x682e6ff3,
  0x748f82ee, 0x78a5636f, 0x84c87814, 0x8cc70208, 0x90befffa, 0xa4506ceb, 0xbef9a3f7, 0xc67178f2]

def H0 : Array UInt32 := #[0x6a09e667, 0xbb67ae85, 0x3c6ef372, 0xa54ff53a, 0x510e527f, 0x9b05688c, 0x1f83d9ab, 0x5be0cd19]

def rotr (x : UInt32) (n : UInt32) : UInt32 := (x >>> n) ||| (x <<< (32 - n))

def pad (msg : List UInt8) : List UInt8 :=
  let l := msg.length
  let zeros := (55 + 64 - l % 64) % 64
  let bits : Nat := l * 8
  let tail : List UInt8 := (List.range 8).map fun i => UInt8.ofNat ((bits >>> (8 * (7 - i))) % 256)
  msg ++ [(0x80 : UInt8)] ++ List.replicate zeros (0 : UInt8) ++ tail

def word (b : Array UInt8) (i : Nat) : UInt32 :=
  (b.getD i 0).toUInt32 <<< 24 ||| (b.getD (i+1) 0).toUInt32 <<< 16 ||| (b.getD (i+2) 0).toUInt32 <<< 8 ||| (b.getD (i+3) 0).toUInt32

def schedule (block : Array UInt8) : Array UInt32 := Id.run do
  let mut w : Array UInt32 := Array.mkEmpty 64
  for i in [0:16] do
    w := w.push (word block (4 * i))
  for i in [16:64] do
    let w15 := w.getD (i - 15) 0
    let w2 := w.getD (i - 2) 0
    let s0 := rotr w15 7 ^^^ rotr w15 18 ^^^ (w15 >>> 3)
    let s1 := rotr w2 17 ^^^ rotr w2 19 ^^^ (w2 >>> 10)
    w := w.push (w.getD (i - 16) 0 + s0 + w.getD (i - 7) 0 + s1)
  return w

def compress (h : Array UInt32) (block : Array UInt8) : Array UInt32 := Id.run do
  let w := schedule block
  let mut a := h.getD 0 0; let mut b := h.getD 1 0; let mut c := h.getD 2 0; let mut d := h.getD 3 0
  let mut e := h.getD 4 0; let mut f := h.getD 5 0; let mut g := h.getD 6 0; let mut hh := h.getD 7 0
  for i in [0:64] do
    let s1 := rotr e 6 ^^^ rotr e 11 ^^^ rotr e 25
    let ch := (e &&& f) ^^^ ((~~~ e) &&& g)
    let t1 := hh + s1 + ch + K.getD i 0 + w.getD i 0
    let s0 := rotr a 2 ^^^ rotr a 13 ^^^ rotr a 22
    let maj := (a &&& b) ^^^ (a &&& c) ^^^ (b &&& c)
    let t2 := s0 + maj
    hh := g; g := f; f := e; e := d + t1; d := c; c := b; b := a; a := t1 + t2
  return #[h.getD 0 0 + a, h.getD 1 0 + b, h.getD 2 0 + c, h.getD 3 0 + d, h.getD 4 0 + e, h.getD 5 0 + f, h.getD 6 0 + g, h.getD 7 0 + hh]

def chunks (xs : List UInt8) : Nat → List (Array UInt8)
  | 0 => []
  | n + 1 => if xs.isEmpty then [] else (xs.take 64).toArray :: chunks (xs.drop 64) n

def sha256 (msg : List UInt8) : List UInt8 :=
  let p := pad msg
  let h := (chunks p (p.length / 64 + 1)).foldl compress H0
  h.toList.flatMap fun (w : UInt32) => [(w >>> 24).toUInt8, (w >>> 16).toUInt8, (w >>> 8).toUInt8, w.toUInt8]

def b64chars : Array Char := "ABCDEFGHIJKLMNOPQRSTUVWXYZabcdefghijklmnopqrstuvwxyz0123456789+/".toList.toArray

def base64 : List UInt8 → List Char
  | [] => []
  | [a] =>
    let n := a.toNat <<< 16
    [b64chars.getD (n >>> 18 % 64) 'A', b64chars.getD (n >>> 12 % 64) 'A', '=', '=']
  | [a, b] =>
    let n := a.toNat <<< 16 ||| b.toNat <<< 8
    [b64chars.getD (n >>> 18 % 64) 'A', b64chars.getD (n >>> 12 % 64) 'A', b64chars.getD (n >>> 6 % 64) 'A', '=']
  | a :: b :: c :: rest =>
    let n := a.toNat <<< 16 ||| b.toNat <<< 8 ||| c.toNat
    b64chars.getD (n >>> 18 % 64) 'A' :: b64chars.getD (n >>> 12 % 64) 'A' :: b64chars.getD (n >>> 6 % 64) 'A' ::
      b64chars.getD (n % 64) 'A' :: base64 rest

/-- the value of the `Digest` header for a body -/
def digestHeader (body : String) : String :=
  "SHA-256=" ++ String.ofList (base64 (sha256 body.toUTF8.toList))

def hex (bs : List UInt8) : String :=
  String.ofList (bs.flatMap fun b => [("0123456789abcdef".toList.getD (b.toNat / 16) '0'), ("0123456789abcdef".toList.getD (b.toNat % 16) '0')])

end AV.Sha256
