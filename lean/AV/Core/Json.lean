/-
JSON values as the Go side sees them after `json.Unmarshal` into
`map[string]interface{}`: objects are key→value maps (no duplicate keys, order
unobservable), numbers are decimal `m × 10^-e`.  Objects are kept as association
lists sorted by key (`J.norm` re-establishes that), so structural equality of
normal forms is JSON equality.
-/
namespace AV

inductive J where
  | null
  | bool (b : Bool)
  | num (m : Int) (e : Nat)
  | str (s : String)
  | arr (xs : List J)
  | obj (kvs : List (String × J))
  deriving Repr, Inhabited

namespace J

mutual
def beq : J → J → Bool
  | null, null => true
  | bool a, bool b => a == b
  | num m e, num m' e' => m == m' && e == e'
  | str a, str b => a == b
  | arr xs, arr ys => beqList xs ys
  | obj xs, obj ys => beqKvs xs ys
  | _, _ => false
def beqList : List J → List J → Bool
  | [], [] => true
  | x :: xs, y :: ys => beq x y && beqList xs ys
  | _, _ => false
def beqKvs : List (String × J) → List (String × J) → Bool
  | [], [] => true
  | (k, x) :: xs, (k', y) :: ys => k == k' && beq x y && beqKvs xs ys
  | _, _ => false
end

instance : BEq J := ⟨beq⟩

/-- insert into a key-sorted association list, replacing an existing binding -/
def insKv (k : String) (v : J) : List (String × J) → List (String × J)
  | [] => [(k, v)]
  | (k', v') :: rest =>
    if k == k' then (k, v) :: rest
    else if k < k' then (k, v) :: (k', v') :: rest
    else (k', v') :: insKv k v rest

def sortKvs (kvs : List (String × J)) : List (String × J) :=
  kvs.foldl (fun acc kv => insKv kv.1 kv.2 acc) []

mutual
/-- sort object keys at every level (last binding of a duplicate key wins, as in Go) -/
def norm : J → J
  | arr xs => arr (normList xs)
  | obj kvs => obj (sortKvs (normKvs kvs))
  | j => j
def normList : List J → List J
  | [] => []
  | x :: xs => norm x :: normList xs
def normKvs : List (String × J) → List (String × J)
  | [] => []
  | (k, v) :: rest => (k, norm v) :: normKvs rest
end

def get? (j : J) (k : String) : Option J :=
  match j with
  | obj kvs => (kvs.find? (·.1 == k)).map (·.2)
  | _ => none

def has (j : J) (k : String) : Bool := (j.get? k).isSome

/-- set member `k` (object stays key-sorted if it was) -/
def set (j : J) (k : String) (v : J) : J :=
  match j with
  | obj kvs => obj (insKv k v kvs)
  | _ => j

def erase (j : J) (k : String) : J :=
  match j with
  | obj kvs => obj (kvs.filter (·.1 != k))
  | _ => j

def keys (j : J) : List String :=
  match j with
  | obj kvs => kvs.map (·.1)
  | _ => []

def members (j : J) : List (String × J) :=
  match j with
  | obj kvs => kvs
  | _ => []

def isObj : J → Bool
  | obj _ => true
  | _ => false

def str? : J → Option String
  | str s => some s
  | _ => none

def ofNat (n : Nat) : J := num (Int.ofNat n) 0

end J
end AV
