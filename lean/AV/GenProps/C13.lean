import AV.Spec.C13
import AV.Gen.Ontology
import AV.Gen.Impl
namespace AV.GenProps
/-- The shipped generated tables satisfy the C13 table condition w.r.t. the
shipped ontology files (kernel evaluation over all 63 types; re-checked whenever
either side is regenerated). -/
theorem c13_table : c13TableB Gen.impl Gen.ontology = true := by decide +kernel

theorem names_nodup : Gen.impl.names.Nodup := by decide +kernel
end AV.GenProps
