import AV.Spec.C12
import AV.Gen.Impl
import AV.Gen.Ontology
namespace AV.GenProps
theorem c12_table : c12TableB Gen.impl Gen.ontology = true := by decide +kernel
end AV.GenProps
