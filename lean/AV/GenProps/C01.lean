import AV.Props.C01Exact
import AV.Gen.Impl
namespace AV.GenProps
theorem c01_keys : AV.Props.C01.rtKeysB Gen.impl = true := by decide +kernel
theorem c01_nodup : AV.Props.C01.keysNodupB Gen.impl = true := by decide +kernel

theorem c01_exact : AV.Props.C01.knownExactB Gen.impl = true := by decide +kernel

/-- **C01 (exactness) on the shipped vocabularies**: every canonical document of any nesting depth is reproduced
exactly by decode → encode -/
theorem c01_rt_canonical (n : Nat) (k : String) (j : J) (h : AV.RoundTrip.canonB Gen.impl n k j = true) :
    AV.RoundTrip.rt Gen.impl n k j = j ∧ AV.RoundTrip.rtDoc Gen.impl n k j = AV.RoundTrip.cleanCtx n j :=
  ⟨AV.Props.C01.rt_canonical Gen.impl c01_keys c01_nodup c01_exact n k j h,
   AV.Props.C01.rtDoc_canonical Gen.impl c01_keys c01_nodup c01_exact n k j h⟩

/-- the hypothesis is satisfiable: a Note with a nested Person, a list, an unknown null member -/
def sampleDoc : J := .obj [
  ("attributedTo", .obj [("id", .str "https://a.example/u"), ("name", .str "u"), ("type", .str "Person")]),
  ("content", .str "hi"),
  ("id", .str "https://a.example/n"),
  ("to", .arr [.str "https://a.example/x", .str "https://a.example/y"]),
  ("type", .str "Note"),
  ("x:unknown", .null)]

theorem c01_sample_canonical : AV.RoundTrip.canonB Gen.impl 2 "Note" sampleDoc = true := by decide +kernel

end AV.GenProps
