import AV.Props.C01
import AV.Gen.Impl
namespace AV.GenProps
theorem c01_keys : AV.Props.C01.rtKeysB Gen.impl = true := by decide +kernel
theorem c01_nodup : AV.Props.C01.keysNodupB Gen.impl = true := by decide +kernel

end AV.GenProps
