import AV.Spec.C14
import AV.Gen.Impl
namespace AV.GenProps
theorem c14_table : c14TableB Gen.impl = true := by decide +kernel
end AV.GenProps
