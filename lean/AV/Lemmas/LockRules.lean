import AV.Spec.Monitors
import AV.Pub.BaseActor
/-
Rules for proving lock discipline (C09) compositionally.

`Lk re aw ad H p Hv He`: started holding `H`, under every environment `p` never makes the lock monitor fail, and
holds `Hv` when it returns a value, `He` when it returns an error.  (Panics are tolerated here; they are
C11's subject.)  `LockOK re aw ad H p := Lk re aw ad H p H H`.
-/
namespace AV
open Prog

def LkPost (Hv He : List Iri) : List Iri → Option α → Prop
  | h, some _ => h = Hv
  | h, none => h = He

def Lk (re aw : Bool) (ad : J → Bool) (H : List Iri) (p : Prog α) (Hv He : List Iri) : Prop := SafeP (lockMonG re aw ad) H p (LkPost Hv He)

abbrev LockOK (re aw : Bool) (ad : J → Bool) (H : List Iri) (p : Prog α) : Prop := Lk re aw ad H p H H

namespace Lk
variable {re aw : Bool} {ad : J → Bool}

theorem ret {H He : List Iri} (a : α) : Lk re aw ad H (Prog.ret a) H He := rfl
theorem pure' {H He : List Iri} (a : α) : Lk re aw ad H (pure a : Prog α) H He := rfl
theorem fail {H Hv : List Iri} (e : Err) : Lk re aw ad H (Prog.fail e : Prog α) Hv H := rfl
theorem panic {H Hv He : List Iri} (s : String) : Lk re aw ad H (Prog.panic s : Prog α) Hv He := trivial

theorem bind {H H1 Hv He : List Iri} {p : Prog α} {f : α → Prog β}
    (hp : Lk re aw ad H p H1 He) (hf : ∀ a, Lk re aw ad H1 (f a) Hv He) : Lk re aw ad H (p >>= f) Hv He := by
  apply SafeP.bind
  apply SafeP.mono hp
  intro s o hs
  cases o with
  | none => exact hs
  | some a => simp only [LkPost] at hs; subst hs; exact hf a

theorem bind' {H H1 Hv He : List Iri} {p : Prog α} {f : α → Prog β}
    (hp : Lk re aw ad H p H1 He) (hf : ∀ a, Lk re aw ad H1 (f a) Hv He) : Lk re aw ad H (Prog.bind p f) Hv He := bind hp hf

/-- generic call rule: each answer leads to a held set from which the continuation is fine -/
theorem call {H Hv He : List Iri} (c : Call) (k : c.Resp → Prog α)
    (h : ∀ r, ∃ H', (lockMonG re aw ad).step H c r = some H' ∧ Lk re aw ad H' (k r) Hv He) : Lk re aw ad H (.call c k) Hv He := by
  intro r
  obtain ⟨H', h1, h2⟩ := h r
  simp only [h1]
  exact h2

/-! #### the operations -/

theorem lock {H He : List Iri} (k : Iri) (hk : re = true → k ∉ H) : Lk re aw ad H (Op.lock k) (k :: H) H := by
  apply call
  intro r
  cases r with
  | ok u => exact ⟨k :: H, by simp only [lockMonG]; cases re <;> cases aw <;> simp_all [respOk, Call.isWrite, Call.isAuth, Call.deliverBad], rfl⟩
  | error e => exact ⟨H, by simp only [lockMonG]; cases re <;> cases aw <;> simp_all [respOk, Call.isWrite, Call.isAuth, Call.deliverBad], rfl⟩

theorem unlock {H He : List Iri} (k : Iri) (hk : k ∈ H) : Lk re aw ad H (Op.unlock k) (removeFirst k H) He := by
  apply call
  intro r
  exact ⟨removeFirst k H, by cases aw <;> simp [lockMonG, hk, Call.isWrite, Call.isAuth, Call.deliverBad], rfl⟩

/-- a Database read/write under a lock -/
theorem dbE {H : List Iri} {α : Type} (c : Call) (hr : c.Resp = E α) (hdb : c.isDbAccess = true) (hne : H ≠ [])
    (hl : ∀ k, c ≠ .lock k) (hu : ∀ k, c ≠ .unlock k) :
    ∀ (kk : c.Resp → Prog α), (∀ r, Lk re aw ad H (kk r) H H) → Lk re aw ad H (.call c kk) H H := by
  intro kk hk
  apply call
  intro r
  refine ⟨H, ?_, hk r⟩
  cases aw <;> cases c <;> simp_all [lockMonG, Call.isDbAccess, Call.isWrite, Call.isAuth, Call.deliverBad]

end Lk
end AV

namespace AV
open Prog

theorem SafeP.finally_ {M : Mon} {p : Prog α} {q : Prog Unit} {Q : M.S → Option α → Prop} {s : M.S}
    (h : SafeP M s p (fun s' o => SafeP M s' q (fun s'' o' => match o' with
      | some _ => Q s'' o
      | none => Q s'' none))) : SafeP M s (Prog.finally_ p q) Q := by
  induction p generalizing s with
  | ret a =>
    show SafeP M s (q.bind fun _ => Prog.ret a) Q
    have h' : SafeP M s q (fun s'' o' => match o' with | some _ => Q s'' (some a) | none => Q s'' none) := h
    apply SafeP.bind (f := fun _ => Prog.ret a)
    apply SafeP.mono h'
    intro s' o' ho
    cases o' with
    | none => exact ho
    | some u => exact ho
  | fail e =>
    show SafeP M s (q.bind fun _ => Prog.fail e) Q
    have h' : SafeP M s q (fun s'' o' => match o' with | some _ => Q s'' none | none => Q s'' none) := h
    apply SafeP.bind (f := fun _ => (Prog.fail e : Prog α))
    apply SafeP.mono h'
    intro s' o' ho
    cases o' with
    | none => exact ho
    | some u => exact ho
  | panic site => trivial
  | call c k ih =>
    intro r
    have hr := h r
    revert hr
    cases M.step s c r with
    | none => intro hr; exact hr.elim
    | some s' => intro hr; exact ih r hr

theorem SafeP.try_ {M : Mon} {p : Prog α} {Q : M.S → Option (E α) → Prop} {s : M.S}
    (h : SafeP M s p (fun s' o => match o with
      | some a => Q s' (some (.ok a))
      | none => ∀ e, Q s' (some (.error e)))) : SafeP M s (Prog.try_ p) Q := by
  induction p generalizing s with
  | ret a => exact h
  | fail e => exact h e
  | panic site => trivial
  | call c k ih =>
    intro r
    have hr := h r
    revert hr
    cases M.step s c r with
    | none => intro hr; exact hr.elim
    | some s' => intro hr; exact ih r hr

namespace Lk
variable {re aw : Bool} {ad : J → Bool}

theorem finally_ {H H1 H2 : List Iri} {p : Prog α} {q : Prog Unit}
    (hp : Lk re aw ad H p H1 H1) (hq : Lk re aw ad H1 q H2 H2) : Lk re aw ad H (Prog.finally_ p q) H2 H2 := by
  apply SafeP.finally_
  apply SafeP.mono hp
  intro s o hs
  have : s = H1 := by cases o <;> exact hs
  subst this
  apply SafeP.mono hq
  intro s' o' hs'
  have : s' = H2 := by cases o' <;> exact hs'
  subst this
  cases o' <;> cases o <;> rfl

theorem try_ {H H1 He : List Iri} {p : Prog α} (hp : Lk re aw ad H p H1 H1) : Lk re aw ad H (Prog.try_ p) H1 He := by
  apply SafeP.try_
  apply SafeP.mono hp
  intro s o hs
  cases o with
  | none => intro e; exact hs
  | some a => exact hs

theorem foldlM {H : List Iri} {β σ : Type} (f : σ → β → Prog σ) (hf : ∀ s x, Lk re aw ad H (f s x) H H) :
    ∀ (xs : List β) (init : σ), Lk re aw ad H (xs.foldlM f init) H H := by
  intro xs
  induction xs with
  | nil => intro init; exact Lk.pure' init
  | cons x xs ih =>
    intro init
    rw [List.foldlM_cons]
    exact Lk.bind (hf init x) (fun s => ih s)

theorem forM {H : List Iri} {β : Type} (f : β → Prog Unit) (hf : ∀ x, Lk re aw ad H (f x) H H) :
    ∀ (xs : List β), Lk re aw ad H (xs.forM f) H H := by
  intro xs
  induction xs with
  | nil => exact Lk.pure' ()
  | cons x xs ih =>
    show Lk re aw ad H (f x >>= fun _ => xs.forM f) H H
    exact Lk.bind (hf x) (fun _ => ih)

theorem liftLib {H : List Iri} (x : Except Unit α) : Lk re aw ad H (liftLib x) H H := by
  cases x <;> rfl

theorem ofE {H : List Iri} (r : E α) : Lk re aw ad H (Op.ofE r) H H := by
  cases r <;> rfl

/-- an operation that is neither Lock/Unlock nor a Database access, answering with `E α` -/
theorem freeE {H : List Iri} {α : Type} (c : Call) (k : c.Resp → Prog α)
    (hstep : ∀ r, (lockMonG re aw ad).step H c r = some H) (hk : ∀ r, Lk re aw ad H (k r) H H) : Lk re aw ad H (.call c k) H H := by
  apply call
  intro r
  exact ⟨H, hstep r, hk r⟩

end Lk
end AV
