import AV.Lemmas.FailFastOps
/-
`Ff` (fail-fast, nothing stored in the outbox, nothing delivered) for every function of the pre-store phase of an outbox
POST / `Send`: wrapping, identification, the social side effects.
-/
namespace AV
open Prog Pub Val

namespace Ff

theorem finally_ {p : Prog α} {q : Prog Unit} (hp : Ff p) (hq : Ff q) : Ff (Prog.finally_ p q) := by
  intro s hs
  apply SafeP.finally_
  apply SafeP.mono (hp s hs)
  intro s1 o h1
  cases o with
  | some a =>
    have : s1 = s := h1
    subst this
    apply SafeP.mono (hq s1 hs)
    intro s2 o2 h2
    cases o2 with
    | some _ => exact h2
    | none => exact h2
  | none =>
    obtain ⟨hst, hdl⟩ := h1
    apply SafeP.mono (hq s1 (by rw [hst]; exact hs))
    intro s2 o2 h2
    cases o2 with
    | some _ =>
      have : s2 = s1 := h2
      subst this
      exact ⟨hst, hdl⟩
    | none => exact ⟨h2.1.trans hst, h2.2.trans hdl⟩

/-- `Lock(k); defer Unlock(k); body` -/
theorem withLock {k : Iri} {body : Prog α} (hb : Ff body) : Ff (Pub.withLock k body) := by
  unfold Pub.withLock
  exact bind (lock k) fun _ => finally_ hb (unlock k)

/-- `Lock(k); r := try body; Unlock(k); return r` — the error of `body` is returned after the Unlock -/
theorem locked {k : Iri} {body : Prog α} (hb : Ff body) : Ff (Op.locked k body) := by
  unfold Op.locked
  intro s hs
  apply SafeP.bind
  apply SafeP.mono (lock k s hs)
  intro s1 o1 h1
  cases o1 with
  | none => exact h1
  | some _ =>
    have : s1 = s := h1
    subst this
    apply SafeP.bind
    apply SafeP.try_
    apply SafeP.mono (hb s1 hs)
    intro s2 o2 h2
    cases o2 with
    | some a =>
      have : s2 = s1 := h2
      subst this
      -- unlock, then return the value
      apply SafeP.bind
      apply SafeP.mono (unlock k s2 hs)
      intro s3 o3 h3
      cases o3 with
      | none => exact h3
      | some _ => exact h3
    | none =>
      intro e
      obtain ⟨hst, hdl⟩ := h2
      apply SafeP.bind
      apply SafeP.mono (unlock k s2 (by rw [hst]; exact hs))
      intro s3 o3 h3
      cases o3 with
      | none => exact ⟨h3.1.trans hst, h3.2.trans hdl⟩
      | some _ =>
        have : s3 = s2 := h3
        subst this
        exact ⟨hst, hdl⟩

theorem strOf (site : String) (u : Iri) : Ff (Pub.strOf site u) := by
  unfold Pub.strOf; split <;> first | exact panic _ | exact ret _

theorem strsOf (site : String) (us : List Iri) : Ff (Pub.strsOf site us) := by
  unfold Pub.strsOf; split <;> first | exact panic _ | exact ret _

theorem idsM (F : TFacts) (xs : List J) : Ff (Pub.idsM F xs) := liftLib _

theorem needVal (site : String) (o : Option J) : Ff (Pub.needVal site o) := by
  unfold Pub.needVal; split <;> first | exact panic _ | exact ret _

theorem docVal (d : Doc) : Ff (Pub.docVal d) := by
  unfold Pub.docVal; split <;> first | exact fail _ | exact ret _

theorem activityIdGet (site : String) (a : J) : Ff (Pub.activityIdGet site a) := by
  unfold Pub.activityIdGet; split <;> first | exact panic _ | exact ret _

end Ff

attribute [local irreducible] Pub.withLock Op.locked Ff

/-- leaves: the rules of the operations and of the functions proved so far (extended below by `macro_rules`) -/
syntax "ff_leaf" : tactic
macro_rules | `(tactic| ff_leaf) => `(tactic| first
  | exact Ff.ret _ | exact Ff.pure' _ | exact Ff.fail _ | exact Ff.panic _
  | exact Ff.liftLib _ | exact Ff.strOf _ _ | exact Ff.strsOf _ _ | exact Ff.idsM _ _ | exact Ff.needVal _ _
  | exact Ff.docVal _ | exact Ff.activityIdGet _ _ | exact Ff.ofE _ | exact Ff.lock _ | exact Ff.unlock _
  | exact Ff.newID _ | exact Ff.newTransport _ | exact Ff.deref _ | exact Ff.derefE _
  | exact Ff.hookOutbox _ | exact Ff.socialCallbacks | exact Ff.socialDefault _
  | exact Ff.appCb _ _ _ | exact Ff.otherCb _ _ _ | exact Ff.now
  | exact Ff.owns _ | exact Ff.actorForOutbox _ | exact Ff.actorForInbox _
  | exact Ff.outboxForInbox _ | exact Ff.inboxForActor _ | exact Ff.exists_ _
  | exact Ff.get _ | exact Ff.create _ | exact Ff.update _ | exact Ff.delete _
  | exact Ff.getOutbox _ | exact Ff.followers _ | exact Ff.following _ | exact Ff.liked _)

macro "ff_step" : tactic => `(tactic| first
  | intro _
  | split
  | ff_leaf
  | dsimp only
  | (apply Ff.withLock)
  | (apply Ff.locked)
  | (apply Ff.foldlM; intro _ _)
  | (apply Ff.forM; intro _)
  | (apply Ff.finally_)
  | (apply Ff.bind)
  | (apply Ff.bind'))

macro "ff_auto" : tactic => `(tactic| repeat ff_step)

/-! ### wrapping and identification -/

theorem wrapInCreate_ff (F : TFacts) (o : J) (actor : Iri) : Ff (wrapInCreate F o actor) := by
  unfold wrapInCreate; ff_auto
macro_rules | `(tactic| ff_leaf) => `(tactic| exact wrapInCreate_ff ..)

theorem wrapInCreateM_ff (F : TFacts) (obj : J) (outbox : Iri) : Ff (wrapInCreateM F obj outbox) := by
  unfold wrapInCreateM; ff_auto
macro_rules | `(tactic| ff_leaf) => `(tactic| exact wrapInCreateM_ff ..)

theorem wrapIfNeeded_ff (F : TFacts) (outbox : Iri) (v : J) : Ff (wrapIfNeeded F outbox v) := by
  unfold wrapIfNeeded; ff_auto
macro_rules | `(tactic| ff_leaf) => `(tactic| exact wrapIfNeeded_ff ..)

theorem addNewIDs_ff (F : TFacts) (a : J) : Ff (addNewIDs F a) := by
  unfold addNewIDs; ff_auto
macro_rules | `(tactic| ff_leaf) => `(tactic| exact addNewIDs_ff ..)


/-! ### the social side effects -/

theorem requireObject_ff (F : TFacts) (a : J) : Ff (requireObject F a) := by
  unfold requireObject; ff_auto
macro_rules | `(tactic| ff_leaf) => `(tactic| exact requireObject_ff ..)

theorem requireTarget_ff (F : TFacts) (a : J) : Ff (requireTarget F a) := by
  unfold requireTarget; ff_auto
macro_rules | `(tactic| ff_leaf) => `(tactic| exact requireTarget_ff ..)

theorem wrappedAfter_ff (fed : Bool) (cfg : CbConfig) (ty : String) (a : J) : Ff (wrappedAfter fed cfg ty a) := by
  unfold wrappedAfter; ff_auto
macro_rules | `(tactic| ff_leaf) => `(tactic| exact wrappedAfter_ff ..)

theorem recipMap_ff (F : TFacts) (xs : List J) : Ff (recipMap F xs) := by
  unfold recipMap; ff_auto
macro_rules | `(tactic| ff_leaf) => `(tactic| exact recipMap_ff ..)

theorem normActivityProp_ff (F : TFacts) (a : J) (p : String) : Ff (normActivityProp F a p) := by
  unfold normActivityProp; ff_auto
macro_rules | `(tactic| ff_leaf) => `(tactic| exact normActivityProp_ff ..)

theorem normObjectProp_ff (F : TFacts) (o : J) (p : String) (m : List Iri) : Ff (normObjectProp F o p m) := by
  unfold normObjectProp; ff_auto
macro_rules | `(tactic| ff_leaf) => `(tactic| exact normObjectProp_ff ..)

theorem needList_ff (site : String) (o : Option (List J)) : Ff (needList site o) := by
  unfold needList; ff_auto
macro_rules | `(tactic| ff_leaf) => `(tactic| exact needList_ff ..)

theorem normPhase0_ff (F : TFacts) (a : J) : Ff (normPhase0 F a) := by
  unfold normPhase0; ff_auto
macro_rules | `(tactic| ff_leaf) => `(tactic| exact normPhase0_ff ..)

theorem normObject_ff (F : TFacts) (maps : List (List Iri)) (o : J) : Ff (normObject F maps o) := by
  unfold normObject; ff_auto
macro_rules | `(tactic| ff_leaf) => `(tactic| exact normObject_ff ..)

theorem normObjects_ff (F : TFacts) (maps : List (List Iri)) (objs : List J) : Ff (normObjects F maps objs) := by
  unfold normObjects; ff_auto
macro_rules | `(tactic| ff_leaf) => `(tactic| exact normObjects_ff ..)

theorem normalizeRecipients_ff (F : TFacts) (a : J) : Ff (normalizeRecipients F a) := by
  unfold normalizeRecipients; ff_auto
macro_rules | `(tactic| ff_leaf) => `(tactic| exact normalizeRecipients_ff ..)

theorem normalizeAttribution_ff (F : TFacts) (a : J) (op : List J) : Ff (normalizeAttribution F a op) := by
  unfold normalizeAttribution; ff_auto
macro_rules | `(tactic| ff_leaf) => `(tactic| exact normalizeAttribution_ff ..)

theorem socCreate_ff (F : TFacts) (cfg : CbConfig) (a : J) : Ff (socCreate F cfg a) := by
  unfold socCreate; ff_auto
macro_rules | `(tactic| ff_leaf) => `(tactic| exact socCreate_ff ..)

theorem socUpdateOne_ff (F : TFacts) (raw : J) (idx : Nat) (id : Iri) (j : J) : Ff (socUpdateOne F raw idx id j) := by
  unfold socUpdateOne; ff_auto
macro_rules | `(tactic| ff_leaf) => `(tactic| exact socUpdateOne_ff ..)

theorem socUpdate_ff (F : TFacts) (cfg : CbConfig) (raw a : J) : Ff (socUpdate F cfg raw a) := by
  unfold socUpdate; ff_auto
macro_rules | `(tactic| ff_leaf) => `(tactic| exact socUpdate_ff ..)

theorem socDelete_ff (F : TFacts) (cfg : CbConfig) (a : J) : Ff (socDelete F cfg a) := by
  unfold socDelete; ff_auto
macro_rules | `(tactic| ff_leaf) => `(tactic| exact socDelete_ff ..)

theorem socLike_ff (F : TFacts) (cfg : CbConfig) (outbox : Iri) (a : J) : Ff (socLike F cfg outbox a) := by
  unfold socLike; ff_auto
macro_rules | `(tactic| ff_leaf) => `(tactic| exact socLike_ff ..)

theorem addLoop_ff (F : TFacts) (opIds : List Iri) (t : Iri) : Ff (addLoop F opIds t) := by
  unfold addLoop; ff_auto
macro_rules | `(tactic| ff_leaf) => `(tactic| exact addLoop_ff ..)

theorem add_ff (F : TFacts) (op target : List J) : Ff (add F op target) := by
  unfold add; ff_auto
macro_rules | `(tactic| ff_leaf) => `(tactic| exact add_ff ..)

theorem removeLoop_ff (F : TFacts) (opIds : List Iri) (t : Iri) : Ff (removeLoop F opIds t) := by
  unfold removeLoop; ff_auto
macro_rules | `(tactic| ff_leaf) => `(tactic| exact removeLoop_ff ..)

theorem remove_ff (F : TFacts) (op target : List J) : Ff (remove F op target) := by
  unfold remove; ff_auto
macro_rules | `(tactic| ff_leaf) => `(tactic| exact remove_ff ..)

theorem fedAdd_ff (F : TFacts) (fed : Bool) (cfg : CbConfig) (a : J) : Ff (fedAdd F fed cfg a) := by
  unfold fedAdd; ff_auto
macro_rules | `(tactic| ff_leaf) => `(tactic| exact fedAdd_ff ..)

theorem fedRemove_ff (F : TFacts) (fed : Bool) (cfg : CbConfig) (a : J) : Ff (fedRemove F fed cfg a) := by
  unfold fedRemove; ff_auto
macro_rules | `(tactic| ff_leaf) => `(tactic| exact fedRemove_ff ..)

theorem undoObjActors_ff (t : J) : Ff (undoObjActors t) := by
  unfold undoObjActors; ff_auto
macro_rules | `(tactic| ff_leaf) => `(tactic| exact undoObjActors_ff ..)

theorem undoActorElems_ff (actors : Option (List J)) : Ff (undoActorElems actors) := by
  unfold undoActorElems; ff_auto
macro_rules | `(tactic| ff_leaf) => `(tactic| exact undoActorElems_ff ..)

theorem undoTail_ff (F : TFacts) (actorIds : List Iri) (d : Doc) : Ff (undoTail F actorIds d) := by
  unfold undoTail; ff_auto
macro_rules | `(tactic| ff_leaf) => `(tactic| exact undoTail_ff ..)

theorem undoLoop_ff (F : TFacts) (actorIds : List Iri) (box : Iri) (op : List J) : Ff (undoLoop F actorIds box op) := by
  unfold undoLoop; ff_auto
macro_rules | `(tactic| ff_leaf) => `(tactic| exact undoLoop_ff ..)

theorem mustHaveActivityActorsMatchObjectActors_ff (F : TFacts) (actors : Option (List J)) (op : List J) (box : Iri) : Ff (mustHaveActivityActorsMatchObjectActors F actors op box) := by
  unfold mustHaveActivityActorsMatchObjectActors; ff_auto
macro_rules | `(tactic| ff_leaf) => `(tactic| exact mustHaveActivityActorsMatchObjectActors_ff ..)

theorem fedUndo_ff (F : TFacts) (fed : Bool) (cfg : CbConfig) (box : Iri) (a : J) : Ff (fedUndo F fed cfg box a) := by
  unfold fedUndo; ff_auto
macro_rules | `(tactic| ff_leaf) => `(tactic| exact fedUndo_ff ..)

theorem socCb_ff (F : TFacts) (cfg : CbConfig) (outbox : Iri) (raw : J) (ty : String) (a : J) : Ff (socCb F cfg outbox raw ty a) := by
  unfold socCb; ff_auto
macro_rules | `(tactic| ff_leaf) => `(tactic| exact socCb_ff ..)

theorem postOutboxEffects_ff (F : TFacts) (cfg : ActorCfg) (a : J) (outbox : Iri) (raw : J) :
    Ff (postOutboxEffects F cfg (socCb F) a outbox raw) := by
  unfold postOutboxEffects
  ff_auto

end AV
