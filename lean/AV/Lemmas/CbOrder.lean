import AV.Spec.Monitors
import AV.Lemmas.LockRules
/-
C04, last clause: *a wrapped application callback runs after the default effect succeeded* (and it is the last thing the
default callback does).  Monitor `cbOrderMon`; judgement `Fw p` for the default effect proper: started with nothing
failed and the callback not yet run, `p` does not run the callback and returns a value only if none of its steps failed.
-/
namespace AV
open Prog

structure CbSt where
  failed : Bool := false    -- a step of the default effect answered with an error
  done : Bool := false      -- the wrapped application callback has run
  deriving Repr, DecidableEq

/-- the wrapped callback (`appCb`) may run only while nothing has failed, only once, and nothing but deferred Unlocks may
follow it.  A failing Unlock is ignored by the library; an unreachable document (`deref`) may be skipped by it. -/
def cbOrderMon : Mon where
  S := CbSt
  step s c r :=
    match c with
    | .unlock _ => some s
    | .appCb _ _ _ => if s.failed || s.done then none else some { s with done := true }
    | .deref _ => if s.done then none else some s
    | c => if s.done then none else some { s with failed := s.failed || !respOk c r }

def FwPost (s : CbSt) : CbSt → Option α → Prop
  | s', some _ => s' = s
  | s', none => s'.done = false

def Fw (p : Prog α) : Prop :=
  ∀ s : CbSt, s.failed = false → s.done = false → SafeP cbOrderMon s p (FwPost s)

/-- fragments that cannot change the monitor state at all (only `deref`, no callback) -/
def Fk (p : Prog α) : Prop :=
  ∀ s : CbSt, s.done = false → SafeP cbOrderMon s p (fun s' _ => s' = s)

namespace Fw

theorem ret (a : α) : Fw (Prog.ret a) := fun _ _ _ => rfl
theorem pure' (a : α) : Fw (pure a : Prog α) := fun _ _ _ => rfl
theorem fail (e : Err) : Fw (Prog.fail e : Prog α) := fun _ _ h => h
theorem panic (site : String) : Fw (Prog.panic site : Prog α) := fun _ _ _ => trivial

theorem bind {p : Prog α} {f : α → Prog β} (hp : Fw p) (hf : ∀ a, Fw (f a)) : Fw (p >>= f) := by
  intro s h1 h2
  apply SafeP.bind
  apply SafeP.mono (hp s h1 h2)
  intro s' o h
  cases o with
  | none => exact h
  | some a =>
    have : s' = s := h
    subst this
    exact hf a s' h1 h2

theorem bind' {p : Prog α} {f : α → Prog β} (hp : Fw p) (hf : ∀ a, Fw (f a)) : Fw (Prog.bind p f) := bind hp hf

theorem ofE (r : E α) : Fw (Op.ofE r) := by
  cases r with
  | ok a => exact ret a
  | error e => exact fail e

theorem liftLib (x : Except Unit α) : Fw (AV.liftLib x) := by
  cases x <;> first | exact fail _ | exact ret _

theorem foldlM {β σ : Type} (f : σ → β → Prog σ) (hf : ∀ s x, Fw (f s x)) : ∀ (xs : List β) (init : σ), Fw (xs.foldlM f init) := by
  intro xs
  induction xs with
  | nil => intro init; exact pure' init
  | cons x xs ih =>
    intro init
    rw [List.foldlM_cons]
    exact bind (hf init x) (fun s => ih s)

theorem forM {β : Type} (f : β → Prog Unit) (hf : ∀ x, Fw (f x)) : ∀ (xs : List β), Fw (xs.forM f) := by
  intro xs
  induction xs with
  | nil => exact pure' ()
  | cons x xs ih =>
    show Fw (f x >>= fun _ => xs.forM f)
    exact bind (hf x) (fun _ => ih)

theorem call {s : CbSt} {Q : CbSt → Option α → Prop} (c : Call) (k : c.Resp → Prog α)
    (h : ∀ r, ∃ s', cbOrderMon.step s c r = some s' ∧ SafeP cbOrderMon s' (k r) Q) :
    SafeP cbOrderMon s (.call c k) Q := by
  intro r
  obtain ⟨s', h1, h2⟩ := h r
  simp only [h1]
  exact h2

/-- anything but the wrapped callback: a successful answer leaves the state alone -/
def _root_.AV.Call.isEffectStep : Call → Bool
  | .appCb _ _ _ => false
  | _ => true

theorem step_ok (s : CbSt) (c : Call) (r : c.Resp) (hq : c.isEffectStep = true) (hd : s.done = false) (hr : respOk c r = true) :
    cbOrderMon.step s c r = some s := by
  obtain ⟨f, d⟩ := s
  cases c <;> simp_all [cbOrderMon, Call.isEffectStep]

theorem step_any (s : CbSt) (c : Call) (r : c.Resp) (hq : c.isEffectStep = true) (hd : s.done = false) :
    ∃ s', cbOrderMon.step s c r = some s' ∧ s'.done = false := by
  cases c <;> simp_all [cbOrderMon, Call.isEffectStep]


theorem inboxContains (i d : Iri) : Fw (Op.inboxContains i d) := by
  intro s h1 h2
  unfold Op.inboxContains
  apply Fw.call
  intro r
  obtain ⟨s', e1, e2⟩ := step_any s _ r rfl h2
  cases r with
  | ok u => exact ⟨s, step_ok s _ _ rfl h2 rfl, rfl⟩
  | error e => exact ⟨s', e1, e2⟩
theorem getInbox (i : Iri) : Fw (Op.getInbox i) := by
  intro s h1 h2
  unfold Op.getInbox
  apply Fw.call
  intro r
  obtain ⟨s', e1, e2⟩ := step_any s _ r rfl h2
  cases r with
  | ok u => exact ⟨s, step_ok s _ _ rfl h2 rfl, rfl⟩
  | error e => exact ⟨s', e1, e2⟩
theorem setInbox (v : J) : Fw (Op.setInbox v) := by
  intro s h1 h2
  unfold Op.setInbox
  apply Fw.call
  intro r
  obtain ⟨s', e1, e2⟩ := step_any s _ r rfl h2
  cases r with
  | ok u => exact ⟨s, step_ok s _ _ rfl h2 rfl, rfl⟩
  | error e => exact ⟨s', e1, e2⟩
theorem owns (k : Iri) : Fw (Op.owns k) := by
  intro s h1 h2
  unfold Op.owns
  apply Fw.call
  intro r
  obtain ⟨s', e1, e2⟩ := step_any s _ r rfl h2
  cases r with
  | ok u => exact ⟨s, step_ok s _ _ rfl h2 rfl, rfl⟩
  | error e => exact ⟨s', e1, e2⟩
theorem actorForOutbox (o : Iri) : Fw (Op.actorForOutbox o) := by
  intro s h1 h2
  unfold Op.actorForOutbox
  apply Fw.call
  intro r
  obtain ⟨s', e1, e2⟩ := step_any s _ r rfl h2
  cases r with
  | ok u => exact ⟨s, step_ok s _ _ rfl h2 rfl, rfl⟩
  | error e => exact ⟨s', e1, e2⟩
theorem actorForInbox (i : Iri) : Fw (Op.actorForInbox i) := by
  intro s h1 h2
  unfold Op.actorForInbox
  apply Fw.call
  intro r
  obtain ⟨s', e1, e2⟩ := step_any s _ r rfl h2
  cases r with
  | ok u => exact ⟨s, step_ok s _ _ rfl h2 rfl, rfl⟩
  | error e => exact ⟨s', e1, e2⟩
theorem outboxForInbox (i : Iri) : Fw (Op.outboxForInbox i) := by
  intro s h1 h2
  unfold Op.outboxForInbox
  apply Fw.call
  intro r
  obtain ⟨s', e1, e2⟩ := step_any s _ r rfl h2
  cases r with
  | ok u => exact ⟨s, step_ok s _ _ rfl h2 rfl, rfl⟩
  | error e => exact ⟨s', e1, e2⟩
theorem inboxForActor (a : Iri) : Fw (Op.inboxForActor a) := by
  intro s h1 h2
  unfold Op.inboxForActor
  apply Fw.call
  intro r
  obtain ⟨s', e1, e2⟩ := step_any s _ r rfl h2
  cases r with
  | ok u => exact ⟨s, step_ok s _ _ rfl h2 rfl, rfl⟩
  | error e => exact ⟨s', e1, e2⟩
theorem exists_ (k : Iri) : Fw (Op.exists_ k) := by
  intro s h1 h2
  unfold Op.exists_
  apply Fw.call
  intro r
  obtain ⟨s', e1, e2⟩ := step_any s _ r rfl h2
  cases r with
  | ok u => exact ⟨s, step_ok s _ _ rfl h2 rfl, rfl⟩
  | error e => exact ⟨s', e1, e2⟩
theorem get (k : Iri) : Fw (Op.get k) := by
  intro s h1 h2
  unfold Op.get
  apply Fw.call
  intro r
  obtain ⟨s', e1, e2⟩ := step_any s _ r rfl h2
  cases r with
  | ok u => exact ⟨s, step_ok s _ _ rfl h2 rfl, rfl⟩
  | error e => exact ⟨s', e1, e2⟩
theorem create (v : J) : Fw (Op.create v) := by
  intro s h1 h2
  unfold Op.create
  apply Fw.call
  intro r
  obtain ⟨s', e1, e2⟩ := step_any s _ r rfl h2
  cases r with
  | ok u => exact ⟨s, step_ok s _ _ rfl h2 rfl, rfl⟩
  | error e => exact ⟨s', e1, e2⟩
theorem update (v : J) : Fw (Op.update v) := by
  intro s h1 h2
  unfold Op.update
  apply Fw.call
  intro r
  obtain ⟨s', e1, e2⟩ := step_any s _ r rfl h2
  cases r with
  | ok u => exact ⟨s, step_ok s _ _ rfl h2 rfl, rfl⟩
  | error e => exact ⟨s', e1, e2⟩
theorem delete (k : Iri) : Fw (Op.delete k) := by
  intro s h1 h2
  unfold Op.delete
  apply Fw.call
  intro r
  obtain ⟨s', e1, e2⟩ := step_any s _ r rfl h2
  cases r with
  | ok u => exact ⟨s, step_ok s _ _ rfl h2 rfl, rfl⟩
  | error e => exact ⟨s', e1, e2⟩
theorem getOutbox (o : Iri) : Fw (Op.getOutbox o) := by
  intro s h1 h2
  unfold Op.getOutbox
  apply Fw.call
  intro r
  obtain ⟨s', e1, e2⟩ := step_any s _ r rfl h2
  cases r with
  | ok u => exact ⟨s, step_ok s _ _ rfl h2 rfl, rfl⟩
  | error e => exact ⟨s', e1, e2⟩
theorem setOutbox (v : J) : Fw (Op.setOutbox v) := by
  intro s h1 h2
  unfold Op.setOutbox
  apply Fw.call
  intro r
  obtain ⟨s', e1, e2⟩ := step_any s _ r rfl h2
  cases r with
  | ok u => exact ⟨s, step_ok s _ _ rfl h2 rfl, rfl⟩
  | error e => exact ⟨s', e1, e2⟩
theorem newID (v : J) : Fw (Op.newID v) := by
  intro s h1 h2
  unfold Op.newID
  apply Fw.call
  intro r
  obtain ⟨s', e1, e2⟩ := step_any s _ r rfl h2
  cases r with
  | ok u => exact ⟨s, step_ok s _ _ rfl h2 rfl, rfl⟩
  | error e => exact ⟨s', e1, e2⟩
theorem followers (a : Iri) : Fw (Op.followers a) := by
  intro s h1 h2
  unfold Op.followers
  apply Fw.call
  intro r
  obtain ⟨s', e1, e2⟩ := step_any s _ r rfl h2
  cases r with
  | ok u => exact ⟨s, step_ok s _ _ rfl h2 rfl, rfl⟩
  | error e => exact ⟨s', e1, e2⟩
theorem following (a : Iri) : Fw (Op.following a) := by
  intro s h1 h2
  unfold Op.following
  apply Fw.call
  intro r
  obtain ⟨s', e1, e2⟩ := step_any s _ r rfl h2
  cases r with
  | ok u => exact ⟨s, step_ok s _ _ rfl h2 rfl, rfl⟩
  | error e => exact ⟨s', e1, e2⟩
theorem liked (a : Iri) : Fw (Op.liked a) := by
  intro s h1 h2
  unfold Op.liked
  apply Fw.call
  intro r
  obtain ⟨s', e1, e2⟩ := step_any s _ r rfl h2
  cases r with
  | ok u => exact ⟨s, step_ok s _ _ rfl h2 rfl, rfl⟩
  | error e => exact ⟨s', e1, e2⟩
theorem newTransport (b : Iri) : Fw (Op.newTransport b) := by
  intro s h1 h2
  unfold Op.newTransport
  apply Fw.call
  intro r
  obtain ⟨s', e1, e2⟩ := step_any s _ r rfl h2
  cases r with
  | ok u => exact ⟨s, step_ok s _ _ rfl h2 rfl, rfl⟩
  | error e => exact ⟨s', e1, e2⟩
theorem deref (u : Iri) : Fw (Op.deref u) := by
  intro s h1 h2
  unfold Op.deref
  apply Fw.call
  intro r
  obtain ⟨s', e1, e2⟩ := step_any s _ r rfl h2
  cases r with
  | ok u => exact ⟨s, step_ok s _ _ rfl h2 rfl, rfl⟩
  | error e => exact ⟨s', e1, e2⟩
theorem batchDeliver (p : J) (rs : List Iri) : Fw (Op.batchDeliver p rs) := by
  intro s h1 h2
  unfold Op.batchDeliver
  apply Fw.call
  intro r
  obtain ⟨s', e1, e2⟩ := step_any s _ r rfl h2
  cases r with
  | ok u => exact ⟨s, step_ok s _ _ rfl h2 rfl, rfl⟩
  | error e => exact ⟨s', e1, e2⟩
theorem lock (k : Iri) : Fw (Op.lock k) := by
  intro s h1 h2
  unfold Op.lock
  apply Fw.call
  intro r
  obtain ⟨s', e1, e2⟩ := step_any s _ r rfl h2
  cases r with
  | ok u => exact ⟨s, step_ok s _ _ rfl h2 rfl, rfl⟩
  | error e => exact ⟨s', e1, e2⟩
theorem derefE (u : Iri) : Fw (Op.derefE u) := by
  intro s h1 h2
  unfold Op.derefE
  apply Fw.call
  intro r
  exact ⟨s, by obtain ⟨f, d⟩ := s; simp_all [cbOrderMon, respOk], rfl⟩
theorem maxFwdDepth  : Fw (Op.maxFwdDepth ) := by
  intro s h1 h2
  unfold Op.maxFwdDepth
  apply Fw.call
  intro r
  exact ⟨s, by obtain ⟨f, d⟩ := s; simp_all [cbOrderMon, respOk], rfl⟩
theorem maxDeliveryDepth  : Fw (Op.maxDeliveryDepth ) := by
  intro s h1 h2
  unfold Op.maxDeliveryDepth
  apply Fw.call
  intro r
  exact ⟨s, by obtain ⟨f, d⟩ := s; simp_all [cbOrderMon, respOk], rfl⟩
theorem now  : Fw (Op.now ) := by
  intro s h1 h2
  unfold Op.now
  apply Fw.call
  intro r
  exact ⟨s, by obtain ⟨f, d⟩ := s; simp_all [cbOrderMon, respOk], rfl⟩
theorem unlock (k : Iri) : Fw (Op.unlock k) := by
  intro s h1 h2
  unfold Op.unlock
  apply Fw.call
  intro r
  exact ⟨s, by obtain ⟨f, d⟩ := s; simp_all [cbOrderMon, respOk], rfl⟩

end Fw
end AV
