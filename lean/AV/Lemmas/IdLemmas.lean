import AV.Pub.Val
import AV.Pub.Util
/-
After the repair of `GetId`, an id the library reads off a value is never the nil URL.
-/
namespace AV
open Val

theorem hasScheme_nil : Iri.hasScheme nilIri = false := by decide

theorem getId_hasScheme (F : TFacts) (v : J) (u : Iri) (h : getId F v = .ok u) : Iri.hasScheme u = true := by
  unfold getId at h
  split at h
  · rename_i u' hs
    cases h
    unfold idState at hs
    split at hs
    · cases hs
    · split at hs
      · cases hs; assumption
      · cases hs
    · cases hs
  · cases h
  · split at h
    · split at h
      · split at h
        · cases h; assumption
        · cases h
      · cases h
      · cases h
    · cases h

theorem toId_elemOf_hasScheme (F : TFacts) (j : J) (u : Iri) (h : toId F (elemOf F j) = .ok u) : Iri.hasScheme u = true := by
  unfold elemOf at h
  split at h
  · split at h
    · simp only [toId] at h; cases h; assumption
    · simp [toId] at h
  · split at h
    · exact getId_hasScheme F _ u (by simpa [toId] using h)
    · simp [toId] at h
  · simp [toId] at h

theorem idsOf_hasScheme (F : TFacts) : ∀ (xs : List J) (ids : List Iri), idsOf F xs = .ok ids → ∀ u ∈ ids, Iri.hasScheme u = true := by
  intro xs
  induction xs with
  | nil => intro ids h; simp [idsOf] at h; cases h; simp
  | cons x xs ih =>
    intro ids h
    simp only [idsOf, List.mapM_cons] at h
    cases hx : toId F (elemOf F x) with
    | error e => simp [hx, bind, Except.bind] at h
    | ok u0 =>
      simp only [hx, bind, Except.bind] at h
      cases hr : List.mapM (fun j => toId F (elemOf F j)) xs with
      | error e => simp [hr] at h
      | ok rest =>
        simp only [hr, pure, Except.pure] at h
        cases h
        intro u hu
        rcases List.mem_cons.mp hu with rfl | hu'
        · exact toId_elemOf_hasScheme F x _ hx
        · exact ih rest (by simpa [idsOf] using hr) u hu'

theorem idsOf_nonnil (F : TFacts) (xs : List J) (ids : List Iri) (h : idsOf F xs = .ok ids) : ids.contains nilIri = false := by
  cases hc : ids.contains nilIri with
  | false => rfl
  | true =>
    have := idsOf_hasScheme F xs ids h nilIri (by simpa using hc)
    rw [hasScheme_nil] at this
    cases this

end AV
