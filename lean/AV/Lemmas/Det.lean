import AV.Core.Prog
import AV.Pub.Calls
/-
Running a program against an application whose answers depend only on the question
(a fixed federation graph, a Database that is not written to): `runD`.
-/
namespace AV
open Prog

/-- the outcome against answers that depend only on the call -/
def runD (ans : (c : Call) → c.Resp) : Prog α → Outcome α
  | .ret a => .ret a
  | .fail e => .fail e
  | .panic s => .panic s
  | .call c k => runD ans (k (ans c))

/-- `runD` is `run` against the environment that ignores the call index -/
theorem run_det (ans : (c : Call) → c.Resp) (p : Prog α) (n : Nat) : (run p (fun _ c => ans c) n).2 = runD ans p := by
  induction p generalizing n with
  | ret a => rfl
  | fail e => rfl
  | panic s => rfl
  | call c k ih => exact ih (ans c) (n + 1)

@[simp] theorem runD_ret (ans) (a : α) : runD ans (.ret a) = .ret a := rfl
@[simp] theorem runD_pure (ans) (a : α) : runD ans (pure a : Prog α) = .ret a := rfl
@[simp] theorem runD_fail (ans) (e : Err) : runD ans (.fail e : Prog α) = .fail e := rfl
@[simp] theorem runD_panic (ans) (s : String) : runD ans (.panic s : Prog α) = .panic s := rfl
@[simp] theorem runD_call (ans) (c : Call) (k : c.Resp → Prog α) : runD ans (.call c k) = runD ans (k (ans c)) := rfl

def Outcome.bindD (o : Outcome α) (f : α → Outcome β) : Outcome β :=
  match o with
  | .ret a => f a
  | .fail e => .fail e
  | .panic s => .panic s

theorem runD_bind (ans) (p : Prog α) (f : α → Prog β) : runD ans (p >>= f) = (runD ans p).bindD (fun a => runD ans (f a)) := by
  induction p with
  | ret a => rfl
  | fail e => rfl
  | panic s => rfl
  | call c k ih => exact ih (ans c)

theorem runD_try (ans) (p : Prog α) : runD ans (Prog.try_ p) =
    (match runD ans p with
     | .ret a => .ret (.ok a)
     | .fail e => .ret (.error e)
     | .panic s => .panic s) := by
  induction p with
  | ret a => rfl
  | fail e => rfl
  | panic s => rfl
  | call c k ih => exact ih (ans c)

theorem runD_finally (ans) (p : Prog α) (q : Prog Unit) : runD ans (Prog.finally_ p q) =
    (match runD ans p with
     | .ret a => (runD ans q).bindD (fun _ => .ret a)
     | .fail e => (runD ans q).bindD (fun _ => .fail e)
     | .panic s => .panic s) := by
  induction p with
  | ret a => exact runD_bind ans q _
  | fail e => exact runD_bind ans q _
  | panic s => rfl
  | call c k ih => exact ih (ans c)

/-- inversion: a sequence that returns, returned in both parts -/
theorem runD_bind_ret {ans} {p : Prog α} {f : α → Prog β} {b : β} (h : runD ans (p >>= f) = .ret b) :
    ∃ a, runD ans p = .ret a ∧ runD ans (f a) = .ret b := by
  rw [runD_bind] at h
  cases hp : runD ans p with
  | ret a => rw [hp] at h; exact ⟨a, rfl, h⟩
  | fail e => rw [hp] at h; cases h
  | panic s => rw [hp] at h; cases h

theorem runD_ofE (ans) (r : E α) : runD ans (Op.ofE r) = (match r with
    | .ok a => .ret a
    | .error e => .fail e) := by cases r <;> rfl

end AV

namespace AV
open Prog

/-- the calls a program makes against answers that depend only on the call, in order -/
def callsD (ans : (c : Call) → c.Resp) : Prog α → List Call
  | .call c k => c :: callsD ans (k (ans c))
  | _ => []

@[simp] theorem callsD_ret (ans) (a : α) : callsD ans (.ret a) = [] := rfl
@[simp] theorem callsD_pure (ans) (a : α) : callsD ans (pure a : Prog α) = [] := rfl
@[simp] theorem callsD_fail (ans) (e : Err) : callsD ans (.fail e : Prog α) = [] := rfl
@[simp] theorem callsD_panic (ans) (s : String) : callsD ans (.panic s : Prog α) = [] := rfl

theorem callsD_bind (ans) (p : Prog α) (f : α → Prog β) :
    callsD ans (p >>= f) = callsD ans p ++ (match runD ans p with
      | .ret a => callsD ans (f a)
      | _ => []) := by
  induction p with
  | ret a => rfl
  | fail e => rfl
  | panic s => rfl
  | call c k ih =>
    show c :: callsD ans (k (ans c) >>= f) = c :: callsD ans (k (ans c)) ++ _
    rw [ih (ans c)]
    rfl

/-- the calls of `run` against the environment that ignores the call index are `callsD` -/
theorem run_calls_det (ans : (c : Call) → c.Resp) (p : Prog α) (n : Nat) :
    (run p (fun _ c => ans c) n).1.map (·.call) = callsD ans p := by
  induction p generalizing n with
  | ret a => rfl
  | fail e => rfl
  | panic s => rfl
  | call c k ih =>
    show c :: ((run (k (ans c)) (fun _ c => ans c) (n + 1)).1.map (·.call)) = c :: callsD ans (k (ans c))
    rw [ih (ans c) (n + 1)]

end AV
