import AV.Spec.Monitors
import AV.Pub.BaseActor
/-
C07: nothing before authentication / the block check.  Once the gate is open (authenticated and, for inbox
POSTs, not blocked) the monitor accepts everything; so it suffices to walk the short prefix of each entry
point.
-/
namespace AV
open Prog Pub

/-- gate judgement: from gate state `s`, `p` never makes an effect call while the gate is shut -/
def Gt (nb : Bool) (s : GateSt) (p : Prog α) (Q : GateSt → Option α → Prop) : Prop := SafeP (gateMon nb) s p Q

theorem gateNext_open (nb : Bool) (s : GateSt) (hs : s.isOpen nb = true) (c : Call) (r : c.Resp) :
    (gateNext s c r).isOpen nb = true := by
  simp only [GateSt.isOpen, Bool.and_eq_true, Bool.or_eq_true, Bool.not_eq_true'] at hs ⊢
  unfold gateNext
  split <;> simp_all

/-- an open gate stays open: every program is acceptable from then on -/
theorem gate_open (nb : Bool) (p : Prog α) (s : GateSt) (hs : s.isOpen nb = true) : Gt nb s p (fun _ _ => True) := by
  induction p generalizing s with
  | ret a => trivial
  | fail e => trivial
  | panic site => trivial
  | call c k ih =>
    intro r
    have : (gateMon nb).step s c r = some (gateNext s c r) := by simp [gateMon, hs]
    simp only [this]
    exact ih r _ (gateNext_open nb s hs c r)

theorem Gt.bind {nb : Bool} {s : GateSt} {p : Prog α} {f : α → Prog β} {Q : GateSt → Option β → Prop}
    (h : Gt nb s p (fun s' o => match o with | some a => Gt nb s' (f a) Q | none => Q s' none)) :
    Gt nb s (p >>= f) Q := SafeP.bind h

theorem Gt.mono {nb : Bool} {s : GateSt} {p : Prog α} {Q Q' : GateSt → Option α → Prop}
    (h : Gt nb s p Q) (hq : ∀ s o, Q s o → Q' s o) : Gt nb s p Q' := SafeP.mono h hq

/-- a call that is not an effect: the gate moves by `gateNext` -/
theorem Gt.nonEffect {nb : Bool} {s : GateSt} (c : Call) (hc : c.isEffect = false) (k : c.Resp → Prog α)
    {Q : GateSt → Option α → Prop} (hk : ∀ r, Gt nb (gateNext s c r) (k r) Q) : Gt nb s (.call c k) Q := by
  intro r
  have : (gateMon nb).step s c r = some (gateNext s c r) := by simp [gateMon, hc]
  simp only [this]
  exact hk r

end AV
