import AV.Lemmas.LockOps
/-
Lock discipline (C09) of the transcribed `pub` functions, bottom-up.
-/
namespace AV
open Prog Pub Val

namespace Lk
variable {re aw : Bool} {ad : J → Bool}

theorem unlock_head {H He : List Iri} (k : Iri) : Lk re aw ad (k :: H) (Op.unlock k) H He := by
  have h := Lk.unlock (re := re) (aw := aw) (ad := ad) (H := k :: H) (He := He) k (by simp)
  simpa [removeFirst] using h

theorem lock_nil (k : Iri) : Lk re aw ad [] (Op.lock k) [k] [] := Lk.lock (He := []) k (by simp)

/-- `Lock(k); defer Unlock(k); body` -/
theorem withLock {H : List Iri} {k : Iri} {body : Prog α} (hk : re = true → k ∉ H) (hb : Lk re aw ad (k :: H) body (k :: H) (k :: H)) :
    Lk re aw ad H (Pub.withLock k body) H H := by
  unfold Pub.withLock
  exact Lk.bind (Lk.lock (He := H) k hk) (fun _ => Lk.finally_ hb (Lk.unlock_head k))

/-- `Lock(k); r := try body; Unlock(k); continue with r` -/
theorem lockTryUnlock {H : List Iri} {k : Iri} {body : Prog α} {f : E α → Prog β} (hk : re = true → k ∉ H)
    (hb : Lk re aw ad (k :: H) body (k :: H) (k :: H)) (hf : ∀ r, Lk re aw ad H (f r) H H) :
    Lk re aw ad H (Op.lock k >>= fun _ => Prog.try_ body >>= fun r => Op.unlock k >>= fun _ => f r) H H :=
  Lk.bind (Lk.lock (He := H) k hk) fun _ =>
    Lk.bind (Lk.try_ (He := H) hb) fun r =>
      Lk.bind (Lk.unlock_head (He := H) k) fun _ => hf r

/-- `Op.locked k body` -/
theorem locked {H : List Iri} {k : Iri} {body : Prog α} (hk : re = true → k ∉ H) (hb : Lk re aw ad (k :: H) body (k :: H) (k :: H)) :
    Lk re aw ad H (Op.locked k body) H H := by
  unfold Op.locked
  exact lockTryUnlock hk hb (fun r => Lk.ofE r)

theorem strOf {H : List Iri} (site : String) (u : Iri) : Lk re aw ad H (Pub.strOf site u) H H := by
  unfold Pub.strOf; split <;> first | exact Lk.panic _ | exact Lk.ret _

theorem strsOf {H : List Iri} (site : String) (us : List Iri) : Lk re aw ad H (Pub.strsOf site us) H H := by
  unfold Pub.strsOf; split <;> first | exact Lk.panic _ | exact Lk.ret _

theorem idsM {H : List Iri} (F : TFacts) (xs : List J) : Lk re aw ad H (Pub.idsM F xs) H H := Lk.liftLib _

theorem needVal {H : List Iri} (site : String) (o : Option J) : Lk re aw ad H (Pub.needVal site o) H H := by
  unfold Pub.needVal; split <;> first | exact Lk.panic _ | exact Lk.ret _

theorem docVal {H : List Iri} (d : Doc) : Lk re aw ad H (Pub.docVal d) H H := by
  unfold Pub.docVal; split <;> first | exact Lk.fail _ | exact Lk.ret _

theorem activityIdGet {H : List Iri} (site : String) (a : J) : Lk re aw ad H (Pub.activityIdGet site a) H H := by
  unfold Pub.activityIdGet; split <;> first | exact Lk.panic _ | exact Lk.ret _

end Lk

attribute [local irreducible] Pub.withLock Op.locked Lk

/-- one proof step: structural rules, then the operation rules -/
macro "lk_step" : tactic => `(tactic| first
  | intro _
  | split
  | exact Lk.ret _ | exact Lk.pure' _ | exact Lk.fail _ | exact Lk.panic _
  | exact Lk.liftLib _ | exact Lk.strOf _ _ | exact Lk.strsOf _ _ | exact Lk.idsM _ _ | exact Lk.needVal _ _
  | exact Lk.docVal _ | exact Lk.activityIdGet _ _ | exact Lk.ofE _
  | exact Lk.newID _ | exact Lk.newTransport _ | exact Lk.deref _ | exact Lk.derefE _ | exact Lk.batchDeliver _ _
  | exact Lk.authGetInbox | exact Lk.authGetOutbox | exact Lk.authPostInbox | exact Lk.authPostOutbox
  | exact Lk.appGetInbox | exact Lk.appGetOutbox | exact Lk.hookInbox _ | exact Lk.hookOutbox _ | exact Lk.blocked _
  | exact Lk.fedCallbacks | exact Lk.socialCallbacks | exact Lk.fedDefault _ | exact Lk.socialDefault _
  | exact Lk.appCb _ _ _ | exact Lk.otherCb _ _ _ | exact Lk.filterForwarding _ _ | exact Lk.writeBody _
  | exact Lk.maxFwdDepth | exact Lk.maxDeliveryDepth | exact Lk.now | exact Lk.writeHeader _ | exact Lk.setHeader _ _
  | exact Lk.inboxContains (by simp) _ _ | exact Lk.getInbox (by simp) _ | exact Lk.setInbox (by simp) _
  | exact Lk.owns (by simp) _ | exact Lk.actorForOutbox (by simp) _ | exact Lk.actorForInbox (by simp) _
  | exact Lk.outboxForInbox (by simp) _ | exact Lk.inboxForActor (by simp) _ | exact Lk.exists_ (by simp) _
  | exact Lk.get (by simp) _ | exact Lk.create (by simp) _ | exact Lk.update (by simp) _ | exact Lk.delete (by simp) _
  | exact Lk.getOutbox (by simp) _ | exact Lk.setOutbox (by simp) _ | exact Lk.followers (by simp) _
  | exact Lk.following (by simp) _ | exact Lk.liked (by simp) _
  | dsimp only
  | (apply Lk.withLock (by simp))
  | (apply Lk.locked (by simp))
  | (apply Lk.lockTryUnlock (by simp))
  | (apply Lk.foldlM; intro _ _)
  | (apply Lk.forM; intro _)
  | (apply Lk.bind)
  | (apply Lk.bind'))

macro "lk_auto" : tactic => `(tactic| repeat lk_step)

variable {re aw : Bool} {ad : J → Bool}

/-! ### pub/side_effect_actor.go -/

theorem addToInboxIfNew_ok (inbox : Iri) (a : J) : LockOK re aw ad [] (addToInboxIfNew inbox a) := by
  unfold addToInboxIfNew
  refine Lk.bind (Lk.lock_nil inbox) fun _ => Lk.finally_ (H1 := [inbox]) ?_ (Lk.unlock_head inbox)
  lk_auto

theorem addToOutbox_ok (outbox : Iri) (a : J) : LockOK re aw ad [] (addToOutbox outbox a) := by
  unfold addToOutbox
  apply Lk.bind (Lk.activityIdGet _ _); intro id
  apply Lk.bind (Lk.locked (by simp) (by lk_auto)); intro _
  refine Lk.bind (Lk.lock_nil outbox) fun _ => Lk.finally_ (H1 := [outbox]) ?_ (Lk.unlock_head outbox)
  lk_auto

theorem wrapInCreate_ok (F : TFacts) (o : J) (actor : Iri) : LockOK re aw ad [] (wrapInCreate F o actor) := by
  unfold wrapInCreate
  lk_auto

theorem wrapInCreateM_ok (F : TFacts) (obj : J) (outbox : Iri) : LockOK re aw ad [] (wrapInCreateM F obj outbox) := by
  unfold wrapInCreateM
  exact Lk.bind (Lk.locked (by simp) (by lk_auto)) fun _ => wrapInCreate_ok _ _ _

theorem addNewIDs_ok (F : TFacts) (a : J) : LockOK re aw ad [] (addNewIDs F a) := by
  unfold addNewIDs
  lk_auto

theorem deliverToRecipients_ok {H : List Iri} (box : Iri) (a : J) (rs : List Iri) (hp : ad a = true) :
    LockOK re aw ad H (deliverToRecipients box a rs) := by
  unfold deliverToRecipients
  exact Lk.bind (Lk.newTransport _) fun _ => Lk.batchDeliver _ _ hp

theorem authorizePostInbox_ok (F : TFacts) (a : J) : LockOK re true ad [] (authorizePostInbox F a) := by
  unfold authorizePostInbox
  lk_auto

theorem getInbox_ok {H : List Iri} (F : TFacts) (t : J) : LockOK re aw ad H (getInbox F t) := by
  unfold getInbox
  lk_auto

theorem getInboxes_ok {H : List Iri} (F : TFacts) (ts : List J) : LockOK re aw ad H (getInboxes F ts) := by
  unfold getInboxes
  apply Lk.foldlM; intro acc t
  exact Lk.bind (getInbox_ok F t) fun _ => Lk.pure' _

theorem dereferenceForResolvingInboxes_ok (F : TFacts) (u : Iri) : LockOK re aw ad [] (dereferenceForResolvingInboxes F u) := by
  unfold dereferenceForResolvingInboxes derefTail
  lk_auto

theorem resolveActors_ok (F : TFacts) (maxDepth : Int) (fuel depth : Nat) (r : List Iri) :
    LockOK re aw ad [] (resolveActors F maxDepth fuel depth r) := by
  induction fuel generalizing depth r with
  | zero => exact Lk.panic _
  | succ n ih =>
    unfold resolveActors
    split
    · exact Lk.pure' _
    · apply Lk.foldlM; intro st u
      apply Lk.bind (Lk.try_ (dereferenceForResolvingInboxes_ok F u)); intro d
      split
      · exact Lk.pure' _
      · exact Lk.bind (ih _ _) fun _ => Lk.pure' _

theorem prepare_ok (F : TFacts) (outbox : Iri) (a : J) : LockOK re aw ad [] (prepare F outbox a) := by
  unfold prepare
  apply Lk.bind (by lk_auto); intro r
  apply Lk.bind (Lk.strsOf _ _); intro r
  apply Lk.bind
  · apply Lk.foldlM; intro st actorIRI
    apply Lk.bind (Lk.locked (by simp) (by lk_auto)); intro res
    lk_auto
  intro st
  split
  apply Lk.bind (Lk.newTransport _); intro _
  apply Lk.bind Lk.maxDeliveryDepth; intro md
  apply Lk.bind (resolveActors_ok _ _ _ _ _); intro actors
  apply Lk.bind (getInboxes_ok _ _); intro remote
  apply Lk.bind (Lk.locked (by simp) (by lk_auto)); intro actorIRI
  apply Lk.bind (Lk.locked (by simp) (by lk_auto)); intro thisActor
  apply Lk.bind (Lk.needVal _ _); intro t
  apply Lk.bind (getInbox_ok _ _); intro ig
  lk_auto

/-- what the payload predicate must accept for delivery from an outbox: activities whose hidden recipients
have been stripped -/
def AcceptsStripped (F : TFacts) (ad : J → Bool) : Prop := ∀ x, ad (stripHiddenRecipients F x) = true

theorem deliverS2S_ok (F : TFacts) (outbox : Iri) (a : J) (hs : AcceptsStripped F ad) : LockOK re aw ad [] (deliverS2S F outbox a) := by
  unfold deliverS2S
  apply Lk.bind (prepare_ok F outbox a); intro x
  exact Lk.bind (deliverToRecipients_ok _ _ _ (hs a)) fun _ => Lk.pure' _

/-! ### pub/util.go -/

theorem mustHaveActivityOriginMatchObjects_ok {H : List Iri} (F : TFacts) (a : J) :
    LockOK re aw ad H (mustHaveActivityOriginMatchObjects F a) := by
  unfold mustHaveActivityOriginMatchObjects
  lk_auto

theorem normActivityProp_ok {H : List Iri} (F : TFacts) (a : J) (p : String) : LockOK re aw ad H (normActivityProp F a p) := by
  unfold normActivityProp recipMap
  lk_auto

theorem normObjectProp_ok {H : List Iri} (F : TFacts) (o : J) (p : String) (m : List Iri) : LockOK re aw ad H (normObjectProp F o p m) := by
  unfold normObjectProp recipMap
  lk_auto

theorem needList_ok {H : List Iri} (site : String) (o : Option (List J)) : LockOK re aw ad H (needList site o) := by
  unfold needList; lk_auto

theorem normPhase0_ok {H : List Iri} (F : TFacts) (a : J) : LockOK re aw ad H (normPhase0 F a) := by
  unfold normPhase0
  apply Lk.foldlM; intro st p
  exact Lk.bind (normActivityProp_ok F _ _) fun _ => Lk.pure' _

theorem normObject_ok {H : List Iri} (F : TFacts) (maps : List (List Iri)) (o : J) : LockOK re aw ad H (normObject F maps o) := by
  unfold normObject
  apply Lk.foldlM; intro st p
  exact Lk.bind (normObjectProp_ok F _ _ _) fun _ => Lk.pure' _

theorem normObjects_ok {H : List Iri} (F : TFacts) (maps : List (List Iri)) (objs : List J) : LockOK re aw ad H (normObjects F maps objs) := by
  unfold normObjects
  apply Lk.foldlM; intro st j
  split
  · exact Lk.bind (normObject_ok F _ _) fun _ => Lk.pure' _
  · exact Lk.fail _

theorem normalizeRecipients_ok {H : List Iri} (F : TFacts) (a : J) : LockOK re aw ad H (normalizeRecipients F a) := by
  unfold normalizeRecipients
  exact Lk.bind (normPhase0_ok F a) fun r0 => Lk.bind (needList_ok _ _) fun objs =>
    Lk.bind (normObjects_ok F _ _) fun r1 => Lk.pure' _

theorem mustHaveActivityActorsMatchObjectActors_ok (F : TFacts) (actors : Option (List J)) (op : List J) (box : Iri) :
    LockOK re aw ad [] (mustHaveActivityActorsMatchObjectActors F actors op box) := by
  unfold mustHaveActivityActorsMatchObjectActors undoLoop undoTail undoObjActors undoActorElems
  lk_auto

theorem addLoop_ok (F : TFacts) (opIds : List Iri) (t : Iri) : LockOK re aw ad [] (addLoop F opIds t) := by
  unfold addLoop
  refine Lk.bind (Lk.lock_nil t) fun _ => Lk.finally_ (H1 := [t]) ?_ (Lk.unlock_head t)
  lk_auto

theorem add_ok (F : TFacts) (op target : List J) : LockOK re aw ad [] (add F op target) := by
  unfold add
  apply Lk.bind (Lk.idsM _ _); intro opIds
  apply Lk.bind (Lk.idsM _ _); intro tIds
  exact Lk.forM _ (fun t => addLoop_ok F opIds t) _

theorem removeLoop_ok (F : TFacts) (opIds : List Iri) (t : Iri) : LockOK re aw ad [] (removeLoop F opIds t) := by
  unfold removeLoop
  refine Lk.bind (Lk.lock_nil t) fun _ => Lk.finally_ (H1 := [t]) ?_ (Lk.unlock_head t)
  lk_auto

theorem remove_ok (F : TFacts) (op target : List J) : LockOK re aw ad [] (remove F op target) := by
  unfold remove
  apply Lk.bind (Lk.idsM _ _); intro opIds
  apply Lk.bind (Lk.strsOf _ _); intro opIds
  apply Lk.bind (Lk.idsM _ _); intro tIds
  exact Lk.forM _ (fun t => removeLoop_ok F opIds t) _

theorem dedupeKey_ok {H : List Iri} (F : TFacts) (j : J) : LockOK re aw ad H (dedupeKey F j) := by
  unfold dedupeKey
  lk_auto

theorem dedupeGo_ok {H : List Iri} (F : TFacts) (xs : List J) (seen : List Iri) : LockOK re aw ad H (dedupeGo F xs seen) := by
  induction xs generalizing seen with
  | nil => exact Lk.pure' _
  | cons j rest ih =>
    unfold dedupeGo
    apply Lk.bind (dedupeKey_ok F j); intro id
    split
    · exact ih _
    · exact Lk.bind (ih _) fun _ => Lk.pure' _

theorem dedupeOrderedItems_ok {H : List Iri} (F : TFacts) (oc : J) : LockOK re aw ad H (dedupeOrderedItems F oc) := by
  unfold dedupeOrderedItems
  split
  · exact Lk.pure' _
  · exact Lk.bind (dedupeGo_ok F _ _) fun _ => Lk.pure' _

theorem addResponseHeaders_ok {H : List Iri} : LockOK re true ad H addResponseHeaders := by
  unfold addResponseHeaders
  lk_auto

/-! ### pub/federating_wrapped_callbacks.go -/

theorem wrappedAfter_ok {H : List Iri} (fed : Bool) (cfg : CbConfig) (ty : String) (a : J) :
    LockOK re aw ad H (wrappedAfter fed cfg ty a) := by
  unfold wrappedAfter
  lk_auto

theorem requireObject_ok {H : List Iri} (F : TFacts) (a : J) : LockOK re aw ad H (requireObject F a) := by
  unfold requireObject; lk_auto

theorem requireTarget_ok {H : List Iri} (F : TFacts) (a : J) : LockOK re aw ad H (requireTarget F a) := by
  unfold requireTarget; lk_auto

theorem valueOrFetch_ok {H : List Iri} (F : TFacts) (box : Iri) (j : J) : LockOK re aw ad H (valueOrFetch F box j) := by
  unfold valueOrFetch; lk_auto

theorem findMe_ok {H : List Iri} (F : TFacts) (site : String) (xs : List J) (me : Iri) : LockOK re aw ad H (findMe F site xs me) := by
  unfold findMe; lk_auto

theorem needProp_ok {H : List Iri} (F : TFacts) (site : String) (v : J) (p : String) : LockOK re aw ad H (needProp F site v p) := by
  unfold needProp; lk_auto

theorem needPropE_ok {H : List Iri} (F : TFacts) (v : J) (p : String) : LockOK re aw ad H (needPropE F v p) := by
  unfold needPropE; lk_auto

theorem fedCreate_ok (F : TFacts) (cfg : CbConfig) (box : Iri) (a : J) : LockOK re aw ad [] (fedCreate F cfg box a) := by
  unfold fedCreate
  apply Lk.bind (requireObject_ok _ _); intro op
  apply Lk.bind
  · apply Lk.forM; intro j
    apply Lk.bind (valueOrFetch_ok _ _ _); intro t
    lk_auto
  · intro _; exact wrappedAfter_ok _ _ _ _

theorem fedUpdate_ok (F : TFacts) (cfg : CbConfig) (a : J) : LockOK re aw ad [] (fedUpdate F cfg a) := by
  unfold fedUpdate
  apply Lk.bind (requireObject_ok _ _); intro op
  apply Lk.bind (mustHaveActivityOriginMatchObjects_ok _ _); intro _
  apply Lk.bind
  · lk_auto
  · intro _; exact wrappedAfter_ok _ _ _ _

theorem fedDelete_ok (F : TFacts) (cfg : CbConfig) (a : J) : LockOK re aw ad [] (fedDelete F cfg a) := by
  unfold fedDelete
  apply Lk.bind (requireObject_ok _ _); intro op
  apply Lk.bind (mustHaveActivityOriginMatchObjects_ok _ _); intro _
  apply Lk.bind
  · lk_auto
  · intro _; exact wrappedAfter_ok _ _ _ _

theorem followIsMe_ok {H : List Iri} (F : TFacts) (cfg : CbConfig) (op : List J) (actorIRI : Iri) :
    LockOK re aw ad H (followIsMe F cfg op actorIRI) := by
  unfold followIsMe
  split
  · exact Lk.pure' _
  · exact Lk.bind (Lk.strOf _ _) fun me => findMe_ok _ _ _ _

theorem followUpdateFollowers_ok (actorIRI : Iri) (rs : List Iri) : LockOK re aw ad [] (followUpdateFollowers actorIRI rs) := by
  unfold followUpdateFollowers
  exact Lk.locked (by simp) (by lk_auto)

theorem followRespond_ok (F : TFacts) (cfg : CbConfig) (box : Iri) (a : J) (actorIRI : Iri)
    (addNewIds : J → Prog J) (deliver : Iri → J → Prog J)
    (h1 : ∀ v, LockOK re aw ad [] (addNewIds v)) (h2 : ∀ o v, LockOK re aw ad [] (deliver o v)) :
    LockOK re aw ad [] (followRespond F cfg box a actorIRI addNewIds deliver) := by
  unfold followRespond followResponseType
  apply Lk.bind (by lk_auto); intro ty
  apply Lk.bind (needList_ok _ _); intro fa
  apply Lk.bind (Lk.idsM _ _); intro rs
  apply Lk.bind (Lk.strsOf _ _); intro rs
  apply Lk.bind
  · split
    · exact followUpdateFollowers_ok _ _
    · exact Lk.pure' _
  intro _
  apply Lk.bind (Lk.locked (by simp) (by lk_auto)); intro outboxIRI
  exact Lk.bind (h1 _) fun resp => Lk.bind (h2 _ _) fun _ => Lk.pure' _

theorem fedFollow_ok (F : TFacts) (cfg : CbConfig) (box : Iri) (a : J)
    (addNewIds : J → Prog J) (deliver : Iri → J → Prog J)
    (h1 : ∀ v, LockOK re aw ad [] (addNewIds v)) (h2 : ∀ o v, LockOK re aw ad [] (deliver o v)) :
    LockOK re aw ad [] (fedFollow F cfg box a addNewIds deliver) := by
  unfold fedFollow
  apply Lk.bind (requireObject_ok _ _); intro op
  apply Lk.bind (Lk.locked (by simp) (by lk_auto)); intro actorIRI
  apply Lk.bind (followIsMe_ok _ _ _ _); intro isMe
  apply Lk.bind
  · split
    · exact followRespond_ok _ _ _ _ _ _ _ h1 h2
    · exact Lk.pure' _
  · intro _; exact Lk.bind (wrappedAfter_ok _ _ _ _) fun _ => Lk.pure' _

theorem acceptFindFollow_ok (F : TFacts) (box : Iri) (op : List J) (actorIRI : Iri) :
    LockOK re aw ad [] (acceptFindFollow F box op actorIRI) := by
  unfold acceptFindFollow
  apply Lk.foldlM; intro found j
  split
  · exact Lk.pure' _
  · apply Lk.bind (valueOrFetch_ok _ _ _); intro t
    split
    · exact Lk.pure' _
    · apply Lk.bind (Lk.liftLib _); intro followId
      unfold acceptMatchFollow
      split
      · exact Lk.pure' _
      · apply Lk.bind (by lk_auto); intro me
        exact Lk.bind (findMe_ok _ _ _ _) fun hit => Lk.pure' _

theorem acceptVerifyStored_ok {k : Iri} (F : TFacts) (followIRI actorIRI : Iri) (aa : List J) :
    LockOK re aw ad [k] (acceptVerifyStored F followIRI actorIRI aa) := by
  unfold acceptVerifyStored
  apply Lk.bind (Lk.get (by simp) _); intro t
  apply Lk.bind (Lk.needVal _ _); intro t
  split
  · exact Lk.fail _
  · apply Lk.bind (needPropE_ok _ _ _); intro actors
    apply Lk.bind (by lk_auto); intro me
    apply Lk.bind (findMe_ok _ _ _ _); intro ok
    split
    · exact Lk.fail _
    · apply Lk.bind (Lk.idsM _ _); intro acceptIds
      apply Lk.bind (Lk.strsOf _ _); intro acceptIds
      apply Lk.bind (needPropE_ok _ _ _); intro followObj
      lk_auto

theorem acceptNonEmptyActors_ok {H : List Iri} (F : TFacts) (a : J) : LockOK re aw ad H (acceptNonEmptyActors F a) := by
  unfold acceptNonEmptyActors; lk_auto

theorem acceptUpdateFollowing_ok (F : TFacts) (actorIRI : Iri) (aa : List J) : LockOK re aw ad [] (acceptUpdateFollowing F actorIRI aa) := by
  unfold acceptUpdateFollowing
  exact Lk.locked (by simp) (by lk_auto)

theorem acceptFollow_ok (F : TFacts) (box : Iri) (a : J) (op : List J) : LockOK re aw ad [] (acceptFollow F box a op) := by
  unfold acceptFollow
  apply Lk.bind (Lk.locked (by simp) (by lk_auto)); intro actorIRI
  apply Lk.bind (acceptFindFollow_ok _ _ _ _); intro maybe
  split
  · exact Lk.pure' _
  · apply Lk.bind (acceptNonEmptyActors_ok _ _); intro aa
    apply Lk.bind (Lk.withLock (by simp) (acceptVerifyStored_ok _ _ _ _)); intro _
    exact acceptUpdateFollowing_ok _ _ _

theorem fedAccept_ok (F : TFacts) (cfg : CbConfig) (box : Iri) (a : J) : LockOK re aw ad [] (fedAccept F cfg box a) := by
  unfold fedAccept
  apply Lk.bind
  · split
    · exact Lk.pure' _
    · exact Lk.pure' _
    · exact acceptFollow_ok _ _ _ _
  · intro _; exact wrappedAfter_ok _ _ _ _

theorem fedAdd_ok (F : TFacts) (fed : Bool) (cfg : CbConfig) (a : J) : LockOK re aw ad [] (fedAdd F fed cfg a) := by
  unfold fedAdd
  apply Lk.bind (requireObject_ok _ _); intro op
  apply Lk.bind (requireTarget_ok _ _); intro tg
  apply Lk.bind (add_ok _ _ _); intro _
  exact wrappedAfter_ok _ _ _ _

theorem fedRemove_ok (F : TFacts) (fed : Bool) (cfg : CbConfig) (a : J) : LockOK re aw ad [] (fedRemove F fed cfg a) := by
  unfold fedRemove
  apply Lk.bind (requireObject_ok _ _); intro op
  apply Lk.bind (requireTarget_ok _ _); intro tg
  apply Lk.bind (remove_ok _ _ _); intro _
  exact wrappedAfter_ok _ _ _ _

theorem bumpCollection_ok {H : List Iri} (F : TFacts) (t : J) (p : String) (id : Iri) : LockOK re aw ad H (bumpCollection F t p id) := by
  unfold bumpCollection
  lk_auto

theorem likeLoop_ok (F : TFacts) (p : String) (id : Iri) (j : J) : LockOK re aw ad [] (likeLoop F p id j) := by
  unfold likeLoop
  apply Lk.bind (Lk.liftLib _); intro objId
  apply Lk.withLock (by simp)
  apply Lk.bind (Lk.owns (by simp) _); intro owns
  split
  · exact Lk.pure' _
  · apply Lk.bind (Lk.get (by simp) _); intro t
    apply Lk.bind (Lk.needVal _ _); intro t
    apply Lk.bind (bumpCollection_ok _ _ _ _); intro t
    exact Lk.update (by simp) _

theorem fedLike_ok (F : TFacts) (cfg : CbConfig) (a : J) : LockOK re aw ad [] (fedLike F cfg a) := by
  unfold fedLike
  apply Lk.bind (requireObject_ok _ _); intro op
  apply Lk.bind (Lk.liftLib _); intro id
  apply Lk.bind (Lk.forM _ (fun j => likeLoop_ok F _ id j) _); intro _
  exact wrappedAfter_ok _ _ _ _

theorem fedAnnounce_ok (F : TFacts) (cfg : CbConfig) (a : J) : LockOK re aw ad [] (fedAnnounce F cfg a) := by
  unfold fedAnnounce
  apply Lk.bind (Lk.liftLib _); intro id
  apply Lk.bind
  · split
    · exact Lk.pure' _
    · exact Lk.forM _ (fun j => likeLoop_ok F _ id j) _
  · intro _; exact wrappedAfter_ok _ _ _ _

theorem fedUndo_ok (F : TFacts) (fed : Bool) (cfg : CbConfig) (box : Iri) (a : J) : LockOK re aw ad [] (fedUndo F fed cfg box a) := by
  unfold fedUndo
  apply Lk.bind (requireObject_ok _ _); intro op
  apply Lk.bind (mustHaveActivityActorsMatchObjectActors_ok _ _ _ _); intro _
  exact wrappedAfter_ok _ _ _ _

theorem fedBlock_ok (F : TFacts) (cfg : CbConfig) (a : J) : LockOK re aw ad [] (fedBlock F cfg a) := by
  unfold fedBlock
  apply Lk.bind (requireObject_ok _ _); intro op
  exact wrappedAfter_ok _ _ _ _

theorem fedCb_ok (F : TFacts) (addNewIds : J → Prog J) (deliver : Iri → J → Prog J)
    (h1 : ∀ v, LockOK re aw ad [] (addNewIds v)) (h2 : ∀ o v, LockOK re aw ad [] (deliver o v))
    (cfg : CbConfig) (box : Iri) (ty : String) (a : J) : LockOK re aw ad [] (fedCb F addNewIds deliver cfg box ty a) := by
  unfold fedCb
  split
  · exact Lk.bind (fedCreate_ok _ _ _ _) fun _ => Lk.pure' _
  · exact Lk.bind (fedUpdate_ok _ _ _) fun _ => Lk.pure' _
  · exact Lk.bind (fedDelete_ok _ _ _) fun _ => Lk.pure' _
  · exact fedFollow_ok _ _ _ _ _ _ h1 h2
  · exact Lk.bind (fedAccept_ok _ _ _ _) fun _ => Lk.pure' _
  · exact Lk.bind (wrappedAfter_ok _ _ _ _) fun _ => Lk.pure' _
  · exact Lk.bind (fedAdd_ok _ _ _ _) fun _ => Lk.pure' _
  · exact Lk.bind (fedRemove_ok _ _ _ _) fun _ => Lk.pure' _
  · exact Lk.bind (fedLike_ok _ _ _) fun _ => Lk.pure' _
  · exact Lk.bind (fedAnnounce_ok _ _ _) fun _ => Lk.pure' _
  · exact Lk.bind (fedUndo_ok _ _ _ _ _) fun _ => Lk.pure' _
  · exact Lk.bind (fedBlock_ok _ _ _) fun _ => Lk.pure' _
  · exact Lk.fail _

/-! ### pub/social_wrapped_callbacks.go -/

theorem normalizeAttribution_ok {H : List Iri} (F : TFacts) (a : J) (op : List J) : LockOK re aw ad H (normalizeAttribution F a op) := by
  unfold normalizeAttribution
  lk_auto

theorem socCreate_ok (F : TFacts) (cfg : CbConfig) (a : J) : LockOK re aw ad [] (socCreate F cfg a) := by
  unfold socCreate
  apply Lk.bind (requireObject_ok _ _); intro op
  apply Lk.bind (normalizeAttribution_ok _ _ _); intro r
  split
  apply Lk.bind (normalizeRecipients_ok _ _); intro a'
  apply Lk.bind
  · lk_auto
  · intro _; exact Lk.bind (wrappedAfter_ok _ _ _ _) fun _ => Lk.pure' _

theorem socUpdateOne_ok (F : TFacts) (raw : J) (idx : Nat) (id : Iri) (j : J) : LockOK re aw ad [] (socUpdateOne F raw idx id j) := by
  unfold socUpdateOne
  lk_auto

theorem socUpdate_ok (F : TFacts) (cfg : CbConfig) (raw a : J) : LockOK re aw ad [] (socUpdate F cfg raw a) := by
  unfold socUpdate
  apply Lk.bind (requireObject_ok _ _); intro op
  apply Lk.bind (Lk.idsM _ _); intro ids
  apply Lk.bind
  · apply Lk.forM; intro x
    exact socUpdateOne_ok _ _ _ _ _
  · intro _; exact wrappedAfter_ok _ _ _ _

theorem socDelete_ok (F : TFacts) (cfg : CbConfig) (a : J) : LockOK re aw ad [] (socDelete F cfg a) := by
  unfold socDelete
  apply Lk.bind (requireObject_ok _ _); intro op
  apply Lk.bind (Lk.idsM _ _); intro ids
  apply Lk.bind
  · lk_auto
  · intro _; exact wrappedAfter_ok _ _ _ _

theorem socLike_ok (F : TFacts) (cfg : CbConfig) (outbox : Iri) (a : J) : LockOK re aw ad [] (socLike F cfg outbox a) := by
  unfold socLike
  apply Lk.bind (requireObject_ok _ _); intro op
  apply Lk.bind (Lk.locked (by simp) (by lk_auto)); intro actorIRI
  apply Lk.withLock (by simp)
  apply Lk.bind (Lk.liked (by simp) _); intro liked
  apply Lk.bind (Lk.idsM _ _); intro ids
  apply Lk.bind (Lk.update (by simp) _); intro _
  exact wrappedAfter_ok _ _ _ _

theorem socCb_ok (F : TFacts) (cfg : CbConfig) (outbox : Iri) (raw : J) (ty : String) (a : J) :
    LockOK re aw ad [] (socCb F cfg outbox raw ty a) := by
  unfold socCb
  split
  · exact Lk.bind (socCreate_ok _ _ _) fun _ => Lk.pure' _
  · exact Lk.bind (socUpdate_ok _ _ _ _) fun _ => Lk.pure' _
  · exact Lk.bind (socDelete_ok _ _ _) fun _ => Lk.pure' _
  · exact Lk.bind (requireObject_ok _ _) fun _ => Lk.bind (wrappedAfter_ok _ _ _ _) fun _ => Lk.pure' _
  · exact Lk.bind (fedAdd_ok _ _ _ _) fun _ => Lk.pure' _
  · exact Lk.bind (fedRemove_ok _ _ _ _) fun _ => Lk.pure' _
  · exact Lk.bind (socLike_ok _ _ _ _) fun _ => Lk.pure' _
  · exact Lk.bind (fedUndo_ok _ _ _ _ _) fun _ => Lk.pure' _
  · exact Lk.bind (requireObject_ok _ _) fun _ => Lk.bind (wrappedAfter_ok _ _ _ _) fun _ => Lk.pure' _
  · exact Lk.fail _

/-! ### PostInbox / PostOutbox / deliver / the entry points -/

theorem fedCbFull_ok (F : TFacts) (cfg : CbConfig) (box : Iri) (ty : String) (a : J) (hs : AcceptsStripped F ad) :
    LockOK re aw ad [] (fedCbFull F cfg box ty a) := by
  unfold fedCbFull
  exact fedCb_ok F _ _ (fun v => addNewIDs_ok F v) (fun o v => deliverS2S_ok F o v hs) cfg box ty a

theorem postInbox_ok (F : TFacts) (inbox : Iri) (a : J) (hs : AcceptsStripped F ad) : LockOK re aw ad [] (postInbox F (fedCbFull F) inbox a) := by
  unfold postInbox
  apply Lk.bind (addToInboxIfNew_ok _ _); intro isNew
  split
  · exact Lk.pure' _
  · apply Lk.bind Lk.fedCallbacks; intro cfg
    split
    · exact Lk.fail _
    · exact Lk.bind (Lk.otherCb _ _ _) fun _ => Lk.pure' _
    · exact fedCbFull_ok _ _ _ _ _ hs
    · exact Lk.bind (Lk.fedDefault _) fun _ => Lk.pure' _

theorem postOutboxEffects_ok (F : TFacts) (cfg : ActorCfg) (a : J) (outbox : Iri) (raw : J) :
    LockOK re aw ad [] (postOutboxEffects F cfg (socCb F) a outbox raw) := by
  unfold postOutboxEffects
  split
  · exact Lk.pure' _
  · apply Lk.bind Lk.socialCallbacks; intro cb
    split
    · exact Lk.fail _
    · exact Lk.bind (Lk.otherCb _ _ _) fun _ => Lk.pure' _
    · exact Lk.bind (socCb_ok _ _ _ _ _ _) fun _ => Lk.pure' _
    · exact Lk.bind (Lk.socialDefault _) fun _ => Lk.pure' _

theorem postOutbox_ok (F : TFacts) (cfg : ActorCfg) (a : J) (outbox : Iri) (raw : J) :
    LockOK re aw ad [] (postOutbox F cfg (socCb F) a outbox raw) := by
  unfold postOutbox
  exact Lk.bind (postOutboxEffects_ok _ _ _ _ _) fun r => Lk.bind (addToOutbox_ok _ _) fun _ => Lk.pure' _

theorem wrapIfNeeded_ok (F : TFacts) (outbox : Iri) (v : J) : LockOK re aw ad [] (wrapIfNeeded F outbox v) := by
  unfold wrapIfNeeded
  split
  · exact wrapInCreateM_ok _ _ _
  · exact Lk.pure' _

theorem deliver_ok (F : TFacts) (cfg : BaseCfg) (outbox : Iri) (v : J) (raw : Option J) (hs : AcceptsStripped F ad) :
    LockOK re aw ad [] (deliver F cfg outbox v raw) := by
  unfold deliver
  apply Lk.bind (wrapIfNeeded_ok _ _ _); intro v
  split
  · exact Lk.fail _
  · apply Lk.bind (addNewIDs_ok _ _); intro act
    apply Lk.bind (postOutbox_ok _ _ _ _ _); intro r
    split
    · exact deliverS2S_ok _ _ _ hs
    · exact Lk.pure' _

theorem respond_ok {H : List Iri} (status : Nat) (v : J) : LockOK re true ad H (respond status v) := by
  unfold respond
  apply Lk.bind addResponseHeaders_ok; intro _
  lk_auto

theorem viaS2S_ok {H : List Iri} (cfg : BaseCfg) (site : String) (p : Prog α) (hp : LockOK re aw ad H p) : LockOK re aw ad H (viaS2S cfg site p) := by
  unfold viaS2S; split
  · exact hp
  · exact Lk.panic _

theorem viaC2S_ok {H : List Iri} (cfg : BaseCfg) (site : String) (p : Prog α) (hp : LockOK re aw ad H p) : LockOK re aw ad H (viaC2S cfg site p) := by
  unfold viaC2S; split
  · exact hp
  · exact Lk.panic _

theorem getInboxH_ok (F : TFacts) (cfg : BaseCfg) (r : Request) : LockOK re true ad [] (getInboxH F cfg r) := by
  unfold getInboxH
  split
  · exact Lk.pure' _
  · apply Lk.bind Lk.authGetInbox; intro authed
    split
    · exact Lk.pure' _
    · apply Lk.bind (viaS2S_ok _ _ _ Lk.appGetInbox); intro oc
      apply Lk.bind (dedupeOrderedItems_ok _ _); intro oc
      exact respond_ok _ _

theorem getOutboxH_ok (r : Request) : LockOK re true ad [] (getOutboxH r) := by
  unfold getOutboxH
  split
  · exact Lk.pure' _
  · apply Lk.bind Lk.authGetOutbox; intro authed
    split
    · exact Lk.pure' _
    · apply Lk.bind Lk.appGetOutbox; intro oc
      exact respond_ok _ _

theorem handler_ok (F : TFacts) (r : Request) : LockOK re true ad [] (handler F r) := by
  unfold handler
  split
  · exact Lk.pure' _
  · apply Lk.bind (Lk.locked (by simp) (by lk_auto)); intro res
    split
    · exact Lk.fail _
    · exact respond_ok _ _

theorem send_ok (F : TFacts) (cfg : BaseCfg) (outbox : Iri) (t : J) (hs : AcceptsStripped F ad) : LockOK re aw ad [] (send F cfg outbox t) := by
  unfold send
  exact deliver_ok _ _ _ _ _ hs

theorem postOutboxScheme_ok (F : TFacts) (cfg : BaseCfg) (r : Request) (hs : AcceptsStripped F ad) : LockOK re true ad [] (postOutboxScheme F cfg r) := by
  unfold postOutboxScheme
  split
  · exact Lk.pure' _
  · split
    · exact Lk.bind (Lk.writeHeader _) fun _ => Lk.pure' _
    · apply Lk.bind (viaC2S_ok _ _ _ Lk.authPostOutbox); intro authed
      split
      · exact Lk.pure' _
      · split
        · exact Lk.fail _
        · exact Lk.bind (Lk.writeHeader _) fun _ => Lk.pure' _
        · apply Lk.bind (viaC2S_ok _ _ _ (Lk.hookOutbox _)); intro _
          apply Lk.bind (Lk.try_ (deliver_ok _ _ _ _ _ hs)); intro res
          split
          · exact Lk.bind (Lk.writeHeader _) fun _ => Lk.pure' _
          · exact Lk.bind (Lk.writeHeader _) fun _ => Lk.pure' _
          · exact Lk.fail _
          · lk_auto

/-! ### Inbox forwarding: balance (re-entry excluded — see the recorded finding C09-fwd-relock) -/

theorem hasInboxForwardingValues_ok (F : TFacts) (box : Iri) (maxDepth : Int) (fuel cur : Nat) (v : J) (H : List Iri) :
    LockOK false aw ad H (hasInboxForwardingValues F box maxDepth fuel cur v) := by
  induction fuel generalizing cur v with
  | zero => exact Lk.panic _
  | succ n ih =>
    unfold hasInboxForwardingValues
    split
    · exact Lk.pure' _
    · dsimp only
      apply Lk.bind
      · apply Lk.foldlM; intro found iri
        split
        · exact Lk.pure' _
        · exact Lk.locked (by simp) (Lk.owns (by simp) _)
      intro hit
      split
      · exact Lk.pure' _
      · apply Lk.bind
        · apply Lk.foldlM; intro found v'
          split
          · exact Lk.pure' _
          · exact Lk.bind (Lk.liftLib _) fun id => Lk.locked (by simp) (Lk.owns (by simp) _)
        intro hit
        split
        · exact Lk.pure' _
        · apply Lk.bind
          · apply Lk.foldlM; intro acc iri
            apply Lk.bind (Lk.newTransport _); intro _
            apply Lk.bind (Lk.derefE _); intro r
            lk_auto
          intro fetched
          apply Lk.foldlM; intro found v'
          split
          · exact Lk.pure' _
          · exact ih _ _

theorem colMembers_ok {H : List Iri} (F : TFacts) (t : J) : LockOK re aw ad H (colMembers F t) := by
  unfold colMembers
  lk_auto

theorem fwdLoad_ok (F : TFacts) (iris : List Iri) (cols : List (Iri × J)) (k : List (Iri × J) → Prog α) (H : List Iri)
    (hk : ∀ cols' H', LockOK false aw ad H' (k cols')) : LockOK false aw ad H (fwdLoad F iris cols k) := by
  induction iris generalizing cols H with
  | nil => unfold fwdLoad; exact hk _ _
  | cons iri rest ih =>
    unfold fwdLoad
    split
    · exact ih _ _
    · apply Lk.bind (Lk.lock (He := H) iri (by simp)); intro _
      apply Lk.bind (Lk.try_ (He := H) (Lk.get (by simp) _)); intro r
      split
      · exact Lk.bind (Lk.unlock_head (He := H) iri) fun _ => Lk.fail _
      · exact Lk.panic _
      · split
        · exact Lk.finally_ (ih _ _) (Lk.unlock_head iri)
        · exact Lk.bind (Lk.unlock_head (He := H) iri) fun _ => ih _ _

theorem inboxForwarding_ok (F : TFacts) (box : Iri) (a : J) (hp : ad a = true) : LockOK false aw ad [] (inboxForwarding F box a) := by
  unfold inboxForwarding
  apply Lk.bind (Lk.activityIdGet _ _); intro id
  apply Lk.bind (Lk.locked (by simp) (by lk_auto)); intro seen
  split
  · exact Lk.pure' _
  · apply Lk.bind (by lk_auto); intro rs
    apply Lk.bind
    · apply Lk.foldlM; intro acc iri
      exact Lk.bind (Lk.locked (by simp) (Lk.owns (by simp) _)) fun _ => Lk.pure' _
    intro myIRIs
    apply fwdLoad_ok
    intro cols H'
    split
    · exact Lk.pure' _
    · apply Lk.bind Lk.maxFwdDepth; intro md
      apply Lk.bind (hasInboxForwardingValues_ok _ _ _ _ _ _ _); intro owns
      split
      · exact Lk.pure' _
      · apply Lk.bind (Lk.filterForwarding _ _); intro toSend
        apply Lk.bind
        · apply Lk.foldlM; intro acc iri
          split
          · exact Lk.pure' _
          · exact Lk.bind (colMembers_ok _ _) fun _ => Lk.pure' _
        intro rcpts
        exact deliverToRecipients_ok _ _ _ hp

/-- `PostInboxScheme` up to (not including) inbox forwarding satisfies the full discipline; with forwarding,
the balance part. -/
theorem postInboxScheme_ok (F : TFacts) (cfg : BaseCfg) (r : Request) : LockOK false true anyPayload [] (postInboxScheme F cfg r) := by
  unfold postInboxScheme
  split
  · exact Lk.pure' _
  · split
    · exact Lk.bind (Lk.writeHeader _) fun _ => Lk.pure' _
    · apply Lk.bind (viaS2S_ok _ _ _ Lk.authPostInbox); intro authed
      split
      · exact Lk.pure' _
      · split
        · exact Lk.fail _
        · exact Lk.bind (Lk.writeHeader _) fun _ => Lk.pure' _
        · split
          · exact Lk.fail _
          · split
            · exact Lk.bind (Lk.writeHeader _) fun _ => Lk.pure' _
            · apply Lk.bind (Lk.hookInbox _); intro _
              apply Lk.bind (authorizePostInbox_ok _ _); intro authorized
              split
              · exact Lk.pure' _
              · apply Lk.bind (Lk.try_ (postInbox_ok _ _ _ (fun _ => rfl))); intro res
                split
                · exact Lk.bind (Lk.writeHeader _) fun _ => Lk.pure' _
                · exact Lk.bind (Lk.writeHeader _) fun _ => Lk.pure' _
                · exact Lk.fail _
                · apply Lk.bind (inboxForwarding_ok _ _ _ rfl); intro _
                  exact Lk.bind (Lk.writeHeader _) fun _ => Lk.pure' _

end AV
