import AV.Spec.C20
import AV.Lemmas.JsonLemmas
/-
C03 building blocks: `clearSensitiveFields` removes bto/bcc at every depth of `object` nesting;
`stripHiddenRecipients` removes them from the activity and its directly embedded objects.
-/
namespace AV
open Pub Val

theorem find_type_clearKvs (F : TFacts) (tn : String) (kvs : List (String × J)) :
    (clearKvs F tn kvs).find? (fun kv => kv.1 == "type") = kvs.find? (fun kv => kv.1 == "type") := by
  induction kvs with
  | nil => simp [clearKvs]
  | cons kv rest ih =>
    obtain ⟨k, v⟩ := kv
    unfold clearKvs
    split
    · rename_i h
      have hk : (k == "type") = false := by
        rcases (by simpa using h : (k = "bto" ∧ _) ∨ (k = "bcc" ∧ _)) with h | h <;> (rw [h.1]; decide)
      simp [List.find?_cons, hk, ih]
    · split
      · rename_i h
        have hk : (k == "type") = false := by
          have : k = "object" := by simpa using (by simpa using h : k = "object" ∧ _).1
          rw [this]; decide
        simp [List.find?_cons, hk, ih]
      · simp only [List.find?_cons]
        split <;> simp_all

theorem typeName_clearKvs (F : TFacts) (tn : String) (kvs : List (String × J)) :
    typeName (.obj (clearKvs F tn kvs)) = typeName (.obj kvs) := by
  simp only [typeName, J.get?, find_type_clearKvs]

mutual
theorem noHidden_clear (F : TFacts) : ∀ v : J, noHiddenDeep F (clearSensitive F v) = true
  | .obj kvs => by
    unfold clearSensitive
    split
    · rename_i hk
      unfold noHiddenDeep
      rw [typeName_clearKvs, if_pos hk]
      exact noHidden_clearKvs F (typeName (.obj kvs)) kvs
    · rename_i hk
      unfold noHiddenDeep
      rw [if_neg hk]
  | .null => by simp [clearSensitive, noHiddenDeep]
  | .bool _ => by simp [clearSensitive, noHiddenDeep]
  | .num _ _ => by simp [clearSensitive, noHiddenDeep]
  | .str _ => by simp [clearSensitive, noHiddenDeep]
  | .arr _ => by simp [clearSensitive, noHiddenDeep]
theorem noHidden_clearKvs (F : TFacts) (tn : String) : ∀ kvs : List (String × J), noHiddenKvs F tn (clearKvs F tn kvs) = true
  | [] => by simp [clearKvs, noHiddenKvs]
  | (k, v) :: rest => by
    unfold clearKvs
    split
    · exact noHidden_clearKvs F tn rest
    · rename_i h1
      split
      · rename_i h2
        unfold noHiddenKvs
        simp only [h1, Bool.not_false, Bool.true_and, h2, ↓reduceIte, Bool.and_eq_true]
        exact ⟨noHidden_clearObjVal F v, noHidden_clearKvs F tn rest⟩
      · rename_i h2
        unfold noHiddenKvs
        simp only [h1, Bool.not_false, Bool.true_and, h2, Bool.false_eq_true, ↓reduceIte]
        exact noHidden_clearKvs F tn rest
theorem noHidden_clearObjVal (F : TFacts) : ∀ v : J, noHiddenObjVal F (clearObjVal F v) = true
  | .arr xs => by
    unfold clearObjVal noHiddenObjVal
    exact noHidden_clearList F xs
  | .obj kvs => by
    unfold clearObjVal
    have h := noHidden_clear F (.obj kvs)
    -- clearSensitive of an object is an object
    cases hc : clearSensitive F (.obj kvs) with
    | obj kvs' => rw [hc] at h; unfold noHiddenObjVal; exact h
    | null => simp [noHiddenObjVal]
    | bool _ => simp [noHiddenObjVal]
    | num _ _ => simp [noHiddenObjVal]
    | str _ => simp [noHiddenObjVal]
    | arr xs' =>
      exfalso
      unfold clearSensitive at hc
      split at hc <;> cases hc
  | .null => by simp [clearObjVal, noHiddenObjVal]
  | .bool _ => by simp [clearObjVal, noHiddenObjVal]
  | .num _ _ => by simp [clearObjVal, noHiddenObjVal]
  | .str _ => by simp [clearObjVal, noHiddenObjVal]
theorem noHidden_clearList (F : TFacts) : ∀ xs : List J, noHiddenList F (clearList F xs) = true
  | [] => by simp [clearList, noHiddenList]
  | x :: xs => by
    unfold clearList noHiddenList
    rw [noHidden_clear F x, noHidden_clearList F xs]; rfl
end

end AV

namespace AV
open Pub Val

theorem typeName_erase (j : J) (k : String) (hk : k ≠ "type") : typeName (j.erase k) = typeName j := by
  simp only [typeName, J.get_erase_other j k "type" (fun e => hk e.symm)]

theorem typeName_set (j : J) (k : String) (v : J) (hk : k ≠ "type") : typeName (j.set k v) = typeName j := by
  simp only [typeName, J.get_set_other j k "type" v (fun e => hk e.symm)]

theorem has_def (j : J) (k : String) : j.has k = (j.get? k).isSome := rfl

@[simp] theorem typeName_erase_bto (j : J) : typeName (j.erase "bto") = typeName j := typeName_erase j _ (by decide)
@[simp] theorem typeName_erase_bcc (j : J) : typeName (j.erase "bcc") = typeName j := typeName_erase j _ (by decide)

/-- `stripOne` leaves no bto/bcc that the value's type knows about, and keeps its type -/
theorem stripOne_clean (F : TFacts) (v : J) :
    (has F (stripOne F v) "bto" && (stripOne F v).has "bto") = false ∧
    (has F (stripOne F v) "bcc" && (stripOne F v).has "bcc") = false ∧
    typeName (stripOne F v) = typeName v := by
  unfold stripOne
  simp only [Val.has, Val.clear]
  by_cases h1 : F.hasProp (typeName v) "bto" = true <;> by_cases h2 : F.hasProp (typeName v) "bcc" = true <;>
    simp [h1, h2, has_def, J.get_erase_same, J.get_erase_other _ "bcc" "bto" (by decide)]

def elemClean (F : TFacts) (j : J) : Bool :=
  match elemOf F j with
  | .emb o => !(has F o "bto" && o.has "bto") && !(has F o "bcc" && o.has "bcc")
  | _ => true

theorem isObj_erase (j : J) (k : String) : (j.erase k).isObj = j.isObj := by cases j <;> rfl

theorem stripOne_isObj (F : TFacts) (v : J) : (stripOne F v).isObj = v.isObj := by
  unfold stripOne
  simp only [Val.clear]
  split <;> split <;> simp [isObj_erase]

theorem elemOf_obj (F : TFacts) (j : J) (h : j.isObj = true) :
    elemOf F j = if F.known (typeName j) then .emb j else .other j := by
  cases j <;> simp_all [J.isObj, elemOf]

theorem elemOf_emb (F : TFacts) (j v : J) (h : elemOf F j = .emb v) : v = j ∧ j.isObj = true ∧ F.known (typeName j) = true := by
  cases j with
  | obj kvs =>
    simp only [elemOf] at h
    split at h
    · rename_i hk; cases h; exact ⟨rfl, rfl, hk⟩
    · cases h
  | str s => simp only [elemOf] at h; split at h <;> cases h
  | null => cases h
  | bool _ => cases h
  | num _ _ => cases h
  | arr _ => cases h

theorem stripElem_clean (F : TFacts) (j : J) : elemClean F (stripElem F j) = true := by
  unfold stripElem
  split
  · rename_i v hv
    obtain ⟨rfl, hobj, hk⟩ := elemOf_emb F j v hv
    obtain ⟨c1, c2, c3⟩ := stripOne_clean F v
    unfold elemClean
    rw [elemOf_obj F _ (by rw [stripOne_isObj]; exact hobj), c3, if_pos hk]
    simp [c1, c2]
  · rename_i hne
    unfold elemClean
    split
    · rename_i o ho; exact absurd ho (hne o)
    · rfl

theorem stripElem_notArr (F : TFacts) (j : J) (h : ∀ xs, j ≠ .arr xs) : ∀ xs, stripElem F j ≠ .arr xs := by
  unfold stripElem
  split
  · rename_i v hv
    obtain ⟨rfl, hobj, _⟩ := elemOf_emb F j v hv
    intro xs he
    have := stripOne_isObj F v
    rw [he, hobj] at this
    cases this
  · exact h

/-- what `noHidden1` asks of the `object` member, on raw lists -/
theorem noHidden1_iff (F : TFacts) (v : J) : noHidden1 F v =
    (!v.has "bto" && !v.has "bcc" && (match prop F v "object" with | none => true | some xs => xs.all (elemClean F))) := by
  unfold noHidden1 elemClean
  rfl

/-- **stripHiddenRecipients**: afterwards neither the activity nor any typed value directly embedded in its
`object` carries bto or bcc -/
theorem strip_noHidden1 (F : TFacts) (a : J) : noHidden1 F (stripHiddenRecipients F a) = true := by
  rw [noHidden1_iff]
  unfold stripHiddenRecipients
  simp only [Val.clear]
  generalize ha1 : (a.erase "bto").erase "bcc" = a1
  have hbto : a1.has "bto" = false := by
    subst ha1; simp [has_def, J.get_erase_other _ "bcc" "bto" (by decide), J.get_erase_same]
  have hbcc : a1.has "bcc" = false := by
    subst ha1; simp [has_def, J.get_erase_same]
  split
  · rename_i hp
    simp [hbto, hbcc, hp]
  · rename_i xs hp
    -- the property is present: the type has it and the member exists
    have hhas : Val.has F a1 "object" = true := by
      unfold Val.prop at hp; split at hp
      · assumption
      · cases hp
    have hraw : rawList a1 "object" = some xs := by
      unfold Val.prop at hp; rw [if_pos hhas] at hp; exact hp
    have hobj : a1.isObj = true := by
      unfold rawList at hraw
      cases a1 <;> simp_all [J.get?, J.isObj]
    -- the shape of the member decides how it is rewritten
    have key : ∃ ys, (∀ y ∈ ys, elemClean F y = true) ∧
        Val.prop F (mapRaw a1 "object" (stripElem F)) "object" = some ys ∧
        (mapRaw a1 "object" (stripElem F)).has "bto" = false ∧ (mapRaw a1 "object" (stripElem F)).has "bcc" = false := by
      unfold mapRaw
      unfold rawList at hraw
      cases hget : a1.get? "object" with
      | none => rw [hget] at hraw; cases hraw
      | some x =>
        have hprop : ∀ w, Val.prop F (a1.set "object" w) "object" = rawList (a1.set "object" w) "object" := by
          intro w
          unfold Val.prop Val.has
          rw [typeName_set _ _ _ (by decide)]
          unfold Val.has at hhas
          rw [if_pos hhas]
        have hb1 : ∀ w, (a1.set "object" w).has "bto" = false := fun w => by
          rw [has_def, J.get_set_other _ _ _ _ (by decide)]; exact hbto
        have hb2 : ∀ w, (a1.set "object" w).has "bcc" = false := fun w => by
          rw [has_def, J.get_set_other _ _ _ _ (by decide)]; exact hbcc
        cases x with
        | arr ys =>
          refine ⟨ys.map (stripElem F), ?_, ?_, hb1 _, hb2 _⟩
          · intro y hy
            obtain ⟨j, _, rfl⟩ := List.mem_map.mp hy
            exact stripElem_clean F j
          · rw [hprop]; unfold rawList; rw [J.get_set_same _ _ _ hobj]
        | null =>
          refine ⟨[stripElem F .null], ?_, ?_, hb1 _, hb2 _⟩
          · intro y hy; simp at hy; subst hy; exact stripElem_clean F _
          · rw [hprop]; unfold rawList; rw [J.get_set_same _ _ _ hobj]; rfl
        | bool b =>
          refine ⟨[stripElem F (.bool b)], ?_, ?_, hb1 _, hb2 _⟩
          · intro y hy; simp at hy; subst hy; exact stripElem_clean F _
          · rw [hprop]; unfold rawList; rw [J.get_set_same _ _ _ hobj]; rfl
        | num m e =>
          refine ⟨[stripElem F (.num m e)], ?_, ?_, hb1 _, hb2 _⟩
          · intro y hy; simp at hy; subst hy; exact stripElem_clean F _
          · rw [hprop]; unfold rawList; rw [J.get_set_same _ _ _ hobj]; rfl
        | str st =>
          refine ⟨[stripElem F (.str st)], ?_, ?_, hb1 _, hb2 _⟩
          · intro y hy; simp at hy; subst hy; exact stripElem_clean F _
          · rw [hprop]; unfold rawList; rw [J.get_set_same _ _ _ hobj]
            have : stripElem F (.str st) = .str st := by
              unfold stripElem
              split
              · rename_i v hv
                have := (elemOf_emb F _ v hv).2.1
                cases this
              · rfl
            rw [this]
        | obj kvs =>
          refine ⟨[stripElem F (.obj kvs)], ?_, ?_, hb1 _, hb2 _⟩
          · intro y hy; simp at hy; subst hy; exact stripElem_clean F _
          · rw [hprop]; unfold rawList; rw [J.get_set_same _ _ _ hobj]
            have hno := stripElem_notArr F (.obj kvs) (fun xs he => by cases he)
            cases hs : stripElem F (.obj kvs) with
            | arr zs => exact absurd hs (hno zs)
            | _ => rfl
    obtain ⟨ys, hclean, hprop, h1, h2⟩ := key
    simp only [h1, h2, hprop, Bool.not_false, Bool.true_and]
    exact List.all_eq_true.mpr hclean

end AV
