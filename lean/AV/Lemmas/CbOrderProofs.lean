import AV.Lemmas.CbOrder
/-
`Fw` for the default effect of every federating callback, and the theorem: the wrapped application callback runs only
after the default effect succeeded, once, and last.
-/
namespace AV
open Prog Pub Val

namespace Fw

theorem unlock_any (k : Iri) (s : CbSt) : SafeP cbOrderMon s (Op.unlock k) (fun s' _ => s' = s) := by
  unfold Op.unlock
  apply Fw.call
  intro r
  exact ⟨s, rfl, rfl⟩

/-- `body` with a deferred Unlock -/
theorem finallyUnlock {p : Prog α} (k : Iri) (hp : Fw p) : Fw (Prog.finally_ p (Op.unlock k)) := by
  intro s h1 h2
  apply SafeP.finally_
  apply SafeP.mono (hp s h1 h2)
  intro s1 o h
  apply SafeP.mono (unlock_any k s1)
  intro s2 o2 e
  subst e
  cases o2 with
  | some _ => exact h
  | none =>
    cases o with
    | none => exact h
    | some _ =>
      have : s2 = s := h
      subst this
      exact h2

theorem withLock {k : Iri} {body : Prog α} (hb : Fw body) : Fw (Pub.withLock k body) := by
  unfold Pub.withLock
  exact bind (lock k) fun _ => finallyUnlock k hb

/-- `Lock(k); r := try body; Unlock(k); return r` -/
theorem locked {k : Iri} {body : Prog α} (hb : Fw body) : Fw (Op.locked k body) := by
  unfold Op.locked
  intro s h1 h2
  apply SafeP.bind
  apply SafeP.mono (lock k s h1 h2)
  intro s1 o1 e1
  cases o1 with
  | none => exact e1
  | some _ =>
    have : s1 = s := e1
    subst this
    apply SafeP.bind
    apply SafeP.try_
    apply SafeP.mono (hb s1 h1 h2)
    intro s2 o2 e2
    cases o2 with
    | some a =>
      have : s2 = s1 := e2
      subst this
      apply SafeP.bind
      apply SafeP.mono (unlock_any k s2)
      intro s3 o3 e3
      subst e3
      cases o3 with
      | none => exact h2
      | some _ => rfl
    | none =>
      intro e
      apply SafeP.bind
      apply SafeP.mono (unlock_any k s2)
      intro s3 o3 e3
      subst e3
      cases o3 <;> exact e2

theorem strOf (site : String) (u : Iri) : Fw (Pub.strOf site u) := by
  unfold Pub.strOf; split <;> first | exact panic _ | exact ret _
theorem strsOf (site : String) (us : List Iri) : Fw (Pub.strsOf site us) := by
  unfold Pub.strsOf; split <;> first | exact panic _ | exact ret _
theorem idsM (F : TFacts) (xs : List J) : Fw (Pub.idsM F xs) := liftLib _
theorem needVal (site : String) (o : Option J) : Fw (Pub.needVal site o) := by
  unfold Pub.needVal; split <;> first | exact panic _ | exact ret _
theorem docVal (d : Doc) : Fw (Pub.docVal d) := by
  unfold Pub.docVal; split <;> first | exact fail _ | exact ret _
theorem activityIdGet (site : String) (a : J) : Fw (Pub.activityIdGet site a) := by
  unfold Pub.activityIdGet; split <;> first | exact panic _ | exact ret _

/-- a fragment that only dereferences leaves the state alone even when it fails: its failure may be skipped -/
theorem try_keep {p : Prog α} (hp : Fk p) : Fw (Prog.try_ p) := by
  intro s _ h2
  apply SafeP.try_
  apply SafeP.mono (hp s h2)
  intro s' o e
  subst e
  cases o with
  | none => intro _; rfl
  | some _ => rfl

end Fw

namespace Fk

theorem ret (a : α) : Fk (Prog.ret a) := fun _ _ => rfl
theorem pure' (a : α) : Fk (pure a : Prog α) := fun _ _ => rfl
theorem fail (e : Err) : Fk (Prog.fail e : Prog α) := fun _ _ => rfl
theorem panic (site : String) : Fk (Prog.panic site : Prog α) := fun _ _ => trivial

theorem bind {p : Prog α} {f : α → Prog β} (hp : Fk p) (hf : ∀ a, Fk (f a)) : Fk (p >>= f) := by
  intro s h
  apply SafeP.bind
  apply SafeP.mono (hp s h)
  intro s' o e
  subst e
  cases o with
  | none => rfl
  | some a => exact hf a s' h

theorem deref (u : Iri) : Fk (Op.deref u) := by
  intro s h
  unfold Op.deref
  apply Fw.call
  intro r
  refine ⟨s, by obtain ⟨f, d⟩ := s; simp_all [cbOrderMon], ?_⟩
  cases r <;> rfl

theorem docVal (d : Doc) : Fk (Pub.docVal d) := by
  unfold Pub.docVal; split <;> first | exact fail _ | exact ret _

theorem idsM (F : TFacts) (xs : List J) : Fk (Pub.idsM F xs) := by
  unfold Pub.idsM AV.liftLib
  split <;> first | exact fail _ | exact ret _

end Fk

macro "fk_step" : tactic => `(tactic| first
  | intro _ | split
  | exact Fk.ret _ | exact Fk.pure' _ | exact Fk.fail _ | exact Fk.panic _ | exact Fk.idsM _ _ | exact Fk.docVal _ | exact Fk.deref _
  | dsimp only | apply Fk.bind)

section
attribute [local irreducible] Fk
theorem derefTail_fk (F : TFacts) (d : Doc) : Fk (derefTail F d) := by
  unfold derefTail
  repeat fk_step

theorem dereferenceForResolvingInboxes_fk (F : TFacts) (u : Iri) : Fk (dereferenceForResolvingInboxes F u) := by
  unfold dereferenceForResolvingInboxes
  exact Fk.bind (Fk.deref u) fun d => derefTail_fk F d
end

attribute [local irreducible] Pub.withLock Op.locked Fw

syntax "fw_leaf" : tactic
macro_rules | `(tactic| fw_leaf) => `(tactic| first
  | exact Fw.ret _ | exact Fw.pure' _ | exact Fw.fail _ | exact Fw.panic _
  | exact Fw.liftLib _ | exact Fw.strOf _ _ | exact Fw.strsOf _ _ | exact Fw.idsM _ _ | exact Fw.needVal _ _
  | exact Fw.docVal _ | exact Fw.activityIdGet _ _ | exact Fw.ofE _ | exact Fw.lock _ | exact Fw.unlock _
  | exact Fw.newID _ | exact Fw.newTransport _ | exact Fw.deref _ | exact Fw.derefE _ | exact Fw.batchDeliver _ _
  | exact Fw.maxDeliveryDepth | exact Fw.now
  | exact Fw.owns _ | exact Fw.actorForOutbox _ | exact Fw.actorForInbox _
  | exact Fw.outboxForInbox _ | exact Fw.inboxForActor _ | exact Fw.exists_ _
  | exact Fw.get _ | exact Fw.create _ | exact Fw.update _ | exact Fw.delete _
  | exact Fw.getOutbox _ | exact Fw.setOutbox _ | exact Fw.followers _ | exact Fw.following _ | exact Fw.liked _)

macro "fw_step" : tactic => `(tactic| first
  | intro _
  | split
  | fw_leaf
  | dsimp only
  | (apply Fw.withLock)
  | (apply Fw.locked)
  | (apply Fw.finallyUnlock)
  | (apply Fw.foldlM; intro _ _)
  | (apply Fw.forM; intro _)
  | (apply Fw.bind)
  | (apply Fw.bind'))

macro "fw_auto" : tactic => `(tactic| repeat fw_step)

theorem requireObject_fw (F : TFacts) (a : J) : Fw (requireObject F a) := by
  unfold requireObject; fw_auto
macro_rules | `(tactic| fw_leaf) => `(tactic| exact requireObject_fw ..)

theorem requireTarget_fw (F : TFacts) (a : J) : Fw (requireTarget F a) := by
  unfold requireTarget; fw_auto
macro_rules | `(tactic| fw_leaf) => `(tactic| exact requireTarget_fw ..)

theorem valueOrFetch_fw (F : TFacts) (box : Iri) (j : J) : Fw (valueOrFetch F box j) := by
  unfold valueOrFetch; fw_auto
macro_rules | `(tactic| fw_leaf) => `(tactic| exact valueOrFetch_fw ..)

theorem mustHaveActivityOriginMatchObjects_fw (F : TFacts) (a : J) : Fw (mustHaveActivityOriginMatchObjects F a) := by
  unfold mustHaveActivityOriginMatchObjects; fw_auto
macro_rules | `(tactic| fw_leaf) => `(tactic| exact mustHaveActivityOriginMatchObjects_fw ..)

theorem findMe_fw (F : TFacts) (site : String) (xs : List J) (me : Iri) : Fw (findMe F site xs me) := by
  unfold findMe; fw_auto
macro_rules | `(tactic| fw_leaf) => `(tactic| exact findMe_fw ..)

theorem followIsMe_fw (F : TFacts) (cfg : CbConfig) (op : List J) (actorIRI : Iri) : Fw (followIsMe F cfg op actorIRI) := by
  unfold followIsMe; fw_auto
macro_rules | `(tactic| fw_leaf) => `(tactic| exact followIsMe_fw ..)

theorem followResponseType_fw (cfg : CbConfig) : Fw (followResponseType cfg) := by
  unfold followResponseType; fw_auto
macro_rules | `(tactic| fw_leaf) => `(tactic| exact followResponseType_fw ..)

theorem followUpdateFollowers_fw (actorIRI : Iri) (rs : List Iri) : Fw (followUpdateFollowers actorIRI rs) := by
  unfold followUpdateFollowers; fw_auto
macro_rules | `(tactic| fw_leaf) => `(tactic| exact followUpdateFollowers_fw ..)

theorem needList_fw (site : String) (o : Option (List J)) : Fw (needList site o) := by
  unfold needList; fw_auto
macro_rules | `(tactic| fw_leaf) => `(tactic| exact needList_fw ..)

theorem needProp_fw (F : TFacts) (site : String) (v : J) (p : String) : Fw (needProp F site v p) := by
  unfold needProp; fw_auto
macro_rules | `(tactic| fw_leaf) => `(tactic| exact needProp_fw ..)

theorem needPropE_fw (F : TFacts) (v : J) (p : String) : Fw (needPropE F v p) := by
  unfold needPropE; fw_auto
macro_rules | `(tactic| fw_leaf) => `(tactic| exact needPropE_fw ..)

theorem acceptMatchFollow_fw (F : TFacts) (actorIRI followId : Iri) (actors : Option (List J)) : Fw (acceptMatchFollow F actorIRI followId actors) := by
  unfold acceptMatchFollow; fw_auto
macro_rules | `(tactic| fw_leaf) => `(tactic| exact acceptMatchFollow_fw ..)

theorem acceptFindFollow_fw (F : TFacts) (box : Iri) (op : List J) (actorIRI : Iri) : Fw (acceptFindFollow F box op actorIRI) := by
  unfold acceptFindFollow; fw_auto
macro_rules | `(tactic| fw_leaf) => `(tactic| exact acceptFindFollow_fw ..)

theorem acceptVerifyStored_fw (F : TFacts) (followIRI actorIRI : Iri) (aa : List J) : Fw (acceptVerifyStored F followIRI actorIRI aa) := by
  unfold acceptVerifyStored; fw_auto
macro_rules | `(tactic| fw_leaf) => `(tactic| exact acceptVerifyStored_fw ..)

theorem acceptNonEmptyActors_fw (F : TFacts) (a : J) : Fw (acceptNonEmptyActors F a) := by
  unfold acceptNonEmptyActors; fw_auto
macro_rules | `(tactic| fw_leaf) => `(tactic| exact acceptNonEmptyActors_fw ..)

theorem acceptUpdateFollowing_fw (F : TFacts) (actorIRI : Iri) (aa : List J) : Fw (acceptUpdateFollowing F actorIRI aa) := by
  unfold acceptUpdateFollowing; fw_auto
macro_rules | `(tactic| fw_leaf) => `(tactic| exact acceptUpdateFollowing_fw ..)

theorem acceptFollow_fw (F : TFacts) (box : Iri) (a : J) (op : List J) : Fw (acceptFollow F box a op) := by
  unfold acceptFollow; fw_auto
macro_rules | `(tactic| fw_leaf) => `(tactic| exact acceptFollow_fw ..)

theorem addLoop_fw (F : TFacts) (opIds : List Iri) (t : Iri) : Fw (addLoop F opIds t) := by
  unfold addLoop; fw_auto
macro_rules | `(tactic| fw_leaf) => `(tactic| exact addLoop_fw ..)

theorem add_fw (F : TFacts) (op target : List J) : Fw (add F op target) := by
  unfold add; fw_auto
macro_rules | `(tactic| fw_leaf) => `(tactic| exact add_fw ..)

theorem removeLoop_fw (F : TFacts) (opIds : List Iri) (t : Iri) : Fw (removeLoop F opIds t) := by
  unfold removeLoop; fw_auto
macro_rules | `(tactic| fw_leaf) => `(tactic| exact removeLoop_fw ..)

theorem remove_fw (F : TFacts) (op target : List J) : Fw (remove F op target) := by
  unfold remove; fw_auto
macro_rules | `(tactic| fw_leaf) => `(tactic| exact remove_fw ..)

theorem bumpCollection_fw (F : TFacts) (t : J) (p : String) (id : Iri) : Fw (bumpCollection F t p id) := by
  unfold bumpCollection; fw_auto
macro_rules | `(tactic| fw_leaf) => `(tactic| exact bumpCollection_fw ..)

theorem likeLoop_fw (F : TFacts) (p : String) (id : Iri) (j : J) : Fw (likeLoop F p id j) := by
  unfold likeLoop; fw_auto
macro_rules | `(tactic| fw_leaf) => `(tactic| exact likeLoop_fw ..)

theorem undoObjActors_fw (t : J) : Fw (undoObjActors t) := by
  unfold undoObjActors; fw_auto
macro_rules | `(tactic| fw_leaf) => `(tactic| exact undoObjActors_fw ..)

theorem undoActorElems_fw (actors : Option (List J)) : Fw (undoActorElems actors) := by
  unfold undoActorElems; fw_auto
macro_rules | `(tactic| fw_leaf) => `(tactic| exact undoActorElems_fw ..)

theorem undoTail_fw (F : TFacts) (actorIds : List Iri) (d : Doc) : Fw (undoTail F actorIds d) := by
  unfold undoTail; fw_auto
macro_rules | `(tactic| fw_leaf) => `(tactic| exact undoTail_fw ..)

theorem undoLoop_fw (F : TFacts) (actorIds : List Iri) (box : Iri) (op : List J) : Fw (undoLoop F actorIds box op) := by
  unfold undoLoop; fw_auto
macro_rules | `(tactic| fw_leaf) => `(tactic| exact undoLoop_fw ..)

theorem mustHaveActivityActorsMatchObjectActors_fw (F : TFacts) (actors : Option (List J)) (op : List J) (box : Iri) : Fw (mustHaveActivityActorsMatchObjectActors F actors op box) := by
  unfold mustHaveActivityActorsMatchObjectActors; fw_auto
macro_rules | `(tactic| fw_leaf) => `(tactic| exact mustHaveActivityActorsMatchObjectActors_fw ..)

theorem addNewIDs_fw (F : TFacts) (a : J) : Fw (addNewIDs F a) := by
  unfold addNewIDs; fw_auto
macro_rules | `(tactic| fw_leaf) => `(tactic| exact addNewIDs_fw ..)

theorem getInbox_fw (F : TFacts) (t : J) : Fw (getInbox F t) := by
  unfold getInbox; fw_auto
macro_rules | `(tactic| fw_leaf) => `(tactic| exact getInbox_fw ..)

theorem getInboxes_fw (F : TFacts) (ts : List J) : Fw (getInboxes F ts) := by
  unfold getInboxes; fw_auto
macro_rules | `(tactic| fw_leaf) => `(tactic| exact getInboxes_fw ..)

theorem deliverToRecipients_fw (box : Iri) (a : J) (rs : List Iri) : Fw (deliverToRecipients box a rs) := by
  unfold deliverToRecipients; fw_auto
macro_rules | `(tactic| fw_leaf) => `(tactic| exact deliverToRecipients_fw ..)

theorem resolveActors_fw (F : TFacts) (maxDepth : Int) (fuel depth : Nat) (r : List Iri) :
    Fw (resolveActors F maxDepth fuel depth r) := by
  induction fuel generalizing depth r with
  | zero => exact Fw.panic _
  | succ n ih =>
    unfold resolveActors
    split
    · exact Fw.pure' _
    · apply Fw.foldlM; intro st u
      apply Fw.bind (Fw.try_keep (dereferenceForResolvingInboxes_fk F u)); intro d
      split
      · exact Fw.pure' _
      · exact Fw.bind (ih _ _) fun _ => Fw.pure' _
macro_rules | `(tactic| fw_leaf) => `(tactic| exact resolveActors_fw ..)

theorem addToOutbox_fw (outbox : Iri) (a : J) : Fw (addToOutbox outbox a) := by
  unfold addToOutbox; fw_auto
macro_rules | `(tactic| fw_leaf) => `(tactic| exact addToOutbox_fw ..)

theorem prepare_fw (F : TFacts) (outbox : Iri) (a : J) : Fw (prepare F outbox a) := by
  unfold prepare; fw_auto
macro_rules | `(tactic| fw_leaf) => `(tactic| exact prepare_fw ..)

theorem deliverS2S_fw (F : TFacts) (outbox : Iri) (a : J) : Fw (deliverS2S F outbox a) := by
  unfold deliverS2S; fw_auto
macro_rules | `(tactic| fw_leaf) => `(tactic| exact deliverS2S_fw ..)

theorem followRespond_fw (F : TFacts) (cfg : CbConfig) (box : Iri) (a : J) (actorIRI : Iri) :
    Fw (followRespond F cfg box a actorIRI (addNewIDs F) (deliverS2S F)) := by
  unfold followRespond; fw_auto
macro_rules | `(tactic| fw_leaf) => `(tactic| exact followRespond_fw ..)

end AV
