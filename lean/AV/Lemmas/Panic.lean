import AV.Core.Prog
import AV.Pub.Calls
import AV.Pub.Val
/-
C11 on the `pub` model: which `panic` sites a program can reach at all.
`PanicsIn S p`: whatever the application answers, if `p` panics it does so at a site listed in `S`.
-/
namespace AV
open Prog

/-- `A` restricts the answers considered (e.g. "the configured recursion limits are positive") -/
def PanicsInA (A : (c : Call) → c.Resp → Prop) (S : List String) : Prog α → Prop
  | .ret _ => True
  | .fail _ => True
  | .panic s => s ∈ S
  | .call c k => ∀ r, A c r → PanicsInA A S (k r)

/-- the recursion limits the application configures are positive (the property's proviso) -/
def posLimits : (c : Call) → c.Resp → Prop
  | .maxFwdDepth, r => (show Int from r) > 0
  | .maxDeliveryDepth, r => (show Int from r) > 0
  | _, _ => True

abbrev PanicsIn (S : List String) (p : Prog α) : Prop := PanicsInA posLimits S p

namespace PanicsIn
variable {S : List String}

/-- against every application that configures positive recursion limits, a panic can only be at a site in `S` -/
theorem sound {p : Prog α} (h : PanicsIn S p) (env : Env) (henv : ∀ n c, posLimits c (env n c)) (n : Nat) (site : String)
    (hp : (run p env n).2 = .panic site) : site ∈ S := by
  induction p generalizing n with
  | ret a => cases hp
  | fail e => cases hp
  | panic s => cases hp; exact h
  | call c k ih => exact ih (env n c) (h (env n c) (henv n c)) (n + 1) hp

theorem ret (a : α) : PanicsIn S (Prog.ret a) := trivial
theorem pure' (a : α) : PanicsIn S (pure a : Prog α) := trivial
theorem fail (e : Err) : PanicsIn S (Prog.fail e : Prog α) := trivial
theorem panic {s : String} (h : s ∈ S) : PanicsIn S (Prog.panic s : Prog α) := h

theorem bind {p : Prog α} {f : α → Prog β} (hp : PanicsIn S p) (hf : ∀ a, PanicsIn S (f a)) : PanicsIn S (p >>= f) := by
  induction p with
  | ret a => exact hf a
  | fail e => trivial
  | panic s => exact hp
  | call c k ih => intro r hr; exact ih r (hp r hr)

theorem bind' {p : Prog α} {f : α → Prog β} (hp : PanicsIn S p) (hf : ∀ a, PanicsIn S (f a)) : PanicsIn S (Prog.bind p f) := bind hp hf

theorem call (c : Call) (k : c.Resp → Prog α) (hk : ∀ r, posLimits c r → PanicsIn S (k r)) : PanicsIn S (.call c k) := hk

theorem ofE (r : E α) : PanicsIn S (Op.ofE r) := by cases r <;> trivial

theorem finally_ {p : Prog α} {q : Prog Unit} (hp : PanicsIn S p) (hq : PanicsIn S q) : PanicsIn S (Prog.finally_ p q) := by
  induction p with
  | ret a => exact bind (f := fun _ => Prog.ret a) hq (fun _ => trivial)
  | fail e => exact bind (f := fun _ => (Prog.fail e : Prog α)) hq (fun _ => trivial)
  | panic s => exact hp
  | call c k ih => intro r hr; exact ih r (hp r hr)

theorem try_ {p : Prog α} (hp : PanicsIn S p) : PanicsIn S (Prog.try_ p) := by
  induction p with
  | ret a => trivial
  | fail e => trivial
  | panic s => exact hp
  | call c k ih => intro r hr; exact ih r (hp r hr)

theorem forM {β : Type} (f : β → Prog Unit) (hf : ∀ x, PanicsIn S (f x)) (xs : List β) : PanicsIn S (xs.forM f) := by
  induction xs with
  | nil => trivial
  | cons x xs ih =>
    show PanicsIn S (f x >>= fun _ => xs.forM f)
    exact bind (hf x) (fun _ => ih)

theorem foldlM {β σ : Type} (f : σ → β → Prog σ) (hf : ∀ s x, PanicsIn S (f s x)) (xs : List β) (init : σ) :
    PanicsIn S (xs.foldlM f init) := by
  induction xs generalizing init with
  | nil => trivial
  | cons x xs ih =>
    rw [List.foldlM_cons]
    exact bind (hf init x) (fun s => ih s)

theorem liftLib (x : Except Unit α) : PanicsIn S (AV.liftLib x) := by cases x <;> trivial

theorem mono {S' : List String} {p : Prog α} (h : PanicsIn S p) (hs : ∀ s, s ∈ S → s ∈ S') : PanicsIn S' p := by
  induction p with
  | ret a => trivial
  | fail e => trivial
  | panic s => exact hs s h
  | call c k ih => intro r hr; exact ih r (h r hr)

end PanicsIn

/-- leaves the automation may use; extended by `macro_rules` as lemmas are proved -/
syntax "pn_leaf" : tactic
macro_rules | `(tactic| pn_leaf) => `(tactic| exact trivial)
macro_rules | `(tactic| pn_leaf) => `(tactic| exact PanicsIn.ofE _)
macro_rules | `(tactic| pn_leaf) => `(tactic| exact PanicsIn.liftLib _)
macro_rules | `(tactic| pn_leaf) => `(tactic| exact PanicsIn.panic (by simp))

syntax "pn_step" : tactic
macro_rules | `(tactic| pn_step) => `(tactic| first
  | intro _
  | pn_leaf
  | split
  | (apply PanicsIn.call; intro _ _)
  | (apply PanicsIn.foldlM; intro _ _)
  | (apply PanicsIn.forM; intro _)
  | apply PanicsIn.finally_
  | apply PanicsIn.try_
  | apply PanicsIn.bind
  | apply PanicsIn.bind'
  | dsimp only)

macro "pn_auto" : tactic => `(tactic| repeat pn_step)

end AV
