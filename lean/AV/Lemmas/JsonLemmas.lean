import AV.Core.Json
/-! Lookup lemmas for the association-list objects of `J`. -/
namespace AV.J

theorem find_insKv_same (k : String) (v : J) (kvs : List (String × J)) :
    (insKv k v kvs).find? (fun kv => kv.1 == k) = some (k, v) := by
  induction kvs with
  | nil => simp [insKv]
  | cons kv rest ih =>
    obtain ⟨k', v'⟩ := kv
    unfold insKv
    split
    · simp
    · rename_i hne
      split
      · simp
      · simp only [List.find?_cons]
        have : (k' == k) = false := by
          rw [beq_eq_false_iff_ne]; intro h; subst h; simp at hne
        simp [this, ih]

theorem find_insKv_other (k k2 : String) (v : J) (kvs : List (String × J)) (h : k2 ≠ k) :
    (insKv k v kvs).find? (fun kv => kv.1 == k2) = kvs.find? (fun kv => kv.1 == k2) := by
  have hkk : (k == k2) = false := by rw [beq_eq_false_iff_ne]; exact fun e => h e.symm
  induction kvs with
  | nil => simp [insKv, hkk]
  | cons kv rest ih =>
    obtain ⟨k', v'⟩ := kv
    unfold insKv
    split
    · rename_i he
      have : k = k' := by simpa using he
      subst this
      simp [List.find?_cons, hkk]
    · split
      · simp [List.find?_cons, hkk]
      · simp only [List.find?_cons]
        split
        · rfl
        · exact ih

theorem get_set_same (j : J) (k : String) (v : J) (h : j.isObj = true) : (j.set k v).get? k = some v := by
  cases j <;> simp_all [isObj, set, get?, find_insKv_same]

theorem get_set_other (j : J) (k k2 : String) (v : J) (h : k2 ≠ k) : (j.set k v).get? k2 = j.get? k2 := by
  cases j <;> simp [set, get?, find_insKv_other _ _ _ _ h]

theorem get_erase_same (j : J) (k : String) : (j.erase k).get? k = none := by
  cases j with
  | obj kvs =>
    simp only [erase, get?, Option.map_eq_none_iff, List.find?_eq_none]
    intro x hx
    simp only [List.mem_filter, bne_iff_ne, ne_eq] at hx
    simpa using hx.2
  | _ => simp [erase, get?]

theorem get_erase_other (j : J) (k k2 : String) (h : k2 ≠ k) : (j.erase k).get? k2 = j.get? k2 := by
  cases j with
  | obj kvs =>
    simp only [erase, get?]
    congr 1
    induction kvs with
    | nil => rfl
    | cons kv rest ih =>
      simp only [List.filter_cons]
      split
      · simp only [List.find?_cons]
        split
        · rfl
        · exact ih
      · rename_i hk
        have hk' : kv.1 = k := by simpa using hk
        have : (kv.1 == k2) = false := by rw [beq_eq_false_iff_ne, hk']; exact fun e => h e.symm
        simp [List.find?_cons, this, ih]
  | _ => simp [erase, get?]

theorem has_erase_same (j : J) (k : String) : (j.erase k).has k = false := by
  simp [has, get_erase_same]

end AV.J

namespace AV.J
mutual
theorem beq_refl : ∀ (j : J), beq j j = true
  | .null => by simp [beq]
  | .bool b => by simp [beq]
  | .num m e => by simp [beq]
  | .str s => by simp [beq]
  | .arr xs => by simp [beq, beqList_refl xs]
  | .obj kvs => by simp [beq, beqKvs_refl kvs]
theorem beqList_refl : ∀ (xs : List J), beqList xs xs = true
  | [] => by simp [beqList]
  | x :: xs => by simp [beqList, beq_refl x, beqList_refl xs]
theorem beqKvs_refl : ∀ (kvs : List (String × J)), beqKvs kvs kvs = true
  | [] => by simp [beqKvs]
  | (k, x) :: kvs => by simp [beqKvs, beq_refl x, beqKvs_refl kvs]
end
theorem beq_self (j : J) : (j == j) = true := beq_refl j
end AV.J
