import AV.Core.Prog
import AV.Pub.Calls
/-
Frame reasoning: a program whose calls all lie in a set the monitor does not react to leaves the monitor
state alone.  Also: programs that make no call at all.
-/
namespace AV
open Prog

/-- a program that makes no call at all -/
def isPure : Prog α → Bool
  | .call _ _ => false
  | _ => true

theorem isPure_bind {p : Prog α} {f : α → Prog β} (hp : isPure p = true) (hf : ∀ a, isPure (f a) = true) :
    isPure (p >>= f) = true := by
  cases p with
  | ret a => exact hf a
  | fail e => rfl
  | panic s => rfl
  | call c k => cases hp

theorem isPure_forM {β : Type} (f : β → Prog Unit) (hf : ∀ x, isPure (f x) = true) (xs : List β) :
    isPure (xs.forM f) = true := by
  induction xs with
  | nil => rfl
  | cons x xs ih =>
    show isPure (f x >>= fun _ => xs.forM f) = true
    exact isPure_bind (hf x) (fun _ => ih)

theorem isPure_foldlM {β σ : Type} (f : σ → β → Prog σ) (hf : ∀ s x, isPure (f s x) = true) (xs : List β) (init : σ) :
    isPure (xs.foldlM f init) = true := by
  induction xs generalizing init with
  | nil => rfl
  | cons x xs ih =>
    rw [List.foldlM_cons]
    exact isPure_bind (hf init x) (fun s => ih s)

/-- a pure program runs to its outcome without a trace -/
theorem run_pure {p : Prog α} (hp : isPure p = true) (env : Env) (n : Nat) : (run p env n).1 = [] := by
  cases p with
  | call c k => cases hp
  | _ => rfl

theorem SafeP.of_pure {M : Mon} {s : M.S} {p : Prog α} {Q : M.S → Option α → Prop} (hp : isPure p = true)
    (hv : ∀ a, p = .ret a → Q s (some a)) (he : Q s none) : SafeP M s p Q := by
  cases p with
  | ret a => exact hv a rfl
  | fail e => exact he
  | panic site => trivial
  | call c k => cases hp

/-- every call the program can make satisfies `P` -/
inductive OnlyCalls (P : Call → Prop) : Prog α → Prop where
  | ret (a : α) : OnlyCalls P (.ret a)
  | fail (e : Err) : OnlyCalls P (.fail e)
  | panic (s : String) : OnlyCalls P (.panic s)
  | call (c : Call) (k : c.Resp → Prog α) (hc : P c) (hk : ∀ r, OnlyCalls P (k r)) : OnlyCalls P (.call c k)

namespace OnlyCalls
variable {P : Call → Prop}

theorem of_pure {p : Prog α} (hp : isPure p = true) : OnlyCalls P p := by
  cases p with
  | ret a => exact .ret a
  | fail e => exact .fail e
  | panic s => exact .panic s
  | call c k => cases hp

theorem bind {p : Prog α} {f : α → Prog β} (hp : OnlyCalls P p) (hf : ∀ a, OnlyCalls P (f a)) : OnlyCalls P (p >>= f) := by
  induction hp with
  | ret a => exact hf a
  | fail e => exact .fail e
  | panic s => exact .panic s
  | call c k hc _ ih => exact .call c _ hc ih

theorem ofE (r : E α) : OnlyCalls P (Op.ofE r) := by cases r <;> constructor

theorem op (c : Call) (hc : P c) (k : c.Resp → Prog α) (hk : ∀ r, OnlyCalls P (k r)) : OnlyCalls P (.call c k) := .call c k hc hk

theorem finally_ {p : Prog α} {q : Prog Unit} (hp : OnlyCalls P p) (hq : OnlyCalls P q) : OnlyCalls P (Prog.finally_ p q) := by
  induction hp with
  | ret a => exact bind (f := fun _ => Prog.ret a) hq (fun _ => .ret a)
  | fail e => exact bind (f := fun _ => (Prog.fail e : Prog α)) hq (fun _ => .fail e)
  | panic s => exact .panic s
  | call c k hc _ ih => exact .call c _ hc ih

theorem try_ {p : Prog α} (hp : OnlyCalls P p) : OnlyCalls P (Prog.try_ p) := by
  induction hp with
  | ret a => exact .ret _
  | fail e => exact .ret _
  | panic s => exact .panic s
  | call c k hc _ ih => exact .call c _ hc ih

theorem forM {β : Type} (f : β → Prog Unit) (hf : ∀ x, OnlyCalls P (f x)) (xs : List β) : OnlyCalls P (xs.forM f) := by
  induction xs with
  | nil => exact .ret ()
  | cons x xs ih =>
    show OnlyCalls P (f x >>= fun _ => xs.forM f)
    exact bind (hf x) (fun _ => ih)

theorem foldlM {β σ : Type} (f : σ → β → Prog σ) (hf : ∀ s x, OnlyCalls P (f s x)) (xs : List β) (init : σ) :
    OnlyCalls P (xs.foldlM f init) := by
  induction xs generalizing init with
  | nil => exact .ret init
  | cons x xs ih =>
    rw [List.foldlM_cons]
    exact bind (hf init x) (fun s => ih s)

theorem mono {Q : Call → Prop} {p : Prog α} (h : OnlyCalls P p) (hpq : ∀ c, P c → Q c) : OnlyCalls Q p := by
  induction h with
  | ret a => exact .ret a
  | fail e => exact .fail e
  | panic s => exact .panic s
  | call c k hc _ ih => exact .call c k (hpq c hc) ih

end OnlyCalls

/-- **frame rule**: calls the monitor does not react to leave its state alone -/
theorem SafeP.frame {M : Mon} {P : Call → Prop} {p : Prog α} (hn : ∀ c, P c → ∀ s r, M.step s c r = some s)
    (hp : OnlyCalls P p) (s : M.S) : SafeP M s p (fun s' _ => s' = s) := by
  induction hp with
  | ret a => rfl
  | fail e => rfl
  | panic site => trivial
  | call c k hc _ ih =>
    intro r
    rw [hn c hc s r]
    exact ih r

/-- sequencing when the first part leaves the state alone -/
theorem SafeP.bind_frame {M : Mon} {s : M.S} {p : Prog α} {f : α → Prog β} {Q : M.S → Option β → Prop}
    (hp : SafeP M s p (fun s' _ => s' = s)) (hf : ∀ a, SafeP M s (f a) Q) (he : Q s none) : SafeP M s (p >>= f) Q := by
  apply SafeP.bind
  apply SafeP.mono hp
  intro s' o hs
  subst hs
  cases o with
  | none => exact he
  | some a => exact hf a

end AV
