import AV.Lemmas.FailFastProofs
/-
The delivery phase (after the outbox has been updated and nothing has failed): `Fd p` — `p` may deliver, and leaves the
monitor in a state where it still may: it never touches the outbox again.
-/
namespace AV
open Prog Pub Val

def Fd (p : Prog α) : Prop :=
  ∀ s : OrderSt, s.stored = true → s.failed = false → SafeP outboxOrderMon s p (fun s' _ => s'.stored = true ∧ s'.failed = false)

namespace Fd

theorem ret (a : α) : Fd (Prog.ret a) := fun _ h1 h2 => ⟨h1, h2⟩
theorem pure' (a : α) : Fd (pure a : Prog α) := fun _ h1 h2 => ⟨h1, h2⟩
theorem fail (e : Err) : Fd (Prog.fail e : Prog α) := fun _ h1 h2 => ⟨h1, h2⟩
theorem panic (site : String) : Fd (Prog.panic site : Prog α) := fun _ _ _ => trivial

theorem bind {p : Prog α} {f : α → Prog β} (hp : Fd p) (hf : ∀ a, Fd (f a)) : Fd (p >>= f) := by
  intro s h1 h2
  apply SafeP.bind
  apply SafeP.mono (hp s h1 h2)
  intro s' o h
  cases o with
  | none => exact h
  | some a => exact hf a s' h.1 h.2

theorem bind' {p : Prog α} {f : α → Prog β} (hp : Fd p) (hf : ∀ a, Fd (f a)) : Fd (Prog.bind p f) := bind hp hf

theorem ofE (r : E α) : Fd (Op.ofE r) := by
  cases r with
  | ok a => exact ret a
  | error e => exact fail e

theorem liftLib (x : Except Unit α) : Fd (AV.liftLib x) := by
  cases x <;> first | exact fail _ | exact ret _

theorem foldlM {β σ : Type} (f : σ → β → Prog σ) (hf : ∀ s x, Fd (f s x)) : ∀ (xs : List β) (init : σ), Fd (xs.foldlM f init) := by
  intro xs
  induction xs with
  | nil => intro init; exact pure' init
  | cons x xs ih =>
    intro init
    rw [List.foldlM_cons]
    exact bind (hf init x) (fun s => ih s)

theorem forM {β : Type} (f : β → Prog Unit) (hf : ∀ x, Fd (f x)) : ∀ (xs : List β), Fd (xs.forM f) := by
  intro xs
  induction xs with
  | nil => exact pure' ()
  | cons x xs ih =>
    show Fd (f x >>= fun _ => xs.forM f)
    exact bind (hf x) (fun _ => ih)

theorem try_ {p : Prog α} (hp : Fd p) : Fd (Prog.try_ p) := by
  intro s h1 h2
  apply SafeP.try_
  apply SafeP.mono (hp s h1 h2)
  intro s' o h
  cases o with
  | none => intro _; exact h
  | some _ => exact h

theorem finally_ {p : Prog α} {q : Prog Unit} (hp : Fd p) (hq : Fd q) : Fd (Prog.finally_ p q) := by
  intro s h1 h2
  apply SafeP.finally_
  apply SafeP.mono (hp s h1 h2)
  intro s1 o h
  apply SafeP.mono (hq s1 h.1 h.2)
  intro s2 o2 h'
  cases o2 <;> exact h'

/-- once stored, with nothing failed: every call but `SetOutbox` keeps it that way -/
theorem step_after (s : OrderSt) (c : Call) (r : c.Resp) (hns : ∀ v, c ≠ .setOutbox v) (h1 : s.stored = true) (h2 : s.failed = false) :
    ∃ s', outboxOrderMon.step s c r = some s' ∧ s'.stored = true ∧ s'.failed = false := by
  cases c <;> simp_all [outboxOrderMon]

theorem call (c : Call) (k : c.Resp → Prog α) (hns : ∀ v, c ≠ .setOutbox v) (hk : ∀ r, Fd (k r)) : Fd (.call c k) := by
  intro s h1 h2
  apply Ff.call
  intro r
  obtain ⟨s', e, g1, g2⟩ := step_after s c r hns h1 h2
  exact ⟨s', e, hk r s' g1 g2⟩

theorem inboxContains (i d : Iri) : Fd (Op.inboxContains i d) := by
  unfold Op.inboxContains; exact call _ _ (by intro v h; cases h) (fun r => ofE r)
theorem getInbox (i : Iri) : Fd (Op.getInbox i) := by
  unfold Op.getInbox; exact call _ _ (by intro v h; cases h) (fun r => ofE r)
theorem setInbox (v : J) : Fd (Op.setInbox v) := by
  unfold Op.setInbox; exact call _ _ (by intro v h; cases h) (fun r => ofE r)
theorem owns (k : Iri) : Fd (Op.owns k) := by
  unfold Op.owns; exact call _ _ (by intro v h; cases h) (fun r => ofE r)
theorem actorForOutbox (o : Iri) : Fd (Op.actorForOutbox o) := by
  unfold Op.actorForOutbox; exact call _ _ (by intro v h; cases h) (fun r => ofE r)
theorem actorForInbox (i : Iri) : Fd (Op.actorForInbox i) := by
  unfold Op.actorForInbox; exact call _ _ (by intro v h; cases h) (fun r => ofE r)
theorem outboxForInbox (i : Iri) : Fd (Op.outboxForInbox i) := by
  unfold Op.outboxForInbox; exact call _ _ (by intro v h; cases h) (fun r => ofE r)
theorem inboxForActor (a : Iri) : Fd (Op.inboxForActor a) := by
  unfold Op.inboxForActor; exact call _ _ (by intro v h; cases h) (fun r => ofE r)
theorem exists_ (k : Iri) : Fd (Op.exists_ k) := by
  unfold Op.exists_; exact call _ _ (by intro v h; cases h) (fun r => ofE r)
theorem get (k : Iri) : Fd (Op.get k) := by
  unfold Op.get; exact call _ _ (by intro v h; cases h) (fun r => ofE r)
theorem create (v : J) : Fd (Op.create v) := by
  unfold Op.create; exact call _ _ (by intro v h; cases h) (fun r => ofE r)
theorem update (v : J) : Fd (Op.update v) := by
  unfold Op.update; exact call _ _ (by intro v h; cases h) (fun r => ofE r)
theorem delete (k : Iri) : Fd (Op.delete k) := by
  unfold Op.delete; exact call _ _ (by intro v h; cases h) (fun r => ofE r)
theorem getOutbox (o : Iri) : Fd (Op.getOutbox o) := by
  unfold Op.getOutbox; exact call _ _ (by intro v h; cases h) (fun r => ofE r)
theorem newID (v : J) : Fd (Op.newID v) := by
  unfold Op.newID; exact call _ _ (by intro v h; cases h) (fun r => ofE r)
theorem followers (a : Iri) : Fd (Op.followers a) := by
  unfold Op.followers; exact call _ _ (by intro v h; cases h) (fun r => ofE r)
theorem following (a : Iri) : Fd (Op.following a) := by
  unfold Op.following; exact call _ _ (by intro v h; cases h) (fun r => ofE r)
theorem liked (a : Iri) : Fd (Op.liked a) := by
  unfold Op.liked; exact call _ _ (by intro v h; cases h) (fun r => ofE r)
theorem newTransport (b : Iri) : Fd (Op.newTransport b) := by
  unfold Op.newTransport; exact call _ _ (by intro v h; cases h) (fun r => ofE r)
theorem deref (u : Iri) : Fd (Op.deref u) := by
  unfold Op.deref; exact call _ _ (by intro v h; cases h) (fun r => ofE r)
theorem batchDeliver (p : J) (rs : List Iri) : Fd (Op.batchDeliver p rs) := by
  unfold Op.batchDeliver; exact call _ _ (by intro v h; cases h) (fun r => ofE r)
theorem lock (k : Iri) : Fd (Op.lock k) := by
  unfold Op.lock; exact call _ _ (by intro v h; cases h) (fun r => ofE r)
theorem hookOutbox (a : J) : Fd (Op.hookOutbox a) := by
  unfold Op.hookOutbox; exact call _ _ (by intro v h; cases h) (fun r => ofE r)
theorem socialCallbacks  : Fd (Op.socialCallbacks ) := by
  unfold Op.socialCallbacks; exact call _ _ (by intro v h; cases h) (fun r => ofE r)
theorem socialDefault (a : J) : Fd (Op.socialDefault a) := by
  unfold Op.socialDefault; exact call _ _ (by intro v h; cases h) (fun r => ofE r)
theorem appCb (fed : Bool) (ty : String) (a : J) : Fd (Op.appCb fed ty a) := by
  unfold Op.appCb; exact call _ _ (by intro v h; cases h) (fun r => ofE r)
theorem otherCb (fed : Bool) (i : Nat) (a : J) : Fd (Op.otherCb fed i a) := by
  unfold Op.otherCb; exact call _ _ (by intro v h; cases h) (fun r => ofE r)
theorem derefE (u : Iri) : Fd (Op.derefE u) := by
  unfold Op.derefE; exact call _ _ (by intro v h; cases h) (fun r => ret _)
theorem maxFwdDepth  : Fd (Op.maxFwdDepth ) := by
  unfold Op.maxFwdDepth; exact call _ _ (by intro v h; cases h) (fun r => ret _)
theorem maxDeliveryDepth  : Fd (Op.maxDeliveryDepth ) := by
  unfold Op.maxDeliveryDepth; exact call _ _ (by intro v h; cases h) (fun r => ret _)
theorem now  : Fd (Op.now ) := by
  unfold Op.now; exact call _ _ (by intro v h; cases h) (fun r => ret _)
theorem writeHeader (c : Nat) : Fd (Op.writeHeader c) := by
  unfold Op.writeHeader; exact call _ _ (by intro v h; cases h) (fun r => ret _)
theorem setHeader (k v : String) : Fd (Op.setHeader k v) := by
  unfold Op.setHeader; exact call _ _ (by intro v h; cases h) (fun r => ret _)
theorem unlock (k : Iri) : Fd (Op.unlock k) := by
  unfold Op.unlock; exact call _ _ (by intro v h; cases h) (fun r => ret _)

theorem withLock {k : Iri} {body : Prog α} (hb : Fd body) : Fd (Pub.withLock k body) := by
  unfold Pub.withLock
  exact bind (lock k) fun _ => finally_ hb (unlock k)

theorem locked {k : Iri} {body : Prog α} (hb : Fd body) : Fd (Op.locked k body) := by
  unfold Op.locked
  exact bind (lock k) fun _ => bind (try_ hb) fun r => bind (unlock k) fun _ => ofE r

theorem strOf (site : String) (u : Iri) : Fd (Pub.strOf site u) := by
  unfold Pub.strOf; split <;> first | exact panic _ | exact ret _
theorem strsOf (site : String) (us : List Iri) : Fd (Pub.strsOf site us) := by
  unfold Pub.strsOf; split <;> first | exact panic _ | exact ret _
theorem idsM (F : TFacts) (xs : List J) : Fd (Pub.idsM F xs) := liftLib _
theorem needVal (site : String) (o : Option J) : Fd (Pub.needVal site o) := by
  unfold Pub.needVal; split <;> first | exact panic _ | exact ret _
theorem docVal (d : Doc) : Fd (Pub.docVal d) := by
  unfold Pub.docVal; split <;> first | exact fail _ | exact ret _

end Fd

attribute [local irreducible] Pub.withLock Op.locked Fd

syntax "fd_leaf" : tactic
macro_rules | `(tactic| fd_leaf) => `(tactic| first
  | exact Fd.ret _ | exact Fd.pure' _ | exact Fd.fail _ | exact Fd.panic _
  | exact Fd.liftLib _ | exact Fd.strOf _ _ | exact Fd.strsOf _ _ | exact Fd.idsM _ _ | exact Fd.needVal _ _
  | exact Fd.docVal _ | exact Fd.ofE _ | exact Fd.lock _ | exact Fd.unlock _
  | exact Fd.newID _ | exact Fd.newTransport _ | exact Fd.deref _ | exact Fd.derefE _ | exact Fd.batchDeliver _ _
  | exact Fd.maxDeliveryDepth | exact Fd.now
  | exact Fd.owns _ | exact Fd.actorForOutbox _ | exact Fd.actorForInbox _
  | exact Fd.outboxForInbox _ | exact Fd.inboxForActor _ | exact Fd.exists_ _
  | exact Fd.get _ | exact Fd.create _ | exact Fd.update _ | exact Fd.delete _
  | exact Fd.getOutbox _ | exact Fd.followers _ | exact Fd.following _ | exact Fd.liked _)

macro "fd_step" : tactic => `(tactic| first
  | intro _
  | split
  | fd_leaf
  | dsimp only
  | (apply Fd.withLock)
  | (apply Fd.locked)
  | (apply Fd.try_)
  | (apply Fd.foldlM; intro _ _)
  | (apply Fd.forM; intro _)
  | (apply Fd.finally_)
  | (apply Fd.bind)
  | (apply Fd.bind'))

macro "fd_auto" : tactic => `(tactic| repeat fd_step)

theorem getInbox_fd (F : TFacts) (t : J) : Fd (getInbox F t) := by
  unfold getInbox; fd_auto
macro_rules | `(tactic| fd_leaf) => `(tactic| exact getInbox_fd ..)

theorem getInboxes_fd (F : TFacts) (ts : List J) : Fd (getInboxes F ts) := by
  unfold getInboxes; fd_auto
macro_rules | `(tactic| fd_leaf) => `(tactic| exact getInboxes_fd ..)

theorem derefTail_fd (F : TFacts) (d : Doc) : Fd (derefTail F d) := by
  unfold derefTail; fd_auto
macro_rules | `(tactic| fd_leaf) => `(tactic| exact derefTail_fd ..)

theorem dereferenceForResolvingInboxes_fd (F : TFacts) (u : Iri) : Fd (dereferenceForResolvingInboxes F u) := by
  unfold dereferenceForResolvingInboxes; fd_auto
macro_rules | `(tactic| fd_leaf) => `(tactic| exact dereferenceForResolvingInboxes_fd ..)

theorem resolveActors_fd (F : TFacts) (maxDepth : Int) (fuel depth : Nat) (r : List Iri) :
    Fd (resolveActors F maxDepth fuel depth r) := by
  induction fuel generalizing depth r with
  | zero => exact Fd.panic _
  | succ n ih =>
    unfold resolveActors
    split
    · exact Fd.pure' _
    · apply Fd.foldlM; intro st u
      apply Fd.bind (Fd.try_ (dereferenceForResolvingInboxes_fd F u)); intro d
      split
      · exact Fd.pure' _
      · exact Fd.bind (ih _ _) fun _ => Fd.pure' _
macro_rules | `(tactic| fd_leaf) => `(tactic| exact resolveActors_fd ..)

theorem deliverToRecipients_fd (box : Iri) (a : J) (rs : List Iri) : Fd (deliverToRecipients box a rs) := by
  unfold deliverToRecipients; fd_auto
macro_rules | `(tactic| fd_leaf) => `(tactic| exact deliverToRecipients_fd ..)

theorem prepare_fd (F : TFacts) (outbox : Iri) (a : J) : Fd (prepare F outbox a) := by
  unfold prepare; fd_auto
macro_rules | `(tactic| fd_leaf) => `(tactic| exact prepare_fd ..)

theorem deliverS2S_fd (F : TFacts) (outbox : Iri) (a : J) : Fd (deliverS2S F outbox a) := by
  unfold deliverS2S; fd_auto

end AV
