import Lean
import AV.Lemmas.Panic
import AV.Pub.BaseActor
import AV.Lemmas.IdLemmas
/-
C11: the panic sites reachable from each entry point of the `pub` model, by a lemma per model function.
-/
open Lean Elab Command Meta Tactic

namespace AV

/-- every place where the transcription says "the Go code dereferences nil / indexes out of range here" -/
def allSites : List String := [
  "GetInbox: nil FederatingProtocol",
  "InboxForwarding: IsOrExtends on nil value",
  "InboxForwarding: id.Get()",
  "PostInbox: nil FederatingProtocol",
  "PostOutbox: activity.GetJSONLDId().Get()",
  "PostOutbox: id.String() on nil",
  "PostOutbox: nil SocialProtocol",
  "accept: IsOrExtends on nil value",
  "accept: actorIRI.String() on nil",
  "add: AppendIRI(nil)",
  "add: IsOrExtends on nil value",
  "addToInboxIfNew: id.Get()",
  "addToOutbox: id.Get()",
  "follow: actorIRI.String() on nil",
  "follow: followActors.Begin() on nil actor property",
  "like/announce: type assertion on nil value",
  "normalizeRecipients: o.Len() on nil object property",
  "prepare: elem.String() on nil in dedupeIRIs",
  "prepare: getInbox on nil actor value",
  "prepare: k.String() on nil in dedupeIRIs",
  "prepare: u.String() on nil in filterURLs",
  "remove: IsOrExtends on nil value",
  "social create: GetId(nil) for an object that is not a value",
  "social delete: obj.GetTypeName() on nil value",
  "social delete: tombstone id on nil",
  "social update: t.Serialize() on nil value"]

/-- `pn_lemma f`: states and proves `∀ args, PanicsIn allSites (f args)` as `f.pn`, by unfolding `f` and `pn_auto` -/
elab "pn_lemma " id:ident : command => do
  let n ← liftCoreM <| realizeGlobalConstNoOverloadWithInfo id
  let info ← getConstInfo n
  let thmName := n ++ `pn
  let stmt ← liftTermElabM <| Meta.forallTelescope info.type fun xs _ => do
    let app := mkAppN (mkConst n (info.levelParams.map mkLevelParam)) xs
    let pn ← mkAppM ``AV.PanicsIn #[mkConst ``AV.allSites, app]
    mkForallFVars xs pn
  let proof ← liftTermElabM do
    let mvar ← mkFreshExprMVar stmt
    let stx ← `(tactic| (intros; unfold $id:ident; pn_auto))
    let goals ← Tactic.run mvar.mvarId! (Tactic.evalTactic stx)
    unless goals.isEmpty do
      let g := goals.head!
      throwError "pn_lemma {n}: unsolved goal\n{g}"
    instantiateMVars mvar
  liftCoreM <| addDecl (.thmDecl { name := thmName, levelParams := info.levelParams, type := stmt, value := proof })

/-- close `PanicsIn S (f args)` with the lemma `f.pn` if there is one -/
elab "pn_head" : tactic => do
  let g ← getMainGoal
  let t ← instantiateMVars (← g.getType)
  let t ← whnfR t
  unless t.isApp do throwError "pn_head: not an application"
  let p := t.appArg!
  match p.getAppFn with
  | .const n _ =>
    let thm := n ++ `pn
    if (← getEnv).contains thm then
      evalTactic (← `(tactic| apply $(mkIdent thm)))
    else throwError "pn_head: no lemma {thm}"
  | _ => throwError "pn_head: head is not a constant"

macro_rules | `(tactic| pn_leaf) => `(tactic| pn_head)

end AV

namespace AV.Pub
open AV

macro_rules | `(tactic| pn_leaf) => `(tactic| (show _ ∈ allSites; simp [allSites]))

theorem strOf.pn (site : String) (u : Iri) (h : site ∈ allSites) : PanicsIn allSites (strOf site u) := by
  unfold strOf; split <;> first | exact h | trivial
theorem strsOf.pn (site : String) (us : List Iri) (h : site ∈ allSites) : PanicsIn allSites (strsOf site us) := by
  unfold strsOf; split <;> first | exact h | trivial
theorem needList.pn (site : String) (o : Option (List J)) (h : site ∈ allSites) : PanicsIn allSites (needList site o) := by
  unfold needList; split <;> first | exact h | trivial
theorem needVal.pn (site : String) (o : Option J) (h : site ∈ allSites) : PanicsIn allSites (needVal site o) := by
  unfold needVal; split <;> first | exact h | trivial
theorem needProp.pn (F : TFacts) (site : String) (v : J) (p : String) (h : site ∈ allSites) : PanicsIn allSites (needProp F site v p) := by
  unfold needProp; split <;> first | exact h | trivial
theorem viaS2S.pn (cfg : BaseCfg) (site : String) (p : Prog α) (h : site ∈ allSites) (hp : PanicsIn allSites p) : PanicsIn allSites (viaS2S cfg site p) := by
  unfold viaS2S; split <;> first | exact hp | exact h
theorem viaC2S.pn (cfg : BaseCfg) (site : String) (p : Prog α) (h : site ∈ allSites) (hp : PanicsIn allSites p) : PanicsIn allSites (viaC2S cfg site p) := by
  unfold viaC2S; split <;> first | exact hp | exact h
theorem withLock.pn (id : Iri) (body : Prog α) (hb : PanicsIn allSites body) : PanicsIn allSites (withLock id body) := by
  unfold withLock Op.lock Op.unlock
  apply PanicsIn.call; intro r _
  apply PanicsIn.bind (PanicsIn.ofE r); intro _
  exact PanicsIn.finally_ hb (by apply PanicsIn.call; intro _ _; trivial)
theorem locked.pn (id : Iri) (body : Prog α) (hb : PanicsIn allSites body) : PanicsIn allSites (Op.locked id body) := by
  unfold Op.locked Op.lock Op.unlock
  apply PanicsIn.call; intro r _
  apply PanicsIn.bind (PanicsIn.ofE r); intro _
  apply PanicsIn.bind (PanicsIn.try_ hb); intro res
  apply PanicsIn.call; intro _ _
  exact PanicsIn.bind trivial (fun _ => PanicsIn.ofE res)
theorem activityIdGet.pn (site : String) (a : J) (h : site ∈ allSites) : PanicsIn allSites (activityIdGet site a) := by
  unfold activityIdGet; split <;> first | exact h | trivial

pn_lemma idsM
/-- ids the library reads off values are never nil (after the `GetId` repair): the `.String()` that follows cannot panic -/
theorem ids_strs.pn (F : TFacts) (xs : List J) (site : String) (f : List Iri → Prog α) (h : ∀ ids, PanicsIn allSites (f ids)) :
    PanicsIn allSites (idsM F xs >>= fun ids => strsOf site ids >>= f) := by
  unfold idsM
  cases hx : Val.idsOf F xs with
  | error e => trivial
  | ok ids =>
    show PanicsIn allSites (strsOf site ids >>= f)
    unfold strsOf
    rw [idsOf_nonnil F xs ids hx]
    exact h ids

theorem toId_str.pn (F : TFacts) (j : J) (site : String) (f : Iri → Prog α) (h : ∀ id, PanicsIn allSites (f id)) :
    PanicsIn allSites (liftLib (Val.toId F (Val.elemOf F j)) >>= fun id => strOf site id >>= f) := by
  cases hx : Val.toId F (Val.elemOf F j) with
  | error e => trivial
  | ok u =>
    show PanicsIn allSites (strOf site u >>= f)
    unfold strOf
    have : (u == nilIri) = false := by
      cases hc : u == nilIri with
      | false => rfl
      | true =>
        have hu : u = nilIri := by simpa using hc
        have := toId_elemOf_hasScheme F j u hx
        rw [hu, hasScheme_nil] at this; cases this
    rw [this]
    exact h u

theorem getId_str.pn (F : TFacts) (v : J) (site : String) (f : Iri → Prog α) (h : ∀ id, PanicsIn allSites (f id)) :
    PanicsIn allSites (liftLib (Val.getId F v) >>= fun id => strOf site id >>= f) := by
  cases hx : Val.getId F v with
  | error e => trivial
  | ok u =>
    show PanicsIn allSites (strOf site u >>= f)
    unfold strOf
    have : (u == nilIri) = false := by
      cases hc : u == nilIri with
      | false => rfl
      | true =>
        have hu : u = nilIri := by simpa using hc
        have := getId_hasScheme F v u hx
        rw [hu, hasScheme_nil] at this; cases this
    rw [this]
    exact h u

theorem strOf_ok {u : Iri} (site : String) (h : Iri.hasScheme u = true) : strOf site u = .ret u := by
  unfold strOf
  have : (u == nilIri) = false := by
    cases hc : u == nilIri with
    | false => rfl
    | true =>
      have hu : u = nilIri := by simpa using hc
      rw [hu, hasScheme_nil] at h; cases h
  rw [this]; rfl

theorem ids_strs0.pn (F : TFacts) (xs : List J) (site : String) : PanicsIn allSites (idsM F xs >>= fun ids => strsOf site ids) := by
  unfold idsM
  cases hx : Val.idsOf F xs with
  | error e => trivial
  | ok ids =>
    show PanicsIn allSites (strsOf site ids)
    unfold strsOf
    rw [idsOf_nonnil F xs ids hx]
    trivial
theorem toId_str0.pn (F : TFacts) (j : J) (site : String) : PanicsIn allSites (liftLib (Val.toId F (Val.elemOf F j)) >>= fun id => strOf site id) := by
  cases hx : Val.toId F (Val.elemOf F j) with
  | error e => trivial
  | ok u => show PanicsIn allSites (strOf site u); rw [strOf_ok site (toId_elemOf_hasScheme F j u hx)]; trivial
theorem getId_str0.pn (F : TFacts) (v : J) (site : String) : PanicsIn allSites (liftLib (Val.getId F v) >>= fun id => strOf site id) := by
  cases hx : Val.getId F v with
  | error e => trivial
  | ok u => show PanicsIn allSites (strOf site u); rw [strOf_ok site (getId_hasScheme F v u hx)]; trivial

macro_rules | `(tactic| pn_step) => `(tactic| apply ids_strs0.pn)
macro_rules | `(tactic| pn_step) => `(tactic| apply toId_str0.pn)
macro_rules | `(tactic| pn_step) => `(tactic| apply getId_str0.pn)
macro_rules | `(tactic| pn_step) => `(tactic| (apply ids_strs.pn; intro _))
macro_rules | `(tactic| pn_step) => `(tactic| (apply toId_str.pn; intro _))
macro_rules | `(tactic| pn_step) => `(tactic| (apply getId_str.pn; intro _))

macro_rules | `(tactic| pn_leaf) => `(tactic| apply locked.pn)
macro_rules | `(tactic| pn_leaf) => `(tactic| assumption)
attribute [local irreducible] Iri.hostOf
pn_lemma getInbox
pn_lemma getInboxes
pn_lemma wrapInCreate
pn_lemma mustHaveActivityOriginMatchObjects
pn_lemma recipMap
pn_lemma normActivityProp
pn_lemma normObjectProp
pn_lemma normPhase0
pn_lemma normObject
pn_lemma normObjects
pn_lemma normalizeRecipients
pn_lemma docVal
pn_lemma undoObjActors
pn_lemma undoTail
pn_lemma undoLoop
pn_lemma undoActorElems
pn_lemma mustHaveActivityActorsMatchObjectActors
pn_lemma addLoop
pn_lemma add
pn_lemma removeLoop
pn_lemma remove
theorem dedupeKey.pn (F : TFacts) (j : J) : PanicsIn allSites (dedupeKey F j) := by
  unfold dedupeKey
  cases he : Val.elemOf F j with
  | emb v =>
    exact getId_str0.pn F v _
  | iri u =>
    show PanicsIn allSites (strOf _ u)
    rw [strOf_ok _ (toId_elemOf_hasScheme F j u (by rw [he]; rfl))]; trivial
  | other x => trivial
theorem dedupeGo.pn (F : TFacts) : ∀ (xs : List J) (seen : List Iri), PanicsIn allSites (dedupeGo F xs seen) := by
  intro xs
  induction xs with
  | nil => intro seen; unfold dedupeGo; trivial
  | cons j rest ih =>
    intro seen
    unfold dedupeGo
    apply PanicsIn.bind (by pn_auto); intro id
    split
    · exact ih _
    · exact PanicsIn.bind (ih _) (fun _ => trivial)
pn_lemma dedupeOrderedItems
pn_lemma addResponseHeaders
pn_lemma authorizePostInbox
pn_lemma addToInboxIfNew
theorem postInbox.pn (F : TFacts) (fedCb : CbConfig → Iri → String → J → Prog J) (inbox : Iri) (a : J)
    (h : ∀ cfg i ty v, PanicsIn allSites (fedCb cfg i ty v)) : PanicsIn allSites (postInbox F fedCb inbox a) := by
  unfold postInbox
  apply PanicsIn.bind (by pn_auto); intro isNew
  split
  · trivial
  · apply PanicsIn.bind (by pn_auto); intro cfg
    split
    · trivial
    · pn_auto
    · exact h _ _ _ _
    · pn_auto
pn_lemma deliverToRecipients
theorem foundFold.pn {β : Type} (body : β → Prog Bool) (hb : ∀ x, PanicsIn allSites (body x)) (xs : List β) (init : Bool) :
    PanicsIn allSites (xs.foldlM (fun (found : Bool) x => if found then pure true else body x) init) := by
  apply PanicsIn.foldlM; intro found x
  split
  · trivial
  · exact hb x

theorem hasInboxForwardingValues.pnG (F : TFacts) (box : Iri) (maxDepth : Int) (hm : maxDepth > 0) :
    ∀ (fuel cur : Nat) (v : J), cur ≤ maxDepth.toNat → fuel + cur ≥ maxDepth.toNat + 1 →
      PanicsIn allSites (hasInboxForwardingValues F box maxDepth fuel cur v) := by
  intro fuel
  induction fuel with
  | zero => intro cur v h1 h2; omega
  | succ n ih =>
    intro cur v h1 h2
    unfold hasInboxForwardingValues
    split
    · trivial
    · rename_i hlim
      have hlt : cur < maxDepth.toNat := by
        simp only [Bool.and_eq_true, decide_eq_true_eq, not_and, hm, forall_const] at hlim
        omega
      dsimp only
      apply PanicsIn.bind
      · exact foundFold.pn _ (fun iri => locked.pn _ _ (by pn_auto)) _ _
      intro hit
      split
      · trivial
      · apply PanicsIn.bind
        · apply foundFold.pn (fun v => liftLib (Val.getId F v) >>= fun id => Op.locked id (Op.owns id))
          intro x
          exact PanicsIn.bind (PanicsIn.liftLib _) (fun id => locked.pn _ _ (by pn_auto))
        intro hit2
        split
        · trivial
        · apply PanicsIn.bind
          · apply PanicsIn.foldlM; intro acc iri
            pn_auto
          intro fetched
          exact foundFold.pn _ (fun v => ih (cur + 1) v (by omega) (by omega)) _ _
theorem hasInboxForwardingValues.pn (F : TFacts) (box : Iri) (maxDepth : Int) (v : J) (hm : maxDepth > 0) :
    PanicsIn allSites (hasInboxForwardingValues F box maxDepth (fwdFuel maxDepth) 0 v) := by
  apply hasInboxForwardingValues.pnG F box maxDepth hm
  · omega
  · simp only [fwdFuel, hm, if_true]; omega

/-- asking for a recursion limit: the answer is positive (the property's proviso) -/
theorem bind_maxFwdDepth {f : Int → Prog α} (h : ∀ r : Int, r > 0 → PanicsIn allSites (f r)) : PanicsIn allSites (Op.maxFwdDepth >>= f) := by
  intro r hr; exact h r hr
theorem bind_maxDeliveryDepth {f : Int → Prog α} (h : ∀ r : Int, r > 0 → PanicsIn allSites (f r)) : PanicsIn allSites (Op.maxDeliveryDepth >>= f) := by
  intro r hr; exact h r hr
macro_rules | `(tactic| pn_step) => `(tactic| (apply bind_maxFwdDepth; intro _ _))
macro_rules | `(tactic| pn_step) => `(tactic| (apply bind_maxDeliveryDepth; intro _ _))

theorem fwdLoad.pn {α : Type} (F : TFacts) (k : List (Iri × J) → Prog α) (hk : ∀ cols, PanicsIn allSites (k cols)) :
    ∀ (iris : List Iri) (cols : List (Iri × J)), PanicsIn allSites (fwdLoad F iris cols k) := by
  intro iris
  induction iris with
  | nil => intro cols; unfold fwdLoad; exact hk cols
  | cons iri rest ih =>
    intro cols
    unfold fwdLoad
    split
    · exact ih cols
    · unfold Op.lock Op.get Op.unlock
      apply PanicsIn.call; intro r _
      apply PanicsIn.bind (PanicsIn.ofE r); intro _
      apply PanicsIn.bind (PanicsIn.try_ (by apply PanicsIn.call; intro r _; exact PanicsIn.ofE r)); intro res
      split
      · apply PanicsIn.bind (by apply PanicsIn.call; intro _ _; trivial); intro _; trivial
      · exact PanicsIn.panic (by simp [allSites])
      · split
        · exact PanicsIn.finally_ (ih _) (by apply PanicsIn.call; intro _ _; trivial)
        · apply PanicsIn.bind (by apply PanicsIn.call; intro _ _; trivial); intro _; exact ih cols
pn_lemma colMembers
theorem inboxForwarding.pn (F : TFacts) (box : Iri) (a : J) : PanicsIn allSites (inboxForwarding F box a) := by
  unfold inboxForwarding
  apply PanicsIn.bind (by pn_auto); intro id
  apply PanicsIn.bind (by pn_auto); intro seen
  split
  · trivial
  · apply PanicsIn.bind (by pn_auto); intro rs
    apply PanicsIn.bind (by pn_auto); intro myIRIs
    apply fwdLoad.pn
    intro cols
    pn_auto
pn_lemma addToOutbox
theorem postOutboxEffects.pn (F : TFacts) (cfg : ActorCfg) (socCb : CbConfig → Iri → J → String → J → Prog (J × Bool))
    (a : J) (outbox : Iri) (raw : J) (h : ∀ c o r ty v, PanicsIn allSites (socCb c o r ty v)) :
    PanicsIn allSites (postOutboxEffects F cfg socCb a outbox raw) := by
  unfold postOutboxEffects
  split
  · trivial
  · apply PanicsIn.bind (by pn_auto); intro cb
    split
    · trivial
    · pn_auto
    · exact PanicsIn.bind (h _ _ _ _ _) (fun _ => trivial)
    · pn_auto
theorem postOutbox.pn (F : TFacts) (cfg : ActorCfg) (socCb : CbConfig → Iri → J → String → J → Prog (J × Bool))
    (a : J) (outbox : Iri) (raw : J) (h : ∀ c o r ty v, PanicsIn allSites (socCb c o r ty v)) :
    PanicsIn allSites (postOutbox F cfg socCb a outbox raw) := by
  unfold postOutbox
  apply PanicsIn.bind (postOutboxEffects.pn F cfg socCb a outbox raw h); intro r
  pn_auto
pn_lemma addNewIDs
pn_lemma wrapInCreateM
pn_lemma derefTail
pn_lemma dereferenceForResolvingInboxes
theorem resolveActors.pnG (F : TFacts) (maxDepth : Int) (hm : maxDepth > 0) :
    ∀ (fuel depth : Nat) (us : List Iri), depth ≤ maxDepth.toNat → fuel + depth ≥ maxDepth.toNat + 1 →
      PanicsIn allSites (resolveActors F maxDepth fuel depth us) := by
  intro fuel
  induction fuel with
  | zero => intro depth us h1 h2; omega
  | succ n ih =>
    intro depth us h1 h2
    unfold resolveActors
    split
    · trivial
    · rename_i hlim
      have hlt : depth < maxDepth.toNat := by
        simp only [Bool.and_eq_true, decide_eq_true_eq, not_and, hm, forall_const] at hlim
        omega
      apply PanicsIn.foldlM; intro acc u
      apply PanicsIn.bind (PanicsIn.try_ (by pn_auto)); intro d
      split
      · trivial
      · exact PanicsIn.bind (ih (depth + 1) _ (by omega) (by omega)) (fun _ => trivial)

theorem resolveActors.pn (F : TFacts) (maxDepth : Int) (us : List Iri) (hm : maxDepth > 0) :
    PanicsIn allSites (resolveActors F maxDepth (fwdFuel maxDepth) 0 us) := by
  apply resolveActors.pnG F maxDepth hm
  · omega
  · simp only [fwdFuel, hm, if_true]; omega
pn_lemma prepare
pn_lemma deliverS2S
pn_lemma wrappedAfter
pn_lemma requireObject
pn_lemma requireTarget
pn_lemma valueOrFetch
pn_lemma fedCreate
pn_lemma fedUpdate
pn_lemma fedDelete
theorem findMe.pn (F : TFacts) (site : String) (xs : List J) (me : Iri) : PanicsIn allSites (findMe F site xs me) := by
  unfold findMe
  apply PanicsIn.foldlM; intro found j
  split
  · trivial
  · exact toId_str.pn F j site _ (fun _ => trivial)
pn_lemma followIsMe
pn_lemma followResponseType
pn_lemma followUpdateFollowers
theorem followRespond.pn (F : TFacts) (cfg : CbConfig) (box : Iri) (a : J) (actorIRI : Iri)
    (addNewIds : J → Prog J) (deliver : Iri → J → Prog J)
    (h1 : ∀ v, PanicsIn allSites (addNewIds v)) (h2 : ∀ o v, PanicsIn allSites (deliver o v)) :
    PanicsIn allSites (followRespond F cfg box a actorIRI addNewIds deliver) := by
  unfold followRespond
  apply PanicsIn.bind (by pn_auto); intro ty
  apply PanicsIn.bind (by pn_auto); intro followActors
  apply ids_strs.pn; intro recipients
  apply PanicsIn.bind (by pn_auto); intro _
  apply PanicsIn.bind (by pn_auto); intro outboxIRI
  apply PanicsIn.bind (h1 _); intro response
  exact PanicsIn.bind (h2 _ _) (fun _ => trivial)
theorem fedFollow.pn (F : TFacts) (cfg : CbConfig) (box : Iri) (a : J)
    (addNewIds : J → Prog J) (deliver : Iri → J → Prog J)
    (h1 : ∀ v, PanicsIn allSites (addNewIds v)) (h2 : ∀ o v, PanicsIn allSites (deliver o v)) :
    PanicsIn allSites (fedFollow F cfg box a addNewIds deliver) := by
  unfold fedFollow
  apply PanicsIn.bind (by pn_auto); intro op
  apply PanicsIn.bind (by pn_auto); intro actorIRI
  apply PanicsIn.bind (by pn_auto); intro isMe
  apply PanicsIn.bind
  · split
    · exact followRespond.pn F cfg box a actorIRI addNewIds deliver h1 h2
    · trivial
  intro a'
  pn_auto
pn_lemma acceptMatchFollow
pn_lemma needPropE
pn_lemma acceptFindFollow
pn_lemma acceptVerifyStored
pn_lemma acceptNonEmptyActors
pn_lemma acceptUpdateFollowing
pn_lemma acceptFollow
pn_lemma fedAccept
pn_lemma fedAdd
pn_lemma fedRemove
pn_lemma bumpCollection
pn_lemma likeLoop
pn_lemma fedLike
pn_lemma fedAnnounce
pn_lemma fedUndo
pn_lemma fedBlock
theorem fedCb.pn (F : TFacts) (addNewIds : J → Prog J) (deliver : Iri → J → Prog J)
    (cfg : CbConfig) (box : Iri) (ty : String) (a : J)
    (h1 : ∀ v, PanicsIn allSites (addNewIds v)) (h2 : ∀ o v, PanicsIn allSites (deliver o v)) :
    PanicsIn allSites (fedCb F addNewIds deliver cfg box ty a) := by
  unfold fedCb
  split
  all_goals first
    | exact fedFollow.pn F cfg box a addNewIds deliver h1 h2
    | pn_auto
pn_lemma normalizeAttribution
pn_lemma socCreate
pn_lemma socUpdateOne
pn_lemma socUpdate
pn_lemma socDelete
pn_lemma socLike
pn_lemma socCb
pn_lemma wrapIfNeeded
pn_lemma deliver
pn_lemma fedCbFull
pn_lemma postInboxScheme
pn_lemma respond
pn_lemma getInboxH
pn_lemma getOutboxH
pn_lemma postOutboxScheme
pn_lemma send
pn_lemma handler

end AV.Pub
