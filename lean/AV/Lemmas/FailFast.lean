import AV.Spec.Monitors
import AV.Lemmas.LockRules
/-
C05, "nothing is delivered after a failed step": rules for the judgement `Ff p` — run before the outbox has been
updated, `p` hands nothing to the transport, does not touch the outbox, and *returns a value only if none of its
persistence / id / callback steps answered with an error* (the monitor's `failed` flag is as it was).
-/
namespace AV
open Prog

/-- after a fragment of the pre-store phase: a value ⇒ the monitor state is exactly as before; an error ⇒ nothing was
stored or delivered (but `failed` may have been raised) -/
def FfPost (s : OrderSt) : OrderSt → Option α → Prop
  | s', some _ => s' = s
  | s', none => s'.stored = s.stored ∧ s'.delivered = s.delivered

def Ff (p : Prog α) : Prop := ∀ s : OrderSt, s.stored = false → SafeP outboxOrderMon s p (FfPost s)

namespace Ff

theorem ret (a : α) : Ff (Prog.ret a) := fun _ _ => rfl
theorem pure' (a : α) : Ff (pure a : Prog α) := fun _ _ => rfl
theorem fail (e : Err) : Ff (Prog.fail e : Prog α) := fun _ _ => ⟨rfl, rfl⟩
theorem panic (site : String) : Ff (Prog.panic site : Prog α) := fun _ _ => trivial

theorem bind {p : Prog α} {f : α → Prog β} (hp : Ff p) (hf : ∀ a, Ff (f a)) : Ff (p >>= f) := by
  intro s hs
  apply SafeP.bind
  apply SafeP.mono (hp s hs)
  intro s' o h
  cases o with
  | none => exact h
  | some a =>
    have : s' = s := h
    subst this
    exact hf a s' hs

theorem bind' {p : Prog α} {f : α → Prog β} (hp : Ff p) (hf : ∀ a, Ff (f a)) : Ff (Prog.bind p f) := bind hp hf

theorem ofE (r : E α) : Ff (Op.ofE r) := by
  cases r with
  | ok a => exact ret a
  | error e => exact fail e

theorem liftLib (x : Except Unit α) : Ff (AV.liftLib x) := by
  cases x <;> first | exact fail _ | exact ret _

theorem foldlM {β σ : Type} (f : σ → β → Prog σ) (hf : ∀ s x, Ff (f s x)) : ∀ (xs : List β) (init : σ), Ff (xs.foldlM f init) := by
  intro xs
  induction xs with
  | nil => intro init; exact pure' init
  | cons x xs ih =>
    intro init
    rw [List.foldlM_cons]
    exact bind (hf init x) (fun s => ih s)

theorem forM {β : Type} (f : β → Prog Unit) (hf : ∀ x, Ff (f x)) : ∀ (xs : List β), Ff (xs.forM f) := by
  intro xs
  induction xs with
  | nil => exact pure' ()
  | cons x xs ih =>
    show Ff (f x >>= fun _ => xs.forM f)
    exact bind (hf x) (fun _ => ih)

/-- generic call rule -/
theorem call {s : OrderSt} {Q : OrderSt → Option α → Prop} (c : Call) (k : c.Resp → Prog α)
    (h : ∀ r, ∃ s', outboxOrderMon.step s c r = some s' ∧ SafeP outboxOrderMon s' (k r) Q) :
    SafeP outboxOrderMon s (.call c k) Q := by
  intro r
  obtain ⟨s', h1, h2⟩ := h r
  simp only [h1]
  exact h2

/-- calls the pre-store phase may make: anything but `SetOutbox` and `BatchDeliver` -/
def _root_.AV.Call.isQuiet : Call → Bool
  | .setOutbox _ | .batchDeliver _ _ => false
  | _ => true

theorem step_ok (s : OrderSt) (c : Call) (r : c.Resp) (hq : c.isQuiet = true) (hr : respOk c r = true) :
    outboxOrderMon.step s c r = some s := by
  cases c <;> simp_all [outboxOrderMon, Call.isQuiet]

theorem step_any (s : OrderSt) (c : Call) (r : c.Resp) (hq : c.isQuiet = true) :
    ∃ s', outboxOrderMon.step s c r = some s' ∧ s'.stored = s.stored ∧ s'.delivered = s.delivered := by
  cases c <;> simp_all [outboxOrderMon, Call.isQuiet] <;> split <;> simp_all

/-- a failing Unlock is ignored by the library and by the monitor -/
theorem unlock (k : Iri) : Ff (Op.unlock k) := by
  intro s hs
  apply call
  intro r
  exact ⟨s, rfl, rfl⟩

theorem lock (k : Iri) : Ff (Op.lock k) := by
  intro s hs
  apply call
  intro r
  cases r with
  | ok u => exact ⟨s, by simp [outboxOrderMon, respOk], rfl⟩
  | error e => exact ⟨{ s with failed := true }, by simp [outboxOrderMon, respOk, hs, Call.isDb], ⟨rfl, rfl⟩⟩

end Ff
end AV
