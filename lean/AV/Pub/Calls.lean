import AV.Core.Prog
/-
Typed wrappers: one per application-interface method.  An `error` answer
becomes the program's error result (Go: `if err != nil { return err }`) unless
the caller uses the `…E` form to inspect it.
-/
namespace AV.Op
open AV Prog

def ofE {α : Type} (r : E α) : Prog α :=
  match r with
  | .ok a => .ret a
  | .error e => .fail e

def lock (k : Iri) : Prog Unit := .call (.lock k) ofE
/-- `Unlock`'s result is ignored everywhere in `pub` -/
def unlock (k : Iri) : Prog Unit := .call (.unlock k) fun _ => .ret ()
def inboxContains (inbox id : Iri) : Prog Bool := .call (.inboxContains inbox id) ofE
def getInbox (i : Iri) : Prog J := .call (.getInbox i) ofE
def setInbox (v : J) : Prog Unit := .call (.setInbox v) ofE
def owns (k : Iri) : Prog Bool := .call (.owns k) ofE
def actorForOutbox (o : Iri) : Prog Iri := .call (.actorForOutbox o) ofE
def actorForInbox (i : Iri) : Prog Iri := .call (.actorForInbox i) ofE
def outboxForInbox (i : Iri) : Prog Iri := .call (.outboxForInbox i) ofE
def inboxForActor (a : Iri) : Prog (Option Iri) := .call (.inboxForActor a) ofE
def exists_ (k : Iri) : Prog Bool := .call (.exists_ k) ofE
def get (k : Iri) : Prog (Option J) := .call (.get k) ofE
def create (v : J) : Prog Unit := .call (.create v) ofE
def update (v : J) : Prog Unit := .call (.update v) ofE
def delete (k : Iri) : Prog Unit := .call (.delete k) ofE
def getOutbox (o : Iri) : Prog J := .call (.getOutbox o) ofE
def setOutbox (v : J) : Prog Unit := .call (.setOutbox v) ofE
def newID (v : J) : Prog Iri := .call (.newID v) ofE
def followers (a : Iri) : Prog J := .call (.followers a) ofE
def following (a : Iri) : Prog J := .call (.following a) ofE
def liked (a : Iri) : Prog J := .call (.liked a) ofE
def newTransport (box : Iri) : Prog Unit := .call (.newTransport box) ofE
def deref (u : Iri) : Prog Doc := .call (.deref u) ofE
/-- `Dereference` whose failure is inspected by the caller -/
def derefE (u : Iri) : Prog (E Doc) := .call (.deref u) .ret
def batchDeliver (p : J) (r : List Iri) : Prog Unit := .call (.batchDeliver p r) ofE
def authGetInbox : Prog Bool := .call .authGetInbox ofE
def authGetOutbox : Prog Bool := .call .authGetOutbox ofE
def authPostInbox : Prog Bool := .call .authPostInbox ofE
def authPostOutbox : Prog Bool := .call .authPostOutbox ofE
def appGetInbox : Prog J := .call .appGetInbox ofE
def appGetOutbox : Prog J := .call .appGetOutbox ofE
def hookInbox (a : J) : Prog Unit := .call (.hookInbox a) ofE
def hookOutbox (a : J) : Prog Unit := .call (.hookOutbox a) ofE
def blocked (ids : List Iri) : Prog Bool := .call (.blocked ids) ofE
def fedCallbacks : Prog CbConfig := .call .fedCallbacks ofE
def socialCallbacks : Prog CbConfig := .call .socialCallbacks ofE
def fedDefault (a : J) : Prog Unit := .call (.fedDefault a) ofE
def socialDefault (a : J) : Prog Unit := .call (.socialDefault a) ofE
def appCb (fed : Bool) (ty : String) (a : J) : Prog Unit := .call (.appCb fed ty a) ofE
def otherCb (fed : Bool) (i : Nat) (a : J) : Prog Unit := .call (.otherCb fed i a) ofE
def maxFwdDepth : Prog Int := .call .maxFwdDepth .ret
def maxDeliveryDepth : Prog Int := .call .maxDeliveryDepth .ret
def filterForwarding (cols : List Iri) (a : J) : Prog (List Iri) := .call (.filterForwarding cols a) ofE
def now : Prog (Int × Int) := .call .now .ret
def writeHeader (code : Nat) : Prog Unit := .call (.writeHeader code) .ret
def setHeader (k v : String) : Prog Unit := .call (.setHeader k v) .ret
def writeBody (b : J) : Prog Bool := .call (.writeBody b) ofE

/-- `Lock(k); x, err := body; Unlock(k); if err != nil { return err }` — the hand-written
"unlock on every branch" sequences of `pub` -/
def locked (k : Iri) (body : Prog α) : Prog α :=
  lock k >>= fun _ => Prog.try_ body >>= fun r => unlock k >>= fun _ => ofE r

end AV.Op
