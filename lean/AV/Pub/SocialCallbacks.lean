import AV.Pub.FedCallbacks
/-
pub/social_wrapped_callbacks.go: the nine default outbox side effects.  Each
returns the activity as the Go code leaves it (Create normalises it in place) and
the `undeliverable` flag.
-/
namespace AV.Pub
open AV Val

/-- attribution part of the social `create`: actors ↔ each object's attributedTo -/
def normalizeAttribution (F : TFacts) (a : J) (op : List J) : Prog (J × List J) := do
  let actors := prop F a "actor"
  let createActorIds ← match actors with
    | none => pure []
    | some xs => do
      let ids ← idsM F xs
      let ids ← strsOf "social create: id.String() on nil" ids
      pure (dedupStr ids)
  -- each object's attributedTo ids (objects that are not typed, or whose type lacks the property, are skipped)
  let (op1, attrMaps) ← op.foldlM (fun (st : List J × List (List Iri)) j =>
      match elemOf F j with
      | .emb t =>
        if !has F t "attributedTo" then pure (st.1 ++ [j], st.2 ++ [[]]) else do
          let xs := (rawList t "attributedTo").getD []
          let t := if (rawList t "attributedTo").isNone then t.set "attributedTo" (.arr []) else t
          let ids ← idsM F xs
          let ids ← strsOf "social create: id.String() on nil" ids
          pure (st.1 ++ [t], st.2 ++ [dedupStr ids])
      | _ => pure (st.1 ++ [j], st.2 ++ [[]])) ([], [])
  -- missing actor ids onto every object's attributedTo
  let op2 := (op1.zip attrMaps).map fun (j, m) =>
      match elemOf F j with
      | .emb t =>
        if !has F t "attributedTo" then j else
        let missing := createActorIds.filter fun k => !m.contains k
        setList t "attributedTo" ((rawList t "attributedTo").getD [] ++ mkIdList missing)
      | _ => j
  -- missing attributedTo ids onto the actor property, if there is one
  let a := match actors with
    | none => a
    | some xs =>
      let extra := attrMaps.flatMap fun m => m.filter fun k => !createActorIds.contains k
      setList a "actor" (xs ++ mkIdList extra)
  pure (setList a "object" op2, op2)

def socCreate (F : TFacts) (cfg : CbConfig) (a : J) : Prog J := do
  let op ← requireObject F a
  let (a, _) ← normalizeAttribution F a op
  let a ← normalizeRecipients F a
  let op := (prop F a "object").getD []
  op.forM fun j =>
    match elemOf F j with
    | .emb obj => do
      let id ← liftLib (getId F obj)
      withLock id (Op.create obj)
    | _ => Prog.panic "social create: GetId(nil) for an object that is not a value"
  wrappedAfter false cfg "Create" a
  pure a

/-- a member the raw object gives as JSON null is deleted (if present) -/
def eraseNullStep (m : J) (kv : String × J) : J :=
  match kv.2 with
  | .null => if m.has kv.1 then m.erase kv.1 else m
  | _ => m

/-- merge of the stored and the supplied member maps, minus members the raw object gives as null -/
def mergeUpdate (stored supplied rawObj : J) : J :=
  rawObj.members.foldl eraseNullStep (supplied.members.foldl (fun (m : J) kv => m.set kv.1 kv.2) stored)

/-- `rawObjectAt`: the raw JSON of the idx-th value of the raw activity's `object`, when it is a JSON object -/
def rawObjectAt (raw : J) (idx : Nat) : J :=
  match raw.get? "object" with
  | some (.obj kvs) => if idx == 0 then .obj kvs else .obj []
  | some (.arr xs) => (match xs[idx]? with
    | some (.obj kvs) => .obj kvs
    | _ => .obj [])
  | _ => .obj []

def socUpdateOne (F : TFacts) (raw : J) (idx : Nat) (id : Iri) (j : J) : Prog Unit :=
  withLock id (do
    let t ← Op.get id
    let t ← needVal "social update: t.Serialize() on nil value" t
    match elemOf F j with
    | .emb objType =>
      -- streams.ToType of the merged map is assumed to succeed and to re-serialise to the same members
      Op.update (mergeUpdate t objType (rawObjectAt raw idx))
    | _ => Prog.fail .lib)

def socUpdate (F : TFacts) (cfg : CbConfig) (raw : J) (a : J) : Prog Unit := do
  let op ← requireObject F a
  let objIds ← idsM F op
  ((objIds.zip op).zipIdx).forM fun ((id, j), idx) => socUpdateOne F raw idx id j
  wrappedAfter false cfg "Update" a

def socDelete (F : TFacts) (cfg : CbConfig) (a : J) : Prog Unit := do
  let op ← requireObject F a
  let objIds ← idsM F op
  objIds.forM fun id =>
    withLock id (do
      let t ← Op.get id
      let t ← needVal "social delete: obj.GetTypeName() on nil value" t
      let now ← Op.now
      let id' ← strOf "social delete: tombstone id on nil" id
      Op.update (toTombstone F t id' now))
  wrappedAfter false cfg "Delete" a

def socLike (F : TFacts) (cfg : CbConfig) (outbox : Iri) (a : J) : Prog Unit := do
  let op ← requireObject F a
  let actorIRI ← Op.locked outbox (Op.actorForOutbox outbox)
  withLock actorIRI (do
      let liked ← Op.liked actorIRI
      let ids ← idsM F op
      let items := (rawList liked "items").getD []
      Op.update (setList liked "items" ((ids.map iriJ).reverse ++ items))
      wrappedAfter false cfg "Like" a)

/-- the default social callback for activity type `ty`: (activity afterwards, undeliverable) -/
def socCb (F : TFacts) (cfg : CbConfig) (outbox : Iri) (raw : J) (ty : String) (a : J) : Prog (J × Bool) :=
  match ty with
  | "Create" => do let a' ← socCreate F cfg a; pure (a', false)
  | "Update" => do socUpdate F cfg raw a; pure (a, false)
  | "Delete" => do socDelete F cfg a; pure (a, false)
  | "Follow" => do let _ ← requireObject F a; wrappedAfter false cfg "Follow" a; pure (a, false)
  | "Add" => do fedAdd F false cfg a; pure (a, false)
  | "Remove" => do fedRemove F false cfg a; pure (a, false)
  | "Like" => do socLike F cfg outbox a; pure (a, false)
  | "Undo" => do fedUndo F false cfg outbox a; pure (a, false)
  | "Block" => do let _ ← requireObject F a; wrappedAfter false cfg "Block" a; pure (a, true)
  | _ => .fail .lib

end AV.Pub
