import AV.Pub.SideEffect
/-
pub/federating_wrapped_callbacks.go: the twelve default inbox side effects.
`cfg.wrapped` says which application callbacks are set; they run after the
default effect succeeded.
-/
namespace AV.Pub
open AV Val

def wrappedAfter (fed : Bool) (cfg : CbConfig) (ty : String) (a : J) : Prog Unit :=
  if cfg.wrapped.contains ty then Op.appCb fed ty a else pure ()

/-- `op == nil || op.Len() == 0` ⇒ ErrObjectRequired -/
def requireObject (F : TFacts) (a : J) : Prog (List J) :=
  match prop F a "object" with
  | none => .fail .objectRequired
  | some [] => .fail .objectRequired
  | some xs => .ret xs

def requireTarget (F : TFacts) (a : J) : Prog (List J) :=
  match prop F a "target" with
  | none => .fail .targetRequired
  | some [] => .fail .targetRequired
  | some xs => .ret xs

/-- an `object` element as a value: embedded, or dereferenced when it is an IRI -/
def valueOrFetch (F : TFacts) (box : Iri) (j : J) : Prog J :=
  match elemOf F j with
  | .emb t => pure t
  | .iri u => do
    Op.newTransport box
    let d ← Op.deref u
    docVal d
  | .other _ => .fail .lib

/-- `Lock(id); defer Unlock(id); body` -/
def withLock (id : Iri) (body : Prog α) : Prog α := do
  Op.lock id
  Prog.finally_ body (Op.unlock id)

def fedCreate (F : TFacts) (cfg : CbConfig) (box : Iri) (a : J) : Prog Unit := do
  let op ← requireObject F a
  op.forM fun j => do
    let t ← valueOrFetch F box j
    let id ← liftLib (getId F t)
    withLock id (Op.create t)
  wrappedAfter true cfg "Create" a

def fedUpdate (F : TFacts) (cfg : CbConfig) (a : J) : Prog Unit := do
  let op ← requireObject F a
  mustHaveActivityOriginMatchObjects F a
  op.forM fun j =>
    match elemOf F j with
    | .emb t => do
      let id ← liftLib (getId F t)
      withLock id (Op.update t)
    | _ => Prog.fail .lib
  wrappedAfter true cfg "Update" a

def fedDelete (F : TFacts) (cfg : CbConfig) (a : J) : Prog Unit := do
  let op ← requireObject F a
  mustHaveActivityOriginMatchObjects F a
  op.forM fun j => do
    let id ← liftLib (toId F (elemOf F j))
    withLock id (Op.delete id)
  wrappedAfter true cfg "Delete" a

/-- `for iter … { id := ToId(iter); if id.String() == me.String() { found; break } }`: elements after the
first match are never looked at -/
def findMe (F : TFacts) (site : String) (xs : List J) (me : Iri) : Prog Bool :=
  xs.foldlM (fun (found : Bool) j => do
    if found then pure true else
    let id ← liftLib (toId F (elemOf F j))
    let id ← strOf site id
    pure (id == me)) false

/-- the automatic Accept/Reject of a Follow -/
def followResponse (ty : String) (me : Iri) (follow : J) (actorIds : List Iri) : J :=
  let r : J := .obj [("type", .str ty)]
  let r := r.set "actor" (.str me)
  let r := r.set "object" follow
  setList r "to" (mkIdList actorIds)

/-- is this inbox's actor among the objects of the Follow?  (looked at only when a response is configured) -/
def followIsMe (F : TFacts) (cfg : CbConfig) (op : List J) (actorIRI : Iri) : Prog Bool :=
  if cfg.onFollow == 0 then pure false else do
    let me ← strOf "follow: actorIRI.String() on nil" actorIRI
    findMe F "follow: id.String() on nil" op me

def followResponseType (cfg : CbConfig) : Prog String :=
  if cfg.onFollow == 1 then pure "Accept" else if cfg.onFollow == 2 then pure "Reject" else Prog.fail .lib

/-- auto-accept: the following actors go in front of the followers collection (PrependIRI one by one) -/
def followUpdateFollowers (actorIRI : Iri) (recipients : List Iri) : Prog Unit :=
  Op.locked actorIRI (do
    let followers ← Op.followers actorIRI
    Op.update (setList followers "items" (mkIdList recipients.reverse ++ (rawList followers "items").getD [])))

/-- builds, identifies and delivers the automatic Accept/Reject.  The response embeds a *copy* of the Follow
(delivery preparation strips bto/bcc from a response's embedded objects in place): the received Follow is returned
as it came. -/
def followRespond (F : TFacts) (cfg : CbConfig) (box : Iri) (a : J) (actorIRI : Iri)
    (addNewIds : J → Prog J) (deliver : Iri → J → Prog J) : Prog J := do
  let ty ← followResponseType cfg
  let followActors ← needList "follow: followActors.Begin() on nil actor property" (prop F a "actor")
  let recipients ← idsM F followActors
  let recipients ← strsOf "follow: AppendIRI(nil)" recipients
  (if cfg.onFollow == 1 then followUpdateFollowers actorIRI recipients else pure ())
  let outboxIRI ← Op.locked box (Op.outboxForInbox box)
  let response ← addNewIds (followResponse ty actorIRI a recipients)
  let _ ← deliver outboxIRI response
  pure a

def fedFollow (F : TFacts) (cfg : CbConfig) (box : Iri) (a : J)
    (addNewIds : J → Prog J) (deliver : Iri → J → Prog J) : Prog J := do
  let op ← requireObject F a
  let actorIRI ← Op.locked box (Op.actorForInbox box)
  let isMe ← followIsMe F cfg op actorIRI
  let a' ← (if isMe then followRespond F cfg box a actorIRI addNewIds deliver else pure a)
  wrappedAfter true cfg "Follow" a'
  pure a'

/-- ids of a non-nil actor/object property of a (re-)read Follow, panicking where the code calls `.Begin()` on nil -/
def needProp (F : TFacts) (site : String) (v : J) (p : String) : Prog (List J) :=
  match prop F v p with
  | none => .panic site
  | some xs => .ret xs

/-- is this inbox's actor among the actors of the Follow?  (a Follow without actor property cannot be ours) -/
def acceptMatchFollow (F : TFacts) (actorIRI followId : Iri) (actors : Option (List J)) : Prog (Option Iri) :=
  match actors with
  | none => pure none
  | some actors => do
    let me ← (if actors.isEmpty then pure actorIRI else strOf "accept: actorIRI.String() on nil" actorIRI)
    let hit ← findMe F "accept: id.String() on nil" actors me
    pure (if hit && followId != nilIri then some followId else none)

/-- a property the code checks for nil, answering with an error -/
def needPropE (F : TFacts) (v : J) (p : String) : Prog (List J) :=
  match prop F v p with
  | none => .fail .lib
  | some xs => .ret xs

/-- the first Follow among the Accept's objects that names this actor: its id -/
def acceptFindFollow (F : TFacts) (box : Iri) (op : List J) (actorIRI : Iri) : Prog (Option Iri) :=
  op.foldlM (fun (found : Option Iri) j =>
    if found.isSome then pure found else do
      let t ← valueOrFetch F box j
      if !F.isOrExt "Follow" (typeName t) then pure none else do
        let followId ← liftLib (getId F t)
        acceptMatchFollow F actorIRI followId (prop F t "actor")) none

/-- verify against the Follow stored locally under that id (run under its lock) -/
def acceptVerifyStored (F : TFacts) (followIRI actorIRI : Iri) (activityActors : List J) : Prog Unit := do
  let t ← Op.get followIRI
  let t ← needVal "accept: IsOrExtends on nil value" t
  if !F.isOrExt "Follow" (typeName t) then Prog.fail .lib else do
    let actors ← needPropE F t "actor"
    let me ← (if actors.isEmpty then pure actorIRI else strOf "accept: actorIRI.String() on nil" actorIRI)
    let ok ← findMe F "accept: id.String() on nil" actors me
    if !ok then Prog.fail .lib else do
      let acceptIds ← idsM F activityActors
      let acceptIds ← strsOf "accept: id.String() on nil" acceptIds
      let followObj ← needPropE F t "object"
      let objIds ← idsM F followObj
      let objIds ← strsOf "accept: id.String() on nil" objIds
      if acceptIds.all objIds.contains then pure () else Prog.fail .lib

def acceptNonEmptyActors (F : TFacts) (a : J) : Prog (List J) :=
  match prop F a "actor" with
  | none => Prog.fail .lib
  | some [] => Prog.fail .lib
  | some xs => pure xs

def acceptUpdateFollowing (F : TFacts) (actorIRI : Iri) (activityActors : List J) : Prog Unit :=
  Op.locked actorIRI (do
    let following ← Op.following actorIRI
    let ids ← idsM F activityActors
    Op.update (setList following "items" ((ids.map iriJ).reverse ++ (rawList following "items").getD [])))

def acceptFollow (F : TFacts) (box : Iri) (a : J) (op : List J) : Prog Unit := do
  let actorIRI ← Op.locked box (Op.actorForInbox box)
  let maybe ← acceptFindFollow F box op actorIRI
  match maybe with
  | none => pure ()
  | some followIRI => do
    let activityActors ← acceptNonEmptyActors F a
    withLock followIRI (acceptVerifyStored F followIRI actorIRI activityActors)
    acceptUpdateFollowing F actorIRI activityActors

def fedAccept (F : TFacts) (cfg : CbConfig) (box : Iri) (a : J) : Prog Unit := do
  (match prop F a "object" with
   | none => pure ()
   | some [] => pure ()
   | some op => acceptFollow F box a op)
  wrappedAfter true cfg "Accept" a

def fedAdd (F : TFacts) (fed : Bool) (cfg : CbConfig) (a : J) : Prog Unit := do
  let op ← requireObject F a
  let target ← requireTarget F a
  add F op target
  wrappedAfter fed cfg "Add" a

def fedRemove (F : TFacts) (fed : Bool) (cfg : CbConfig) (a : J) : Prog Unit := do
  let op ← requireObject F a
  let target ← requireTarget F a
  remove F op target
  wrappedAfter fed cfg "Remove" a

/-- the `likes` / `shares` value of an object: a typed collection, or (IRI / anything else / absent) a fresh Collection -/
def bumpCol (F : TFacts) (t : J) (p : String) : J :=
  match t.get? p with
  | some j => (match elemOf F j with
    | .emb c => c
    | _ => .obj [("type", .str "Collection")])
  | none => .obj [("type", .str "Collection")]

/-- prepend the activity id to the `likes`/`shares` collection of an owned object -/
def bumpCollection (F : TFacts) (t : J) (p : String) (id : Iri) : Prog J :=
  if !has F t p then Prog.fail .lib else
  if has F (bumpCol F t p) "items" then
    pure (t.set p (setList (bumpCol F t p) "items" (iriJ id :: (rawList (bumpCol F t p) "items").getD [])))
  else if has F (bumpCol F t p) "orderedItems" then
    pure (t.set p (setList (bumpCol F t p) "orderedItems" (iriJ id :: (rawList (bumpCol F t p) "orderedItems").getD [])))
  else Prog.fail .lib

def likeLoop (F : TFacts) (p : String) (id : Iri) (j : J) : Prog Unit := do
  let objId ← liftLib (toId F (elemOf F j))
  withLock objId (do
    let owns ← Op.owns objId
    if !owns then pure () else
    let t ← Op.get objId
    let t ← needVal "like/announce: type assertion on nil value" t
    let t ← bumpCollection F t p id
    Op.update t)

def fedLike (F : TFacts) (cfg : CbConfig) (a : J) : Prog Unit := do
  let op ← requireObject F a
  let id ← liftLib (getId F a)
  op.forM (likeLoop F "likes" id)
  wrappedAfter true cfg "Like" a

def fedAnnounce (F : TFacts) (cfg : CbConfig) (a : J) : Prog Unit := do
  let id ← liftLib (getId F a)
  (match prop F a "object" with
   | none => pure ()
   | some op => op.forM (likeLoop F "shares" id))
  wrappedAfter true cfg "Announce" a

def fedUndo (F : TFacts) (fed : Bool) (cfg : CbConfig) (box : Iri) (a : J) : Prog Unit := do
  let op ← requireObject F a
  mustHaveActivityActorsMatchObjectActors F (prop F a "actor") op box
  wrappedAfter fed cfg "Undo" a

def fedBlock (F : TFacts) (cfg : CbConfig) (a : J) : Prog Unit := do
  let _ ← requireObject F a
  wrappedAfter true cfg "Block" a

/-- the default federating callback for activity type `ty`; returns the activity as it is afterwards
(only the Follow response path touches it) -/
def fedCb (F : TFacts) (addNewIds : J → Prog J) (deliver : Iri → J → Prog J)
    (cfg : CbConfig) (box : Iri) (ty : String) (a : J) : Prog J :=
  match ty with
  | "Create" => do fedCreate F cfg box a; pure a
  | "Update" => do fedUpdate F cfg a; pure a
  | "Delete" => do fedDelete F cfg a; pure a
  | "Follow" => fedFollow F cfg box a addNewIds deliver
  | "Accept" => do fedAccept F cfg box a; pure a
  | "Reject" => do wrappedAfter true cfg "Reject" a; pure a
  | "Add" => do fedAdd F true cfg a; pure a
  | "Remove" => do fedRemove F true cfg a; pure a
  | "Like" => do fedLike F cfg a; pure a
  | "Announce" => do fedAnnounce F cfg a; pure a
  | "Undo" => do fedUndo F true cfg box a; pure a
  | "Block" => do fedBlock F cfg a; pure a
  | _ => .fail .lib

end AV.Pub
