import AV.Pub.Val
import AV.Pub.Calls
import AV.Core.Time
/-
pub/util.go, function by function.  Comments name the Go function; quirks that a
tidy model would hide are kept (nil URLs whose `.String()`/`.Host` panics,
named-result errors, appends in map order, …).
-/
namespace AV.Pub
open AV Val

/-! ### media types (`init`, `headerIsActivityPubMediaType`, `isActivityPubPost/Get`) -/

def mediaTypes : List String :=
  "application/activity+json" ::
  ([";", " ;", " ; ", "; "].flatMap fun semi =>
    ["profile=https://www.w3.org/ns/activitystreams", "profile=\"https://www.w3.org/ns/activitystreams\""].map fun profile =>
      "application/ld+json" ++ semi ++ profile)

def isPrefixL : List Char → List Char → Bool
  | [], _ => true
  | _ :: _, [] => false
  | a :: as, b :: bs => a == b && isPrefixL as bs

def containsL (pat : List Char) : List Char → Bool
  | [] => pat.isEmpty
  | c :: cs => isPrefixL pat (c :: cs) || containsL pat cs

/-- `strings.Contains(header, mediaType)` for some accepted media type -/
def headerIsAP (header : String) : Bool :=
  mediaTypes.any fun m => containsL m.toList header.toList

def isAPPost (method ctype : String) : Bool := method == "POST" && headerIsAP ctype
def isAPGet (method accept : String) : Bool := method == "GET" && headerIsAP accept

/-! ### small helpers -/

/-- `u.String()` / `u.Host` on a nil `*url.URL` is a nil dereference -/
def strOf (site : String) (u : Iri) : Prog Iri :=
  if u == nilIri then .panic site else .ret u

def strsOf (site : String) (us : List Iri) : Prog (List Iri) :=
  if us.contains nilIri then .panic site else .ret us

/-- `ToId` on every element of a (non-nil) property -/
def idsM (F : TFacts) (xs : List J) : Prog (List Iri) := liftLib (idsOf F xs)

def isPublic (s : String) : Bool :=
  s == "https://www.w3.org/ns/activitystreams#Public" || s == "Public" || s == "as:Public"

/-- `filterURLs(u, IsPublic)` -/
def filterPublic (us : List Iri) : List Iri := us.filter fun u => !isPublic u

/-- `removeOne`: removes every occurrence -/
def removeOne (us : List Iri) (x : Iri) : List Iri := us.filter fun u => u != x

/-- `dedupeIRIs(recipients, ignored)`: first occurrences, minus the ignored ones -/
def dedupeIRIs (rs ignored : List Iri) : List Iri :=
  (rs.foldl (fun (acc : List Iri) k => if ignored.contains k || acc.contains k then acc else acc ++ [k]) [])

/-- `getInbox(t)` -/
def getInbox (F : TFacts) (t : J) : Prog Iri :=
  if !has F t "inbox" then .fail .lib
  else match t.get? "inbox" with
    | none => .fail .lib
    | some j => liftLib (toId F (elemOf F j))

def getInboxes (F : TFacts) (ts : List J) : Prog (List Iri) :=
  ts.foldlM (fun acc t => do let i ← getInbox F t; pure (acc ++ [i])) []

/-! ### `getInboxForwardingValues` -/

/-- one property's contribution: typed values, and for everything else `iter.GetIRI()` (nil when the
element is neither typed nor an IRI) -/
def fwdVals1 (F : TFacts) (o : J) (p : String) : List J × List Iri :=
  match prop F o p with
  | none => ([], [])
  | some xs => xs.foldl (fun (acc : List J × List Iri) j =>
      match elemOf F j with
      | .emb v => (acc.1 ++ [v], acc.2)
      | .iri u => (acc.1, acc.2 ++ [u])
      | .other _ => acc) ([], [])

def getInboxForwardingValues (F : TFacts) (o : J) : List J × List Iri :=
  ["inReplyTo", "tag", "object", "target"].foldl (fun (acc : List J × List Iri) p =>
    let (t, i) := fwdVals1 F o p
    (acc.1 ++ t, acc.2 ++ i)) ([], [])

/-! ### `wrapInCreate` -/

def addressing : List String := ["to", "bto", "cc", "bcc", "audience"]

def wrapInCreate (F : TFacts) (o : J) (actor : Iri) : Prog J := do
  -- `oProp.AppendType(o)` ignores its error: an object outside the property's range leaves it empty
  let c0 : J := .obj [("type", .str "Create")]
  let c1 := if F.known (typeName o) then c0.set "object" o else c0.set "object" (.arr [])
  let c2 := c1.set "actor" (.str actor)
  -- published: the property (even when nil) is copied if the object's type has it
  let c3 := if has F o "published" then (match o.get? "published" with | some p => c2.set "published" p | none => c2) else c2
  addressing.foldlM (fun (c : J) p =>
    match prop F o p with
    | none => pure c
    | some xs => do
      let ids ← idsM F xs
      let ids ← strsOf "wrapInCreate: AppendIRI(nil) serialises a nil URL" ids
      pure (setList c p (mkIdList ids))) c3

/-! ### `stripHiddenRecipients`, `clearSensitiveFields` -/

def stripOne (F : TFacts) (v : J) : J :=
  let v := if has F v "bto" then clear v "bto" else v
  if has F v "bcc" then clear v "bcc" else v

def mapRaw (v : J) (p : String) (f : J → J) : J :=
  match v.get? p with
  | some (.arr xs) => v.set p (.arr (xs.map f))
  | some x => v.set p (f x)
  | none => v

/-- what `stripHiddenRecipients` does to one `object` element: typed values lose bto/bcc -/
def stripElem (F : TFacts) (j : J) : J :=
  match elemOf F j with
  | .emb v => stripOne F v
  | _ => j

/-- `stripHiddenRecipients(activity)`: bto/bcc off the activity and off each typed `object` element -/
def stripHiddenRecipients (F : TFacts) (a : J) : J :=
  let a := clear (clear a "bto") "bcc"
  match prop F a "object" with
  | none => a
  | some _ => mapRaw a "object" (stripElem F)

mutual
/-- `clearSensitiveFields(obj)`: bto/bcc removed, recursively through typed `object` values -/
def clearSensitive (F : TFacts) : J → J
  | .obj kvs =>
    if F.known (typeName (.obj kvs)) then .obj (clearKvs F (typeName (.obj kvs)) kvs) else .obj kvs
  | j => j
def clearKvs (F : TFacts) (tn : String) : List (String × J) → List (String × J)
  | [] => []
  | (k, v) :: rest =>
    if (k == "bto" && F.hasProp tn "bto") || (k == "bcc" && F.hasProp tn "bcc") then clearKvs F tn rest
    else if k == "object" && F.hasProp tn "object" then (k, clearObjVal F v) :: clearKvs F tn rest
    else (k, v) :: clearKvs F tn rest
def clearObjVal (F : TFacts) : J → J
  | .arr xs => .arr (clearList F xs)
  | .obj kvs => clearSensitive F (.obj kvs)
  | j => j
def clearList (F : TFacts) : List J → List J
  | [] => []
  | x :: xs => clearSensitive F x :: clearList F xs
end

/-! ### `mustHaveActivityOriginMatchObjects` -/

def mustHaveActivityOriginMatchObjects (F : TFacts) (a : J) : Prog Unit := do
  let origin ← liftLib (getId F a)
  let origin ← strOf "origin: originIRI.Host on nil" origin
  let originHost := Iri.hostOf origin
  match prop F a "object" with
  | none => pure ()
  | some xs =>
    xs.forM fun j => do
      let iri ← liftLib (toId F (elemOf F j))
      let iri ← strOf "origin: iri.Host on nil" iri
      if originHost != Iri.hostOf iri then .fail .lib else pure ()

/-! ### `normalizeRecipients` -/

def dedupStr (xs : List String) : List String :=
  xs.foldl (fun (acc : List String) x => if acc.contains x then acc else acc ++ [x]) []

/-- ids of a recipient property as the code's map: distinct `String()`s -/
def recipMap (F : TFacts) (xs : List J) : Prog (List Iri) := do
  let ids ← idsM F xs
  let ids ← strsOf "normalizeRecipients: id.String() on nil" ids
  pure (dedupStr ids)

/-- Phase 0 for one property: make it non-nil, read its id map -/
def normActivityProp (F : TFacts) (a : J) (p : String) : Prog (J × List Iri) := do
  let xs := (prop F a p).getD []
  let a := if (prop F a p).isNone then a.set p (.arr []) else a
  let m ← recipMap F xs
  pure (a, m)

/-- Phases 1+2 for one object and one property: make it non-nil, read its ids, append the activity's missing ones -/
def normObjectProp (F : TFacts) (o : J) (p : String) (actorMap : List Iri) : Prog (J × List Iri) := do
  if !has F o p then .fail .lib else
  let xs := (rawList o p).getD []
  let m ← recipMap F xs
  let missing := actorMap.filter fun k => !m.contains k
  pure (setList o p (xs ++ mkIdList missing), m)

/-- a property the code dereferences without a nil check -/
def needList (site : String) (o : Option (List J)) : Prog (List J) :=
  match o with
  | some xs => .ret xs
  | none => .panic site

/-- Phase 0: every addressing property of the activity made non-nil, with its id map -/
def normPhase0 (F : TFacts) (a : J) : Prog (J × List (List Iri)) :=
  addressing.foldlM (fun (st : J × List (List Iri)) p => do
      let r ← normActivityProp F st.1 p
      pure (r.1, st.2 ++ [r.2])) (a, [])

/-- Phases 1+2 for one object: all five properties -/
def normObject (F : TFacts) (maps : List (List Iri)) (o : J) : Prog (J × List (List Iri)) :=
  (addressing.zip maps).foldlM (fun (s2 : J × List (List Iri)) pm => do
      let r ← normObjectProp F s2.1 pm.1 pm.2
      pure (r.1, s2.2 ++ [r.2])) (o, [])

/-- Phases 1+2 over all objects; an object that is not a typed value has no 'to' property -/
def normObjects (F : TFacts) (maps : List (List Iri)) (objs : List J) : Prog (List J × List (List (List Iri))) :=
  objs.foldlM (fun (st : List J × List (List (List Iri))) j =>
      match elemOf F j with
      | .emb o => do
        let r ← normObject F maps o
        pure (st.1 ++ [r.1], st.2 ++ [r.2])
      | _ => Prog.fail .lib) ([], [])

/-- Phase 3: object ids missing from the activity's original map, object by object -/
def normPhase3 (a : J) (maps : List (List Iri)) (objMaps : List (List (List Iri))) : J :=
  (addressing.zip maps).zipIdx.foldl (fun (a : J) pmi =>
      let extra := objMaps.flatMap fun ms => (ms.getD pmi.2 []).filter fun k => !pmi.1.2.contains k
      setList a pmi.1.1 ((rawList a pmi.1.1).getD [] ++ mkIdList extra)) a

/-- `normalizeRecipients(a)` for a Create.  Appends happen in Go-map order in the code; here in first-seen
order (compared as sets). -/
def normalizeRecipients (F : TFacts) (a : J) : Prog J := do
  let r0 ← normPhase0 F a
  let objs ← needList "normalizeRecipients: o.Len() on nil object property" (prop F r0.1 "object")
  let r1 ← normObjects F r0.2 objs
  pure (normPhase3 (setList r0.1 "object" r1.1) r0.2 r1.2)

/-! ### `toTombstone` -/

/-- copy member `p` of `obj` onto `t` when the object's type has the property and it is set -/
def copyMember (F : TFacts) (obj t : J) (p : String) : J :=
  if has F obj p then (match obj.get? p with
    | some x => t.set p x
    | none => t) else t

def toTombstone (F : TFacts) (obj : J) (id : Iri) (now : Int × Int) : J :=
  let t : J := .obj [("type", .str "Tombstone")]
  let t := t.set "id" (.str id)
  let t := t.set "formerType" (.str (typeName obj))
  let t := copyMember F obj t "published"
  let t := copyMember F obj t "updated"
  t.set "deleted" (.str (Time.rfc3339 now.1 now.2))

/-! ### `mustHaveActivityActorsMatchObjectActors` -/

/-- json.Unmarshal + streams.ToType of dereferenced bytes, where every failure is returned as an error -/
def docVal (d : Doc) : Prog J :=
  match d with
  | .val j => .ret j
  | _ => .fail .lib

/-- the actor property of a fetched activity (`objActors.Begin()` on nil is a nil dereference) -/
def undoObjActors (t : J) : Prog (List J) :=
  match rawList t "actor" with
  | none => Prog.fail .lib
  | some xs => pure xs

/-- what the Undo check does with a fetched document: every actor of it must be among `actorIds` -/
def undoTail (F : TFacts) (actorIds : List Iri) (d : Doc) : Prog Unit := do
  let t ← docVal d
  if !has F t "actor" then .fail .lib else do
    let objActors ← undoObjActors t
    let ids ← idsM F objActors
    let ids ← strsOf "undo: id.String() on nil" ids
    if ids.all actorIds.contains then pure () else .fail .lib

def undoLoop (F : TFacts) (actorIds : List Iri) (box : Iri) (op : List J) : Prog Unit :=
  op.forM fun j => do
    let iri ← liftLib (toId F (elemOf F j))
    Op.newTransport box
    let d ← Op.deref iri
    undoTail F actorIds d

def undoActorElems (actors : Option (List J)) : Prog (List J) :=
  match actors with
  | none => Prog.fail .lib
  | some xs => pure xs

def mustHaveActivityActorsMatchObjectActors (F : TFacts) (actors : Option (List J)) (op : List J) (box : Iri) : Prog Unit := do
  let actorElems ← undoActorElems actors
  let actorIds ← idsM F actorElems
  let actorIds ← strsOf "undo: id.String() on nil" actorIds
  undoLoop F actorIds box op

/-! ### shared `add` / `remove` -/

/-- the value a `Get` must hand back before the library looks at its type -/
def needVal (site : String) (o : Option J) : Prog J :=
  match o with
  | some v => .ret v
  | none => .panic site

def addLoop (F : TFacts) (opIds : List Iri) (t : Iri) : Prog Unit := do
  Op.lock t
  Prog.finally_ (do
    let owns ← Op.owns t
    if !owns then pure () else
    let tp ← Op.get t
    let tp ← needVal "add: IsOrExtends on nil value" tp
    let key ←
      if F.isOrExt "OrderedCollection" (typeName tp) then pure "orderedItems"
      else if F.isOrExt "Collection" (typeName tp) then pure "items"
      else Prog.fail .lib
    let ids ← strsOf "add: AppendIRI(nil)" opIds
    let tp := setList tp key ((rawList tp key).getD [] ++ mkIdList ids)
    Op.update tp) (Op.unlock t)

/-- `add(c, op, target, db)` (both properties non-nil and non-empty, checked by the callers) -/
def add (F : TFacts) (op target : List J) : Prog Unit := do
  let opIds ← idsM F op
  let targetIds ← idsM F target
  targetIds.forM (addLoop F opIds)

def removeLoop (F : TFacts) (opIds : List Iri) (t : Iri) : Prog Unit := do
  Op.lock t
  Prog.finally_ (do
    let owns ← Op.owns t
    if !owns then pure () else
    let tp ← Op.get t
    let tp ← needVal "remove: IsOrExtends on nil value" tp
    let key ←
      if F.isOrExt "OrderedCollection" (typeName tp) then pure "orderedItems"
      else if F.isOrExt "Collection" (typeName tp) then pure "items"
      else Prog.fail .lib
    let tp ← match rawList tp key with
      | none => pure tp
      | some xs => do
        let kept ← xs.foldlM (fun (acc : List J) j => do
          let id ← liftLib (toId F (elemOf F j))
          let id ← strOf "remove: id.String() on nil" id
          pure (if opIds.contains id then acc else acc ++ [j])) []
        pure (setList tp key kept)
    Op.update tp) (Op.unlock t)

def remove (F : TFacts) (op target : List J) : Prog Unit := do
  let opIds ← idsM F op
  let opIds ← strsOf "remove: id.String() on nil" opIds
  let targetIds ← idsM F target
  targetIds.forM (removeLoop F opIds)

/-! ### `dedupeOrderedItems`, `addResponseHeaders` -/

/-- the id an `orderedItems` element is de-duplicated by -/
def dedupeKey (F : TFacts) (j : J) : Prog Iri := do
  let id ← (match elemOf F j with
    | .emb v => liftLib (getId F v)
    | .iri u => pure u
    | .other _ => Prog.fail .lib)
  strOf "dedupeOrderedItems: id.String() on nil" id

/-- the index/Remove loop of `dedupeOrderedItems`: an element whose id was seen before is removed -/
def dedupeGo (F : TFacts) : List J → List Iri → Prog (List J)
  | [], _ => pure []
  | j :: rest, seen => do
    let id ← dedupeKey F j
    if seen.contains id then dedupeGo F rest seen
    else do
      let r ← dedupeGo F rest (id :: seen)
      pure (j :: r)

/-- `dedupeOrderedItems(oc)`: later duplicates (by id) removed, order otherwise kept -/
def dedupeOrderedItems (F : TFacts) (oc : J) : Prog J :=
  match prop F oc "orderedItems" with
  | none => pure oc
  | some xs => do
    let kept ← dedupeGo F xs []
    pure (if kept.length == xs.length then oc else setList oc "orderedItems" kept)

def contentTypeValue : String := "application/ld+json; profile=\"https://www.w3.org/ns/activitystreams\""

/-- `addResponseHeaders`: the Digest value depends on the marshalled bytes; the model names it symbolically
and the monitor recomputes it from the bytes actually written -/
def addResponseHeaders : Prog Unit := do
  Op.setHeader "Content-Type" contentTypeValue
  let t ← Op.now
  Op.setHeader "Date" (Time.imfFixdate t.1)
  Op.setHeader "Digest" "SHA-256=<digest of the body>"

end AV.Pub
