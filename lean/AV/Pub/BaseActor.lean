import AV.Pub.SocialCallbacks
/-
pub/base_actor.go and pub/handlers.go: the HTTP skeleton.
A request is abstracted to what the code looks at: method, the relevant header
value, and the body as the three decoding steps see it.
-/
namespace AV.Pub
open AV Val

/-- the request body through `ioutil.ReadAll`, `json.Unmarshal(&m)` and `streams.ToType` -/
inductive Body where
  | readErr                                  -- reading the body fails
  | badJson                                  -- not JSON, or JSON that is not an object/null
  | jnull                                    -- the literal `null`: m stays nil, ToType then fails (not unmatched)
  | undecodable (raw : J) (unmatched : Bool) -- an object ToType rejects
  | val (raw : J) (v : J)                    -- raw member map and the decoded value (its re-serialisation)
  deriving Inhabited

structure Request where
  method : String
  header : String        -- Content-Type (POST) / Accept (GET) as `Header.Get` returns it
  body   : Body
  box    : Iri           -- `requestId(r, scheme)`
  deriving Inhabited

structure BaseCfg where
  social : Bool          -- enableSocialProtocol
  federated : Bool       -- enableFederatedProtocol
  delegate : ActorCfg    -- which protocol objects the sideEffectActor holds
  deriving Inhabited, Repr

inductive Handled where
  | notHandled | handled
  deriving DecidableEq, Repr, Inhabited

/-- the `pub.Activity` interface: the type has all of these accessors -/
def isActivityIface (F : TFacts) (v : J) : Bool :=
  ["actor", "audience", "bcc", "bto", "cc", "to", "attributedTo", "object"].all fun p => has F v p

/-- the body as an ActivityStreams value, or the handler's early exit -/
inductive Parsed where
  | err | badRequest | val (raw : J) (v : J)

def parseBody (b : Body) : Parsed :=
  match b with
  | .readErr | .badJson | .jnull => .err
  | .undecodable _ true => .badRequest
  | .undecodable _ false => .err
  | .val raw v => .val raw v

/-- a non-Activity is wrapped in a Create -/
def wrapIfNeeded (F : TFacts) (outbox : Iri) (asValue : J) : Prog J :=
  if !F.isOrExt "Activity" (typeName asValue) then wrapInCreateM F asValue outbox else pure asValue

/-- `deliver`: wrap, identify, side effects + outbox, then federate -/
def deliver (F : TFacts) (cfg : BaseCfg) (outbox : Iri) (asValue : J) (raw : Option J) : Prog J := do
  let asValue ← wrapIfNeeded F outbox asValue
  if !isActivityIface F asValue then Prog.fail .lib else do
    let activity ← addNewIDs F asValue
    let r ← postOutbox F cfg.delegate (socCb F) activity outbox (raw.getD activity)
    if cfg.federated && r.1 then deliverS2S F outbox r.2 else pure r.2

/-- the federating default callbacks get `AddNewIDs` and `Deliver` as side channels -/
def fedCbFull (F : TFacts) : CbConfig → Iri → String → J → Prog J :=
  fedCb F (addNewIDs F) (deliverS2S F)

/-- a call through the (possibly nil) FederatingProtocol / SocialProtocol of the sideEffectActor -/
def viaS2S (cfg : BaseCfg) (site : String) (p : Prog α) : Prog α :=
  if cfg.delegate.federating then p else .panic site
def viaC2S (cfg : BaseCfg) (site : String) (p : Prog α) : Prog α :=
  if cfg.delegate.social then p else .panic site

/-- `PostInboxScheme` -/
def postInboxScheme (F : TFacts) (cfg : BaseCfg) (r : Request) : Prog Handled := do
  if !isAPPost r.method r.header then pure .notHandled else
  if !cfg.federated then do Op.writeHeader 405; pure .handled else
  let authed ← viaS2S cfg "PostInbox: nil FederatingProtocol" Op.authPostInbox
  if !authed then pure .handled else
  match parseBody r.body with
  | .err => Prog.fail .lib
  | .badRequest => do Op.writeHeader 400; pure .handled
  | .val _ v =>
  if !isActivityIface F v then Prog.fail .lib else
  if !idUsable v then do Op.writeHeader 400; pure .handled else
  Op.hookInbox v
  let authorized ← authorizePostInbox F v
  if !authorized then pure .handled else
  let res ← Prog.try_ (postInbox F (fedCbFull F) r.box v)
  match res with
  | .error .objectRequired => do Op.writeHeader 400; pure .handled
  | .error .targetRequired => do Op.writeHeader 400; pure .handled
  | .error e => Prog.fail e
  | .ok v' =>
  inboxForwarding F r.box v'
  Op.writeHeader 200
  pure .handled

/-- the common tail of GetInbox/GetOutbox/handler: headers, status, body -/
def respond (status : Nat) (v : J) : Prog Handled := do
  addResponseHeaders
  Op.writeHeader status
  let n ← Op.writeBody v
  if n then pure .handled else Prog.fail .lib

/-- `GetInbox` -/
def getInboxH (F : TFacts) (cfg : BaseCfg) (r : Request) : Prog Handled := do
  if !isAPGet r.method r.header then pure .notHandled else
  let authed ← Op.authGetInbox
  if !authed then pure .handled else
  let oc ← viaS2S cfg "GetInbox: nil FederatingProtocol" Op.appGetInbox
  let oc ← dedupeOrderedItems F oc
  respond 200 oc

/-- `GetOutbox` -/
def getOutboxH (r : Request) : Prog Handled := do
  if !isAPGet r.method r.header then pure .notHandled else
  let authed ← Op.authGetOutbox
  if !authed then pure .handled else
  let oc ← Op.appGetOutbox
  respond 200 oc

/-- `PostOutboxScheme` -/
def postOutboxScheme (F : TFacts) (cfg : BaseCfg) (r : Request) : Prog Handled := do
  if !isAPPost r.method r.header then pure .notHandled else
  if !cfg.social then do Op.writeHeader 405; pure .handled else
  let authed ← viaC2S cfg "PostOutbox: nil SocialProtocol" Op.authPostOutbox
  if !authed then pure .handled else
  match parseBody r.body with
  | .err => Prog.fail .lib
  | .badRequest => do Op.writeHeader 400; pure .handled
  | .val raw v =>
  viaC2S cfg "PostOutbox: nil SocialProtocol" (Op.hookOutbox v)
  let res ← Prog.try_ (deliver F cfg r.box v (some raw))
  match res with
  | .error .objectRequired => do Op.writeHeader 400; pure .handled
  | .error .targetRequired => do Op.writeHeader 400; pure .handled
  | .error e => Prog.fail e
  | .ok activity =>
  let id ← activityIdGet "PostOutbox: activity.GetJSONLDId().Get()" activity
  let id ← strOf "PostOutbox: id.String() on nil" id
  Op.setHeader "Location" id
  Op.writeHeader 201
  pure .handled

/-- `Send` -/
def send (F : TFacts) (cfg : BaseCfg) (outbox : Iri) (t : J) : Prog J :=
  deliver F cfg outbox t none

/-- `NewActivityStreamsHandlerScheme` -/
def handler (F : TFacts) (r : Request) : Prog Handled := do
  if !isAPGet r.method r.header then pure .notHandled else
  let res ← Op.locked r.box (Op.get r.box)
  match res with
  | none => Prog.fail .notFound
  | some t =>
  let t := clearSensitive F t
  respond (if F.isOrExt "Tombstone" (typeName t) then 410 else 200) t

end AV.Pub
