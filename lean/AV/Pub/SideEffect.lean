import AV.Pub.Util
/-
pub/side_effect_actor.go, method by method (minus the callback bodies, which are
in FedCallbacks/SocialCallbacks and are passed in as `dispatch`).
Values are immutable here; where the Go code mutates the activity in place the
function returns the new value.
-/
namespace AV.Pub
open AV Val

/-- which protocol delegates the sideEffectActor was built with (`NewActor`, `NewSocialActor`, `NewFederatingActor`) -/
structure ActorCfg where
  social : Bool        -- c2s != nil
  federating : Bool    -- s2s != nil
  deriving Repr, Inhabited

/-- how an IRI shows up inside a serialised property: a nil `*url.URL` element serialises as `null` -/
def iriJ (u : Iri) : J := if u == nilIri then .null else .str u

/-- `activity.GetJSONLDId().Get()`; calling `.Get()` on a nil id property is a nil dereference -/
def activityIdGet (site : String) (a : J) : Prog Iri :=
  match idState a with
  | .absent => .panic site
  | _ => .ret (idGet a)

/-- `AuthorizePostInbox`: collects one id per actor and asks `Blocked`; writes 403 when blocked -/
def authorizePostInbox (F : TFacts) (a : J) : Prog Bool := do
  match prop F a "actor" with
  | none => Prog.fail .lib
  | some xs =>
    -- `IsIRI` → the IRI; embedded value → its own id (`GetId`); anything else is an error: this is `ToId` elementwise
    let iris ← liftLib (idsOf F xs)
    let blocked ← Op.blocked iris
    if blocked then do Op.writeHeader 403; pure false else pure true

/-- prepend the activity id to the first page's `orderedItems` -/
def prependId (page : J) (id : Iri) : J :=
  setList page "orderedItems" (iriJ id :: (rawList page "orderedItems").getD [])

/-- `addToInboxIfNew` -/
def addToInboxIfNew (inbox : Iri) (a : J) : Prog Bool := do
  Op.lock inbox
  Prog.finally_ (do
    let id ← activityIdGet "addToInboxIfNew: id.Get()" a
    let contains ← Op.inboxContains inbox id
    if contains then pure false else
    let page ← Op.getInbox inbox
    Op.setInbox (prependId page id)
    pure true) (Op.unlock inbox)

/-- the twelve (federating) / nine (social) activity types with a default side effect, in registration order -/
def fedDefaults : List String := ["Create", "Update", "Delete", "Follow", "Accept", "Reject", "Add", "Remove", "Like", "Announce", "Undo", "Block"]
def socialDefaults : List String := ["Create", "Update", "Delete", "Follow", "Add", "Remove", "Like", "Undo", "Block"]

inductive Dispatch where
  | other (idx : Nat)      -- the application's `other` callback number idx has the activity's own type
  | default (ty : String)  -- the library's default callback for that type
  | unmatched              -- no callback: DefaultCallback
  | badCallbacks           -- `other` contains something that is not a legal callback: NewTypeResolver fails
  deriving Repr, DecidableEq, Inhabited

/-- `NewTypeResolver(wrapped.callbacks(other)...)` then `Resolve`: `other` entries come first, a default is
registered only if `other` has no callback of that type, and the resolver picks the first callback written for
the activity's own type (C14). -/
def dispatchOf (F : TFacts) (defaults : List String) (other : List String) (ty : String) : Dispatch :=
  if other.any (fun o => !F.known o) then .badCallbacks
  else match other.findIdx? (· == ty) with
    | some i => .other i
    | none => if defaults.contains ty then .default ty else .unmatched

/-- `PostInbox`: `fedCb` is the table of default federating callbacks (FedCallbacks.lean); returns the
activity as the side effects leave it -/
def postInbox (F : TFacts) (fedCb : CbConfig → Iri → String → J → Prog J) (inbox : Iri) (a : J) : Prog J := do
  let isNew ← addToInboxIfNew inbox a
  if !isNew then pure a else do
    let cfg ← Op.fedCallbacks
    match dispatchOf F fedDefaults cfg.other (typeName a) with
    | .badCallbacks => Prog.fail .lib
    | .other i => do Op.otherCb true i a; pure a
    | .default ty => fedCb cfg inbox ty a
    | .unmatched => do Op.fedDefault a; pure a

/-- `deliverToRecipients` -/
def deliverToRecipients (box : Iri) (a : J) (recipients : List Iri) : Prog Unit := do
  Op.newTransport box
  Op.batchDeliver a recipients

/-- `hasInboxForwardingValues`; `fuel` stands for the Go call stack: with `maxDepth ≤ 0` the recursion is
unbounded in the code, which the model reports as a panic when the fuel runs out -/
def hasInboxForwardingValues (F : TFacts) (box : Iri) (maxDepth : Int) : Nat → Nat → J → Prog Bool
  | 0, _, _ => .panic "hasInboxForwardingValues: recursion not bounded"
  | fuel + 1, cur, val =>
    if maxDepth > 0 && (cur : Int) ≥ maxDepth then pure false else do
    let (types, iris) := getInboxForwardingValues F val
    -- IRIs: do we own them?
    let hit ← iris.foldlM (fun (found : Bool) iri => do
        if found then pure true else Op.locked iri (Op.owns iri)) false
    if hit then pure true else
    -- embedded values: their ids
    let hit ← types.foldlM (fun (found : Bool) v => do
        if found then pure true else
        let id ← liftLib (getId F v)
        Op.locked id (Op.owns id)) false
    if hit then pure true else
    -- fetch the IRIs so as to recur into them
    let fetched ← iris.foldlM (fun (acc : List J) iri => do
        Op.newTransport box
        let r ← Op.derefE iri
        match r with
        | .error _ => pure acc                       -- missing data: skip
        | .ok .badJson => Prog.fail .lib              -- json.Unmarshal error is fatal
        | .ok (.undecodable _) => pure acc            -- unhandled type: skip
        | .ok (.val t) => pure (acc ++ [t])) []
    (types ++ fetched).foldlM (fun (found : Bool) v => do
        if found then pure true else hasInboxForwardingValues F box maxDepth fuel (cur + 1) v) false

def fwdFuel (maxDepth : Int) : Nat := if maxDepth > 0 then maxDepth.toNat + 1 else 64

/-- the load loop of `InboxForwarding`: collections stay locked until the function returns (deferred
unlock); an id that is already loaded (named twice in to/cc/audience) is not locked again -/
def fwdLoad (F : TFacts) : List Iri → List (Iri × J) → (List (Iri × J) → Prog α) → Prog α
  | [], cols, k => k cols
  | iri :: rest, cols, k =>
    if cols.any (·.1 == iri) then fwdLoad F rest cols k else do
    Op.lock iri
    let r ← Prog.try_ (Op.get iri)
    match r with
    | .error e => Op.unlock iri >>= fun _ => Prog.fail e
    | .ok none => Prog.panic "InboxForwarding: IsOrExtends on nil value"
    | .ok (some t) =>
    if F.isOrExt "OrderedCollection" (typeName t) || F.isOrExt "Collection" (typeName t) then
      Prog.finally_ (fwdLoad F rest (cols ++ [(iri, t)]) k) (Op.unlock iri)
    else do
      Op.unlock iri
      fwdLoad F rest cols k

/-- members of a loaded collection, as the ids handed to the transport -/
def colMembers (F : TFacts) (t : J) : Prog (List Iri) :=
  let key := if F.isOrExt "OrderedCollection" (typeName t) then "orderedItems" else "items"
  match rawList t key with
  | none => pure []
  | some xs => idsM F xs

/-- `InboxForwarding` -/
def inboxForwarding (F : TFacts) (box : Iri) (a : J) : Prog Unit := do
  -- 1. first time we see this activity?
  let id ← activityIdGet "InboxForwarding: id.Get()" a
  let seen ← Op.locked id (do
    let ex ← Op.exists_ id
    if ex then pure true else do
      Op.create a
      pure false)
  if seen then pure () else
  -- 2. to/cc/audience values that are collections owned by this server
  let rs ← ["to", "cc", "audience"].foldlM (fun (acc : List Iri) p =>
      match prop F a p with
      | none => pure acc
      | some xs => do let ids ← idsM F xs; pure (acc ++ ids)) []
  let myIRIs ← rs.foldlM (fun (acc : List Iri) iri => do
      let owns ← Op.locked iri (Op.owns iri)
      pure (if owns then acc ++ [iri] else acc)) []
  fwdLoad F myIRIs [] fun cols => do
    if cols.isEmpty then pure () else
    -- 3. inReplyTo/object/target/tag owned by this server, within the depth limit
    let maxDepth ← Op.maxFwdDepth
    let ownsValue ← hasInboxForwardingValues F box maxDepth (fwdFuel maxDepth) 0 a
    if !ownsValue then pure () else
    let toSend ← Op.filterForwarding (cols.map (·.1)) a
    let recipients ← toSend.foldlM (fun (acc : List Iri) iri =>
        match cols.find? (·.1 == iri) with
        | none => pure acc
        | some (_, t) => do let ms ← colMembers F t; pure (acc ++ ms)) []
    deliverToRecipients box a recipients

/-- `addToOutbox` -/
def addToOutbox (outbox : Iri) (a : J) : Prog Unit := do
  let id ← activityIdGet "addToOutbox: id.Get()" a
  Op.locked id (Op.create a)
  Op.lock outbox
  Prog.finally_ (do
    let page ← Op.getOutbox outbox
    Op.setOutbox (prependId page id)) (Op.unlock outbox)

/-- the social side effects of `PostOutbox`: the (possibly mutated) activity and whether it is deliverable -/
def postOutboxEffects (F : TFacts) (cfg : ActorCfg) (socCb : CbConfig → Iri → J → String → J → Prog (J × Bool))
    (a : J) (outbox : Iri) (raw : J) : Prog (J × Bool) :=
  if !cfg.social then pure (a, true) else do
    let cb ← Op.socialCallbacks
    match dispatchOf F socialDefaults cb.other (typeName a) with
    | .badCallbacks => Prog.fail .lib
    | .other i => do Op.otherCb false i a; pure (a, true)
    | .default ty => do
      let r ← socCb cb outbox raw ty a
      pure (r.1, !r.2)
    | .unmatched => do Op.socialDefault a; pure (a, true)

/-- `PostOutbox`: `socCb` is the table of default social callbacks; it returns the (possibly mutated)
activity and whether the activity must not be delivered -/
def postOutbox (F : TFacts) (cfg : ActorCfg) (socCb : CbConfig → Iri → J → String → J → Prog (J × Bool))
    (a : J) (outbox : Iri) (raw : J) : Prog (Bool × J) := do
  let r ← postOutboxEffects F cfg socCb a outbox raw
  addToOutbox outbox r.1
  pure (r.2, r.1)

/-- `AddNewIDs` -/
def addNewIDs (F : TFacts) (a : J) : Prog J := do
  let id ← Op.newID a
  let a := a.set "id" (iriJ id)
  if !F.isOrExt "Create" (typeName a) then pure a else
  match prop F a "object" with
  | none => pure a
  | some xs => do
    let xs' ← xs.foldlM (fun (acc : List J) j =>
      match elemOf F j with
      | .emb t => do
        let oid ← Op.newID t
        pure (acc ++ [t.set "id" (iriJ oid)])
      | _ => Prog.fail .lib) []
    pure (setList a "object" xs')

/-- `WrapInCreate` -/
def wrapInCreateM (F : TFacts) (obj : J) (outbox : Iri) : Prog J := do
  let actor ← Op.locked outbox (Op.actorForOutbox outbox)
  wrapInCreate F obj actor

/-- `dereferenceForResolvingInboxes`: the actor document (none for a collection) and the ids to expand -/
def derefTail (F : TFacts) (d : Doc) : Prog (Option J × List Iri) := do
  let actor ← docVal d
  if has F actor "items" then do
    let more ← match rawList actor "items" with
      | none => pure []
      | some xs => idsM F xs
    pure (none, more)
  else if has F actor "orderedItems" then do
    let more ← match rawList actor "orderedItems" with
      | none => pure []
      | some xs => idsM F xs
    pure (none, more)
  else pure (some actor, [])

def dereferenceForResolvingInboxes (F : TFacts) (u : Iri) : Prog (Option J × List Iri) := do
  let d ← Op.deref u
  derefTail F d

/-- `resolveActors`: recipients that cannot be fetched or parsed are skipped; collections are expanded
recursively while `depth < maxDepth`; `fuel` as in `hasInboxForwardingValues` -/
def resolveActors (F : TFacts) (maxDepth : Int) : Nat → Nat → List Iri → Prog (List J)
  | 0, _, _ => .panic "resolveActors: recursion not bounded"
  | fuel + 1, depth, r =>
    if maxDepth > 0 && (depth : Int) ≥ maxDepth then pure [] else
    r.foldlM (fun (acc : List J) u => do
        let d ← Prog.try_ (dereferenceForResolvingInboxes F u)
        match d with
        | .error _ => pure acc                            -- missing recipient: skip
        | .ok (act, more) => do
          let recur ← resolveActors F maxDepth fuel (depth + 1) more
          pure (acc ++ (match act with | some x => [x] | none => []) ++ recur)) []

/-- `prepare`: the recipient inboxes (its last act, stripping the hidden recipients in place, is in `deliverS2S`) -/
def prepare (F : TFacts) (outbox : Iri) (a : J) : Prog (List Iri) := do
  let r ← addressing.foldlM (fun (acc : List Iri) p =>
      match prop F a p with
      | none => pure acc
      | some xs => do let ids ← idsM F xs; pure (acc ++ ids)) []
  let r ← strsOf "prepare: u.String() on nil in filterURLs" r
  let r := filterPublic r
  let (foundInboxes, foundActors) ← r.foldlM (fun (st : List Iri × List Iri) actorIRI => do
      let res ← Op.locked actorIRI (Op.inboxForActor actorIRI)
      match res with
      | some inbox => pure (st.1 ++ [inbox], st.2 ++ [actorIRI])
      | none => pure st) ([], [])
  let r := foundActors.foldl removeOne r
  Op.newTransport outbox
  let maxDepth ← Op.maxDeliveryDepth
  let actors ← resolveActors F maxDepth (fwdFuel maxDepth) 0 r
  let remote ← getInboxes F actors
  let targets := foundInboxes ++ remote
  let actorIRI ← Op.locked outbox (Op.actorForOutbox outbox)
  let thisActor ← Op.locked actorIRI (Op.get actorIRI)
  let thisActor ← needVal "prepare: getInbox on nil actor value" thisActor
  let ignore ← getInbox F thisActor
  let targets ← strsOf "prepare: k.String() on nil in dedupeIRIs" targets
  let ignore ← strOf "prepare: elem.String() on nil in dedupeIRIs" ignore
  pure (dedupeIRIs targets [ignore])

/-- `Deliver`: returns the activity as it is after delivery (hidden recipients stripped in place, which is
the last thing `prepare` does once all recipients are known) -/
def deliverS2S (F : TFacts) (outbox : Iri) (a : J) : Prog J := do
  let recipients ← prepare F outbox a
  deliverToRecipients outbox (stripHiddenRecipients F a) recipients
  pure (stripHiddenRecipients F a)

end AV.Pub
