import AV.Core.Json
import AV.Core.Iri
import AV.Core.Prog
/-
How `pub` sees an ActivityStreams value.  A `vocab.Type` is represented by its
member map (what `Serialize()` yields, without `@context`); the accessors below
are the model of the generated getters that `pub` uses:

* a property getter exists iff the value's type has the property (`hasProp`),
  and returns nil iff the member is absent;
* a non-functional property is the list of its elements (scalar = one element);
* an element is an IRI (string with a scheme), an embedded typed value (object
  whose `type` names a known type), or something else (`GetType() == nil` and
  `!IsIRI()`).
-/
namespace AV

/-- facts about the vocabulary that `pub` relies on (instantiated from the regenerated tables) -/
structure TFacts where
  hasProp : String → String → Bool     -- type name → property name → the Go type has Get…<prop>()
  isOrExt : String → String → Bool     -- `IsOrExtends<T>(value of type n)` as `isOrExt T n`
  known   : String → Bool              -- the vocabularies define this type name

namespace Val

def typeName (v : J) : String :=
  match v.get? "type" with
  | some (.str s) => s
  | some (.arr (.str s :: _)) => s
  | _ => ""

inductive Elem where
  | iri (u : Iri)
  | emb (v : J)
  | other (j : J)
  deriving Inhabited

def elemOf (F : TFacts) (j : J) : Elem :=
  match j with
  | .str s => if Iri.hasScheme s then .iri s else .other j
  | .obj _ => if F.known (typeName j) then .emb j else .other j
  | _ => .other j

/-- raw elements of member `p` (a scalar is a one-element list) -/
def rawList (v : J) (p : String) : Option (List J) :=
  match v.get? p with
  | none => none
  | some (.arr xs) => some xs
  | some x => some [x]

/-- `v.(<p>er)` succeeds -/
def has (F : TFacts) (v : J) (p : String) : Bool := F.hasProp (typeName v) p

/-- `Get<p>()`: `none` when the property is nil (or the type lacks it) -/
def prop (F : TFacts) (v : J) (p : String) : Option (List J) :=
  if has F v p then rawList v p else none

/-- write a non-functional property back: one element is written as a scalar -/
def setList (v : J) (p : String) (xs : List J) : J :=
  match xs with
  | [x] => v.set p x
  | _ => v.set p (.arr xs)

/-- `Set<p>(nil)` -/
def clear (v : J) (p : String) : J := v.erase p

inductive IdState where
  | absent | unusable | iri (u : Iri)
  deriving Inhabited, DecidableEq

/-- the JSON-LD `id` property: nil property / property whose `Get()` is nil / a usable IRI -/
def idState (v : J) : IdState :=
  match v.get? "id" with
  | none => .absent
  | some (.str s) => if Iri.hasScheme s then .iri s else .unusable
  | some _ => .unusable

/-- the id property is set and holds an IRI -/
def idUsable (v : J) : Bool :=
  match idState v with
  | .iri _ => true
  | _ => false

/-- `GetJSONLDId().Get()` for a non-nil property: the IRI or nil -/
def idGet (v : J) : Iri :=
  match idState v with
  | .iri u => u
  | _ => nilIri

/-- functional IRI-valued member (`href`, `inbox`, …) as an element -/
def funcElem (F : TFacts) (v : J) (p : String) : Option Elem :=
  if has F v p then (v.get? p).map (elemOf F) else none

/-- `GetId(t)`: the `id` if the property is set and holds an IRI, else `href` on Link types, else an error -/
def getId (F : TFacts) (v : J) : Except Unit Iri :=
  match idState v with
  | .iri u => .ok u
  | .unusable => .error ()
  | .absent =>
    if has F v "href" then
      match v.get? "href" with
      | some (.str s) => if Iri.hasScheme s then .ok s else .error ()
      | some _ => .error ()
      | none => .error ()
    else .error ()

/-- `ToId(iter)` -/
def toId (F : TFacts) (e : Elem) : Except Unit Iri :=
  match e with
  | .emb v => getId F v
  | .iri u => .ok u
  | .other _ => .error ()

/-- ids of all elements of a property, failing like the `ToId` loops do -/
def idsOf (F : TFacts) (xs : List J) : Except Unit (List Iri) :=
  xs.mapM fun j => toId F (elemOf F j)

def mkIdList (ids : List Iri) : List J := ids.map J.str

end Val

/-- lift a pure `Except Unit` computation: an error is a library-created error -/
def liftLib (x : Except Unit α) : Prog α :=
  match x with
  | .ok a => .ret a
  | .error _ => .fail .lib

end AV
