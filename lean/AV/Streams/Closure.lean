import AV.Streams.Vocab
/-
Hierarchy closure over an ontology (C13).  `anc O a` computes the proper
ancestors of `a` by iterated expansion; `anc_sound` holds for every ontology and
any fuel; `closed_complete` turns the decidable certificate `closedB` into
completeness, so that for every ontology that passes the (kernel-evaluated)
check, `b ∈ anc O a ↔ Relation.TransGen (Sub O) a b`.
-/
namespace AV

def Ontology.parentsOf (O : Ontology) (a : String) : List String :=
  match O.findType a with
  | some t => t.parents
  | none => []

def Ontology.declDisj (O : Ontology) (a : String) : List String :=
  match O.findType a with
  | some t => t.disjoint
  | none => []

/-- The declared one-step subclass relation. -/
def Sub (O : Ontology) (a b : String) : Prop := b ∈ O.parentsOf a

/-- Reflexive-transitive closure, as "equal or in the transitive closure". -/
def Star (O : Ontology) (a b : String) : Prop := a = b ∨ Relation.TransGen (Sub O) a b

theorem Star.head {O : Ontology} {a b c : String} (h : Sub O a b) (hs : Star O b c) :
    Relation.TransGen (Sub O) a c := by
  rcases hs with rfl | hs
  · exact .single h
  · exact (Relation.TransGen.single h).trans hs

def addNew (acc : List String) (x : String) : List String :=
  if x ∈ acc then acc else acc ++ [x]

def union (S T : List String) : List String := T.foldl addNew S

theorem mem_addNew {acc : List String} {x y : String} :
    y ∈ addNew acc x ↔ y ∈ acc ∨ y = x := by
  unfold addNew
  split
  · constructor
    · intro h; exact Or.inl h
    · rintro (h | h)
      · exact h
      · subst h; assumption
  · simp

theorem mem_union {S T : List String} {y : String} : y ∈ union S T ↔ y ∈ S ∨ y ∈ T := by
  unfold union
  induction T generalizing S with
  | nil => simp
  | cons t T ih =>
    simp only [List.foldl_cons, ih, mem_addNew, List.mem_cons]
    constructor
    · rintro ((h | h) | h)
      · exact Or.inl h
      · exact Or.inr (Or.inl h)
      · exact Or.inr (Or.inr h)
    · rintro (h | h | h)
      · exact Or.inl (Or.inl h)
      · exact Or.inl (Or.inr h)
      · exact Or.inr h

def expand (O : Ontology) (S : List String) : List String :=
  union S (S.flatMap O.parentsOf)

def ancFuel (O : Ontology) : Nat → List String → List String
  | 0, S => S
  | n + 1, S => ancFuel O n (expand O S)

/-- Proper ancestors of `a`. -/
def anc (O : Ontology) (a : String) : List String :=
  ancFuel O O.types.length (O.parentsOf a)

def ancSelf (O : Ontology) (a : String) : List String := a :: anc O a

theorem mem_ancFuel {O : Ontology} {n : Nat} {S : List String} {b : String}
    (h : b ∈ ancFuel O n S) : ∃ s ∈ S, Star O s b := by
  induction n generalizing S with
  | zero => exact ⟨b, h, Or.inl rfl⟩
  | succ n ih =>
    obtain ⟨s', hs', hr⟩ := ih (S := expand O S) h
    rcases mem_union.mp hs' with h1 | h1
    · exact ⟨s', h1, hr⟩
    · obtain ⟨s, hs, hp⟩ := List.mem_flatMap.mp h1
      exact ⟨s, hs, Or.inr (Star.head hp hr)⟩

theorem anc_sound {O : Ontology} {a b : String} (h : b ∈ anc O a) :
    Relation.TransGen (Sub O) a b := by
  obtain ⟨s, hs, hr⟩ := mem_ancFuel h
  exact Star.head hs hr

/-- `S` contains the parents of `a` and of each of its members. -/
def closedB (O : Ontology) (a : String) (S : List String) : Bool :=
  (O.parentsOf a).all (fun p => S.contains p) &&
  S.all (fun s => (O.parentsOf s).all (fun p => S.contains p))

theorem closed_complete {O : Ontology} {a b : String} {S : List String}
    (hc : closedB O a S = true) (h : Relation.TransGen (Sub O) a b) : b ∈ S := by
  simp only [closedB, Bool.and_eq_true, List.all_eq_true, List.contains_iff_mem] at hc
  induction h with
  | single h => exact hc.1 _ h
  | tail _ h ih => exact hc.2 _ ih _ h

theorem anc_spec {O : Ontology} {a : String} (hc : closedB O a (anc O a) = true) (b : String) :
    b ∈ anc O a ↔ Relation.TransGen (Sub O) a b :=
  ⟨anc_sound, closed_complete hc⟩

/-- Every type of the ontology has a closed ancestor list (decidable side
condition; discharged for the shipped data by kernel evaluation). -/
def allClosedB (O : Ontology) : Bool :=
  O.types.all (fun t => closedB O t.name (anc O t.name))

/-! ### Disjointness -/

def declB (O : Ontology) (x y : String) : Bool :=
  (O.declDisj x).contains y || (O.declDisj y).contains x

/-- `a` is disjoint with `b`: some ancestor-or-self of `a` is declared disjoint
(either direction) with some ancestor-or-self of `b`. -/
def disjB (O : Ontology) (a b : String) : Bool :=
  (ancSelf O a).any (fun a' => (ancSelf O b).any (fun b' => declB O a' b'))

theorem declB_symm (O : Ontology) (x y : String) : declB O x y = declB O y x := by
  unfold declB; exact Bool.or_comm _ _

theorem disjB_symm (O : Ontology) (a b : String) : disjB O a b = disjB O b a := by
  unfold disjB
  rw [Bool.eq_iff_iff]
  simp only [List.any_eq_true]
  constructor
  · rintro ⟨a', ha, b', hb, h⟩; exact ⟨b', hb, a', ha, by rw [declB_symm]; exact h⟩
  · rintro ⟨b', hb, a', ha, h⟩; exact ⟨a', ha, b', hb, by rw [declB_symm]; exact h⟩

/-- The declarative reading of disjointness over the closure relation. -/
def DisjSpec (O : Ontology) (a b : String) : Prop :=
  ∃ a' b', Star O a a' ∧ Star O b b' ∧
    (b' ∈ O.declDisj a' ∨ a' ∈ O.declDisj b')

theorem mem_ancSelf_iff {O : Ontology} {a : String} (hc : closedB O a (anc O a) = true) (x : String) :
    x ∈ ancSelf O a ↔ Star O a x := by
  unfold ancSelf Star
  rw [List.mem_cons, anc_spec hc]
  constructor
  · rintro (h | h)
    · exact Or.inl h.symm
    · exact Or.inr h
  · rintro (h | h)
    · exact Or.inl h.symm
    · exact Or.inr h

theorem disjB_spec {O : Ontology} {a b : String}
    (ha : closedB O a (anc O a) = true) (hb : closedB O b (anc O b) = true) :
    disjB O a b = true ↔ DisjSpec O a b := by
  unfold disjB DisjSpec
  simp only [List.any_eq_true, declB, Bool.or_eq_true, List.contains_iff_mem]
  constructor
  · rintro ⟨a', h1, b', h2, h⟩
    exact ⟨a', b', (mem_ancSelf_iff ha a').mp h1, (mem_ancSelf_iff hb b').mp h2, h⟩
  · rintro ⟨a', b', h1, h2, h⟩
    exact ⟨a', (mem_ancSelf_iff ha a').mpr h1, b', (mem_ancSelf_iff hb b').mpr h2, h⟩

end AV
