/-
Vocabulary tables: the data the jennifer templates are instantiated with.
`Ontology` is what the vocabulary files declare (translator T1); `Impl` is what
the generated Go code contains (translator T2).  Both are regenerated from
/repo on every run into `AV/Gen/*.lean`.
-/
namespace AV

/-- One step of a property's decode plan, in the order the generated
deserializer tries them. -/
inductive Step where
  | iri                     -- `url.Parse` succeeds with a non-empty scheme
  | ty (name : String)      -- `mgr.Deserialize<name><Vocab>()` succeeds
  | lit (kind : String)     -- literal codec `values/<kind>` succeeds
  deriving DecidableEq, Repr, Inhabited

structure IProp where
  name       : String
  vocab      : String        -- vocabulary URI
  functional : Bool
  natLang    : Bool          -- reads/writes the `…Map` spelling
  plan       : List Step     -- ends implicitly in "keep raw value as unknown"
  deriving Repr, Inhabited, DecidableEq

structure IType where
  name      : String
  vocab     : String
  typeless  : Bool
  props     : List String    -- property names, deserialisation order
  serProps  : List String    -- property names, serialisation order
  ctxProps  : List String    -- properties visited by JSONLDContext
  knownKeys : List String    -- the `k == "…"` skip list
  ext       : List String    -- `extensions` literal of …Extends
  extBy     : List String    -- `extensions` literal of …IsExtendedBy
  disj      : List String    -- `disjointWith` literal
  deriving Repr, Inhabited, DecidableEq

/-- One arm of a generated resolver if-chain. -/
structure Arm where
  vocab : String             -- vocabulary URI tested (type/pred) or alias var (json)
  name  : String             -- type name tested
  cb    : String             -- vocab.<Iface> asserted on the callback
  cast  : String             -- vocab.<Iface> the value is cast to ("" for json)
  deser : String             -- type deserialised (json only)
  deriving Repr, DecidableEq, Inhabited

structure Impl where
  types     : List IType
  props     : List IProp
  jsonChain : List Arm
  typeChain : List Arm
  predChain : List Arm
  jsonCtor  : List String    -- interface names accepted by NewJSONResolver
  typeCtor  : List String
  predCtor  : List String
  toTypeCbs : List String
  unmatched : List String
  jsonAlias : List (String × String × String)  -- alias variable, first URI looked up, fallback URI
  ifaces    : List (String × String × String)  -- Go interface name, vocabulary URI, type name
  deriving Repr, Inhabited

structure OType where
  name     : String
  vocab    : String
  parents  : List String
  disjoint : List String
  typeless : Bool
  deriving Repr, Inhabited

structure OProp where
  name       : String
  vocab      : String
  functional : Bool
  domain     : List String
  range      : List String   -- type names or literal kinds ("xsd:string", …)
  without    : List String
  deriving Repr, Inhabited

structure Ontology where
  types : List OType
  props : List OProp
  deriving Repr, Inhabited

def Impl.findType (I : Impl) (n : String) : Option IType := I.types.find? (·.name == n)
def Impl.findProp (I : Impl) (n : String) : Option IProp := I.props.find? (·.name == n)
def Ontology.findType (O : Ontology) (n : String) : Option OType := O.types.find? (·.name == n)

end AV
