import AV.Streams.Vocab
import AV.Streams.Literal
import AV.Core.Iri
/-
Element decoding as the generated property deserializers do it: interpret the
extracted plan in order; the first step that accepts the raw JSON value wins,
otherwise the value is kept as `unknown`.
-/
namespace AV

/-- does the type deserializer for `K` accept this map?  Typeless types accept any map; the others test
the `type` member (string equal to the name, or an array containing it). -/
def typeAccepts (I : Impl) (k : String) (j : J) : Bool :=
  match j with
  | .obj _ =>
    match I.findType k with
    | none => false
    | some t =>
      t.typeless ||
      (match j.get? "type" with
       | some (.str s) => s == k
       | some (.arr xs) => xs.any fun x => match x with | .str s => s == k | _ => false
       | _ => false)
  | _ => false

def allStrings : List (String × J) → Bool
  | [] => true
  | (_, .str _) :: r => allStrings r
  | _ => false

/-- does literal codec `kind` accept the raw value without error (or panic)? -/
def litAccepts (kind : String) (j : J) : Bool :=
  match kind, j with
  | "xsd:string", .str _ => true
  | "rfc:bcp47", .str _ => true
  | "rfc:rfc2045", .str _ => true
  | "rfc:rfc5988", .str _ => true
  | "xsd:anyURI", .str s => Iri.hasScheme s
  | "xsd:dateTime", .str s => (match Lit.deserDateTime s.toList with | .ok _ => true | _ => false)
  | "xsd:duration", .str s => (match Lit.deserDuration s.toList with | .ok _ => true | _ => false)
  | "xsd:float", .num _ _ => true
  | "xsd:nonNegativeInteger", j => (match Lit.deserNonNeg j with | .ok _ => true | _ => false)
  | "xsd:boolean", j => (match Lit.deserBool j with | .ok _ => true | _ => false)
  | "rdf:langString", .obj kvs => allStrings kvs
  | _, _ => false

/-- a literal codec that indexes out of range on this value (Go panic) -/
def litPanics (kind : String) (j : J) : Bool :=
  match kind, j with
  | "xsd:duration", .str s => (match Lit.deserDuration s.toList with | .panic => true | _ => false)
  | _, _ => false

inductive Landed where
  | iri | ty (k : String) | lit (k : String) | unknown | panic
  deriving DecidableEq, Repr, Inhabited

def Landed.label : Landed → String
  | .iri => "iri" | .ty k => "ty:" ++ k | .lit k => "lit:" ++ k | .unknown => "unknown" | .panic => "panic"

/-- which representation an element takes, by plan order -/
def landing (I : Impl) : List Step → J → Landed
  | [], _ => .unknown
  | .iri :: rest, j =>
    (match j with
     | .str s => if Iri.hasScheme s then .iri else landing I rest j
     | _ => landing I rest j)
  | .ty k :: rest, j => if typeAccepts I k j then .ty k else landing I rest j
  | .lit k :: rest, j =>
    if litPanics k j then .panic else if litAccepts k j then .lit k else landing I rest j

end AV
