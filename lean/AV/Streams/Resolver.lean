import AV.Streams.Vocab
import AV.Core.Json
/-
Model of the three generated resolvers (C14), parameterised by the if-chains
extracted from the generated code.  A callback is represented by the Go
interface name of its parameter (`vocab.ActivityStreamsNote`); a value by its
vocabulary URI, type name and the interface its concrete type implements.
-/
namespace AV

inductive RRes where
  | invoked (i : Nat)        -- callback number i was called; its error is returned unchanged
  | noCallbackMatch          -- ErrNoCallbackMatch
  | unhandledType            -- ErrUnhandledType
  | predUnmatched            -- ErrPredicateUnmatched
  | cannotAssert             -- errCannotTypeAssertType (not an "unmatched" error)
  | otherErr                 -- fmt errors (missing type / @context)
  deriving DecidableEq, Repr, Inhabited

def RRes.isUnmatched : RRes → Bool
  | .noCallbackMatch | .unhandledType | .predUnmatched => true
  | _ => false

structure Value where
  vocab : String
  name  : String
  iface : String
  deriving Repr, Inhabited

def armFor (chain : List Arm) (vv vn : String) : Option Arm :=
  chain.find? (fun a => a.vocab == vv && a.name == vn)

/-- `TypeResolver.Resolve`: for each callback in order, run the if-chain on the value. -/
def typeResolveGo (chain : List Arm) (v : Value) : List String → Nat → RRes
  | [], _ => .noCallbackMatch
  | cb :: rest, i =>
    match armFor chain v.vocab v.name with
    | none => .unhandledType
    | some a =>
      if cb == a.cb then (if a.cast == v.iface then .invoked i else .cannotAssert)
      else typeResolveGo chain v rest (i + 1)

def typeResolve (chain : List Arm) (cbs : List String) (v : Value) : RRes :=
  typeResolveGo chain v cbs 0

/-- what `TypePredicatedResolver.Apply` does before calling the predicate -/
inductive PRes where
  | predicate                -- predicate called with the value
  | err (e : RRes)
  deriving DecidableEq, Repr, Inhabited

def predApply (chain : List Arm) (pred : String) (v : Value) : PRes :=
  match armFor chain v.vocab v.name with
  | none => .err .unhandledType
  | some a =>
    if pred == a.cb then (if a.cast == v.iface then .predicate else .err .cannotAssert)
    else .err .predUnmatched

/-! #### JSON resolver -/

def httpBoth (s : String) : Option (String × String) :=
  if s.startsWith "http://" then some (s, "https" ++ (s.drop 4).toString)
  else if s.startsWith "https://" then some ("http" ++ (s.drop 5).toString, s)
  else none

def amSet (m : List (String × String)) (k v : String) : List (String × String) :=
  (k, v) :: m.filter (·.1 != k)

/-- `toAliasMap` for strings and objects (one level). -/
def aliasMap1 (m : List (String × String)) : J → List (String × String)
  | .str s => match httpBoth s with
    | some (h, hs) => amSet (amSet m h "") hs ""
    | none => amSet m s ""
  | .obj kvs => kvs.foldl (fun acc kv => match kv.2 with | .str v => amSet acc kv.1 v | _ => acc) m
  | _ => m

/-- `toAliasMap`: arrays are flattened one level (nested arrays recurse in the code;
generated inputs use at most one level). -/
def aliasMap : J → List (String × String)
  | .arr xs => xs.foldl aliasMap1 []
  | j => aliasMap1 [] j

def amGet (m : List (String × String)) (k : String) : Option String := (m.find? (·.1 == k)).map (·.2)

/-- the `<Vocab>Alias` prefix computed at the top of `handleFn` -/
def aliasPrefix (m : List (String × String)) (uris : String × String) : String :=
  let a := match amGet m uris.1 with
    | some a => a
    | none => (amGet m uris.2).getD ""
  if a.length > 0 then a ++ ":" else ""

def jsonArmFor (I : Impl) (m : List (String × String)) (typeString : String) : Option Arm :=
  I.jsonChain.find? fun a =>
    match I.jsonAlias.find? (·.1 == a.vocab) with
    | some (_, u1, u2) => typeString == aliasPrefix m (u1, u2) ++ a.name
    | none => false

/-- result of `handleFn typeString` assuming the type deserialises -/
def jsonHandle (I : Impl) (m : List (String × String)) (cbs : List String) (typeString : String) : RRes × Option Arm :=
  match jsonArmFor I m typeString with
  | none => (.unhandledType, none)
  | some a =>
    match cbs.findIdx? (· == a.cb) with
    | some i => (.invoked i, some a)
    | none => (.noCallbackMatch, some a)

/-- `JSONResolver.Resolve` on a document whose selected type deserialises and whose
invoked callback returns nil. Multi-valued `type`: the first entry naming a known
type decides; entries that are not strings are skipped. -/
def jsonResolve (I : Impl) (cbs : List String) (doc : J) : RRes × Option Arm :=
  match doc.get? "type", doc.get? "@context" with
  | none, _ => (.otherErr, none)
  | _, none => (.otherErr, none)
  | some ty, some ctx =>
    let m := aliasMap ctx
    match ty with
    | .str s => jsonHandle I m cbs s
    | .arr xs =>
      let rec go : List J → RRes × Option Arm
        | [] => (.unhandledType, none)
        | .str s :: rest =>
          match jsonHandle I m cbs s with
          | (.unhandledType, _) => go rest
          | r => r
        | _ :: rest => go rest
      go xs
    | _ => (.unhandledType, none)

end AV
