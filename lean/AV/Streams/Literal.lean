import AV.Core.Json
/-
Literal codecs of `streams/values/*` (C12, C01, C11), transcribed over
`List Char`.  Go hazards are explicit: `LRes.panic` is an index-out-of-range.
-/
namespace AV.Lit

inductive LRes (α : Type) where
  | ok (a : α)
  | err
  | panic
  deriving Repr, DecidableEq, Inhabited

def isDigit (c : Char) : Bool := '0' ≤ c && c ≤ '9'

def digitsVal (ds : List Char) : Nat := ds.foldl (fun acc c => acc * 10 + (c.toNat - '0'.toNat)) 0

/-- split off the leading run of ASCII digits -/
def spanDigits : List Char → List Char × List Char
  | [] => ([], [])
  | c :: cs => if isDigit c then let (d, r) := spanDigits cs; (c :: d, r) else ([], c :: cs)

def wrap64 (x : Int) : Int := (x + 9223372036854775808) % 18446744073709551616 - 9223372036854775808

def maxInt64 : Nat := 9223372036854775807

/-- one optional regexp group `(\d*L)?`: matches iff the digit run is followed by `L` -/
def optGroup (l : Char) (s : List Char) : Option (List Char) × List Char :=
  let (d, r) := spanDigits s
  match r with
  | c :: r' => if c == l then (some d, r') else (none, s)
  | [] => (none, s)

/-- `strconv.ParseInt(digits, 10, 64)` of a captured group (without its letter) -/
def groupVal (g : Option (List Char)) : LRes Nat :=
  match g with
  | none => .ok 0
  | some [] => .err                      -- ParseInt("") fails
  | some ds => if digitsVal ds > maxInt64 then .err else .ok (digitsVal ds)

def hourNs : Int := 3600000000000
def minNs : Int := 60000000000
def secNs : Int := 1000000000

/-- `DeserializeDuration` on a JSON string; result in nanoseconds (int64 wrap-around as in Go) -/
def deserDuration (s : List Char) : LRes Int :=
  match s with
  | [] => .err                                           -- "": no 'P'
  | c :: rest =>
    let (neg, s1) := if c == '-' then (true, rest) else (false, c :: rest)
    match s1 with
    | [] => .err                                         -- "-": no 'P'
    | p :: s2 =>
      if p != 'P' then .err else
      let (gy, s3) := optGroup 'Y' s2
      let (gm, s4) := optGroup 'M' s3
      let (gd, s5) := optGroup 'D' s4
      let (gh, gmi, gs) := match s5 with
        | 'T' :: s6 =>
          let (gh, s7) := optGroup 'H' s6
          let (gmi, s8) := optGroup 'M' s7
          let (gs, _) := optGroup 'S' s8
          (gh, gmi, gs)
        | _ => (none, none, none)
      match groupVal gy, groupVal gm, groupVal gd, groupVal gh, groupVal gmi, groupVal gs with
      | .ok y, .ok mo, .ok d, .ok h, .ok mi, .ok sec =>
        let total : Int := (y : Int) * hourNs * 8760 + (mo : Int) * hourNs * 720 + (d : Int) * hourNs * 24 +
          (h : Int) * hourNs + (mi : Int) * minNs + (sec : Int) * secNs
        .ok (wrap64 (if neg then -total else total))
      | _, _, _, _, _, _ => .err

/-- what the lexical form denotes (C12): 365-day years, 30-day months -/
def denoteDuration (neg : Bool) (y mo d h mi s : Nat) : Int :=
  let t : Int := ((((y * 365 + mo * 30 + d) * 24 + h) * 60 + mi) * 60 + s : Nat) * secNs
  if neg then -t else t

/-! #### dateTime -/

def isLeap (y : Nat) : Bool := (y % 4 == 0 && y % 100 != 0) || y % 400 == 0

def daysInMonth (y m : Nat) : Nat :=
  match m with
  | 1 | 3 | 5 | 7 | 8 | 10 | 12 => 31
  | 4 | 6 | 9 | 11 => 30
  | 2 => if isLeap y then 29 else 28
  | _ => 0

/-- days from 1970-01-01 to y-m-d (proleptic Gregorian; Hinnant's algorithm) -/
def daysFromCivil (y m d : Nat) : Int :=
  let y' : Int := if m ≤ 2 then (y : Int) - 1 else y
  let era : Int := (if y' ≥ 0 then y' else y' - 399) / 400
  let yoe : Int := y' - era * 400
  let mp : Int := ((m : Int) + 9) % 12
  let doy : Int := (153 * mp + 2) / 5 + (d : Int) - 1
  let doe : Int := yoe * 365 + yoe / 4 - yoe / 100 + doy
  era * 146097 + doe - 719468

def unixOf (y mo d h mi s : Nat) (offMin : Int) : Int :=
  daysFromCivil y mo d * 86400 + (h * 3600 + mi * 60 + s : Nat) - offMin * 60

def takeDigits (n : Nat) (s : List Char) : Option (Nat × List Char) :=
  let d := s.take n
  if d.length == n && d.all isDigit then some (digitsVal d, s.drop n) else none

def expect (c : Char) (s : List Char) : Option (List Char) :=
  match s with
  | x :: r => if x == c then some r else none
  | [] => none

/-- zone `Z07:00`: "Z" or ±hh:mm (hh ≤ 23/24?, mm ≤ 59 — Go: hour ≤ 24, min ≤ 60 are range-checked) -/
def parseZone (s : List Char) : Option (Int × List Char) :=
  match s with
  | 'Z' :: r => some (0, r)
  | sg :: r =>
    if sg == '+' || sg == '-' then
      match takeDigits 2 r with
      | some (hh, r1) => match expect ':' r1 with
        | some r2 => match takeDigits 2 r2 with
          | some (mm, r3) =>
            if hh > 24 || mm > 60 then none
            else some ((if sg == '-' then -1 else 1) * ((hh * 60 + mm : Nat) : Int), r3)
          | none => none
        | none => none
      | none => none
    else none
  | [] => none

/-- optional fractional seconds `.d+` accepted (and ignored up to ns) by time.Parse for RFC3339 -/
def parseFrac (s : List Char) : Nat × List Char :=
  match s with
  | c :: r =>
    if c == '.' || c == ',' then
      let (d, r') := spanDigits r
      if d.isEmpty then (0, s) else
      let d9 := (d ++ List.replicate 9 '0').take 9
      (digitsVal d9, r')
    else (0, s)
  | [] => (0, s)

structure DT where
  unix : Int
  nanos : Nat
  offMin : Int
  deriving Repr, DecidableEq, Inhabited

/-- `DeserializeDateTime`: RFC 3339 (fraction allowed) or the seconds-less layout -/
def deserDateTime (s : List Char) : LRes DT :=
  let r : Option DT := do
    let (y, s) ← takeDigits 4 s
    let s ← expect '-' s
    let (mo, s) ← takeDigits 2 s
    let s ← expect '-' s
    let (d, s) ← takeDigits 2 s
    let s ← expect 'T' s
    let (h, s) ← takeDigits 2 s
    let s ← expect ':' s
    let (mi, s) ← takeDigits 2 s
    -- with seconds (RFC3339) or without
    let (sec, ns, s) ← (match expect ':' s with
      | some s' => do
        let (sec, s'') ← takeDigits 2 s'
        let (ns, s3) := parseFrac s''
        pure (sec, ns, s3)
      | none => pure (0, 0, s))
    let (off, s) ← parseZone s
    if !s.isEmpty then none
    else if mo < 1 || mo > 12 || d < 1 || d > daysInMonth y mo || h > 23 || mi > 59 || sec > 59 then none
    else pure { unix := unixOf y mo d h mi sec off, nanos := ns, offMin := off }
  match r with
  | some dt => .ok dt
  | none => .err

def pad (n width : Nat) : List Char :=
  let ds := (toString n).toList
  List.replicate (width - ds.length) '0' ++ ds

/-! #### numbers and booleans -/

/-- `DeserializeNonNegativeInteger`: float64 → int truncation, negatives rejected -/
def deserNonNeg (j : J) : LRes Nat :=
  match j with
  | .num m e =>
    let t : Int := Int.tdiv m (10 ^ e : Nat)
    if t < 0 then .err else .ok t.toNat
  | _ => .err

def deserBool (j : J) : LRes Bool :=
  match j with
  | .bool b => .ok b
  | .num m _ => if m == 0 then .ok false else if j == J.num 1 0 then .ok true else .err
  | _ => .err

end AV.Lit
