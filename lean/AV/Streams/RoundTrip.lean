import AV.Streams.Decode
/-
What `streams.Serialize(streams.ToType(doc))` yields, computed from the regenerated tables (`Impl`): the
document-level round trip of C01.  Transcribes the type / property templates:

* a type deserialiser reads every property of its list from the member map (a non-functional property reads its
  member as a list, or as one element; a natural-language property falls back to the `<name>Map` member), keeps every
  member whose key is not in its known-key list verbatim, and nests: an element that lands on a type kind is decoded by
  that type's deserialiser;
* a type serialiser writes `type`, every present property under `Name()` (the `<name>Map` spelling for a single
  language map) unless it serialises to nil, then the unknown members that do not collide; a property with exactly
  one element is written as a scalar.
IRIs and literals are re-serialised from their parsed form: the identity on canonical lexical forms (C12 is about
those codecs); this model keeps them verbatim, so it speaks about documents whose literals and IRIs are canonical.
Aliased vocabularies (`"as:Note"`) are not modelled.
-/
namespace AV.RoundTrip
open AV

def collapse (xs : List J) : J :=
  match xs with
  | [x] => x
  | _ => .arr xs

/-- one element, given how nested typed values are normalised -/
def rtElem (I : Impl) (rec : String → J → J) (plan : List Step) (j : J) : J :=
  match landing I plan j with
  | .ty k => rec k j
  | _ => j

def isLangMap (I : Impl) (plan : List Step) (j : J) : Bool :=
  match landing I plan j with
  | .lit "rdf:langString" => true
  | _ => false

/-- the members a property contributes to the re-serialised map -/
def rtProp (I : Impl) (rec : String → J → J) (p : IProp) (m : J) : List (String × J) :=
  if p.functional then
    let found : Option J := match m.get? p.name with
      | some x => some x
      | none => if p.natLang then m.get? (p.name ++ "Map") else none
    match found with
    | none => []
    | some .null => []
    | some x => [(if p.natLang && isLangMap I p.plan x then p.name ++ "Map" else p.name, rtElem I rec p.plan x)]
  else
    let found : Option J := match m.get? p.name with
      | some x => some x
      | none => if p.natLang then m.get? (p.name ++ "Map") else none
    match found with
    | none => []
    | some i =>
      let elems : List J := match i with
        | .arr xs => xs
        | x => [x]
      let out := elems.map (rtElem I rec p.plan)
      let name := match elems with
        | [e] => if p.natLang && isLangMap I p.plan e then p.name ++ "Map" else p.name
        | _ => p.name
      match collapse out with
      | .null => []
      | v => [(name, v)]

/-- the members property `pn` contributes -/
def propMembers (I : Impl) (rec : String → J → J) (j : J) (pn : String) : List (String × J) :=
  match I.findProp pn with
  | some p => rtProp I rec p j
  | none => []

/-- a typed value, given the normaliser of the values nested in it -/
def rtTypeWith (I : Impl) (rec : String → J → J) (k : String) (j : J) : J :=
  match I.findType k with
  | none => j
  | some t =>
    -- a typeless type (security PublicKey) writes no `type` of its own
    let base : J := if t.typeless then .obj [] else .obj [("type", .str k)]
    let known := t.serProps.flatMap (propMembers I rec j)
    let withKnown := known.foldl (fun (m : J) kv => m.set kv.1 kv.2) base
    (j.members.filter fun kv => !t.knownKeys.contains kv.1).foldl
      (fun (m : J) kv => if m.has kv.1 then m else m.set kv.1 kv.2) withKnown

/-- nesting depth as fuel: `rt I n k j` normalises a value of type `k` whose typed values nest at most `n` deep -/
def rt (I : Impl) : Nat → String → J → J
  | 0, _, j => j
  | n + 1, k, j => rtTypeWith I (rt I n) k j

/-- the vocabularies a re-serialised value uses: its type's, its present properties', its nested values' -/
def ctxWith (I : Impl) (rec : String → J → List String) (k : String) (j : J) : List String :=
  match I.findType k with
  | none => []
  | some t =>
    t.vocab :: t.ctxProps.flatMap fun pn => match I.findProp pn with
      | none => []
      | some p =>
        let found : Option J := match j.get? p.name with
          | some x => some x
          | none => if p.natLang then j.get? (p.name ++ "Map") else none
        match found with
        | none => []
        | some i =>
          let elems : List J := if p.functional then [i] else match i with
            | .arr xs => xs
            | x => [x]
          p.vocab :: elems.flatMap fun e => match landing I p.plan e with
            | .ty k' => rec k' e
            | _ => []

def ctx (I : Impl) : Nat → String → J → List String
  | 0, _, _ => []
  | n + 1, k, j => ctxWith I (ctx I n) k j

/-- `streams.Serialize` afterwards deletes every `@context` in child maps — maps that are member values of maps,
recursively; maps inside arrays are not visited -/
def cleanCtx : Nat → J → J
  | 0, j => j
  | n + 1, .obj kvs => .obj (kvs.map fun kv => match kv.2 with
      | .obj inner => (kv.1, cleanCtx n ((J.obj inner).erase "@context"))
      | v => (kv.1, v))
  | _, j => j

/-- the whole document: the typed value re-serialised, children's `@context` deleted (the top-level `@context` is
computed separately by `ctx`) -/
def rtDoc (I : Impl) (n : Nat) (k : String) (j : J) : J := cleanCtx n (rt I n k j)

/-- the type name `ToType` dispatches on: the first entry of `type` that names a known type -/
def docType (I : Impl) (j : J) : Option String :=
  match j.get? "type" with
  | some (.str s) => if (I.findType s).isSome then some s else none
  | some (.arr xs) => xs.findSome? fun x => match x with
      | .str s => if (I.findType s).isSome then some s else none
      | _ => none
  | _ => none


/-! ### canonical values (the hypothesis of C01's exactness clause), as an executable predicate -/

def sortedB : List (String × J) → Bool
  | [] => true
  | [_] => true
  | a :: b :: r => decide (a.1 < b.1) && sortedB (b :: r)

def isNull : J → Bool
  | .null => true
  | _ => false

def isObjLit : J → Bool
  | .obj _ => true
  | _ => false

/-- an element is canonical when, if it is read as a typed value, that value is canonical -/
def canonElemB (I : Impl) (C : String → J → Bool) (plan : List Step) (e : J) : Bool :=
  match landing I plan e with
  | .ty k' => C k' e
  | _ => true

/-- one value standing alone under the plain spelling: not null, not a language map -/
def canonSingleB (I : Impl) (C : String → J → Bool) (p : IProp) (e : J) : Bool :=
  !isNull e && canonElemB I C p.plan e && !(p.natLang && isLangMap I p.plan e)

/-- a value under the plain spelling: single (see above), or — non-functional only — an array of n ≠ 1 elements -/
def canonValueB (I : Impl) (C : String → J → Bool) (p : IProp) (e : J) : Bool :=
  if p.functional then canonSingleB I C p e
  else match e with
    | .arr xs => xs.length != 1 && xs.all (canonElemB I C p.plan)
    | e => canonSingleB I C p e

/-- the value of one property is in the form the encoder writes: absent; a single value under the plain spelling;
an array of n ≠ 1 values (non-functional only); or one language map under the `Map` spelling — never both spellings -/
def canonPropB (I : Impl) (C : String → J → Bool) (p : IProp) (j : J) : Bool :=
  match j.get? p.name, (if p.natLang then j.get? (p.name ++ "Map") else none) with
  | none, none => true
  | some e, none => canonValueB I C p e
  | none, some e => isObjLit e && isLangMap I p.plan e
  | some _, some _ => false

def canonTypeB (I : Impl) (C : String → J → Bool) (k : String) (j : J) : Bool :=
  match I.findType k with
  | none => false
  | some t =>
    (match j with
     | .obj kvs => sortedB kvs
     | _ => false) &&
    (t.typeless || j.has "type") &&
    t.serProps.all fun pn => match I.findProp pn with
      | none => false
      | some p => canonPropB I C p j

/-- canonical typed value of nesting depth at most `n` -/
def canonB (I : Impl) : Nat → String → J → Bool
  | 0, _, _ => false
  | n + 1, k, j => canonTypeB I (canonB I n) k j

/-- the members of `j` under the key(s) of property `p` -/
def present (p : IProp) (j : J) : List (String × J) :=
  (match j.get? p.name with
   | some v => [(p.name, v)]
   | none => []) ++
  (if p.natLang then
    (match j.get? (p.name ++ "Map") with
     | some v => [(p.name ++ "Map", v)]
     | none => [])
   else [])

end AV.RoundTrip
