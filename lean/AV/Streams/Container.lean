/-
The container template of a generated non-functional property (astool/gen/nonfuncprop.go), and the slot of a
functional one (astool/gen/funcprop.go).  Every element records its own index (`myIdx`); `Next()`/`Prev()`
navigate by it.  Index arguments out of range make the Go code panic (slice index out of range): `none`.
T2 checks on every run that every generated property has exactly the method shapes transcribed here
(translators/t2_expect.json).
-/
namespace AV.Container

structure Cell (V : Type) where
  myIdx : Nat
  val : V
  deriving Repr, DecidableEq

abbrev NF (V : Type) := List (Cell V)

variable {V : Type}

/-- `for i := from; i < Len(); i++ { properties[i].myIdx = i }` -/
def reindexFrom (start : Nat) (cs : NF V) : NF V :=
  cs.mapIdx fun i c => if i ≥ start then { c with myIdx := i } else c

def append (cs : NF V) (v : V) : NF V := cs ++ [{ myIdx := cs.length, val := v }]
def prepend (cs : NF V) (v : V) : NF V := reindexFrom 1 ({ myIdx := 0, val := v } :: cs)
def insert (cs : NF V) (idx : Nat) (v : V) : Option (NF V) :=
  if idx ≤ cs.length then some (reindexFrom idx (cs.take idx ++ [{ myIdx := idx, val := v }] ++ cs.drop idx)) else none
def set (cs : NF V) (idx : Nat) (v : V) : Option (NF V) :=
  if idx < cs.length then some (cs.set idx { myIdx := idx, val := v }) else none
def remove (cs : NF V) (idx : Nat) : Option (NF V) :=
  if idx < cs.length then some (reindexFrom idx (cs.take idx ++ cs.drop (idx + 1))) else none
/-- `Swap(i, j)` as repaired: the two elements change places and take their new indices -/
def swap (cs : NF V) (i j : Nat) : Option (NF V) :=
  match cs[i]?, cs[j]? with
  | some a, some b => some ((cs.set i { b with myIdx := i }).set j { a with myIdx := j })
  | _, _ => none

/-- `for it := Begin(); it != End(); it = it.Next()`: the values visited (fuel = a bound on the steps) -/
def walkFwd (cs : NF V) : Nat → Option (Cell V) → List V
  | 0, _ => []
  | _, none => []
  | fuel + 1, some c => c.val :: walkFwd cs fuel (if c.myIdx + 1 ≥ cs.length then none else cs[c.myIdx + 1]?)

def forward (cs : NF V) : List V := walkFwd cs (cs.length + 1) cs.head?

def walkBwd (cs : NF V) : Nat → Option (Cell V) → List V
  | 0, _ => []
  | _, none => []
  | fuel + 1, some c => c.val :: walkBwd cs fuel (if c.myIdx = 0 then none else cs[c.myIdx - 1]?)

def backward (cs : NF V) : List V := walkBwd cs (cs.length + 1) cs.getLast?

def values (cs : NF V) : List V := cs.map (·.val)

/-- every element knows where it is -/
def Inv (cs : NF V) : Prop := ∀ i (h : i < cs.length), (cs[i]).myIdx = i

/-! ### the functional property: one slot -/

/-- `Set<Kind>(v)` = `Clear(); member = v` -/
def slotSet (_ : Option V) (v : V) : Option V := some v
def slotClear (_ : Option V) : Option V := none

end AV.Container
