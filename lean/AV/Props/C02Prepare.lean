import AV.Props.C02
import AV.Lemmas.IdLemmas
/-
C02, the whole of `prepare`: against an application that answers as a fixed federation graph, a fixed table of stored
inboxes and a store holding the sender's actor document (no faults), the recipient list handed to the transport is
exactly `recipientsSpec`.
-/
namespace AV.Props.C02
open AV Prog Pub Val AV.Spec.C02

section
variable (F : TFacts) (ans : (c : Call) → c.Resp)

/-- no faults in locking and in creating the transport -/
structure Calm : Prop where
  lock : ∀ k, ans (.lock k) = .ok ()
  unlock : ∀ k, ans (.unlock k) = .ok ()
  transport : ∀ b, ans (.newTransport b) = .ok ()

variable {ans}

theorem runD_locked (hc : Calm ans) (k : Iri) (body : Prog α) : runD ans (Op.locked k body) = runD ans body := by
  have hl : runD ans (Op.lock k) = .ret () := by
    show runD ans (Op.ofE (ans (.lock k))) = _
    rw [hc.lock]; rfl
  have hu : runD ans (Op.unlock k) = .ret () := rfl
  unfold Op.locked
  rw [runD_bind, hl]
  simp only [Outcome.bindD]
  rw [runD_bind, runD_try]
  cases hb : runD ans body with
  | ret a => simp only [Outcome.bindD]; rw [runD_bind, hu]; rfl
  | fail e => simp only [Outcome.bindD]; rw [runD_bind, hu]; rfl
  | panic s => rfl

/-- the step of `addressed` -/
def addrStep (a : J) (acc : Option (List Iri)) (p : String) : Option (List Iri) :=
  match acc with
  | none => none
  | some l => (match prop F a p with
    | none => some l
    | some xs => (match idsOf F xs with
      | .ok ids => some (l ++ ids)
      | .error _ => none))

theorem addrStep_none (a : J) (qs : List String) : qs.foldl (addrStep F a) none = none := by
  induction qs with
  | nil => rfl
  | cons q qs ih => simpa [addrStep] using ih

theorem addressed_eq (a : J) : addressed F a = addressing.foldl (addrStep F a) (some []) := rfl

/-- step 1: the ids the five addressing properties name (stated for any loop body that behaves like the model's) -/
theorem runD_addressed_from (a : J) (f : List Iri → String → Prog (List Iri))
    (hf : ∀ acc p, runD ans (f acc p) = (match addrStep F a (some acc) p with
      | some l => .ret l
      | none => .fail .lib))
    (ps : List String) (acc : List Iri) :
    runD ans (ps.foldlM f acc) =
    (match ps.foldl (addrStep F a) (some acc) with
     | some l => .ret l
     | none => .fail .lib) := by
  induction ps generalizing acc with
  | nil => rfl
  | cons p ps ih =>
    rw [List.foldlM_cons, runD_bind, List.foldl_cons, hf acc p]
    cases hstep : addrStep F a (some acc) p with
    | none => rw [addrStep_none]; rfl
    | some l => simp only [Outcome.bindD]; exact ih l

theorem addrStep_model (a : J) (acc : List Iri) (p : String) :
    runD ans (match prop F a p with
      | none => pure acc
      | some xs => do let ids ← idsM F xs; pure (acc ++ ids)) =
    (match addrStep F a (some acc) p with
      | some l => .ret l
      | none => .fail .lib) := by
  unfold addrStep
  cases hp : prop F a p with
  | none => rfl
  | some xs =>
    cases hx : idsOf F xs with
    | ok ids => simp [idsM, hx, AV.liftLib]
    | error e => simp [idsM, hx, AV.liftLib]

/-- ids read off values are never the nil IRI -/
theorem addressed_from_nonnil (ps : List String) (a : J) (acc r : List Iri) (hacc : acc.contains nilIri = false)
    (h : ps.foldl (addrStep F a) (some acc) = some r) : r.contains nilIri = false := by
  induction ps generalizing acc with
  | nil => simp only [List.foldl_nil, Option.some.injEq] at h; subst h; exact hacc
  | cons p ps ih =>
    rw [List.foldl_cons] at h
    cases hstep : addrStep F a (some acc) p with
    | none => rw [hstep, addrStep_none] at h; cases h
    | some l =>
      rw [hstep] at h
      apply ih l _ h
      unfold addrStep at hstep
      cases hp : prop F a p with
      | none => simp only [hp, Option.some.injEq] at hstep; subst hstep; exact hacc
      | some xs =>
        cases hx : idsOf F xs with
        | ok ids =>
          simp only [hp, hx, Option.some.injEq] at hstep
          subst hstep
          have := idsOf_nonnil F xs ids hx
          simp_all [List.contains_eq_mem]
        | error e => simp [hp, hx] at hstep

/-- step 2: the application's stored inboxes (each looked up under its lock); stated for any loop body that behaves
like the model's -/
theorem runD_stored_from (stored : Iri → Option Iri) (f : List Iri × List Iri → Iri → Prog (List Iri × List Iri))
    (hf : ∀ st u, runD ans (f st u) = .ret (match stored u with
      | some inbox => (st.1 ++ [inbox], st.2 ++ [u])
      | none => st))
    (r : List Iri) (st : List Iri × List Iri) :
    runD ans (r.foldlM f st) =
    .ret (st.1 ++ r.filterMap stored, st.2 ++ r.filter fun u => (stored u).isSome) := by
  induction r generalizing st with
  | nil => simp
  | cons u r ih =>
    rw [List.foldlM_cons, runD_bind, hf st u]
    simp only [Outcome.bindD]
    rw [ih]
    cases hsu : stored u with
    | none => simp [hsu]
    | some inbox => simp [hsu, List.append_assoc]

theorem storedStep_model (hc : Calm ans) (stored : Iri → Option Iri) (hs : ∀ u, ans (.inboxForActor u) = .ok (stored u))
    (st : List Iri × List Iri) (u : Iri) :
    runD ans (do
      let res ← Op.locked u (Op.inboxForActor u)
      match res with
      | some inbox => pure (st.1 ++ [inbox], st.2 ++ [u])
      | none => pure st) =
    .ret (match stored u with
      | some inbox => (st.1 ++ [inbox], st.2 ++ [u])
      | none => st) := by
  rw [runD_bind, runD_locked hc]
  have : runD ans (Op.inboxForActor u) = .ret (stored u) := by
    show runD ans (Op.ofE (ans (.inboxForActor u))) = _
    rw [hs u]; rfl
  rw [this]
  simp only [Outcome.bindD]
  cases stored u <;> rfl

/-- step 4: the inbox an actor document names -/
theorem runD_getInbox (t : J) : runD ans (Pub.getInbox F t) =
    (match inboxOf F t with
     | some i => .ret i
     | none => .fail .lib) := by
  unfold Pub.getInbox inboxOf
  split
  · rfl
  · cases t.get? "inbox" with
    | none => rfl
    | some j =>
      simp only
      cases toId F (elemOf F j) <;> rfl

theorem runD_getInboxes_from (f : List Iri → J → Prog (List Iri))
    (hf : ∀ acc t, runD ans (f acc t) = (match inboxOf F t with
      | some i => .ret (acc ++ [i])
      | none => .fail .lib))
    (ts : List J) (acc : List Iri) : runD ans (ts.foldlM f acc) =
    (match inboxesOf F ts with
     | some is => .ret (acc ++ is)
     | none => .fail .lib) := by
  induction ts generalizing acc with
  | nil => simp [inboxesOf]
  | cons t ts ih =>
    rw [List.foldlM_cons, runD_bind, hf acc t]
    cases hi : inboxOf F t with
    | none => simp [inboxesOf, hi, Outcome.bindD]
    | some i =>
      simp only [Outcome.bindD]
      rw [ih]
      cases his : inboxesOf F ts with
      | none => simp [inboxesOf, hi, his]
      | some is => simp [inboxesOf, hi, his, List.append_assoc]

theorem getInboxesStep_model (acc : List Iri) (t : J) :
    runD ans (do let i ← Pub.getInbox F t; pure (acc ++ [i])) =
    (match inboxOf F t with
      | some i => .ret (acc ++ [i])
      | none => .fail .lib) := by
  rw [runD_bind, runD_getInbox]
  cases inboxOf F t <;> rfl

theorem inboxOf_nonnil (t : J) (i : Iri) (h : inboxOf F t = some i) : i ≠ nilIri := by
  unfold inboxOf at h
  split at h
  · cases h
  · cases hg : t.get? "inbox" with
    | none => simp [hg] at h
    | some j =>
      simp only [hg] at h
      cases hx : toId F (elemOf F j) with
      | error e => simp [hx] at h
      | ok u =>
        simp only [hx, Option.some.injEq] at h
        subst h
        intro he
        have := toId_elemOf_hasScheme F j u hx
        rw [he, hasScheme_nil] at this
        cases this

theorem inboxesOf_nonnil (ts : List J) (is : List Iri) (h : inboxesOf F ts = some is) : ∀ i ∈ is, i ≠ nilIri := by
  induction ts generalizing is with
  | nil => simp only [inboxesOf, Option.some.injEq] at h; subst h; intro i hi; cases hi
  | cons t ts ih =>
    unfold inboxesOf at h
    cases hi : inboxOf F t with
    | none => simp [hi] at h
    | some i0 =>
      cases hr : inboxesOf F ts with
      | none => simp [hi, hr] at h
      | some rest =>
        simp only [hi, hr, Option.some.injEq] at h
        subst h
        intro i him
        rcases List.mem_cons.mp him with rfl | him
        · exact inboxOf_nonnil F t _ hi
        · exact ih rest hr i him


/-- **C02 (who receives)**: against an application without faults that answers as the federation graph `graph ans`,
the stored-inbox table `stored` and a store holding the sender's actor document, `prepare` returns exactly the
recipients of `recipientsSpec`: stored inboxes first, then the inboxes of the actors reachable within the configured
depth, Public never looked at, no duplicates, not the sender's own inbox -/
theorem prepare_det (hc : Calm ans) (stored : Iri → Option Iri) (hs : ∀ u, ans (.inboxForActor u) = .ok (stored u))
    (hsn : ∀ u i, stored u = some i → i ≠ nilIri)
    (md : Int) (hmd : md > 0) (hdepth : ans .maxDeliveryDepth = md)
    (outbox meIri : Iri) (me : J) (hme : ans (.actorForOutbox outbox) = .ok meIri) (hget : ans (.get meIri) = .ok (some me))
    (a : J) (rs : List Iri) (hspec : recipientsSpec F (graph ans) stored md.toNat me a = some rs) :
    runD ans (prepare F outbox a) = .ret rs := by
  unfold recipientsSpec at hspec
  cases hadd : addressed F a with
  | none => simp [hadd] at hspec
  | some r0 =>
    simp only [hadd] at hspec
    cases hrem : inboxesOf F (reachActors F (graph ans) md.toNat
        ((List.filter (fun u => (stored u).isSome) (filterPublic r0)).foldl removeOne (filterPublic r0))) with
    | none => simp [hrem] at hspec
    | some remote =>
      cases hmine : inboxOf F me with
      | none => simp [hrem, hmine] at hspec
      | some mine =>
        simp only [hrem, hmine, Option.some.injEq] at hspec
        subst hspec
        have hadd' : addressing.foldl (addrStep F a) (some []) = some r0 := by rw [← addressed_eq]; exact hadd
        have hr0 : r0.contains nilIri = false := addressed_from_nonnil F addressing a [] r0 rfl hadd'
        unfold prepare
        rw [runD_bind, runD_addressed_from F a]
        case hf =>
          intro acc p
          unfold addrStep
          cases hp : prop F a p with
          | none => rfl
          | some xs =>
            cases hx : idsOf F xs with
            | ok ids => simp [idsM, hx, AV.liftLib]
            | error e => simp [idsM, hx, AV.liftLib]
        rw [hadd']
        simp only [Outcome.bindD]
        rw [runD_bind]
        have hstrs : runD ans (strsOf "prepare: u.String() on nil in filterURLs" r0) = .ret r0 := by
          unfold strsOf; rw [hr0]; rfl
        rw [hstrs]
        simp only [Outcome.bindD]
        rw [runD_bind, runD_stored_from stored]
        case hf =>
          intro st u
          rw [runD_bind, runD_locked hc]
          have : runD ans (Op.inboxForActor u) = .ret (stored u) := by
            show runD ans (Op.ofE (ans (.inboxForActor u))) = _
            rw [hs u]; rfl
          rw [this]
          simp only [Outcome.bindD]
          cases stored u <;> rfl
        simp only [Outcome.bindD, List.nil_append]
        rw [runD_bind]
        have hnt : runD ans (Op.newTransport outbox) = .ret () := by
          show runD ans (Op.ofE (ans (.newTransport outbox))) = _
          rw [hc.transport]; rfl
        rw [hnt]
        simp only [Outcome.bindD]
        rw [runD_bind]
        have hmdr : runD ans Op.maxDeliveryDepth = .ret md := by
          show runD ans (Prog.ret (ans .maxDeliveryDepth)) = _
          rw [hdepth]; rfl
        rw [hmdr]
        simp only [Outcome.bindD]
        rw [runD_bind]
        have hfuel : fwdFuel md = md.toNat + 1 := by unfold fwdFuel; simp [hmd]
        rw [hfuel, resolveActors_det F ans md hmd (md.toNat + 1) 0 _ (by omega) (by omega)]
        simp only [Outcome.bindD, Nat.sub_zero]
        rw [runD_bind]
        unfold getInboxes
        rw [runD_getInboxes_from F]
        case hf =>
          intro acc t
          rw [runD_bind, runD_getInbox]
          cases inboxOf F t <;> rfl
        rw [hrem]
        simp only [Outcome.bindD, List.nil_append]
        rw [runD_bind, runD_locked hc]
        have hao : runD ans (Op.actorForOutbox outbox) = .ret meIri := by
          show runD ans (Op.ofE (ans (.actorForOutbox outbox))) = _
          rw [hme]; rfl
        rw [hao]
        simp only [Outcome.bindD]
        rw [runD_bind, runD_locked hc]
        have hg : runD ans (Op.get meIri) = .ret (some me) := by
          show runD ans (Op.ofE (ans (.get meIri))) = _
          rw [hget]; rfl
        rw [hg]
        simp only [Outcome.bindD]
        rw [runD_bind]
        have hnv : runD ans (needVal "prepare: getInbox on nil actor value" (some me)) = .ret me := rfl
        rw [hnv]
        simp only [Outcome.bindD]
        rw [runD_bind, runD_getInbox, hmine]
        simp only [Outcome.bindD]
        rw [runD_bind]
        have htn : (List.filterMap stored (filterPublic r0) ++ remote).contains nilIri = false := by
          rw [Bool.eq_false_iff]
          intro hcn
          simp only [List.contains_eq_mem, List.mem_append, List.mem_filterMap, decide_eq_true_eq] at hcn
          rcases hcn with ⟨u, _, hu⟩ | hcn
          · exact hsn u _ hu rfl
          · exact inboxesOf_nonnil F _ remote hrem _ hcn rfl
        have hst2 : runD ans (strsOf "prepare: k.String() on nil in dedupeIRIs" (List.filterMap stored (filterPublic r0) ++ remote)) =
            .ret (List.filterMap stored (filterPublic r0) ++ remote) := by
          unfold strsOf; rw [htn]; rfl
        rw [hst2]
        simp only [Outcome.bindD]
        rw [runD_bind]
        have hso : runD ans (strOf "prepare: elem.String() on nil in dedupeIRIs" mine) = .ret mine := by
          unfold strOf
          have : (mine == nilIri) = false := by
            have := inboxOf_nonnil F me mine hmine
            simpa using this
          rw [this]; rfl
        rw [hso]
        rfl

end
end AV.Props.C02
