import AV.Lemmas.Det
import AV.Lemmas.IdLemmas
import AV.Lemmas.JsonLemmas
import AV.Pub.Util
/-
C05, Create normalisation, one object and one addressing property at a time: after `normObjectProp` the object's
property holds its own ids followed by exactly the activity's ids it lacked — so it has gained the activity's, lost
none of its own, and nothing else was added.  (The composition over the five properties, all objects and the
activity-side phase is decided per run by the set-level oracle; it is not a theorem.)
-/
namespace AV.Props.C05
open AV Prog Pub Val

section
variable (F : TFacts) {ans : (c : Call) → c.Resp}

theorem mem_dedupStr_acc (xs acc : List String) (u : String) :
    u ∈ xs.foldl (fun (acc : List String) x => if acc.contains x then acc else acc ++ [x]) acc ↔ u ∈ acc ∨ u ∈ xs := by
  induction xs generalizing acc with
  | nil => simp
  | cons x xs ih =>
    simp only [List.foldl_cons]
    rw [ih]
    by_cases h : acc.contains x = true
    · simp only [h, if_true, List.mem_cons]
      have hx : x ∈ acc := by simpa using h
      constructor
      · rintro (h1 | h1)
        · exact Or.inl h1
        · exact Or.inr (Or.inr h1)
      · rintro (h1 | h1 | h1)
        · exact Or.inl h1
        · exact Or.inl (h1 ▸ hx)
        · exact Or.inr h1
    · simp only [h, Bool.false_eq_true, if_false, List.mem_append, List.mem_cons, List.mem_nil_iff, or_false]
      constructor
      · rintro ((h1 | h1) | h1)
        · exact Or.inl h1
        · exact Or.inr (Or.inl h1)
        · exact Or.inr (Or.inr h1)
      · rintro (h1 | h1 | h1)
        · exact Or.inl (Or.inl h1)
        · exact Or.inl (Or.inr h1)
        · exact Or.inr h1

theorem mem_dedupStr (xs : List String) (u : String) : u ∈ dedupStr xs ↔ u ∈ xs := by
  unfold dedupStr
  rw [mem_dedupStr_acc]
  simp

/-- ids written by the library read back as themselves -/
theorem toId_str (u : Iri) (hu : Iri.hasScheme u = true) : toId F (elemOf F (J.str u)) = .ok u := by
  simp [elemOf, hu, toId]

theorem idsOf_cons_ok (x : J) (xs : List J) (u : Iri) (rest : List Iri) (hx : toId F (elemOf F x) = .ok u)
    (hxs : idsOf F xs = .ok rest) : idsOf F (x :: xs) = .ok (u :: rest) := by
  unfold idsOf at hxs ⊢
  simp only [List.mapM_cons, hx, Bind.bind, Except.bind, hxs, Pure.pure, Except.pure]

theorem idsOf_cons_inv (x : J) (xs : List J) (a : List Iri) (h : idsOf F (x :: xs) = .ok a) :
    ∃ u rest, toId F (elemOf F x) = .ok u ∧ idsOf F xs = .ok rest ∧ a = u :: rest := by
  unfold idsOf at h ⊢
  simp only [List.mapM_cons] at h
  cases hx : toId F (elemOf F x) with
  | error e => simp [hx, Bind.bind, Except.bind] at h
  | ok u =>
    simp only [hx, Bind.bind, Except.bind] at h
    cases hr : List.mapM (fun j => toId F (elemOf F j)) xs with
    | error e => simp [hr] at h
    | ok rest =>
      simp only [hr, Pure.pure, Except.pure, Functor.map, Except.map] at h
      cases h
      exact ⟨u, rest, rfl, rfl, rfl⟩

/-- ids written by the library read back as themselves -/
theorem idsOf_mkIdList (ids : List Iri) (h : ∀ u ∈ ids, Iri.hasScheme u = true) : idsOf F (mkIdList ids) = .ok ids := by
  induction ids with
  | nil => rfl
  | cons u us ih =>
    have hu := h u List.mem_cons_self
    have hus := ih (fun v hv => h v (List.mem_cons_of_mem _ hv))
    show idsOf F (J.str u :: mkIdList us) = _
    exact idsOf_cons_ok F _ _ u us (toId_str F u hu) hus

theorem idsOf_append (xs ys : List J) (a b : List Iri) (hx : idsOf F xs = .ok a) (hy : idsOf F ys = .ok b) :
    idsOf F (xs ++ ys) = .ok (a ++ b) := by
  induction xs generalizing a with
  | nil =>
    have : a = [] := by
      have : idsOf F [] = .ok ([] : List Iri) := rfl
      rw [this] at hx; cases hx; rfl
    subst this
    simpa using hy
  | cons x xs ih =>
    obtain ⟨u, rest, h1, h2, h3⟩ := idsOf_cons_inv F x xs a hx
    subst h3
    show idsOf F (x :: (xs ++ ys)) = _
    exact idsOf_cons_ok F x (xs ++ ys) u (rest ++ b) h1 (ih rest h2)

/-- **C05 (an object gains the activity's recipients)**, one property -/
theorem normObjectProp_spec (o : J) (p : String) (m : List Iri) (hm : ∀ u ∈ m, Iri.hasScheme u = true)
    (o' : J) (m' : List Iri) (h : runD ans (normObjectProp F o p m) = .ret (o', m')) :
    ∃ own, idsOf F ((rawList o p).getD []) = .ok own ∧ m' = dedupStr own ∧
      o' = setList o p ((rawList o p).getD [] ++ mkIdList (m.filter fun k => !(dedupStr own).contains k)) ∧
      idsOf F ((rawList o p).getD [] ++ mkIdList (m.filter fun k => !(dedupStr own).contains k)) =
        .ok (own ++ m.filter fun k => !(dedupStr own).contains k) ∧
      (∀ u ∈ m, u ∈ own ++ m.filter fun k => !(dedupStr own).contains k) := by
  unfold normObjectProp at h
  split at h
  · simp at h
  · rw [runD_bind] at h
    unfold recipMap at h
    rw [runD_bind] at h
    cases hx : idsOf F ((rawList o p).getD []) with
    | error e => simp [idsM, hx, AV.liftLib, Outcome.bindD] at h
    | ok own =>
      have hn := idsOf_nonnil F _ own hx
      have hn' : ¬ (nilIri ∈ own) := by simpa [List.contains_eq_mem] using hn
      have hn2 : own.contains nilIri = false := hn
      simp only [idsM, hx, AV.liftLib, runD_ret, Outcome.bindD, strsOf, hn2,
        Bool.false_eq_true, if_false, runD_bind, runD_pure, Outcome.ret.injEq, Prod.mk.injEq] at h
      obtain ⟨h1, h2⟩ := h
      refine ⟨own, rfl, h2.symm, h1.symm, ?_, ?_⟩
      · apply idsOf_append F _ _ _ _ hx
        apply idsOf_mkIdList
        intro u hu
        exact hm u (List.mem_filter.mp hu).1
      · intro u hu
        by_cases hc : (dedupStr own).contains u = true
        · have : u ∈ dedupStr own := by simpa using hc
          exact List.mem_append_left _ ((mem_dedupStr own u).mp this)
        · apply List.mem_append_right
          rw [List.mem_filter]
          exact ⟨hu, by simpa using hc⟩

end
end AV.Props.C05

namespace AV.Props.C05
open AV Prog Pub Val

/-! ### the activity side: each addressing property gains the objects' ids it lacked -/

theorem isObj_setList' (c : J) (p : String) (xs : List J) (h : c.isObj = true) : (setList c p xs).isObj = true := by
  unfold setList
  split <;> (cases c <;> simp_all [J.set, J.isObj])

theorem get_setList_other' (c : J) (p k : String) (xs : List J) (h : k ≠ p) : (setList c p xs).get? k = c.get? k := by
  unfold setList
  split <;> exact J.get_set_other c p k _ h

theorem get_setList_same' (c : J) (p : String) (xs : List J) (h : c.isObj = true) :
    (setList c p xs).get? p = some (match xs with
      | [x] => x
      | _ => J.arr xs) := by
  unfold setList
  cases xs with
  | nil => exact J.get_set_same c p _ h
  | cons x rest =>
    cases rest with
    | nil => exact J.get_set_same c p _ h
    | cons y rest' => exact J.get_set_same c p _ h

theorem rawList_congr (a b : J) (p : String) (h : a.get? p = b.get? p) : rawList a p = rawList b p := by
  unfold rawList; rw [h]

/-- a left fold of "rewrite member `p` from its current elements" over distinct member names rewrites each named member
from the ORIGINAL value's elements and leaves every other member alone -/
theorem foldl_rewrite_spec {ι : Type} (key : ι → String) (g : ι → List J → List J) :
    ∀ (L : List ι), (L.map key).Nodup → ∀ (a : J), a.isObj = true →
      let res := L.foldl (fun (a : J) x => setList a (key x) (g x ((rawList a (key x)).getD []))) a
      res.isObj = true ∧ (∀ k, k ∉ L.map key → res.get? k = a.get? k) ∧
      (∀ x ∈ L, res.get? (key x) = (setList a (key x) (g x ((rawList a (key x)).getD []))).get? (key x)) := by
  intro L
  induction L with
  | nil => intro _ a ha; exact ⟨ha, fun _ _ => rfl, fun x hx => by cases hx⟩
  | cons y ys ih =>
    intro hnd a ha
    simp only [List.map_cons, List.nodup_cons] at hnd
    simp only [List.foldl_cons]
    have ha1 : (setList a (key y) (g y ((rawList a (key y)).getD []))).isObj = true := isObj_setList' _ _ _ ha
    obtain ⟨i1, i2, i3⟩ := ih hnd.2 _ ha1
    refine ⟨i1, ?_, ?_⟩
    · intro k hk
      simp only [List.map_cons, List.mem_cons, not_or] at hk
      rw [i2 k hk.2, get_setList_other' _ _ _ _ hk.1]
    · intro x hx
      rcases List.mem_cons.mp hx with rfl | hx
      · exact i2 (key x) hnd.1
      · have hne : key x ≠ key y := by
          intro e
          apply hnd.1
          rw [← e]
          exact List.mem_map.mpr ⟨x, hx, rfl⟩
        rw [i3 x hx]
        have hsame : (setList a (key y) (g y ((rawList a (key y)).getD []))).get? (key x) = a.get? (key x) :=
          get_setList_other' _ _ _ _ hne
        have hraw := rawList_congr _ a (key x) hsame
        rw [hraw, get_setList_same' _ _ _ ha1, get_setList_same' _ _ _ ha]

theorem zipKeys_sub {β : Type} : ∀ (ks : List String) (ms : List β) (n : Nat) (x : String),
    x ∈ ((ks.zip ms).zipIdx n).map (fun y => y.1.1) → x ∈ ks := by
  intro ks
  induction ks with
  | nil => intro ms n x hx; simp at hx
  | cons k ks ih =>
    intro ms n x hx
    cases ms with
    | nil => simp at hx
    | cons m ms =>
      simp only [List.zip_cons_cons, List.zipIdx_cons, List.map_cons, List.mem_cons] at hx
      rcases hx with rfl | hx
      · exact List.mem_cons_self
      · exact List.mem_cons_of_mem _ (ih ms (n + 1) x hx)

theorem zipKeys_nodup {β : Type} : ∀ (ks : List String) (ms : List β) (n : Nat), ks.Nodup →
    (((ks.zip ms).zipIdx n).map (fun y => y.1.1)).Nodup := by
  intro ks
  induction ks with
  | nil => intro ms n _; simp
  | cons k ks ih =>
    intro ms n hnd
    cases ms with
    | nil => simp
    | cons m ms =>
      simp only [List.nodup_cons] at hnd
      simp only [List.zip_cons_cons, List.zipIdx_cons, List.map_cons, List.nodup_cons]
      exact ⟨fun h => hnd.1 (zipKeys_sub ks ms (n + 1) k h), ih ms (n + 1) hnd.2⟩

/-- **C05 (the activity gains the objects' recipients)**: after phase 3 of `normalizeRecipients`, the `i`-th addressing
property of the activity holds its former elements followed by the ids of the objects' `i`-th property that it lacked -/
theorem normPhase3_spec (a : J) (ha : a.isObj = true) (maps : List (List Iri)) (objMaps : List (List (List Iri)))
    (p : String) (m : List Iri) (i : Nat) (hmem : ((p, m), i) ∈ (addressing.zip maps).zipIdx) :
    (normPhase3 a maps objMaps).get? p =
      (setList a p ((rawList a p).getD [] ++ mkIdList (objMaps.flatMap fun ms => (ms.getD i []).filter fun k => !m.contains k))).get? p := by
  unfold normPhase3
  have hnd : (((addressing.zip maps).zipIdx).map (fun x => x.1.1)).Nodup :=
    zipKeys_nodup addressing maps 0 (by decide)
  have := (foldl_rewrite_spec (fun (x : (String × List Iri) × Nat) => x.1.1)
    (fun x cur => cur ++ mkIdList (objMaps.flatMap fun ms => (ms.getD x.2 []).filter fun k => !x.1.2.contains k))
    ((addressing.zip maps).zipIdx) hnd a ha).2.2 ((p, m), i) hmem
  exact this

end AV.Props.C05

namespace AV.Props.C05
open AV Prog Pub Val

section
variable (F : TFacts) {ans : (c : Call) → c.Resp}

theorem typeName_setList (c : J) (p : String) (xs : List J) (hp : p ≠ "type") : typeName (setList c p xs) = typeName c := by
  unfold typeName
  rw [get_setList_other' c p "type" xs (fun e => hp e.symm)]

theorem has_setList (c : J) (p q : String) (xs : List J) (hp : p ≠ "type") : has F (setList c p xs) q = has F c q := by
  unfold has
  rw [typeName_setList c p xs hp]

/-- what one object's property ends as, read off the ORIGINAL object -/
def gained (F : TFacts) (o : J) (p : String) (m : List Iri) : Option (List J × List Iri) :=
  if !has F o p then none else
  match idsOf F ((rawList o p).getD []) with
  | .ok own => some ((rawList o p).getD [] ++ mkIdList (m.filter fun k => !(dedupStr own).contains k), dedupStr own)
  | .error _ => none

theorem runD_normObjectProp (o : J) (p : String) (m : List Iri) :
    runD ans (normObjectProp F o p m) = (match gained F o p m with
      | some (xs, own) => .ret (setList o p xs, own)
      | none => .fail .lib) := by
  unfold normObjectProp gained
  split
  · rfl
  · rw [runD_bind]
    unfold recipMap
    rw [runD_bind]
    cases hx : idsOf F ((rawList o p).getD []) with
    | error e => simp [idsM, hx, AV.liftLib, Outcome.bindD]
    | ok own =>
      have hn2 : own.contains nilIri = false := idsOf_nonnil F _ own hx
      have hn3 : ¬ (nilIri ∈ own) := by simpa [List.contains_eq_mem] using hn2
      simp [idsM, hx, AV.liftLib, Outcome.bindD, strsOf, hn3]

/-- **C05 (each object gains the activity's recipients)**: whenever phases 1+2 return for an object, every member other
than the addressing properties is untouched, and each addressing property (paired with the activity's id map `m`) has
become the object's own elements followed by exactly the ids of `m` it lacked -/
theorem normObject_fold_spec (f : J × List (List Iri) → String × List Iri → Prog (J × List (List Iri)))
    (hf : ∀ s pm, runD ans (f s pm) = (match gained F s.1 pm.1 pm.2 with
      | some (xs, own) => .ret (setList s.1 pm.1 xs, s.2 ++ [own])
      | none => .fail .lib)) :
    ∀ (L : List (String × List Iri)), (L.map (·.1)).Nodup → (∀ pm ∈ L, pm.1 ≠ "type") →
      ∀ (o : J) (acc : List (List Iri)) (o' : J) (oms : List (List Iri)), o.isObj = true →
        runD ans (L.foldlM f (o, acc)) = .ret (o', oms) →
        o'.isObj = true ∧ (∀ k, k ∉ L.map (·.1) → o'.get? k = o.get? k) ∧
        (∀ pm ∈ L, ∃ xs own, gained F o pm.1 pm.2 = some (xs, own) ∧ o'.get? pm.1 = (setList o pm.1 xs).get? pm.1) ∧
        oms = acc ++ L.filterMap (fun pm => (gained F o pm.1 pm.2).map (·.2)) := by
  intro L
  induction L with
  | nil =>
    intro _ _ o acc o' oms ho h
    simp only [List.foldlM_nil, runD_pure, Outcome.ret.injEq, Prod.mk.injEq] at h
    obtain ⟨h1, h2⟩ := h
    subst h1; subst h2
    refine ⟨ho, fun _ _ => rfl, ?_, by simp⟩
    intro pm hpm
    cases hpm
  | cons y ys ih =>
    intro hnd hty o acc o' oms ho h
    simp only [List.map_cons, List.nodup_cons] at hnd
    rw [List.foldlM_cons, runD_bind, hf (o, acc) y] at h
    cases hg : gained F o y.1 y.2 with
    | none => simp [hg, Outcome.bindD] at h
    | some r =>
      obtain ⟨xs, own⟩ := r
      simp only [hg, Outcome.bindD] at h
      have hy : y.1 ≠ "type" := hty y List.mem_cons_self
      have ho1 : (setList o y.1 xs).isObj = true := isObj_setList' _ _ _ ho
      obtain ⟨i1, i2, i3, i4⟩ := ih hnd.2 (fun pm hpm => hty pm (List.mem_cons_of_mem _ hpm)) _ _ o' oms ho1 h
      -- members other than y.1 look the same in `o` and after the first step, so `gained` is the same for them
      have hgsame : ∀ pm ∈ ys, gained F (setList o y.1 xs) pm.1 pm.2 = gained F o pm.1 pm.2 := by
        intro pm hpm
        have hne : pm.1 ≠ y.1 := by
          intro e
          apply hnd.1
          rw [← e]
          exact List.mem_map.mpr ⟨pm, hpm, rfl⟩
        unfold gained
        rw [has_setList F o y.1 pm.1 xs hy, rawList_congr _ o pm.1 (get_setList_other' o y.1 pm.1 xs hne)]
      refine ⟨i1, ?_, ?_, ?_⟩
      · intro k hk
        simp only [List.map_cons, List.mem_cons, not_or] at hk
        rw [i2 k hk.2, get_setList_other' _ _ _ _ hk.1]
      · intro pm hpm
        rcases List.mem_cons.mp hpm with rfl | hpm
        · exact ⟨xs, own, hg, i2 pm.1 hnd.1⟩
        · obtain ⟨xs', own', e1, e2⟩ := i3 pm hpm
          have hne : pm.1 ≠ y.1 := by
            intro e
            apply hnd.1
            rw [← e]
            exact List.mem_map.mpr ⟨pm, hpm, rfl⟩
          refine ⟨xs', own', (hgsame pm hpm) ▸ e1, ?_⟩
          rw [e2, get_setList_same' _ _ _ ho1, get_setList_same' _ _ _ ho]
      · rw [i4]
        simp only [List.filterMap_cons, hg, Option.map_some, List.append_assoc, List.singleton_append]
        congr 2
        have : ∀ (l : List (String × List Iri)), (∀ pm ∈ l, gained F (setList o y.1 xs) pm.1 pm.2 = gained F o pm.1 pm.2) →
            l.filterMap (fun pm => (gained F (setList o y.1 xs) pm.1 pm.2).map (·.2)) =
            l.filterMap (fun pm => (gained F o pm.1 pm.2).map (·.2)) := by
          intro l
          induction l with
          | nil => intro _; rfl
          | cons z zs ihz =>
            intro hz
            simp only [List.filterMap_cons, hz z List.mem_cons_self]
            rw [ihz (fun pm hpm => hz pm (List.mem_cons_of_mem _ hpm))]
        exact this ys hgsame

theorem zip_fst_sub {β : Type} : ∀ (ks : List String) (ms : List β) (x : String), x ∈ (ks.zip ms).map (·.1) → x ∈ ks := by
  intro ks
  induction ks with
  | nil => intro ms x hx; simp at hx
  | cons k ks ih =>
    intro ms x hx
    cases ms with
    | nil => simp at hx
    | cons m ms =>
      simp only [List.zip_cons_cons, List.map_cons, List.mem_cons] at hx
      rcases hx with rfl | hx
      · exact List.mem_cons_self
      · exact List.mem_cons_of_mem _ (ih ms x hx)

theorem zip_fst_nodup {β : Type} : ∀ (ks : List String) (ms : List β), ks.Nodup → ((ks.zip ms).map (·.1)).Nodup := by
  intro ks
  induction ks with
  | nil => intro ms _; simp
  | cons k ks ih =>
    intro ms hnd
    cases ms with
    | nil => simp
    | cons m ms =>
      simp only [List.nodup_cons] at hnd
      simp only [List.zip_cons_cons, List.map_cons, List.nodup_cons]
      exact ⟨fun h => hnd.1 (zip_fst_sub ks ms k h), ih ms hnd.2⟩

/-- `normObject` (phases 1+2 of `normalizeRecipients` for one object): the statement above for the five addressing
properties paired with the activity's id maps -/
theorem normObject_spec (maps : List (List Iri)) (o o' : J) (oms : List (List Iri)) (ho : o.isObj = true)
    (h : runD ans (normObject F maps o) = .ret (o', oms)) :
    o'.isObj = true ∧ (∀ k, k ∉ (addressing.zip maps).map (·.1) → o'.get? k = o.get? k) ∧
    (∀ pm ∈ addressing.zip maps, ∃ xs own, gained F o pm.1 pm.2 = some (xs, own) ∧ o'.get? pm.1 = (setList o pm.1 xs).get? pm.1) ∧
    oms = (addressing.zip maps).filterMap (fun pm => (gained F o pm.1 pm.2).map (·.2)) := by
  unfold normObject at h
  have key := normObject_fold_spec F (ans := ans) _ ?hf (addressing.zip maps) (zip_fst_nodup addressing maps (by decide))
    (fun pm hpm => by
      have := zip_fst_sub addressing maps pm.1 (List.mem_map.mpr ⟨pm, hpm, rfl⟩)
      intro e; rw [e] at this; revert this; decide) o [] o' oms ho h
  case hf =>
    intro s pm
    rw [runD_bind, runD_normObjectProp]
    cases gained F s.1 pm.1 pm.2 with
    | none => rfl
    | some r => rfl
  simpa using key

end
end AV.Props.C05

namespace AV.Props.C05
open AV Prog Pub Val

section
variable (F : TFacts) {ans : (c : Call) → c.Resp}

/-- phase 0 for one property, read off the value: the property made non-nil, and its id map -/
def phase0One (F : TFacts) (a : J) (p : String) : Option (J × List Iri) :=
  match idsOf F ((prop F a p).getD []) with
  | .ok ids => some (if (prop F a p).isNone then a.set p (.arr []) else a, dedupStr ids)
  | .error _ => none

theorem runD_normActivityProp (a : J) (p : String) :
    runD ans (normActivityProp F a p) = (match phase0One F a p with
      | some r => .ret r
      | none => .fail .lib) := by
  unfold normActivityProp phase0One recipMap
  rw [runD_bind, runD_bind]
  cases hx : idsOf F ((prop F a p).getD []) with
  | error e => simp [idsM, hx, AV.liftLib, Outcome.bindD]
  | ok ids =>
    have hn2 : ids.contains nilIri = false := idsOf_nonnil F _ ids hx
    have hn3 : ¬ (nilIri ∈ ids) := by simpa [List.contains_eq_mem] using hn2
    simp [idsM, hx, AV.liftLib, Outcome.bindD, strsOf, hn3]

end
end AV.Props.C05
