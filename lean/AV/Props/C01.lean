import AV.Streams.RoundTrip
import AV.Lemmas.JsonLemmas
/-
C01 — ActivityStreams documents survive decode → encode without loss (the part carried by theorems; the
correspondence harness ties `RoundTrip.rt` to `streams.Serialize ∘ streams.ToType` on every run).
-/
namespace AV.Props.C01
open AV AV.RoundTrip

/-! ### elements that are not typed values are written back verbatim -/

theorem elem_verbatim (I : Impl) (rec : String → J → J) (plan : List Step) (j : J)
    (h : ∀ k, landing I plan j ≠ .ty k) : rtElem I rec plan j = j := by
  unfold rtElem
  cases hl : landing I plan j with
  | ty k => exact absurd hl (h k)
  | iri => rfl
  | lit k => rfl
  | unknown => rfl
  | panic => rfl

/-- … and a typed value is written back as its type's normal form -/
theorem elem_typed (I : Impl) (rec : String → J → J) (plan : List Step) (j : J) (k : String)
    (h : landing I plan j = .ty k) : rtElem I rec plan j = rec k j := by
  unfold rtElem; rw [h]

/-! ### unknown and extension members are kept verbatim, at every typed level -/

theorem isObj_set (j : J) (k : String) (v : J) (h : j.isObj = true) : (j.set k v).isObj = true := by
  cases j <;> simp_all [J.set, J.isObj]

/-- writing members none of which is `key` leaves `key` as it was -/
theorem get_foldl_set_other (kvs : List (String × J)) (key : String) (h : ∀ kv ∈ kvs, kv.1 ≠ key) :
    ∀ (m : J), (kvs.foldl (fun (m : J) kv => m.set kv.1 kv.2) m).get? key = m.get? key := by
  induction kvs with
  | nil => intro m; rfl
  | cons kv rest ih =>
    intro m
    simp only [List.foldl_cons]
    rw [ih (fun kv' hkv' => h kv' (List.mem_cons_of_mem _ hkv'))]
    exact J.get_set_other m kv.1 key kv.2 (fun he => h kv List.mem_cons_self he.symm)

theorem isObj_foldl_set (kvs : List (String × J)) : ∀ (m : J), m.isObj = true →
    (kvs.foldl (fun (m : J) kv => m.set kv.1 kv.2) m).isObj = true := by
  induction kvs with
  | nil => intro m h; exact h
  | cons kv rest ih => intro m h; exact ih _ (isObj_set m kv.1 kv.2 h)

/-- copying members "unless already present": a key absent before the copy ends up with its first binding -/
theorem get_foldl_copy (kvs : List (String × J)) (key : String) :
    ∀ (m : J), m.isObj = true → m.get? key = none →
      (kvs.foldl (fun (m : J) kv => if m.has kv.1 then m else m.set kv.1 kv.2) m).get? key =
        (kvs.find? (·.1 == key)).map (·.2) := by
  induction kvs with
  | nil => intro m _ h; simpa using h
  | cons kv rest ih =>
    intro m hm h
    simp only [List.foldl_cons, List.find?_cons]
    by_cases hk : kv.1 = key
    · -- this binding is the one that is copied; later ones for the same key are skipped
      subst hk
      have hhas : m.has kv.1 = false := by simp [J.has, h]
      simp only [hhas, Bool.false_eq_true, if_false, beq_self_eq_true, Option.map_some]
      have hset : (m.set kv.1 kv.2).get? kv.1 = some kv.2 := J.get_set_same m kv.1 kv.2 hm
      -- once present, nothing changes it
      have stable : ∀ (l : List (String × J)) (m' : J), m'.get? kv.1 = some kv.2 →
          (l.foldl (fun (m : J) kv => if m.has kv.1 then m else m.set kv.1 kv.2) m').get? kv.1 = some kv.2 := by
        intro l
        induction l with
        | nil => intro m' h'; exact h'
        | cons x xs ihx =>
          intro m' h'
          simp only [List.foldl_cons]
          by_cases hh : m'.has x.1 = true
          · simp only [hh, if_true]; exact ihx m' h'
          · simp only [hh, Bool.false_eq_true, if_false]
            apply ihx
            by_cases hx : x.1 = kv.1
            · exfalso; apply hh; simp [J.has, hx, h']
            · rw [J.get_set_other m' x.1 kv.1 x.2 (fun he => hx he.symm)]; exact h'
      exact stable rest _ hset
    · have hne : (kv.1 == key) = false := by simpa using hk
      simp only [hne]
      by_cases hh : m.has kv.1 = true
      · simp only [hh, if_true]; exact ih m hm h
      · simp only [hh, Bool.false_eq_true, if_false]
        apply ih _ (isObj_set m kv.1 kv.2 hm)
        rw [J.get_set_other m kv.1 key kv.2 (fun he => hk he.symm)]; exact h


/-- the table fact the round trip relies on: every property a type serialises is one of its known keys, under both
spellings if it is a natural-language property, and a typed type knows the key `type` (checked on the regenerated
tables by `decide +kernel`, `GenProps/C01.lean`) -/
def rtKeysB (I : Impl) : Bool :=
  I.types.all fun t =>
    (t.typeless || t.knownKeys.contains "type") &&
    t.serProps.all fun pn => match I.findProp pn with
      | none => true
      | some p => t.knownKeys.contains p.name && (!p.natLang || t.knownKeys.contains (p.name ++ "Map"))

theorem find_filter_of_imp {α : Type} (l : List α) (p q : α → Bool) (h : ∀ x, p x = true → q x = true) :
    (l.filter q).find? p = l.find? p := by
  induction l with
  | nil => rfl
  | cons x xs ih =>
    by_cases hq : q x = true
    · simp only [List.filter_cons, hq, if_true, List.find?_cons, ih]
    · have hp : p x = false := by
        cases hpx : p x with
        | false => rfl
        | true => exact absurd (h x hpx) hq
      simp only [List.filter_cons, hq, Bool.false_eq_true, if_false, List.find?_cons, hp, ih]

theorem rtProp_keys (I : Impl) (rec : String → J → J) (p : IProp) (m : J) :
    ∀ kv ∈ rtProp I rec p m, kv.1 = p.name ∨ (p.natLang = true ∧ kv.1 = p.name ++ "Map") := by
  intro kv hkv
  unfold rtProp at hkv
  split at hkv
  · -- functional
    dsimp only at hkv
    split at hkv
    · cases hkv
    · cases hkv
    · simp only [List.mem_singleton] at hkv
      subst hkv
      dsimp only
      split
      · rename_i h; simp only [Bool.and_eq_true] at h; exact Or.inr ⟨h.1, rfl⟩
      · exact Or.inl rfl
  · dsimp only at hkv
    split at hkv
    · cases hkv
    · split at hkv
      · cases hkv
      · simp only [List.mem_singleton] at hkv
        subst hkv
        dsimp only
        split
        · split
          · rename_i h; simp only [Bool.and_eq_true] at h; exact Or.inr ⟨h.1, rfl⟩
          · exact Or.inl rfl
        · exact Or.inl rfl

/-- **C01 (unknown members)**: a member whose key the type does not know is written back exactly as it came —
whatever it is (null, nested objects, arrays), at every typed level of the document -/
theorem unknown_kept (I : Impl) (hI : rtKeysB I = true) (rec : String → J → J) (k : String) (t : IType)
    (hk : I.findType k = some t) (j : J) (hj : j.isObj = true) (key : String) (hkey : t.knownKeys.contains key = false) :
    (rtTypeWith I rec k j).get? key = j.get? key := by
  have ht : t ∈ I.types := List.mem_of_find?_eq_some hk
  have hrow := List.all_eq_true.mp hI t ht
  simp only [Bool.and_eq_true, Bool.or_eq_true] at hrow
  obtain ⟨htype, hprops⟩ := hrow
  unfold rtTypeWith
  simp only [hk]
  -- nothing the serialiser writes itself has this key
  have hbase : (if t.typeless = true then J.obj [] else J.obj [("type", J.str k)]).get? key = none := by
    split
    · rfl
    · rename_i htl
      have : key ≠ "type" := by
        intro h; subst h
        rcases htype with h | h
        · exact htl h
        · rw [h] at hkey; cases hkey
      have hb : ("type" == key) = false := by simpa using (Ne.symm this)
      simp [J.get?, List.find?, hb]
  have hbaseObj : (if t.typeless = true then J.obj [] else J.obj [("type", J.str k)]).isObj = true := by
    split <;> rfl
  have hknownKeys : ∀ kv ∈ t.serProps.flatMap (propMembers I rec j), kv.1 ≠ key := by
    intro kv hkv hEq
    rw [List.mem_flatMap] at hkv
    obtain ⟨pn, hpn, hin⟩ := hkv
    have hp := List.all_eq_true.mp hprops pn hpn
    unfold propMembers at hin
    cases hf : I.findProp pn with
    | none => simp [hf] at hin
    | some p =>
      simp only [hf] at hin hp
      simp only [Bool.and_eq_true, Bool.or_eq_true, Bool.not_eq_true'] at hp
      rcases rtProp_keys I rec p j kv hin with h1 | ⟨hn, h2⟩
      · rw [h1] at hEq; rw [← hEq] at hkey; rw [hp.1] at hkey; cases hkey
      · rcases hp.2 with h3 | h3
        · rw [hn] at h3; cases h3
        · rw [h2] at hEq; rw [← hEq] at hkey; rw [h3] at hkey; cases hkey
  rw [get_foldl_copy _ key _ (isObj_foldl_set _ _ hbaseObj) (by rw [get_foldl_set_other _ key hknownKeys]; exact hbase)]
  rw [find_filter_of_imp]
  · cases j with
    | obj kvs => rfl
    | _ => cases hj
  · intro x hx
    have : x.1 = key := by simpa using hx
    rw [this, hkey]; rfl


/-! ### known members of a canonical value are written back exactly -/

/-- table fact: within a type, the property names and their `Map` spellings are pairwise distinct -/
def keysNodupB (I : Impl) : Bool :=
  I.types.all fun t => decide ((t.serProps.flatMap fun pn => [pn, pn ++ "Map"]).Nodup)

theorem get_foldl_set_find (kvs : List (String × J)) (hn : (kvs.map (·.1)).Nodup) :
    ∀ (m : J), m.isObj = true → ∀ k,
      (kvs.foldl (fun (m : J) kv => m.set kv.1 kv.2) m).get? k =
        (match kvs.find? (·.1 == k) with
         | some kv => some kv.2
         | none => m.get? k) := by
  induction kvs with
  | nil => intro m _ k; rfl
  | cons kv rest ih =>
    intro m hm k
    obtain ⟨k0, v0⟩ := kv
    simp only [List.map_cons, List.nodup_cons] at hn
    obtain ⟨hnot, hrest⟩ := hn
    simp only [List.foldl_cons]
    rw [ih hrest (m.set k0 v0) (isObj_set m k0 v0 hm) k]
    by_cases hk : k0 = k
    · subst hk
      have : rest.find? (fun x => x.1 == k0) = none := by
        rw [List.find?_eq_none]
        intro x hx hx'
        apply hnot
        simp only [List.mem_map]
        exact ⟨x, hx, by simpa using hx'⟩
      simp [this, J.get_set_same m k0 v0 hm]
    · have hne : (k0 == k) = false := by simpa using hk
      simp only [List.find?_cons, hne]
      cases rest.find? (fun x => x.1 == k) with
      | some kv => rfl
      | none => simp only; exact J.get_set_other m k0 k v0 (fun h => hk h.symm)

theorem copy_keeps (kvs : List (String × J)) (key : String) (v : J) :
    ∀ (m : J), m.get? key = some v →
      (kvs.foldl (fun (m : J) kv => if m.has kv.1 then m else m.set kv.1 kv.2) m).get? key = some v := by
  induction kvs with
  | nil => intro m h; exact h
  | cons x xs ih =>
    intro m h
    simp only [List.foldl_cons]
    by_cases hh : m.has x.1 = true
    · simp only [hh, if_true]; exact ih m h
    · simp only [hh, Bool.false_eq_true, if_false]
      apply ih
      by_cases hx : x.1 = key
      · exfalso; apply hh; simp [J.has, hx, h]
      · rw [J.get_set_other m x.1 key x.2 (fun he => hx he.symm)]; exact h

theorem propMembers_keys_sublist (I : Impl) (rec : String → J → J) (j : J) (pn : String) :
    ((propMembers I rec j pn).map (·.1)).Sublist [pn, pn ++ "Map"] := by
  unfold propMembers
  cases hf : I.findProp pn with
  | none => simp
  | some p =>
    have hname : p.name = pn := by
      have := List.find?_some hf
      simpa using this
    simp only
    -- at most one member, spelled one of the two ways
    have hshape : rtProp I rec p j = [] ∨ ∃ v, rtProp I rec p j = [(p.name, v)] ∨ rtProp I rec p j = [(p.name ++ "Map", v)] := by
      unfold rtProp
      split
      · dsimp only
        split
        · exact Or.inl rfl
        · exact Or.inl rfl
        · right
          split
          · exact ⟨_, Or.inr rfl⟩
          · exact ⟨_, Or.inl rfl⟩
      · dsimp only
        split
        · exact Or.inl rfl
        · split
          · exact Or.inl rfl
          · right
            split
            · split
              · exact ⟨_, Or.inr rfl⟩
              · exact ⟨_, Or.inl rfl⟩
            · exact ⟨_, Or.inl rfl⟩
    rcases hshape with h | ⟨v, h | h⟩
    · rw [h]; simp
    · rw [h, hname]; simp
    · rw [h, hname]
      simp only [List.map_cons, List.map_nil]
      exact List.Sublist.cons _ (List.Sublist.refl _)

theorem known_keys_nodup (I : Impl) (hN : keysNodupB I = true) (rec : String → J → J) (t : IType) (ht : t ∈ I.types) (j : J) :
    ((t.serProps.flatMap (propMembers I rec j)).map (·.1)).Nodup := by
  have hrow := List.all_eq_true.mp hN t ht
  have hnd : (t.serProps.flatMap fun pn => [pn, pn ++ "Map"]).Nodup := by simpa using hrow
  apply List.Sublist.nodup _ hnd
  rw [List.map_flatMap]
  generalize t.serProps = ps
  induction ps with
  | nil => simp
  | cons pn rest ih =>
    simp only [List.flatMap_cons]
    exact List.Sublist.append (propMembers_keys_sublist I rec j pn) ih

/-- **C01 (known members)**: whatever a property of the value re-serialises to is what the output carries under
that key — in particular, for a canonical value (see `rtProp_scalar` … `rtProp_map`) the member is written back
exactly -/
theorem known_kept (I : Impl) (hN : keysNodupB I = true) (rec : String → J → J) (k : String) (t : IType)
    (hk : I.findType k = some t) (j : J) (pn : String) (hpn : pn ∈ t.serProps) (key : String) (v : J)
    (hmem : (key, v) ∈ propMembers I rec j pn) :
    (rtTypeWith I rec k j).get? key = some v := by
  have ht : t ∈ I.types := List.mem_of_find?_eq_some hk
  unfold rtTypeWith
  simp only [hk]
  apply copy_keeps
  have hbaseObj : (if t.typeless = true then J.obj [] else J.obj [("type", J.str k)]).isObj = true := by
    split <;> rfl
  have hnd := known_keys_nodup I hN rec t ht j
  rw [get_foldl_set_find _ hnd _ hbaseObj key]
  have hin : (key, v) ∈ t.serProps.flatMap (propMembers I rec j) := List.mem_flatMap.mpr ⟨pn, hpn, hmem⟩
  -- the first binding of `key` in a key-distinct list is the binding we know
  have hfind : (t.serProps.flatMap (propMembers I rec j)).find? (·.1 == key) = some (key, v) := by
    generalize t.serProps.flatMap (propMembers I rec j) = l at hnd hin
    induction l with
    | nil => cases hin
    | cons x xs ih =>
      simp only [List.map_cons, List.nodup_cons] at hnd
      rcases List.mem_cons.mp hin with h | h
      · subst h; simp
      · have hne : x.1 ≠ key := by
          intro he
          apply hnd.1
          rw [he]
          exact List.mem_map.mpr ⟨(key, v), h, rfl⟩
        have : (x.1 == key) = false := by simpa using hne
        simp only [List.find?_cons, this]
        exact ih hnd.2 h
  rw [hfind]

/-! ### what a canonical property value re-serialises to -/

/-- a single value (not null, not a language map under the plain spelling) of a non-functional property is written
as that scalar -/
theorem rtProp_scalar (I : Impl) (rec : String → J → J) (p : IProp) (j e : J) (hnf : p.functional = false)
    (hget : j.get? p.name = some e) (hnarr : ∀ xs, e ≠ .arr xs) (hnn : e ≠ .null)
    (hfix : rtElem I rec p.plan e = e) (hnm : (p.natLang && isLangMap I p.plan e) = false) :
    rtProp I rec p j = [(p.name, e)] := by
  unfold rtProp
  simp only [hnf, Bool.false_eq_true, if_false, hget]
  cases e with
  | null => exact absurd rfl hnn
  | arr xs => exact absurd rfl (hnarr xs)
  | _ => simp only [List.map_cons, List.map_nil, hfix, collapse, hnm, Bool.false_eq_true, if_false]

/-- a list of n ≠ 1 values is written as that list, in order -/
theorem rtProp_list (I : Impl) (rec : String → J → J) (p : IProp) (j : J) (xs : List J) (hnf : p.functional = false)
    (hget : j.get? p.name = some (.arr xs)) (hlen : xs.length ≠ 1) (hfix : ∀ e ∈ xs, rtElem I rec p.plan e = e) :
    rtProp I rec p j = [(p.name, .arr xs)] := by
  unfold rtProp
  simp only [hnf, Bool.false_eq_true, if_false, hget]
  have hmap : xs.map (rtElem I rec p.plan) = xs := by
    conv => rhs; rw [← List.map_id xs]
    exact List.map_congr_left (fun e he => by simpa using hfix e he)
  simp only [hmap]
  cases xs with
  | nil => rfl
  | cons a rest =>
    cases rest with
    | nil => exact absurd rfl hlen
    | cons b rest' => rfl

/-- a single language map of a natural-language property, given under the `Map` spelling, is written under it -/
theorem rtProp_map (I : Impl) (rec : String → J → J) (p : IProp) (j : J) (kvs : List (String × J)) (hnf : p.functional = false)
    (hnl : p.natLang = true) (hnone : j.get? p.name = none) (hget : j.get? (p.name ++ "Map") = some (.obj kvs))
    (hmap : isLangMap I p.plan (.obj kvs) = true) :
    rtProp I rec p j = [(p.name ++ "Map", .obj kvs)] := by
  have hfix : rtElem I rec p.plan (.obj kvs) = .obj kvs := by
    unfold isLangMap at hmap
    unfold rtElem
    split at hmap
    · rename_i h; rw [h]
    · cases hmap
  unfold rtProp
  simp only [hnf, Bool.false_eq_true, if_false, hnone, hnl, if_true, hget, List.map_cons, List.map_nil, hfix, collapse,
    hmap, Bool.and_self]

/-- the functional case: one value, written under the spelling that says what it is -/
theorem rtProp_functional (I : Impl) (rec : String → J → J) (p : IProp) (j e : J) (hf : p.functional = true)
    (hget : j.get? p.name = some e) (hnn : e ≠ .null) (hfix : rtElem I rec p.plan e = e)
    (hnm : (p.natLang && isLangMap I p.plan e) = false) :
    rtProp I rec p j = [(p.name, e)] := by
  unfold rtProp
  cases e with
  | null => exact absurd rfl hnn
  | _ => simp only [hf, if_true, hget, hfix, hnm, Bool.false_eq_true, if_false]

end AV.Props.C01
