import AV.Spec.C08
/-
C08 — Concurrent requests lose no update and process a duplicate once.
-/
namespace AV.Props.C08
open AV.Spec.C08

/-- the lock table and the threads agree, and a thread that has read a collection under its lock still sees the
stored value (nobody else can have written it) -/
structure Inv (c : Cfg) : Prop where
  holds : ∀ (i : Nat) (t : Thread), c.threads[i]? = some t → t.phase ≠ .idle → ∃ s rest, t.secs = s :: rest ∧ c.held s.key = some i
  owner : ∀ (k : Key) (i : Nat), c.held k = some i → ∃ (t : Thread) (s : Sec) (rest : List Sec), c.threads[i]? = some t ∧ t.secs = s :: rest ∧ s.key = k ∧ t.phase ≠ .idle
  fresh : ∀ (i : Nat) (t : Thread) (s : Sec) (rest : List Sec), c.threads[i]? = some t → t.secs = s :: rest → t.phase = .readDone → t.seen = c.store s.key

theorem inv_init (store : Key → List Id) (reqs : List (List Sec)) : Inv (init store reqs) := by
  refine ⟨?_, ?_, ?_⟩
  · intro i t ht hp
    simp only [init, List.getElem?_map] at ht
    cases hr : reqs[i]? with
    | none => simp [hr] at ht
    | some r => simp [hr] at ht; subst ht; exact absurd rfl hp
  · intro k i h; simp [init] at h
  · intro i t s rest ht _ hp
    simp only [init, List.getElem?_map] at ht
    cases hr : reqs[i]? with
    | none => simp [hr] at ht
    | some r => simp [hr] at ht; subst ht; cases hp

theorem getElem?_set' {α : Type} (l : List α) (i j : Nat) (a : α) (hi : i < l.length) :
    (l.set i a)[j]? = if j = i then some a else l[j]? := by
  rw [List.getElem?_set]
  by_cases h : i = j
  · subst h; simp [hi]
  · have : ¬ j = i := fun h' => h h'.symm
    simp [h, this]

/-- the four kinds of step, spelled out -/
inductive Step (c : Cfg) (i : Nat) : Cfg → Prop where
  | lock (s : Sec) (rest : List Sec) (seen : List Id) (done : List Sec)
      (ht : c.threads[i]? = some { secs := s :: rest, phase := .idle, seen := seen, done := done }) (hfree : c.held s.key = none) :
      Step c i { c with held := setAt c.held s.key (some i),
                        threads := c.threads.set i { secs := s :: rest, phase := .locked, seen := seen, done := done } }
  | read (s : Sec) (rest : List Sec) (seen : List Id) (done : List Sec)
      (ht : c.threads[i]? = some { secs := s :: rest, phase := .locked, seen := seen, done := done }) :
      Step c i { c with threads := c.threads.set i { secs := s :: rest, phase := .readDone, seen := c.store s.key, done := done } }
  | write (s : Sec) (rest : List Sec) (seen : List Id) (done : List Sec)
      (ht : c.threads[i]? = some { secs := s :: rest, phase := .readDone, seen := seen, done := done }) :
      Step c i { c with store := setAt c.store s.key (writeBack s seen),
                        threads := c.threads.set i { secs := s :: rest, phase := .written, seen := seen, done := done } }
  | unlock (s : Sec) (rest : List Sec) (seen : List Id) (done : List Sec)
      (ht : c.threads[i]? = some { secs := s :: rest, phase := .written, seen := seen, done := done }) :
      Step c i { c with held := setAt c.held s.key none,
                        threads := c.threads.set i { secs := rest, phase := .idle, seen := seen, done := done ++ [s] } }

theorem step_cases (c c' : Cfg) (i : Nat) (hs : step c i = some c') : Step c i c' := by
  unfold step at hs
  cases ht : c.threads[i]? with
  | none => simp [ht] at hs
  | some t =>
    obtain ⟨secs, phase, seen, done⟩ := t
    simp only [ht] at hs
    cases secs with
    | nil => simp at hs
    | cons s rest =>
      cases phase with
      | idle =>
        simp only at hs
        cases hh : c.held s.key with
        | some j => simp [hh] at hs
        | none => simp only [hh] at hs; cases hs; exact Step.lock s rest seen done ht hh
      | locked => simp only at hs; cases hs; exact Step.read s rest seen done ht
      | readDone => simp only at hs; cases hs; exact Step.write s rest seen done ht
      | written => simp only at hs; cases hs; exact Step.unlock s rest seen done ht

theorem lt_of_get {α : Type} {l : List α} {i : Nat} {a : α} (h : l[i]? = some a) : i < l.length := by
  rcases List.getElem?_eq_some_iff.mp h with ⟨h, _⟩; exact h

theorem step_inv (c c' : Cfg) (i : Nat) (hinv : Inv c) (hs : step c i = some c') : Inv c' := by
  have hstep := step_cases c c' i hs
  cases hstep with
  | lock s rest seen done ht hfree =>
    have hi := lt_of_get ht
    refine ⟨?_, ?_, ?_⟩
    · intro j tj htj hpj
      simp only [getElem?_set' _ _ _ _ hi] at htj
      by_cases hji : j = i
      · subst hji
        simp only [if_true, Option.some.injEq] at htj
        subst htj
        exact ⟨s, rest, rfl, by simp [setAt]⟩
      · simp only [hji, if_false] at htj
        obtain ⟨s', rest', h1, h2⟩ := hinv.holds j tj htj hpj
        refine ⟨s', rest', h1, ?_⟩
        simp only [setAt]
        by_cases hk : s'.key = s.key
        · rw [hk] at h2; rw [hfree] at h2; cases h2
        · simp [hk, h2]
    · intro k j hk
      simp only [setAt] at hk
      by_cases hks : k = s.key
      · subst hks
        simp only [if_true, Option.some.injEq] at hk
        subst hk
        exact ⟨{ secs := s :: rest, phase := .locked, seen := seen, done := done }, s, rest, by simp [getElem?_set' _ _ _ _ hi], rfl, rfl, by simp⟩
      · simp only [hks, if_false] at hk
        obtain ⟨tj, s', rest', h1, h2, h3, h4⟩ := hinv.owner k j hk
        have hji : j ≠ i := by
          intro h; subst h
          rw [ht] at h1; cases h1
          exact h4 rfl
        exact ⟨tj, s', rest', by simp [getElem?_set' _ _ _ _ hi, hji, h1], h2, h3, h4⟩
    · intro j tj s' rest' htj hsj hpj
      simp only [getElem?_set' _ _ _ _ hi] at htj
      by_cases hji : j = i
      · subst hji
        simp only [if_true, Option.some.injEq] at htj
        subst htj
        cases hpj
      · simp only [hji, if_false] at htj
        exact hinv.fresh j tj s' rest' htj hsj hpj
  | read s rest seen done ht =>
    have hi := lt_of_get ht
    obtain ⟨s0, rest0, hs0, hheld⟩ := hinv.holds i _ ht (by simp)
    cases hs0
    refine ⟨?_, ?_, ?_⟩
    · intro j tj htj hpj
      simp only [getElem?_set' _ _ _ _ hi] at htj
      by_cases hji : j = i
      · subst hji
        simp only [if_true, Option.some.injEq] at htj
        subst htj
        exact ⟨s, rest, rfl, hheld⟩
      · simp only [hji, if_false] at htj
        exact hinv.holds j tj htj hpj
    · intro k j hk
      obtain ⟨tj, s', rest', h1, h2, h3, h4⟩ := hinv.owner k j hk
      by_cases hji : j = i
      · subst hji
        rw [ht] at h1; cases h1
        exact ⟨{ secs := s :: rest, phase := .readDone, seen := c.store s.key, done := done }, s', rest', by simp [getElem?_set' _ _ _ _ hi], h2, h3, by simp⟩
      · exact ⟨tj, s', rest', by simp [getElem?_set' _ _ _ _ hi, hji, h1], h2, h3, h4⟩
    · intro j tj s' rest' htj hsj hpj
      simp only [getElem?_set' _ _ _ _ hi] at htj
      by_cases hji : j = i
      · subst hji
        simp only [if_true, Option.some.injEq] at htj
        subst htj
        cases hsj
        rfl
      · simp only [hji, if_false] at htj
        exact hinv.fresh j tj s' rest' htj hsj hpj
  | write s rest seen done ht =>
    have hi := lt_of_get ht
    obtain ⟨s0, rest0, hs0, hheld⟩ := hinv.holds i _ ht (by simp)
    cases hs0
    refine ⟨?_, ?_, ?_⟩
    · intro j tj htj hpj
      simp only [getElem?_set' _ _ _ _ hi] at htj
      by_cases hji : j = i
      · subst hji
        simp only [if_true, Option.some.injEq] at htj
        subst htj
        exact ⟨s, rest, rfl, hheld⟩
      · simp only [hji, if_false] at htj
        exact hinv.holds j tj htj hpj
    · intro k j hk
      obtain ⟨tj, s', rest', h1, h2, h3, h4⟩ := hinv.owner k j hk
      by_cases hji : j = i
      · subst hji
        rw [ht] at h1; cases h1
        exact ⟨{ secs := s :: rest, phase := .written, seen := seen, done := done }, s', rest', by simp [getElem?_set' _ _ _ _ hi], h2, h3, by simp⟩
      · exact ⟨tj, s', rest', by simp [getElem?_set' _ _ _ _ hi, hji, h1], h2, h3, h4⟩
    · intro j tj s' rest' htj hsj hpj
      simp only [getElem?_set' _ _ _ _ hi] at htj
      by_cases hji : j = i
      · subst hji
        simp only [if_true, Option.some.injEq] at htj
        subst htj
        cases hpj
      · simp only [hji, if_false] at htj
        -- another thread that has read its collection holds that collection's lock: it is not the one written now
        have hold := hinv.fresh j tj s' rest' htj hsj hpj
        obtain ⟨s2, rest2, hs2, hheld2⟩ := hinv.holds j tj htj (by rw [hpj]; intro h; cases h)
        rw [hsj] at hs2; cases hs2
        have hne : s'.key ≠ s.key := by
          intro hk
          rw [hk] at hheld2
          rw [hheld] at hheld2
          cases hheld2
          exact hji rfl
        simp only [setAt, hne, if_false]
        exact hold
  | unlock s rest seen done ht =>
    have hi := lt_of_get ht
    obtain ⟨s0, rest0, hs0, hheld⟩ := hinv.holds i _ ht (by simp)
    cases hs0
    refine ⟨?_, ?_, ?_⟩
    · intro j tj htj hpj
      simp only [getElem?_set' _ _ _ _ hi] at htj
      by_cases hji : j = i
      · subst hji
        simp only [if_true, Option.some.injEq] at htj
        subst htj
        exact absurd rfl hpj
      · simp only [hji, if_false] at htj
        obtain ⟨s', rest', h1, h2⟩ := hinv.holds j tj htj hpj
        refine ⟨s', rest', h1, ?_⟩
        simp only [setAt]
        by_cases hk : s'.key = s.key
        · rw [hk] at h2; rw [hheld] at h2; cases h2; exact absurd rfl hji
        · simp [hk, h2]
    · intro k j hk
      simp only [setAt] at hk
      by_cases hks : k = s.key
      · simp [hks] at hk
      · simp only [hks, if_false] at hk
        obtain ⟨tj, s', rest', h1, h2, h3, h4⟩ := hinv.owner k j hk
        have hji : j ≠ i := by
          intro h; subst h
          rw [ht] at h1; cases h1
          cases h2
          exact hks h3.symm
        exact ⟨tj, s', rest', by simp [getElem?_set' _ _ _ _ hi, hji, h1], h2, h3, h4⟩
    · intro j tj s' rest' htj hsj hpj
      simp only [getElem?_set' _ _ _ _ hi] at htj
      by_cases hji : j = i
      · subst hji
        simp only [if_true, Option.some.injEq] at htj
        subst htj
        cases hpj
      · simp only [hji, if_false] at htj
        exact hinv.fresh j tj s' rest' htj hsj hpj


/-! ### no deadlock -/

/-- **C08 (no deadlock)**: as long as some request is unfinished, some thread can move -/
theorem progress (c : Cfg) (hinv : Inv c) (i : Nat) (t : Thread) (ht : c.threads[i]? = some t) (hne : t.secs ≠ []) :
    ∃ j, (step c j).isSome = true := by
  obtain ⟨secs, phase, seen, done⟩ := t
  cases secs with
  | nil => exact absurd rfl hne
  | cons s rest =>
    cases phase with
    | idle =>
      cases hh : c.held s.key with
      | none => exact ⟨i, by simp [step, ht, hh]⟩
      | some j =>
        -- the holder is inside its section: its next step is a read, a write or an unlock
        obtain ⟨tj, s', rest', h1, h2, _, h4⟩ := hinv.owner s.key j hh
        obtain ⟨secs', phase', seen', done'⟩ := tj
        simp only at h2 h4
        subst h2
        cases phase' with
        | idle => exact absurd rfl h4
        | locked => exact ⟨j, by simp [step, h1]⟩
        | readDone => exact ⟨j, by simp [step, h1]⟩
        | written => exact ⟨j, by simp [step, h1]⟩
    | locked => exact ⟨i, by simp [step, ht]⟩
    | readDone => exact ⟨i, by simp [step, ht]⟩
    | written => exact ⟨i, by simp [step, ht]⟩

/-! ### no lost update, nothing else, a duplicate once -/

/-- what has been written so far stays, what is stored came from somewhere, conditional adds keep a collection
duplicate-free -/
structure Res (store0 : Key → List Id) (orig : List (List Sec)) (c : Cfg) : Prop where
  parts : ∀ (i : Nat) (t : Thread), c.threads[i]? = some t → orig[i]? = some (t.done ++ t.secs)
  applied : ∀ (i : Nat) (t : Thread), c.threads[i]? = some t → ∀ s ∈ t.done, s.id ∈ c.store s.key
  current : ∀ (i : Nat) (t : Thread) (s : Sec) (rest : List Sec), c.threads[i]? = some t → t.secs = s :: rest → t.phase = .written → s.id ∈ c.store s.key
  only : ∀ (k : Key) (x : Id), x ∈ c.store k → x ∈ store0 k ∨ ∃ r ∈ orig, ∃ s ∈ r, s.key = k ∧ s.id = x
  nodup : ∀ (k : Key), (∀ r ∈ orig, ∀ s ∈ r, s.key = k → s.ifNew = true) → (store0 k).Nodup → (c.store k).Nodup
  grows : ∀ (k : Key) (x : Id), x ∈ store0 k → x ∈ c.store k

theorem res_init (store : Key → List Id) (reqs : List (List Sec)) : Res store reqs (init store reqs) := by
  refine ⟨?_, ?_, ?_, ?_, ?_, fun _ _ h => h⟩
  · intro i t ht
    simp only [init, List.getElem?_map] at ht
    cases hr : reqs[i]? with
    | none => simp [hr] at ht
    | some r => simp [hr] at ht; subst ht; simp
  · intro i t ht s hs
    simp only [init, List.getElem?_map] at ht
    cases hr : reqs[i]? with
    | none => simp [hr] at ht
    | some r => simp [hr] at ht; subst ht; simp at hs
  · intro i t s rest ht _ hp
    simp only [init, List.getElem?_map] at ht
    cases hr : reqs[i]? with
    | none => simp [hr] at ht
    | some r => simp [hr] at ht; subst ht; cases hp
  · intro k x hx; exact Or.inl hx
  · intro k _ h; exact h

theorem mem_writeBack (s : Sec) (seen : List Id) : s.id ∈ writeBack s seen ∧ ∀ x ∈ seen, x ∈ writeBack s seen := by
  unfold writeBack
  split
  · rename_i h
    simp only [Bool.and_eq_true, List.contains_eq_mem, decide_eq_true_eq] at h
    exact ⟨h.2, fun x hx => hx⟩
  · exact ⟨List.mem_cons_self, fun x hx => List.mem_cons_of_mem _ hx⟩

theorem writeBack_sub (s : Sec) (seen : List Id) (x : Id) (hx : x ∈ writeBack s seen) : x = s.id ∨ x ∈ seen := by
  unfold writeBack at hx
  split at hx
  · exact Or.inr hx
  · rcases List.mem_cons.mp hx with h | h
    · exact Or.inl h
    · exact Or.inr h

theorem writeBack_nodup (s : Sec) (seen : List Id) (h : seen.Nodup) (hn : s.ifNew = true) : (writeBack s seen).Nodup := by
  unfold writeBack
  by_cases hc : s.id ∈ seen
  · simp [hn, hc, h]
  · simp only [hn, Bool.true_and, List.contains_eq_mem, hc, decide_false, Bool.false_eq_true, if_false]
    exact List.nodup_cons.mpr ⟨hc, h⟩

theorem step_res (store0 : Key → List Id) (orig : List (List Sec)) (c c' : Cfg) (i : Nat) (hinv : Inv c) (hres : Res store0 orig c)
    (hs : step c i = some c') : Res store0 orig c' := by
  have hstep := step_cases c c' i hs
  cases hstep with
  | lock s rest seen done ht hfree =>
    have hi := lt_of_get ht
    refine ⟨?_, ?_, ?_, hres.only, hres.nodup, hres.grows⟩
    · intro j tj htj
      simp only [getElem?_set' _ _ _ _ hi] at htj
      by_cases hji : j = i
      · subst hji; simp only [if_true, Option.some.injEq] at htj; subst htj; (have h' := hres.parts j _ ht; exact h')
      · simp only [hji, if_false] at htj; exact hres.parts j tj htj
    · intro j tj htj
      simp only [getElem?_set' _ _ _ _ hi] at htj
      by_cases hji : j = i
      · subst hji; simp only [if_true, Option.some.injEq] at htj; subst htj; (have h' := hres.applied j _ ht; exact h')
      · simp only [hji, if_false] at htj; exact hres.applied j tj htj
    · intro j tj s' rest' htj hsj hpj
      simp only [getElem?_set' _ _ _ _ hi] at htj
      by_cases hji : j = i
      · subst hji; simp only [if_true, Option.some.injEq] at htj; subst htj; cases hpj
      · simp only [hji, if_false] at htj; exact hres.current j tj s' rest' htj hsj hpj
  | read s rest seen done ht =>
    have hi := lt_of_get ht
    refine ⟨?_, ?_, ?_, hres.only, hres.nodup, hres.grows⟩
    · intro j tj htj
      simp only [getElem?_set' _ _ _ _ hi] at htj
      by_cases hji : j = i
      · subst hji; simp only [if_true, Option.some.injEq] at htj; subst htj; (have h' := hres.parts j _ ht; exact h')
      · simp only [hji, if_false] at htj; exact hres.parts j tj htj
    · intro j tj htj
      simp only [getElem?_set' _ _ _ _ hi] at htj
      by_cases hji : j = i
      · subst hji; simp only [if_true, Option.some.injEq] at htj; subst htj; (have h' := hres.applied j _ ht; exact h')
      · simp only [hji, if_false] at htj; exact hres.applied j tj htj
    · intro j tj s' rest' htj hsj hpj
      simp only [getElem?_set' _ _ _ _ hi] at htj
      by_cases hji : j = i
      · subst hji; simp only [if_true, Option.some.injEq] at htj; subst htj; cases hpj
      · simp only [hji, if_false] at htj; exact hres.current j tj s' rest' htj hsj hpj
  | write s rest seen done ht =>
    have hi := lt_of_get ht
    -- what the thread read is still what is stored
    have hseen : seen = c.store s.key := hinv.fresh i _ s rest ht rfl rfl
    have hgrow : ∀ k x, x ∈ c.store k → x ∈ setAt c.store s.key (writeBack s seen) k := by
      intro k x hx
      simp only [setAt]
      by_cases hk : k = s.key
      · subst hk; simp only [if_true]; exact (mem_writeBack s seen).2 x (hseen ▸ hx)
      · simp [hk, hx]
    refine ⟨?_, ?_, ?_, ?_, ?_, fun k x hx => hgrow k x (hres.grows k x hx)⟩
    · intro j tj htj
      simp only [getElem?_set' _ _ _ _ hi] at htj
      by_cases hji : j = i
      · subst hji; simp only [if_true, Option.some.injEq] at htj; subst htj; (have h' := hres.parts j _ ht; exact h')
      · simp only [hji, if_false] at htj; exact hres.parts j tj htj
    · intro j tj htj s' hs'
      simp only [getElem?_set' _ _ _ _ hi] at htj
      by_cases hji : j = i
      · subst hji; simp only [if_true, Option.some.injEq] at htj; subst htj
        exact hgrow _ _ (hres.applied j _ ht s' hs')
      · simp only [hji, if_false] at htj; exact hgrow _ _ (hres.applied j tj htj s' hs')
    · intro j tj s' rest' htj hsj hpj
      simp only [getElem?_set' _ _ _ _ hi] at htj
      by_cases hji : j = i
      · subst hji; simp only [if_true, Option.some.injEq] at htj; subst htj
        cases hsj
        simp only [setAt, if_true]
        exact (mem_writeBack s seen).1
      · simp only [hji, if_false] at htj; exact hgrow _ _ (hres.current j tj s' rest' htj hsj hpj)
    · intro k x hx
      simp only [setAt] at hx
      by_cases hk : k = s.key
      · subst hk
        simp only [if_true] at hx
        rcases writeBack_sub s seen x hx with h | h
        · right
          have hp := hres.parts i _ ht
          refine ⟨done ++ s :: rest, List.mem_of_getElem? hp, s, by simp, rfl, h.symm⟩
        · exact hres.only _ x (hseen ▸ h)
      · simp only [hk, if_false] at hx; exact hres.only k x hx
    · intro k hall hnd
      simp only [setAt]
      by_cases hk : k = s.key
      · subst hk
        simp only [if_true]
        have hp := hres.parts i _ ht
        have hnew : s.ifNew = true := hall (done ++ s :: rest) (List.mem_of_getElem? hp) s (by simp) rfl
        exact writeBack_nodup s seen (hseen ▸ hres.nodup _ hall hnd) hnew
      · simp only [hk, if_false]; exact hres.nodup k hall hnd
  | unlock s rest seen done ht =>
    have hi := lt_of_get ht
    refine ⟨?_, ?_, ?_, hres.only, hres.nodup, hres.grows⟩
    · intro j tj htj
      simp only [getElem?_set' _ _ _ _ hi] at htj
      by_cases hji : j = i
      · subst hji; simp only [if_true, Option.some.injEq] at htj; subst htj
        have := hres.parts j _ ht
        simpa using this
      · simp only [hji, if_false] at htj; exact hres.parts j tj htj
    · intro j tj htj s' hs'
      simp only [getElem?_set' _ _ _ _ hi] at htj
      by_cases hji : j = i
      · subst hji; simp only [if_true, Option.some.injEq] at htj; subst htj
        simp only [List.mem_append, List.mem_singleton] at hs'
        rcases hs' with h | h
        · exact hres.applied j _ ht s' h
        · subst h; exact hres.current j _ s' rest ht rfl rfl
      · simp only [hji, if_false] at htj; exact hres.applied j tj htj s' hs'
    · intro j tj s' rest' htj hsj hpj
      simp only [getElem?_set' _ _ _ _ hi] at htj
      by_cases hji : j = i
      · subst hji; simp only [if_true, Option.some.injEq] at htj; subst htj; cases hpj
      · simp only [hji, if_false] at htj; exact hres.current j tj s' rest' htj hsj hpj

theorem step_length (c c' : Cfg) (i : Nat) (hs : step c i = some c') : c'.threads.length = c.threads.length := by
  have hstep := step_cases c c' i hs
  cases hstep <;> simp

theorem runSched_length (sched : List Nat) : ∀ c, (runSched c sched).threads.length = c.threads.length := by
  induction sched with
  | nil => intro c; rfl
  | cons i rest ih =>
    intro c
    unfold runSched
    cases hs : step c i with
    | none => exact ih c
    | some c' => rw [ih c', step_length c c' i hs]

theorem runSched_inv (store0 : Key → List Id) (orig : List (List Sec)) (sched : List Nat) :
    ∀ c, Inv c → Res store0 orig c → Inv (runSched c sched) ∧ Res store0 orig (runSched c sched) := by
  induction sched with
  | nil => intro c h1 h2; exact ⟨h1, h2⟩
  | cons i rest ih =>
    intro c h1 h2
    unfold runSched
    cases hs : step c i with
    | none => exact ih c h1 h2
    | some c' => exact ih c' (step_inv c c' i h1 hs) (step_res store0 orig c c' i h1 h2 hs)

/-- **C08**: whatever the interleaving — any schedule of the Database-call-sized steps of any number of requests,
under per-id mutual exclusion — once all requests have completed: every id any request put into a collection is
there (no update is lost), a collection holds nothing but what it held before and what the requests put there, and
a collection whose additions are all "only if absent" (the inbox: the same activity delivered any number of times)
holds every id once. -/
theorem no_lost_update (store : Key → List Id) (reqs : List (List Sec)) (sched : List Nat)
    (hfin : finished (runSched (init store reqs) sched)) :
    let final := (runSched (init store reqs) sched).store
    (∀ r ∈ reqs, ∀ s ∈ r, s.id ∈ final s.key) ∧
    (∀ k x, x ∈ final k → x ∈ store k ∨ ∃ r ∈ reqs, ∃ s ∈ r, s.key = k ∧ s.id = x) ∧
    (∀ k, (∀ r ∈ reqs, ∀ s ∈ r, s.key = k → s.ifNew = true) → (store k).Nodup → (final k).Nodup) := by
  obtain ⟨_, hres⟩ := runSched_inv store reqs sched _ (inv_init store reqs) (res_init store reqs)
  refine ⟨?_, hres.only, hres.nodup⟩
  intro r hr s hs
  obtain ⟨i, hi, hri⟩ := List.getElem_of_mem hr
  -- thread i exists (the thread list keeps its length) and has nothing left to do
  have hlen : (runSched (init store reqs) sched).threads.length = reqs.length := by
    rw [runSched_length]; simp [init]
  have hi' : i < (runSched (init store reqs) sched).threads.length := by rw [hlen]; exact hi
  have ht : (runSched (init store reqs) sched).threads[i]? = some ((runSched (init store reqs) sched).threads[i]) :=
    List.getElem?_eq_getElem hi'
  have hdone := hfin _ (List.getElem_mem hi')
  have hparts := hres.parts i _ ht
  rw [hdone, List.append_nil, List.getElem?_eq_getElem hi, hri] at hparts
  cases hparts
  exact hres.applied i _ ht s hs


/-! ### the same ids as the requests executed one after another -/

theorem mem_seq (secs : List Sec) : ∀ (σ : Key → List Id) (k : Key) (x : Id),
    x ∈ secs.foldl (fun σ s => setAt σ s.key (writeBack s (σ s.key))) σ k ↔ (x ∈ σ k ∨ ∃ s ∈ secs, s.key = k ∧ s.id = x) := by
  induction secs with
  | nil => intro σ k x; simp
  | cons s rest ih =>
    intro σ k x
    simp only [List.foldl_cons]
    rw [ih]
    constructor
    · rintro (h | ⟨s', hs', hk, hx⟩)
      · simp only [setAt] at h
        by_cases hks : k = s.key
        · subst hks
          simp only [if_true] at h
          rcases writeBack_sub s _ x h with h' | h'
          · exact Or.inr ⟨s, List.mem_cons_self, rfl, h'.symm⟩
          · exact Or.inl h'
        · simp only [hks, if_false] at h; exact Or.inl h
      · exact Or.inr ⟨s', List.mem_cons_of_mem _ hs', hk, hx⟩
    · rintro (h | ⟨s', hs', hk, hx⟩)
      · left
        simp only [setAt]
        by_cases hks : k = s.key
        · subst hks; simp only [if_true]; exact (mem_writeBack s _).2 x h
        · simp [hks, h]
      · rcases List.mem_cons.mp hs' with rfl | hs''
        · left
          subst hk; subst hx
          simp only [setAt, if_true]
          exact (mem_writeBack s' _).1
        · exact Or.inr ⟨s', hs'', hk, hx⟩

/-- **C08 (as if one after another)**: after any interleaving, every collection holds exactly the ids it would hold
had the same requests been executed sequentially (order and — for unconditional additions — multiplicity apart) -/
theorem same_as_sequential (store : Key → List Id) (reqs : List (List Sec)) (sched : List Nat)
    (hfin : finished (runSched (init store reqs) sched)) (k : Key) (x : Id) :
    x ∈ (runSched (init store reqs) sched).store k ↔ x ∈ sequential store reqs k := by
  obtain ⟨h1, h2, _⟩ := no_lost_update store reqs sched hfin
  obtain ⟨_, hres⟩ := runSched_inv store reqs sched _ (inv_init store reqs) (res_init store reqs)
  unfold sequential
  rw [mem_seq]
  constructor
  · intro hx
    rcases h2 k x hx with h | ⟨r, hr, s, hs, hk, hid⟩
    · exact Or.inl h
    · exact Or.inr ⟨s, List.mem_flatten.mpr ⟨r, hr, hs⟩, hk, hid⟩
  · rintro (h | ⟨s, hs, hk, hid⟩)
    · -- what was there at the start is still there: stores only grow
      exact hres.grows k x h
    · obtain ⟨r, hr, hsr⟩ := List.mem_flatten.mp hs
      subst hk; subst hid
      exact h1 r hr s hsr

end AV.Props.C08
