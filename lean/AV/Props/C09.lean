import AV.Lemmas.LockProofs
/-
C09 — Every lock taken is released exactly once; none is retaken or leaked.

`LockClean re p`: for EVERY environment (every answer of every Database, Transport and callback call — the
fault-free run, every single fault, every combination of faults), the trace of `p` is accepted by the lock
monitor from the empty held-set (every Unlock matches a held Lock, every Database access other than id
generation happens under a lock, and — when `re` — no id is locked again while held) and, unless the run
panics, nothing is held when it returns.
-/
namespace AV.Props.C09
open AV Pub

def LockClean (re : Bool) (p : Prog α) : Prop :=
  ∀ (env : Env) (n : Nat), ∃ held, (lockMonG re true anyPayload).runTrace [] (run p env n).1 = some held ∧
    ((run p env n).2.isPanic = false → held = [])

theorem clean_of_ok {re : Bool} {p : Prog α} (h : LockOK re true anyPayload [] p) : LockClean re p := by
  intro env n
  obtain ⟨s', h1, h2⟩ := SafeP.sound h env n
  refine ⟨s', h1, fun hp => ?_⟩
  have := h2 hp
  cases hr : (run p env n).2.toOpt <;> simp only [hr, LkPost] at this <;> exact this

/-! #### full discipline (including "never locked again while held") -/

theorem postOutbox (F : TFacts) (cfg : BaseCfg) (r : Request) : LockClean true (postOutboxScheme F cfg r) :=
  clean_of_ok (postOutboxScheme_ok F cfg r (fun _ => rfl))

theorem send (F : TFacts) (cfg : BaseCfg) (outbox : Iri) (t : J) : LockClean true (Pub.send F cfg outbox t) :=
  clean_of_ok (send_ok F cfg outbox t (fun _ => rfl))

theorem getInbox (F : TFacts) (cfg : BaseCfg) (r : Request) : LockClean true (getInboxH F cfg r) :=
  clean_of_ok (getInboxH_ok F cfg r)

theorem getOutbox (r : Request) : LockClean true (getOutboxH r) := clean_of_ok (getOutboxH_ok r)

theorem handler (F : TFacts) (r : Request) : LockClean true (Pub.handler F r) := clean_of_ok (handler_ok F r)

/-- the inbox side effects proper (inbox entry, all twelve default callbacks incl. the automatic
Accept/Reject delivery) -/
theorem postInbox_sideEffects (F : TFacts) (inbox : Iri) (a : J) : LockClean true (Pub.postInbox F (fedCbFull F) inbox a) :=
  clean_of_ok (postInbox_ok F inbox a (fun _ => rfl))

/-! #### the inbox POST including inbox forwarding: balance, no stray Unlock, access under lock -/

theorem postInbox_partial (F : TFacts) (cfg : BaseCfg) (r : Request) : LockClean false (postInboxScheme F cfg r) :=
  clean_of_ok (postInboxScheme_ok F cfg r)

theorem inboxForwarding_partial (F : TFacts) (box : Iri) (a : J) : LockClean false (Pub.inboxForwarding F box a) :=
  clean_of_ok (inboxForwarding_ok F box a rfl)

/-! #### the full statement fails for inbox forwarding (recorded finding C09-fwd-relock)

Witness: an activity addressed to an owned collection `c` that also names `c` as its `object`.  The load loop
keeps `c` locked (deferred unlock) while the ownership search locks `c` again. -/

def F0 : TFacts where
  hasProp _ _ := true
  isOrExt T n := n == T
  known n := n == "Collection" || n == "Add"

def witnessActivity : J :=
  .obj [("id", .str "https://b.example/a"), ("object", .str "https://a.example/c"), ("to", .str "https://a.example/c"), ("type", .str "Add")]

/-- an application that owns everything, has seen nothing, and stores a Collection at every id -/
def witnessEnv : Env := fun _ c =>
  match c with
  | .lock _ => .ok () | .unlock _ => .ok ()
  | .exists_ _ => .ok false | .create _ => .ok ()
  | .owns _ => .ok true
  | .get _ => .ok (some (.obj [("id", .str "https://a.example/c"), ("type", .str "Collection")]))
  | .maxFwdDepth => (3 : Int)
  | .inboxContains _ _ => .ok false | .getInbox _ => .ok .null | .setInbox _ => .ok ()
  | .actorForOutbox _ => .ok "" | .actorForInbox _ => .ok "" | .outboxForInbox _ => .ok "" | .inboxForActor _ => .ok none
  | .update _ => .ok () | .delete _ => .ok () | .getOutbox _ => .ok .null | .setOutbox _ => .ok () | .newID _ => .ok ""
  | .followers _ => .ok .null | .following _ => .ok .null | .liked _ => .ok .null
  | .newTransport _ => .ok () | .deref _ => .error .injected | .batchDeliver _ _ => .ok ()
  | .authGetInbox => .ok true | .authGetOutbox => .ok true | .appGetOutbox => .ok .null
  | .authPostInbox => .ok true | .appGetInbox => .ok .null | .hookInbox _ => .ok () | .blocked _ => .ok false
  | .fedCallbacks => .ok default | .fedDefault _ => .ok () | .maxDeliveryDepth => (3 : Int)
  | .filterForwarding cols _ => .ok cols
  | .authPostOutbox => .ok true | .hookOutbox _ => .ok () | .socialCallbacks => .ok default | .socialDefault _ => .ok ()
  | .appCb _ _ _ => .ok () | .otherCb _ _ _ => .ok ()
  | .now => ((0 : Int), (0 : Int)) | .writeHeader _ => () | .setHeader _ _ => () | .writeBody _ => .ok true

theorem inboxForwarding_full_fails :
    lockMon.runTrace [] (run (Pub.inboxForwarding F0 "https://a.example/inbox" witnessActivity) witnessEnv 0).1 = none := by
  decide +kernel

theorem not_full : ¬ LockClean true (Pub.inboxForwarding F0 "https://a.example/inbox" witnessActivity) := by
  intro h
  obtain ⟨held, h1, _⟩ := h witnessEnv 0
  rw [inboxForwarding_full_fails] at h1
  cases h1

/-! Non-vacuity: the same witness is a run in which locks are actually taken (the balance theorem is
not about empty traces). -/
example : ((run (Pub.inboxForwarding F0 "https://a.example/inbox" witnessActivity) witnessEnv 0).1.filter
    fun ev => match ev.call with | .lock _ => true | _ => false).length = 4 := by decide +kernel

end AV.Props.C09
