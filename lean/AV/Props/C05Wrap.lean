import AV.Lemmas.Det
import AV.Lemmas.IdLemmas
import AV.Lemmas.JsonLemmas
import AV.Pub.Util
import AV.Pub.SideEffect
/-
C05, the wrapping clause: a non-activity posted to an outbox is wrapped in a Create whose actor is the outbox's owner,
whose object is the value, and which copies the value's to, bto, cc, bcc, audience (as ids) and published.
-/
namespace AV.Props.C05
open AV Prog Pub Val

section
variable (F : TFacts)

/-- one addressing property copied onto the Create (as ids) -/
def wrapStep (o : J) (c : J) (p : String) : Option J :=
  match prop F o p with
  | none => some c
  | some xs => (match idsOf F xs with
    | .ok ids => some (setList c p (mkIdList ids))
    | .error _ => none)

def wrapFold (o : J) : List String → J → Option J
  | [], c => some c
  | p :: ps, c => (match wrapStep F o c p with
    | some c' => wrapFold o ps c'
    | none => none)

variable {ans : (c : Call) → c.Resp}

theorem runD_wrapFold (o : J) (f : J → String → Prog J)
    (hf : ∀ c p, runD ans (f c p) = (match wrapStep F o c p with
      | some c' => .ret c'
      | none => .fail .lib))
    (ps : List String) (c : J) :
    runD ans (ps.foldlM f c) = (match wrapFold F o ps c with
      | some c' => .ret c'
      | none => .fail .lib) := by
  induction ps generalizing c with
  | nil => rfl
  | cons p ps ih =>
    rw [List.foldlM_cons, runD_bind, hf c p]
    unfold wrapFold
    cases wrapStep F o c p with
    | none => rfl
    | some c' => simp only [Outcome.bindD]; exact ih c'

theorem isObj_setList (c : J) (p : String) (xs : List J) (h : c.isObj = true) : (setList c p xs).isObj = true := by
  unfold setList
  split <;> (cases c <;> simp_all [J.set, J.isObj])

theorem get_setList_other (c : J) (p k : String) (xs : List J) (h : k ≠ p) : (setList c p xs).get? k = c.get? k := by
  unfold setList
  split <;> exact J.get_set_other c p k _ h

/-- what the copying loop leaves behind: members it does not name are untouched; each named member holds the ids of
the value's property (written like any non-functional property), or is untouched when the value lacks it -/
theorem wrapFold_spec (o : J) (ps : List String) (hnd : ps.Nodup) :
    ∀ (c c' : J), c.isObj = true → wrapFold F o ps c = some c' →
      c'.isObj = true ∧ (∀ k, k ∉ ps → c'.get? k = c.get? k) ∧
      (∀ p ∈ ps, match prop F o p with
        | none => c'.get? p = c.get? p
        | some xs => ∃ ids, idsOf F xs = .ok ids ∧ c'.get? p = (setList c p (mkIdList ids)).get? p) := by
  induction ps with
  | nil =>
    intro c c' hc h
    simp only [wrapFold, Option.some.injEq] at h
    subst h
    exact ⟨hc, fun _ _ => rfl, fun p hp => by cases hp⟩
  | cons p ps ih =>
    intro c c' hc h
    simp only [List.nodup_cons] at hnd
    unfold wrapFold at h
    cases hstep : wrapStep F o c p with
    | none => rw [hstep] at h; cases h
    | some c1 =>
      rw [hstep] at h
      have hc1obj : c1.isObj = true := by
        unfold wrapStep at hstep
        cases hp : prop F o p with
        | none => simp only [hp, Option.some.injEq] at hstep; subst hstep; exact hc
        | some xs =>
          cases hx : idsOf F xs with
          | ok ids => simp only [hp, hx, Option.some.injEq] at hstep; subst hstep; exact isObj_setList c p _ hc
          | error e => simp [hp, hx] at hstep
      obtain ⟨i1, i2, i3⟩ := ih hnd.2 c1 c' hc1obj h
      have hc1other : ∀ k, k ≠ p → c1.get? k = c.get? k := by
        intro k hk
        unfold wrapStep at hstep
        cases hp : prop F o p with
        | none => simp only [hp, Option.some.injEq] at hstep; subst hstep; rfl
        | some xs =>
          cases hx : idsOf F xs with
          | ok ids => simp only [hp, hx, Option.some.injEq] at hstep; subst hstep; exact get_setList_other c p k _ hk
          | error e => simp [hp, hx] at hstep
      refine ⟨i1, ?_, ?_⟩
      · intro k hk
        simp only [List.mem_cons, not_or] at hk
        rw [i2 k hk.2, hc1other k hk.1]
      · intro q hq
        rcases List.mem_cons.mp hq with rfl | hq
        · -- the member written at this step is not touched again
          rw [i2 q hnd.1]
          unfold wrapStep at hstep
          cases hp : prop F o q with
          | none => simp only [hp, Option.some.injEq] at hstep; subst hstep; simp
          | some xs =>
            cases hx : idsOf F xs with
            | ok ids =>
              simp only [hp, hx, Option.some.injEq] at hstep
              subst hstep
              exact ⟨ids, hx, rfl⟩
            | error e => simp [hp, hx] at hstep
        · have hqp : q ≠ p := fun e => hnd.1 (e ▸ hq)
          have := i3 q hq
          cases hp : prop F o q with
          | none => simp only [hp] at this ⊢; rw [this, hc1other q hqp]
          | some xs =>
            simp only [hp] at this ⊢
            obtain ⟨ids, h1, h2⟩ := this
            refine ⟨ids, h1, ?_⟩
            rw [h2]
            -- the value written does not depend on the other members
            unfold setList
            split <;> (rw [J.get_set_same _ _ _ hc1obj, J.get_set_same _ _ _ hc])


theorem isObj_set' (c : J) (k : String) (v : J) (h : c.isObj = true) : (c.set k v).isObj = true := by
  cases c <;> simp_all [J.set, J.isObj]

/-- **C05 (wrapping)**: whenever `wrapInCreate` returns a value, that value is a Create whose actor is the given
owner, whose object is the wrapped value (when its type is a known one), whose `published` is the value's, and each of
whose five addressing properties holds exactly the ids of the value's property — absent where the value has none -/
theorem wrapInCreate_spec (o : J) (actor : Iri) (c : J) (h : runD ans (wrapInCreate F o actor) = .ret c) :
    c.get? "type" = some (.str "Create") ∧
    c.get? "actor" = some (.str actor) ∧
    (F.known (typeName o) = true → c.get? "object" = some o) ∧
    (has F o "published" = true → c.get? "published" = o.get? "published") ∧
    (∀ p ∈ addressing, match prop F o p with
      | none => c.get? p = none
      | some xs => ∃ ids, idsOf F xs = .ok ids ∧ c.get? p = (setList (.obj []) p (mkIdList ids)).get? p) := by
  unfold wrapInCreate at h
  rw [runD_wrapFold F o] at h
  case hf =>
    intro c p
    unfold wrapStep
    cases hp : prop F o p with
    | none => rfl
    | some xs =>
      cases hx : idsOf F xs with
      | error e => simp [idsM, hx, AV.liftLib]
      | ok ids =>
        have hn := idsOf_nonnil F xs ids hx
        have hn' : ¬ (nilIri ∈ ids) := by simpa [List.contains_eq_mem] using hn
        simp [idsM, hx, AV.liftLib, strsOf, hn']
  -- the Create before the copying loop
  let c0 : J := J.obj [("type", J.str "Create")]
  let c1 : J := if F.known (typeName o) = true then c0.set "object" o else c0.set "object" (J.arr [])
  let c2 : J := c1.set "actor" (J.str actor)
  let c3 : J := if has F o "published" = true then
      (match o.get? "published" with
       | some p => c2.set "published" p
       | none => c2)
    else c2
  have h' : (match wrapFold F o addressing c3 with
      | some c' => Outcome.ret c'
      | none => Outcome.fail Err.lib) = Outcome.ret c := h
  have hc0 : c0.isObj = true := rfl
  have hc1 : c1.isObj = true := by
    show (if _ then _ else _ : J).isObj = true
    split <;> exact isObj_set' _ _ _ hc0
  have hc2 : c2.isObj = true := isObj_set' _ _ _ hc1
  have hc3 : c3.isObj = true := by
    show (if _ then _ else _ : J).isObj = true
    split
    · split
      · exact isObj_set' _ _ _ hc2
      · exact hc2
    · exact hc2
  have h1get : ∀ k, k ≠ "object" → c1.get? k = c0.get? k := by
    intro k hk
    show (if _ then _ else _ : J).get? k = _
    split <;> exact J.get_set_other _ _ _ _ hk
  have h2get : ∀ k, k ≠ "actor" → c2.get? k = c1.get? k := fun k hk => J.get_set_other _ _ _ _ hk
  have h3get : ∀ k, k ≠ "published" → c3.get? k = c2.get? k := by
    intro k hk
    show (if _ then _ else _ : J).get? k = _
    split
    · split
      · exact J.get_set_other _ _ _ _ hk
      · rfl
    · rfl
  cases hw : wrapFold F o addressing c3 with
  | none => rw [hw] at h'; cases h'
  | some c' =>
    rw [hw] at h'
    have : c' = c := by simpa using h'
    subst this
    obtain ⟨_, s2, s3⟩ := wrapFold_spec F o addressing (by decide) c3 c' hc3 hw
    refine ⟨?_, ?_, ?_, ?_, ?_⟩
    · rw [s2 "type" (by decide), h3get _ (by decide), h2get _ (by decide), h1get _ (by decide)]; rfl
    · rw [s2 "actor" (by decide), h3get _ (by decide)]
      exact J.get_set_same _ _ _ hc1
    · intro hk
      rw [s2 "object" (by decide), h3get _ (by decide), h2get _ (by decide)]
      show (if _ then _ else _ : J).get? "object" = _
      rw [if_pos hk]
      exact J.get_set_same _ _ _ hc0
    · intro hp
      rw [s2 "published" (by decide)]
      show (if _ then _ else _ : J).get? "published" = _
      rw [if_pos hp]
      cases hop : o.get? "published" with
      | some pv => exact J.get_set_same _ _ _ hc2
      | none =>
        show c2.get? "published" = none
        rw [h2get _ (by decide), h1get _ (by decide)]; rfl
    · intro p hp
      have hpn : p ≠ "published" ∧ p ≠ "actor" ∧ p ≠ "object" ∧ p ≠ "type" := by
        simp only [addressing, List.mem_cons, List.mem_nil_iff, or_false] at hp
        rcases hp with rfl | rfl | rfl | rfl | rfl <;> decide
      have hc3p : c3.get? p = none := by
        rw [h3get _ hpn.1, h2get _ hpn.2.1, h1get _ hpn.2.2.1]
        show (J.obj [("type", J.str "Create")]).get? p = none
        have : ("type" == p) = false := by
          have := hpn.2.2.2
          simpa using (fun e : "type" = p => this e.symm)
        simp [J.get?, List.find?, this]
      have := s3 p hp
      cases hpp : prop F o p with
      | none => simp only [hpp] at this ⊢; rw [this, hc3p]
      | some xs =>
        simp only [hpp] at this ⊢
        obtain ⟨ids, e1, e2⟩ := this
        refine ⟨ids, e1, ?_⟩
        rw [e2]
        unfold setList
        split <;> (rw [J.get_set_same _ _ _ hc3, J.get_set_same _ _ _ (by rfl)])

end
end AV.Props.C05

/-! ### fresh ids -/
namespace AV.Props.C05
open AV Prog Pub Val

section
variable (F : TFacts) {ans : (c : Call) → c.Resp}

/-- the objects of a Create, each with the id the application generated for it -/
def identified (ans : (c : Call) → c.Resp) (F : TFacts) : List J → Option (List J)
  | [] => some []
  | j :: rest => (match elemOf F j, identified ans F rest with
    | .emb t, some more => (match ans (.newID t) with
      | .ok oid => some (t.set "id" (iriJ oid) :: more)
      | .error _ => none)
    | _, _ => none)

theorem runD_identify (f : List J → J → Prog (List J))
    (hf : ∀ acc j, runD ans (f acc j) = (match elemOf F j with
      | .emb t => (match ans (.newID t) with
        | .ok oid => .ret (acc ++ [t.set "id" (iriJ oid)])
        | .error e => .fail e)
      | _ => .fail .lib))
    (xs : List J) (acc out : List J) (h : runD ans (xs.foldlM f acc) = .ret out) :
    ∃ more, identified ans F xs = some more ∧ out = acc ++ more := by
  induction xs generalizing acc with
  | nil =>
    simp only [List.foldlM_nil, runD_pure, Outcome.ret.injEq] at h
    exact ⟨[], rfl, by simp [h]⟩
  | cons j rest ih =>
    rw [List.foldlM_cons, runD_bind, hf acc j] at h
    unfold identified
    cases he : elemOf F j with
    | emb t =>
      simp only [he] at h
      cases hid : ans (.newID t) with
      | error e => simp [hid, Outcome.bindD] at h
      | ok oid =>
        simp only [hid, Outcome.bindD] at h
        obtain ⟨more, h1, h2⟩ := ih _ h
        refine ⟨t.set "id" (iriJ oid) :: more, ?_, ?_⟩
        · simp [h1, hid]
        · simp [h2, List.append_assoc]
    | iri u => simp [he, Outcome.bindD] at h
    | other x => simp [he, Outcome.bindD] at h

/-- **C05 (fresh ids)**: whenever `addNewIDs` returns, the activity carries the id the application's `NewID`
generated for it and — for a Create — its `object` property holds the embedded objects, each with the id generated for
it (an object given by IRI makes it fail) -/
theorem addNewIDs_spec (a a' : J) (hobj : a.isObj = true) (h : runD ans (addNewIDs F a) = .ret a') :
    ∃ id, ans (.newID a) = .ok id ∧
      (if F.isOrExt "Create" (typeName (a.set "id" (iriJ id))) then
        (match prop F (a.set "id" (iriJ id)) "object" with
         | none => a' = a.set "id" (iriJ id)
         | some xs => ∃ objs, identified ans F xs = some objs ∧ a' = setList (a.set "id" (iriJ id)) "object" objs)
       else a' = a.set "id" (iriJ id)) := by
  unfold addNewIDs at h
  rw [runD_bind] at h
  have hnew : runD ans (Op.newID a) = (match ans (.newID a) with
      | .ok id => .ret id
      | .error e => .fail e) := by
    show runD ans (Op.ofE (ans (.newID a))) = _
    cases ans (.newID a) <;> rfl
  rw [hnew] at h
  cases hid : ans (.newID a) with
  | error e => simp [hid, Outcome.bindD] at h
  | ok id =>
    refine ⟨id, rfl, ?_⟩
    simp only [hid, Outcome.bindD] at h
    split
    · rename_i hc
      simp only [hc, Bool.not_true, Bool.false_eq_true, if_false] at h
      cases hp : prop F (a.set "id" (iriJ id)) "object" with
      | none => simp only [hp, runD_pure, Outcome.ret.injEq] at h; simp only; exact h.symm
      | some xs =>
        simp only [hp] at h ⊢
        rw [runD_bind] at h
        cases hfold : runD ans (List.foldlM _ [] xs) with
        | fail e => rw [hfold] at h; simp [Outcome.bindD] at h
        | panic s => rw [hfold] at h; simp [Outcome.bindD] at h
        | ret out =>
          rw [hfold] at h
          simp only [Outcome.bindD, runD_pure, Outcome.ret.injEq] at h
          obtain ⟨more, h1, h2⟩ := runD_identify F _ (by
            intro acc j
            cases he : elemOf F j with
            | emb t =>
              simp only
              rw [runD_bind]
              show (runD ans (Op.ofE (ans (.newID t)))).bindD _ = _
              cases ans (.newID t) <;> rfl
            | iri u => rfl
            | other x => rfl) xs [] out hfold
          refine ⟨more, h1, ?_⟩
          rw [← h, h2]; simp
    · rename_i hc
      simp only [hc, Bool.not_false, if_true, runD_pure, Outcome.ret.injEq] at h
      exact h.symm

end
end AV.Props.C05
