import AV.Lemmas.LockProofs
/-
C10 — Handlers report each outcome exactly once.

`OnceClean p`: for every environment the writes of `p` obey "at most one status, headers only before it, the
body only after it", and the run ends in one of the three documented states: not handled with nothing written;
an error with nothing written by the library (unless it is the body write itself that failed); or handled with
exactly one status (or none by the library when the application's own Authenticate hook refused the request —
that hook writes its own response).
-/
namespace AV.Props.C10
open AV Prog Pub

def isNotHandled : Handled → Bool
  | .notHandled => true
  | .handled => false

def OnceClean (p : Prog Handled) : Prop :=
  ∀ (env : Env) (n : Nat), ∃ s, onceMon.runTrace {} (run p env n).1 = some s ∧
    ((run p env n).2.isPanic = false → onceEnd isNotHandled s (run p env n).2.toOpt)

def Oc (s : OnceSt) (p : Prog α) (Q : OnceSt → Option α → Prop) : Prop := SafeP onceMon s p Q

theorem clean_of_oc {p : Prog Handled} (h : Oc {} p (onceEnd isNotHandled)) : OnceClean p := by
  intro env n
  obtain ⟨s', h1, h2⟩ := SafeP.sound h env n
  exact ⟨s', h1, h2⟩

theorem once_step_quiet (s : OnceSt) (c : Call) (r : c.Resp) (hw : c.isWrite = false) (ha : c.isAuth = false) :
    onceMon.step s c r = some s := by
  cases c <;> simp_all [onceMon, Call.isWrite, Call.isAuth, authDenied]

/-- **the side-effect code never touches the response**: a program that satisfies the lock judgement in quiet
mode (no ResponseWriter call, no authentication call) leaves the write monitor where it was -/
theorem quiet_keeps {re : Bool} {ad : J → Bool} {H Hv He : List Iri} {p : Prog α} (h : Lk re false ad H p Hv He) (s : OnceSt) :
    Oc s p (fun s' _ => s' = s) := by
  unfold Lk at h
  induction p generalizing H with
  | ret a => rfl
  | fail e => rfl
  | panic site => trivial
  | call c k ih =>
    intro r
    have hr := h r
    have hq : c.isWrite = false ∧ c.isAuth = false := by
      revert hr
      simp only [lockMonG, Bool.not_false, Bool.true_and]
      cases hw : c.isWrite <;> cases ha : c.isAuth <;> simp
    rw [once_step_quiet s c r hq.1 hq.2]
    revert hr
    cases hstep : (lockMonG re false ad).step H c r with
    | none => intro hr; exact hr.elim
    | some H' => intro hr; exact ih r hr

theorem Oc.bind {s : OnceSt} {p : Prog α} {f : α → Prog β} {Q : OnceSt → Option β → Prop}
    (h : Oc s p (fun s' o => match o with | some a => Oc s' (f a) Q | none => Q s' none)) : Oc s (p >>= f) Q :=
  SafeP.bind h

/-- sequencing after a quiet program -/
theorem Oc.afterQuiet {re : Bool} {ad : J → Bool} {H Hv He : List Iri} {s : OnceSt} {p : Prog α} {f : α → Prog β}
    {Q : OnceSt → Option β → Prop} (hp : Lk re false ad H p Hv He) (hf : ∀ a, Oc s (f a) Q) (he : Q s none) :
    Oc s (p >>= f) Q := by
  apply Oc.bind
  apply SafeP.mono (quiet_keeps hp s)
  intro s' o hs
  subst hs
  cases o with
  | none => exact he
  | some a => exact hf a

theorem Oc.afterQuietTry {re : Bool} {ad : J → Bool} {H Hv He : List Iri} {s : OnceSt} {p : Prog α} {f : E α → Prog β}
    {Q : OnceSt → Option β → Prop} (hp : Lk re false ad H p Hv He) (hf : ∀ r, Oc s (f r) Q) :
    Oc s (Prog.try_ p >>= f) Q := by
  apply Oc.bind
  apply SafeP.try_
  apply SafeP.mono (quiet_keeps hp s)
  intro s' o hs
  subst hs
  cases o with
  | none => intro e; exact hf _
  | some a => exact hf _

/-- a quiet call -/
theorem Oc.quietCall {s : OnceSt} (c : Call) (hw : c.isWrite = false) (ha : c.isAuth = false) (k : c.Resp → Prog α)
    {Q : OnceSt → Option α → Prop} (hk : ∀ r, Oc s (k r) Q) : Oc s (.call c k) Q := by
  intro r
  rw [once_step_quiet s c r hw ha]
  exact hk r

/-- nothing has been written yet -/
def Fresh (s : OnceSt) : Prop := s.statuses = [] ∧ s.bodies = 0 ∧ s.writeFailed = false

theorem fresh_init : Fresh {} := ⟨rfl, rfl, rfl⟩

theorem end_fail {α : Type} {nh : α → Bool} {s : OnceSt} (hs : Fresh s) : onceEnd nh s none := Or.inl hs.1

theorem end_notHandled {s : OnceSt} (hs : Fresh s) : onceEnd isNotHandled s (some Handled.notHandled) := by
  simp [onceEnd, isNotHandled, hs.1, hs.2.1]

/-- write a status and return `handled`: fine from a state in which nothing has been written -/
theorem oc_status {s : OnceSt} (hs : Fresh s) (code : Nat) :
    Oc s (Op.writeHeader code >>= fun _ => (pure Handled.handled : Prog Handled)) (onceEnd isNotHandled) := by
  intro r
  simp only [onceMon, hs.1, List.isEmpty_nil, ↓reduceIte]
  show onceEnd isNotHandled _ (some Handled.handled)
  simp [onceEnd, isNotHandled, hs.2.2]

/-- an authentication call: refused ⇒ handled with nothing written by the library; error ⇒ error with nothing
written; accepted ⇒ go on, still fresh -/
theorem oc_auth {s : OnceSt} (hs : Fresh s) (c : Call) (hc : c = .authGetInbox ∨ c = .authGetOutbox ∨ c = .authPostInbox ∨ c = .authPostOutbox)
    (hr : c.Resp = E Bool) (k : c.Resp → Prog Handled)
    (hk : ∀ (r : c.Resp), (hr ▸ r : E Bool) = .ok true → ∀ s', Fresh s' → Oc s' (k r) (onceEnd isNotHandled))
    (hdenied : ∀ (r : c.Resp), (hr ▸ r : E Bool) = .ok false → k r = Prog.ret .handled)
    (herr : ∀ (r : c.Resp) e, (hr ▸ r : E Bool) = .error e → k r = Prog.fail e) :
    Oc s (.call c k) (onceEnd isNotHandled) := by
  intro r
  rcases hc with rfl | rfl | rfl | rfl <;>
  · simp only [onceMon]
    cases r with
    | error e =>
      rw [herr _ e rfl]
      exact Or.inl hs.1
    | ok b =>
      cases b with
      | false =>
        rw [hdenied _ rfl]
        show onceEnd isNotHandled _ (some Handled.handled)
        simp [onceEnd, isNotHandled, authDenied, hs.1]
      | true =>
        apply hk _ rfl
        exact ⟨hs.1, hs.2.1, hs.2.2⟩

/-- the common tail of the GET paths -/
theorem oc_respond {s : OnceSt} (hs : Fresh s) (status : Nat) (v : J) : Oc s (respond status v) (onceEnd isNotHandled) := by
  unfold respond addResponseHeaders Op.setHeader Op.now Op.writeHeader Op.writeBody
  intro _
  simp only [onceMon, hs.1, List.isEmpty_nil, ↓reduceIte]
  intro _ _
  simp only [onceMon, hs.1, List.isEmpty_nil, ↓reduceIte]
  intro _
  simp only [onceMon, hs.1, List.isEmpty_nil, ↓reduceIte]
  intro _
  simp only [onceMon, hs.1, List.isEmpty_nil, ↓reduceIte]
  intro rb
  simp only [onceMon, hs.2.1, List.length_singleton, beq_self_eq_true, Bool.and_self, ↓reduceIte]
  cases rb with
  | error e => exact Or.inr (by simp [bodyWritten])
  | ok b =>
    cases b with
    | true =>
      show onceEnd isNotHandled _ (some Handled.handled)
      simp [onceEnd, isNotHandled, bodyWritten]
    | false => exact Or.inr (by simp [bodyWritten])

/-- **GetOutbox** -/
theorem getOutbox (r : Request) : OnceClean (getOutboxH r) := by
  apply clean_of_oc
  unfold getOutboxH
  split
  · exact end_notHandled fresh_init
  · unfold Op.authGetOutbox
    apply oc_auth fresh_init _ (Or.inr (Or.inl rfl)) rfl
    · intro r hr s' hs'
      cases r with
      | error e => cases hr
      | ok b =>
        cases hr
        show Oc s' (Op.appGetOutbox >>= fun oc => respond 200 oc) _
        exact Oc.afterQuiet (re := true) (ad := anyPayload) (H := []) Lk.appGetOutbox (fun oc => oc_respond hs' _ _) (end_fail hs')
    · intro r hr; cases r with
      | error e => cases hr
      | ok b => cases hr; rfl
    · intro r e hr; cases r with
      | error e' => cases hr; rfl
      | ok b => cases hr

/-- **GetInbox** -/
theorem getInbox (F : TFacts) (cfg : BaseCfg) (r : Request) : OnceClean (getInboxH F cfg r) := by
  apply clean_of_oc
  unfold getInboxH
  split
  · exact end_notHandled fresh_init
  · unfold Op.authGetInbox
    apply oc_auth fresh_init _ (Or.inl rfl) rfl
    · intro r hr s' hs'
      cases r with
      | error e => cases hr
      | ok b =>
        cases hr
        show Oc s' (viaS2S cfg _ Op.appGetInbox >>= fun oc => dedupeOrderedItems F oc >>= fun oc => respond 200 oc) _
        unfold viaS2S
        split
        · refine Oc.afterQuiet (re := true) (ad := anyPayload) (H := []) Lk.appGetInbox (fun oc => ?_) (end_fail hs')
          exact Oc.afterQuiet (re := true) (ad := anyPayload) (H := []) (dedupeOrderedItems_ok F oc) (fun oc => oc_respond hs' _ _) (end_fail hs')
        · trivial
    · intro r hr; cases r with
      | error e => cases hr
      | ok b => cases hr; rfl
    · intro r e hr; cases r with
      | error e' => cases hr; rfl
      | ok b => cases hr

/-- **the ActivityStreams handler** -/
theorem handler (F : TFacts) (r : Request) : OnceClean (Pub.handler F r) := by
  apply clean_of_oc
  unfold Pub.handler
  split
  · exact end_notHandled fresh_init
  · refine Oc.afterQuiet (re := true) (ad := anyPayload) (H := []) (Lk.locked (by simp) (Lk.get (by simp) _)) (fun res => ?_) (end_fail fresh_init)
    split
    · exact end_fail (nh := isNotHandled) fresh_init
    · exact oc_respond fresh_init _ _

/-- the block check as seen by the write monitor: at most the 403 -/
theorem oc_activityIdGet {s : OnceSt} (site : String) (v : J) (f : Iri → Prog α) {Q : OnceSt → Option α → Prop}
    (hf : ∀ id, Oc s (f id) Q) : Oc s (activityIdGet site v >>= f) Q := by
  unfold activityIdGet
  split
  · trivial
  · exact hf _

theorem oc_authorize (F : TFacts) (v : J) {s : OnceSt} (hs : Fresh s) (f : Bool → Prog Handled)
    (hfalse : f false = Prog.ret .handled)
    (htrue : Oc s (f true) (onceEnd isNotHandled)) :
    Oc s (authorizePostInbox F v >>= f) (onceEnd isNotHandled) := by
  unfold authorizePostInbox
  split
  · exact end_fail (nh := isNotHandled) hs
  · apply Oc.bind
    apply Oc.bind
    · have hfold : ∀ (x : Except Unit (List Iri)) (Q : OnceSt → Option (List Iri) → Prop),
          (∀ l, Q s (some l)) → Q s none → Oc s (liftLib x) Q := by
        intro x Q h1 h2
        cases x with
        | error _ => exact h2
        | ok l => exact h1 l
      apply hfold
      · intro iris
        unfold Op.blocked
        apply Oc.quietCall _ rfl rfl
        intro r
        cases r with
        | error e => exact end_fail (nh := isNotHandled) hs
        | ok b =>
          cases b with
          | true =>
            show Oc s (Op.writeHeader 403 >>= fun _ => pure false) _
            intro _
            simp only [onceMon, hs.1, List.isEmpty_nil, ↓reduceIte]
            show Oc _ (f false) _
            rw [hfalse]
            show onceEnd isNotHandled _ (some Handled.handled)
            simp [onceEnd, isNotHandled, hs.2.2]
          | false => exact htrue
      · exact end_fail (nh := isNotHandled) hs

/-- **PostInbox** -/
theorem postInbox (F : TFacts) (cfg : BaseCfg) (r : Request) : OnceClean (postInboxScheme F cfg r) := by
  apply clean_of_oc
  unfold postInboxScheme
  split
  · exact end_notHandled fresh_init
  · split
    · exact oc_status fresh_init _
    · unfold viaS2S
      split
      · unfold Op.authPostInbox
        apply oc_auth fresh_init _ (Or.inr (Or.inr (Or.inl rfl))) rfl
        · intro r0 hr s' hs'
          cases r0 with
          | error e => cases hr
          | ok b =>
            cases hr
            show Oc s' (if (!true) = true then pure Handled.handled else _) _
            simp only [Bool.not_true, Bool.false_eq_true, ↓reduceIte]
            split
            · exact end_fail (nh := isNotHandled) hs'
            · exact oc_status hs' _
            · split
              · exact end_fail (nh := isNotHandled) hs'
              · split
                · exact oc_status hs' _
                · unfold Op.hookInbox
                  apply Oc.quietCall _ rfl rfl
                  intro rh
                  cases rh with
                  | error e => exact end_fail (nh := isNotHandled) hs'
                  | ok _ =>
                    apply oc_authorize F _ hs'
                    · rfl
                    · show Oc s' (Prog.try_ (Pub.postInbox F (fedCbFull F) r.box _) >>= _) _
                      apply Oc.afterQuietTry (re := true) (ad := anyPayload) (H := []) (postInbox_ok F _ _ (fun _ => rfl))
                      intro res
                      split
                      · exact oc_status hs' _
                      · exact oc_status hs' _
                      · exact end_fail (nh := isNotHandled) hs'
                      · exact Oc.afterQuiet (re := false) (ad := anyPayload) (H := []) (inboxForwarding_ok F _ _ rfl) (fun _ => oc_status hs' _) (end_fail (nh := isNotHandled) hs')
        · intro r0 hr; cases r0 with
          | error e => cases hr
          | ok b => cases hr; rfl
        · intro r0 e hr; cases r0 with
          | error e' => cases hr; rfl
          | ok b => cases hr
      · trivial

/-- **PostOutbox** (201 with the Location header set before the status) -/
theorem postOutbox (F : TFacts) (cfg : BaseCfg) (r : Request) : OnceClean (postOutboxScheme F cfg r) := by
  apply clean_of_oc
  unfold postOutboxScheme
  split
  · exact end_notHandled fresh_init
  · split
    · exact oc_status fresh_init _
    · unfold viaC2S
      split
      · unfold Op.authPostOutbox
        apply oc_auth fresh_init _ (Or.inr (Or.inr (Or.inr rfl))) rfl
        · intro r0 hr s' hs'
          cases r0 with
          | error e => cases hr
          | ok b =>
            cases hr
            show Oc s' (if (!true) = true then pure Handled.handled else _) _
            simp only [Bool.not_true, Bool.false_eq_true, ↓reduceIte]
            split
            · exact end_fail (nh := isNotHandled) hs'
            · exact oc_status hs' _
            · unfold Op.hookOutbox
              apply Oc.quietCall _ rfl rfl
              intro rh
              cases rh with
              | error e => exact end_fail (nh := isNotHandled) hs'
              | ok _ =>
                show Oc s' (Prog.try_ (deliver F cfg r.box _ _) >>= _) _
                apply Oc.afterQuietTry (re := true) (ad := anyPayload) (H := []) (deliver_ok F cfg _ _ _ (fun _ => rfl))
                intro res
                split
                · exact oc_status hs' _
                · exact oc_status hs' _
                · exact end_fail (nh := isNotHandled) hs'
                · unfold activityIdGet
                  split
                  · trivial
                  · show Oc s' (strOf _ _ >>= _) _
                    unfold strOf
                    split
                    · trivial
                    · show Oc s' (Op.setHeader "Location" _ >>= fun _ => Op.writeHeader 201 >>= fun _ => pure Handled.handled) _
                      intro _
                      simp only [onceMon, hs'.1, List.isEmpty_nil, ↓reduceIte]
                      exact oc_status hs' _
        · intro r0 hr; cases r0 with
          | error e => cases hr
          | ok b => cases hr; rfl
        · intro r0 e hr; cases r0 with
          | error e' => cases hr; rfl
          | ok b => cases hr
      · trivial

/-- Non-vacuity: a run that writes exactly one status and a body and satisfies the end condition. -/
example : onceEnd isNotHandled { statuses := [200], bodies := 1 } (some Handled.handled) := by
  simp [onceEnd, isNotHandled]

end AV.Props.C10
