import AV.Lemmas.PanicProofs
import AV.Streams.Decode
/-
C11 — Hostile input cannot crash or hang the decoder or the handlers.

On the model, a crash is the outcome `panic site`; a hang is running out of the recursion fuel (also a `panic`
site, and not in the list below: with positive limits it is unreachable).  `allSites` is the complete list of
places where a run of an entry point can panic, whatever the request, the stored values, the fetched documents and
the application's other answers are.  DESIGN.md §5/C11 classifies each of them: none is reachable through a request
body, stored value or fetched document alone — each needs the application to hand the library a nil value / nil URL
where its interface promises one, or a social-only actor serving `GetInbox` (recorded finding).
-/
namespace AV.Props.C11
open AV Prog Pub

/-- the application configures positive recursion limits -/
def PositiveLimits (env : Env) : Prop := ∀ n c, posLimits c (env n c)

theorem postInbox_panics (F : TFacts) (cfg : BaseCfg) (r : Request) (env : Env) (henv : PositiveLimits env) (site : String)
    (h : (run (postInboxScheme F cfg r) env).2 = .panic site) : site ∈ allSites :=
  PanicsIn.sound (postInboxScheme.pn F cfg r) env henv 0 site h

theorem postOutbox_panics (F : TFacts) (cfg : BaseCfg) (r : Request) (env : Env) (henv : PositiveLimits env) (site : String)
    (h : (run (postOutboxScheme F cfg r) env).2 = .panic site) : site ∈ allSites :=
  PanicsIn.sound (postOutboxScheme.pn F cfg r) env henv 0 site h

theorem getInbox_panics (F : TFacts) (cfg : BaseCfg) (r : Request) (env : Env) (henv : PositiveLimits env) (site : String)
    (h : (run (getInboxH F cfg r) env).2 = .panic site) : site ∈ allSites :=
  PanicsIn.sound (getInboxH.pn F cfg r) env henv 0 site h

theorem getOutbox_panics (r : Request) (env : Env) (henv : PositiveLimits env) (site : String)
    (h : (run (getOutboxH r) env).2 = .panic site) : site ∈ allSites :=
  PanicsIn.sound (getOutboxH.pn r) env henv 0 site h

theorem handler_panics (F : TFacts) (r : Request) (env : Env) (henv : PositiveLimits env) (site : String)
    (h : (run (handler F r) env).2 = .panic site) : site ∈ allSites :=
  PanicsIn.sound (handler.pn F r) env henv 0 site h

theorem send_panics (F : TFacts) (cfg : BaseCfg) (outbox : Iri) (t : J) (env : Env) (henv : PositiveLimits env) (site : String)
    (h : (run (send F cfg outbox t) env).2 = .panic site) : site ∈ allSites :=
  PanicsIn.sound (send.pn F cfg outbox t) env henv 0 site h

/-- the GET handlers and the ActivityStreams handler can only crash at the one recorded site -/
theorem handler_never_panics (F : TFacts) (r : Request) : PanicsIn [] (handler F r) := by
  unfold handler
  pn_auto

/-- the recursion fuel never runs out under positive limits: neither "recursion not bounded" site is listed -/
example : "hasInboxForwardingValues: recursion not bounded" ∉ allSites ∧ "resolveActors: recursion not bounded" ∉ allSites := by
  simp [allSites]

/-- after the repair of the duration codec no literal codec of the model indexes out of range -/
theorem duration_total (s : List Char) : Lit.deserDuration s ≠ .panic := by
  unfold Lit.deserDuration
  repeat' split
  all_goals (intro h; cases h)

theorem no_literal_panics (kind : String) (j : J) : litPanics kind j = false := by
  unfold litPanics
  split
  · rename_i s
    have := duration_total s.toList
    cases hd : Lit.deserDuration s.toList <;> simp_all
  · rfl

end AV.Props.C11
