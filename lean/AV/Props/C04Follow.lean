import AV.Props.C16Lists
import AV.Pub.FedCallbacks
import AV.Pub.SocialCallbacks
/-
C04, value level for the actor's own collections: whatever the application answers, what the automatic Accept of a
Follow hands to `Update` is the followers collection `Followers` returned with the following actors put in front (one by
one, so the last one first); what an Accept of our Follow hands to `Update` is the collection `Following` returned with
the accepting actors in front; what a client's Like hands to `Update` is the collection `Liked` returned with the liked
ids in front.  Nothing else is written by these fragments.
-/
namespace AV.Props.C04
open AV Prog Pub Val AV.Props.C16

/-- `ids` put in front of the items one by one (`PrependIRI` in a loop: the last id ends up first) -/
def expectedFrontJ (js : List J) (t : J) : J :=
  setList t "items" (js.reverse ++ (rawList t "items").getD [])

/-- ids as the code writes them: a nil id as `null` -/
def expectedFront (ids : List Iri) (t : J) : J := expectedFrontJ (ids.map iriJ) t

/-- an `Update` must carry `f` of the collection the last `Followers` / `Following` / `Liked` returned -/
@[reducible] def actorColMon (f : J → J) : Mon where
  S := Option J
  step s c r :=
    match c, r with
    | .followers _, .ok t => some (some t)
    | .following _, .ok t => some (some t)
    | .liked _, .ok t => some (some t)
    | .update v, _ => (match s with
      | some t => if v == f t then some s else none
      | none => none)
    | _, _ => some s

/-- not vacuous: an `Update` that is not `f` of what was read is rejected, and so is one before anything was read -/
example : (actorColMon id).step (some (.str "read")) (.update (.str "other")) (.ok ()) = none := by simp [actorColMon]; decide
example : (actorColMon id).step none (.update (.str "x")) (.ok ()) = none := rfl
example : (actorColMon id).step (some (.str "read")) (.update (.str "read")) (.ok ()) = some (some (.str "read")) := by simp [actorColMon, J.beq_self]

abbrev A (f : J → J) (s : Option J) (p : Prog α) : Prop := SafeP (actorColMon f) s p (fun _ _ => True)

/-- calls the monitor does not look at -/
def colQuiet (c : Call) : Prop :=
  (∀ k, c ≠ .followers k) ∧ (∀ k, c ≠ .following k) ∧ (∀ k, c ≠ .liked k) ∧ (∀ v, c ≠ .update v)

theorem actorColMon_colQuiet (f : J → J) (c : Call) (hc : colQuiet c) (s : Option J) (r : c.Resp) :
    (actorColMon f).step s c r = some s := by
  obtain ⟨h1, h2, h3, h4⟩ := hc
  cases c <;> simp_all [actorColMon]

theorem A.of_quiet {f : J → J} {s : Option J} {p : Prog α} (hp : OnlyCalls colQuiet p) : A f s p :=
  SafeP.mono (SafeP.frame (M := actorColMon f) (P := colQuiet) (fun c hc s r => actorColMon_colQuiet f c hc s r) hp s)
    (fun _ _ _ => trivial)

theorem A.quiet_bind {f : J → J} {s : Option J} {p : Prog α} {k : α → Prog β} (hp : OnlyCalls colQuiet p)
    (hk : ∀ a, A f s (k a)) : A f s (p >>= k) :=
  SafeP.bind_frame (M := actorColMon f)
    (SafeP.frame (M := actorColMon f) (P := colQuiet) (fun c hc s r => actorColMon_colQuiet f c hc s r) hp s) hk trivial

theorem A.pure_bind {f : J → J} {s : Option J} {p : Prog α} {k : α → Prog β} (hp : isPure p = true)
    (hk : ∀ a, A f s (k a)) : A f s (p >>= k) := A.quiet_bind (OnlyCalls.of_pure hp) hk

theorem A.update (f : J → J) (tp v : J) (h : v = f tp) : A f (some tp) (Op.update v) := by
  unfold Op.update
  intro r
  subst h
  have hstep : (actorColMon f).step (some tp) (.update (f tp)) r = some (some tp) := by
    simp [actorColMon, J.beq_self]
  rw [hstep]
  cases r <;> trivial

theorem lock_quiet (t : Iri) : OnlyCalls colQuiet (Op.lock t) :=
  OnlyCalls.op _ ⟨(by intro k h; cases h), (by intro k h; cases h), (by intro k h; cases h), (by intro v h; cases h)⟩ _
    (fun r => OnlyCalls.ofE r)
theorem unlock_quiet (t : Iri) : OnlyCalls colQuiet (Op.unlock t) :=
  OnlyCalls.op _ ⟨(by intro k h; cases h), (by intro k h; cases h), (by intro k h; cases h), (by intro v h; cases h)⟩ _
    (fun _ => .ret ())

/-- `Lock(k); r := body; Unlock(k); return r` -/
theorem A.locked {f : J → J} (k : Iri) {body : Prog α} (hb : ∀ s, A f s body) (s : Option J) : A f s (Op.locked k body) := by
  unfold Op.locked
  apply A.quiet_bind (lock_quiet k)
  intro _
  apply SafeP.bind
  apply SafeP.try_
  apply SafeP.mono (hb s)
  intro s' o _
  cases o with
  | some a =>
    apply A.quiet_bind (unlock_quiet k)
    intro _
    trivial
  | none =>
    intro e
    apply A.quiet_bind (unlock_quiet k)
    intro _
    trivial

/-- `Lock(k); defer Unlock(k); body` -/
theorem A.withLock {f : J → J} (k : Iri) {body : Prog α} (hb : ∀ s, A f s body) (s : Option J) : A f s (withLock k body) := by
  unfold Pub.withLock
  apply A.quiet_bind (lock_quiet k)
  intro _
  apply SafeP.finally_
  apply SafeP.mono (hb s)
  intro s' o _
  apply SafeP.mono (A.of_quiet (f := f) (s := s') (unlock_quiet k))
  intro _ o' _
  cases o' <;> trivial

/-- **automatic Accept of a Follow, value level**: the followers collection handed to `Update` is the one `Followers`
returned with the following actors in front -/
theorem followUpdateFollowers_writes (actorIRI : Iri) (recipients : List Iri) (s : Option J) :
    A (expectedFrontJ (mkIdList recipients)) s (followUpdateFollowers actorIRI recipients) := by
  unfold followUpdateFollowers
  apply A.locked
  intro s
  unfold Op.followers
  intro r
  cases r with
  | error e => trivial
  | ok t =>
    apply A.update
    unfold expectedFrontJ mkIdList
    rw [List.map_reverse]

section
variable (F : TFacts)

/-- the ids of the accepting actors, when every one of them has one -/
def actorIdsOf (xs : List J) : List Iri :=
  match idsOf F xs with
  | .ok ids => ids
  | .error _ => []

theorem idsM_cases (xs : List J) :
    (∃ e, idsM F xs = Prog.fail e) ∨ idsM F xs = Prog.ret (actorIdsOf F xs) := by
  unfold idsM liftLib actorIdsOf
  cases idsOf F xs with
  | ok ids => exact Or.inr rfl
  | error e => exact Or.inl ⟨_, rfl⟩

/-- **Accept of our Follow, value level**: the following collection handed to `Update` is the one `Following` returned
with the accepting actors' ids in front -/
theorem acceptUpdateFollowing_writes (actorIRI : Iri) (activityActors : List J) (s : Option J) :
    A (expectedFront (actorIdsOf F activityActors)) s (acceptUpdateFollowing F actorIRI activityActors) := by
  unfold acceptUpdateFollowing
  apply A.locked
  intro s
  unfold Op.following
  intro r
  cases r with
  | error e => trivial
  | ok t =>
    show A _ (some t) (idsM F activityActors >>= fun ids => _)
    rcases idsM_cases F activityActors with ⟨e, h⟩ | h
    · rw [h]; trivial
    · rw [h]
      apply A.update
      rfl

theorem wrappedAfter_colQuiet (fed : Bool) (cfg : CbConfig) (ty : String) (a : J) : OnlyCalls colQuiet (wrappedAfter fed cfg ty a) := by
  unfold wrappedAfter
  split
  · exact OnlyCalls.op _ ⟨(by intro k h; cases h), (by intro k h; cases h), (by intro k h; cases h), (by intro v h; cases h)⟩ _
      (fun r => OnlyCalls.ofE r)
  · exact .ret ()

/-- the locked section of a client's Like -/
def likedSection (cfg : CbConfig) (actorIRI : Iri) (op : List J) (a : J) : Prog Unit :=
  withLock actorIRI (do
      let liked ← Op.liked actorIRI
      let ids ← idsM F op
      let items := (rawList liked "items").getD []
      Op.update (setList liked "items" ((ids.map iriJ).reverse ++ items))
      wrappedAfter false cfg "Like" a)

/-- **a client's Like, value level**: the collection handed to `Update` is the one `Liked` returned with the liked ids in
front; the wrapped callback writes nothing -/
theorem likedSection_writes (cfg : CbConfig) (actorIRI : Iri) (op : List J) (a : J) (s : Option J) :
    A (expectedFront (actorIdsOf F op)) s (likedSection F cfg actorIRI op a) := by
  unfold likedSection
  apply A.withLock
  intro s
  unfold Op.liked
  intro r
  cases r with
  | error e => trivial
  | ok t =>
    show A _ (some t) (idsM F op >>= fun ids => _)
    rcases idsM_cases F op with ⟨e, h⟩ | h
    · rw [h]; trivial
    · rw [h]
      show A _ (some t) (Op.update _ >>= fun _ => wrappedAfter false cfg "Like" a)
      apply SafeP.bind
      apply SafeP.mono (A.update _ t _ rfl)
      intro s' o _
      cases o with
      | none => trivial
      | some _ => exact A.of_quiet (wrappedAfter_colQuiet _ _ _ _)

/-- `socLike` is that section after the object check and the actor lookup -/
theorem socLike_eq (cfg : CbConfig) (outbox : Iri) (a : J) :
    socLike F cfg outbox a = (do
      let op ← requireObject F a
      let actorIRI ← Op.locked outbox (Op.actorForOutbox outbox)
      likedSection F cfg actorIRI op a) := rfl

end
end AV.Props.C04
