import AV.Streams.Container
/-
C18 — Property containers behave as plain sequences / single slots.
-/
namespace AV.Props.C18
open AV.Container

variable {V : Type}

/-! ### re-indexing changes no value and establishes the invariant -/

@[simp] theorem length_reindex (s : Nat) (cs : NF V) : (reindexFrom s cs).length = cs.length := by
  simp [reindexFrom]

theorem values_reindex (s : Nat) (cs : NF V) : values (reindexFrom s cs) = values cs := by
  apply List.ext_getElem
  · simp [values, reindexFrom]
  · intro i h1 h2
    simp only [values, reindexFrom, List.getElem_map, List.getElem_mapIdx]
    split <;> rfl

theorem inv_reindex (s : Nat) (cs : NF V) (h : ∀ i (hi : i < cs.length), i < s → (cs[i]).myIdx = i) : Inv (reindexFrom s cs) := by
  intro i hi
  have hi' : i < cs.length := by simpa using hi
  simp only [reindexFrom, List.getElem_mapIdx]
  split
  · rfl
  · exact h i hi' (by omega)

/-! ### each operation is the list operation, and keeps the invariant -/

theorem values_append (cs : NF V) (v : V) : values (append cs v) = values cs ++ [v] := by simp [values, append]
theorem inv_append (cs : NF V) (v : V) (h : Inv cs) : Inv (append cs v) := by
  intro i hi
  simp only [append, List.length_append, List.length_singleton] at hi
  by_cases hlt : i < cs.length
  · simp only [append, List.getElem_append_left hlt]; exact h i hlt
  · have : i = cs.length := by omega
    subst this
    simp [append]

theorem values_prepend (cs : NF V) (v : V) : values (prepend cs v) = v :: values cs := by
  unfold prepend
  rw [values_reindex]
  rfl
theorem inv_prepend (cs : NF V) (v : V) : Inv (prepend cs v) := by
  apply inv_reindex
  intro i hi hlt
  have : i = 0 := by omega
  subst this; rfl

theorem values_insert (cs : NF V) (idx : Nat) (v : V) (cs' : NF V) (h : Container.insert cs idx v = some cs') :
    values cs' = (values cs).take idx ++ [v] ++ (values cs).drop idx := by
  unfold Container.insert at h
  split at h
  · cases h
    rw [values_reindex]
    simp [values, List.map_take, List.map_drop]
  · cases h
theorem inv_insert (cs : NF V) (idx : Nat) (v : V) (cs' : NF V) (hinv : Inv cs) (h : Container.insert cs idx v = some cs') : Inv cs' := by
  unfold Container.insert at h
  split at h
  · rename_i hle
    cases h
    apply inv_reindex
    intro i hi hlt
    have hlt' : i < (cs.take idx).length := by simp; omega
    have : (cs.take idx ++ [{ myIdx := idx, val := v }] ++ cs.drop idx)[i] = cs[i]'(by omega) := by
      simp only [List.append_assoc]
      rw [List.getElem_append_left hlt']
      simp
    rw [this]
    exact hinv i (by omega)
  · cases h

theorem values_set (cs : NF V) (idx : Nat) (v : V) (cs' : NF V) (h : Container.set cs idx v = some cs') :
    values cs' = (values cs).set idx v := by
  unfold Container.set at h
  split at h
  · cases h; simp [values, List.map_set]
  · cases h
theorem inv_set (cs : NF V) (idx : Nat) (v : V) (cs' : NF V) (hinv : Inv cs) (h : Container.set cs idx v = some cs') : Inv cs' := by
  unfold Container.set at h
  split at h
  · cases h
    intro i hi
    simp only [List.length_set] at hi
    rw [List.getElem_set]
    split
    · rename_i he; subst he; rfl
    · exact hinv i hi
  · cases h

theorem values_remove (cs : NF V) (idx : Nat) (cs' : NF V) (h : remove cs idx = some cs') :
    values cs' = (values cs).take idx ++ (values cs).drop (idx + 1) := by
  unfold remove at h
  split at h
  · cases h
    rw [values_reindex]
    simp [values, List.map_take, List.map_drop]
  · cases h
theorem inv_remove (cs : NF V) (idx : Nat) (cs' : NF V) (hinv : Inv cs) (h : remove cs idx = some cs') : Inv cs' := by
  unfold remove at h
  split at h
  · cases h
    apply inv_reindex
    intro i hi hlt
    have hlt' : i < (cs.take idx).length := by simp; omega
    rw [List.getElem_append_left hlt']
    simp only [List.getElem_take]
    exact hinv i (by omega)
  · cases h

/-- the plain-list swap -/
def listSwap (l : List V) (i j : Nat) : Option (List V) :=
  match l[i]?, l[j]? with
  | some a, some b => some ((l.set i b).set j a)
  | _, _ => none

theorem values_swap (cs : NF V) (i j : Nat) (cs' : NF V) (h : swap cs i j = some cs') :
    listSwap (values cs) i j = some (values cs') := by
  unfold swap at h
  unfold listSwap
  cases hi : cs[i]? with
  | none => simp [hi] at h
  | some a =>
    cases hj : cs[j]? with
    | none => simp [hi, hj] at h
    | some b =>
      simp only [hi, hj] at h
      cases h
      simp [values, List.getElem?_map, hi, hj, List.map_set]
theorem inv_swap (cs : NF V) (i j : Nat) (cs' : NF V) (hinv : Inv cs) (h : swap cs i j = some cs') : Inv cs' := by
  unfold swap at h
  cases hi : cs[i]? with
  | none => simp [hi] at h
  | some a =>
    cases hj : cs[j]? with
    | none => simp [hi, hj] at h
    | some b =>
      simp only [hi, hj] at h
      cases h
      intro k hk
      simp only [List.length_set] at hk
      rw [List.getElem_set]
      split
      · rename_i he; subst he; rfl
      · rw [List.getElem_set]
        split
        · rename_i he; subst he; rfl
        · exact hinv k hk


/-! ### iteration by `Next()` / `Prev()` visits exactly the list, forwards and backwards -/

theorem walkFwd_none (cs : NF V) (fuel : Nat) : walkFwd cs fuel none = [] := by cases fuel <;> rfl
theorem walkBwd_none (cs : NF V) (fuel : Nat) : walkBwd cs fuel none = [] := by cases fuel <;> rfl

theorem walkFwd_from (cs : NF V) (hinv : Inv cs) : ∀ (fuel k : Nat) (hk : k < cs.length), fuel ≥ cs.length - k →
    walkFwd cs fuel (some cs[k]) = (cs.drop k).map (·.val) := by
  intro fuel
  induction fuel with
  | zero => intro k hk hf; omega
  | succ n ih =>
    intro k hk hf
    simp only [walkFwd, hinv k hk]
    rw [List.drop_eq_getElem_cons hk, List.map_cons]
    congr 1
    by_cases hlast : k + 1 ≥ cs.length
    · simp only [hlast, if_true, walkFwd_none]
      rw [List.drop_eq_nil_of_le hlast]; rfl
    · simp only [hlast, if_false]
      have hk1 : k + 1 < cs.length := by omega
      rw [List.getElem?_eq_getElem hk1]
      exact ih (k + 1) hk1 (by omega)

/-- **C18 (forward iteration)** -/
theorem forward_eq (cs : NF V) (hinv : Inv cs) : forward cs = values cs := by
  unfold forward values
  cases cs with
  | nil => rfl
  | cons c rest =>
    have := walkFwd_from (c :: rest) hinv ((c :: rest).length + 1) 0 (by simp) (by omega)
    simpa using this

theorem walkBwd_from (cs : NF V) (hinv : Inv cs) : ∀ (fuel k : Nat) (hk : k < cs.length), fuel ≥ k + 1 →
    walkBwd cs fuel (some cs[k]) = ((cs.take (k + 1)).map (·.val)).reverse := by
  intro fuel
  induction fuel with
  | zero => intro k hk hf; omega
  | succ n ih =>
    intro k hk hf
    simp only [walkBwd, hinv k hk]
    cases k with
    | zero =>
      simp only [if_true, walkBwd_none]
      rw [List.take_one]
      cases cs with
      | nil => simp at hk
      | cons c rest => simp
    | succ k' =>
      simp only [Nat.succ_ne_zero, if_false, Nat.add_sub_cancel]
      have hk1 : k' < cs.length := by omega
      rw [List.getElem?_eq_getElem hk1, ih k' hk1 (by omega)]
      have ht : List.take (k' + 1 + 1) (List.map (fun x => x.val) cs) =
          List.take (k' + 1) (List.map (fun x => x.val) cs) ++ [cs[k' + 1].val] := by
        rw [List.take_succ_eq_append_getElem (by simpa using hk)]
        simp
      simp only [List.map_take, ht, List.reverse_append, List.reverse_cons, List.reverse_nil, List.nil_append, List.singleton_append]

/-- **C18 (backward iteration)** -/
theorem backward_eq (cs : NF V) (hinv : Inv cs) : backward cs = (values cs).reverse := by
  unfold backward values
  cases hlen : cs.length with
  | zero =>
    have : cs = [] := List.length_eq_zero_iff.mp hlen
    subst this; rfl
  | succ n =>
    have hn : n < cs.length := by omega
    have hl : cs.getLast? = some cs[n] := by
      rw [List.getLast?_eq_getElem?]
      simp [hlen, List.getElem?_eq_getElem hn]
    rw [hl, walkBwd_from cs hinv (n + 1 + 1) n hn (by omega)]
    have : cs.take (n + 1) = cs := by rw [← hlen]; exact List.take_length
    rw [this]

/-! ### any series of operations -/

inductive Op (V : Type) where
  | append (v : V) | prepend (v : V) | insert (i : Nat) (v : V) | set (i : Nat) (v : V) | remove (i : Nat) | swap (i j : Nat)

def applyOp (cs : NF V) : Op V → Option (NF V)
  | .append v => some (Container.append cs v)
  | .prepend v => some (Container.prepend cs v)
  | .insert i v => Container.insert cs i v
  | .set i v => Container.set cs i v
  | .remove i => Container.remove cs i
  | .swap i j => Container.swap cs i j

/-- the same operation on a plain list (`none`: index out of range) -/
def specOp (l : List V) : Op V → Option (List V)
  | .append v => some (l ++ [v])
  | .prepend v => some (v :: l)
  | .insert i v => if i ≤ l.length then some (l.take i ++ [v] ++ l.drop i) else none
  | .set i v => if i < l.length then some (l.set i v) else none
  | .remove i => if i < l.length then some (l.take i ++ l.drop (i + 1)) else none
  | .swap i j => listSwap l i j

theorem step_refines (cs : NF V) (hinv : Inv cs) (op : Op V) :
    (match applyOp cs op with
     | some cs' => specOp (values cs) op = some (values cs') ∧ Inv cs'
     | none => specOp (values cs) op = none) := by
  cases op with
  | append v => exact ⟨by simp [specOp, values_append], inv_append cs v hinv⟩
  | prepend v => exact ⟨by simp [specOp, values_prepend], inv_prepend cs v⟩
  | insert i v =>
    simp only [applyOp]
    cases h : Container.insert cs i v with
    | none => unfold Container.insert at h; split at h <;> simp_all [specOp, values]
    | some cs' =>
      refine ⟨?_, inv_insert cs i v cs' hinv h⟩
      rw [values_insert cs i v cs' h]
      unfold Container.insert at h; split at h <;> simp_all [specOp, values]
  | set i v =>
    simp only [applyOp]
    cases h : Container.set cs i v with
    | none => unfold Container.set at h; split at h <;> simp_all [specOp, values]
    | some cs' =>
      refine ⟨?_, inv_set cs i v cs' hinv h⟩
      rw [values_set cs i v cs' h]
      unfold Container.set at h; split at h <;> simp_all [specOp, values]
  | remove i =>
    simp only [applyOp]
    cases h : Container.remove cs i with
    | none => unfold Container.remove at h; split at h <;> simp_all [specOp, values]
    | some cs' =>
      refine ⟨?_, inv_remove cs i cs' hinv h⟩
      rw [values_remove cs i cs' h]
      unfold Container.remove at h; split at h <;> simp_all [specOp, values]
  | swap i j =>
    simp only [applyOp]
    cases h : Container.swap cs i j with
    | none =>
      unfold Container.swap at h
      simp only [specOp, listSwap, values, List.getElem?_map]
      cases hi : cs[i]? <;> cases hj : cs[j]? <;> simp_all
    | some cs' => exact ⟨values_swap cs i j cs' h, inv_swap cs i j cs' hinv h⟩

/-- **C18**: after any series of append, prepend, insert, set, remove and swap operations, the container holds
the values a plain list would hold after the same operations (and fails exactly where the list operation is out of
range); its length, indexed access, forward and backward iteration and serialised sequence are the list's. -/
theorem refines (ops : List (Op V)) : ∀ (cs : NF V), Inv cs →
    (match ops.foldlM applyOp cs with
     | some cs' => ops.foldlM specOp (values cs) = some (values cs') ∧ Inv cs' ∧ forward cs' = values cs' ∧
         backward cs' = (values cs').reverse ∧ cs'.length = (values cs').length
     | none => ops.foldlM specOp (values cs) = none) := by
  induction ops with
  | nil =>
    intro cs hinv
    exact ⟨rfl, hinv, forward_eq cs hinv, backward_eq cs hinv, by simp [values]⟩
  | cons op rest ih =>
    intro cs hinv
    have hstep := step_refines cs hinv op
    simp only [List.foldlM_cons]
    cases h : applyOp cs op with
    | none =>
      simp only [h] at hstep
      simp [hstep, bind, Option.bind]
    | some cs1 =>
      simp only [h] at hstep
      obtain ⟨h1, h2⟩ := hstep
      simp only [h1, bind, Option.bind]
      exact ih cs1 h2

/-- the statement is about something: three appends, a swap and a removal -/
example : (([Op.append 1, .append 2, .append 3, .swap 0 2, .remove 1] : List (Op Nat)).foldlM applyOp []).map forward = some [3, 1] := by
  decide

/-! ### a functional property is a single slot -/

inductive SlotOp (V : Type) where
  | set (v : V) | clear

def applySlot (s : Option V) : SlotOp V → Option V
  | .set v => slotSet s v
  | .clear => slotClear s

/-- **C18 (functional)**: after any series of set and clear operations exactly the last-set value (or none) is held -/
theorem slot_last (ops : List (SlotOp V)) (s : Option V) :
    ops.foldl applySlot s = (match ops.getLast? with
      | some (.set v) => some v
      | some .clear => none
      | none => s) := by
  induction ops generalizing s with
  | nil => rfl
  | cons op rest ih =>
    simp only [List.foldl_cons]
    rw [ih]
    cases rest with
    | nil => cases op <;> rfl
    | cons r rs =>
      simp only [List.getLast?_cons_cons]
      have hne : (r :: rs).getLast? ≠ none := by simp
      cases hl : (r :: rs).getLast? with
      | none => exact absurd hl hne
      | some x => cases x <;> rfl

end AV.Props.C18
