import AV.Lemmas.LockProofs
import AV.Props.C07
import AV.Lemmas.Frame
import AV.Spec.C06
/-
C06 — A federated peer cannot act beyond its authority.
-/
namespace AV.Props.C06
open AV Prog Pub Val AV.Spec.C06

/-! ### the block check is asked about every actor's id, before any side effect -/

theorem asked_safe (F : TFacts) (v : J) (p : Prog α) : SafeP (blockMon F v) true p (fun _ _ => True) := by
  induction p with
  | ret a => trivial
  | fail e => trivial
  | panic s => trivial
  | call c k ih => intro r; exact ih r

def bodyVal (b : Body) : J :=
  match b with
  | .val _ v => v
  | _ => .null

/-- one step of the prefix: a call that is no effect and not `Blocked` -/
theorem pre_call (F : TFacts) (v : J) (c : Call) (k : c.Resp → Prog α) (hne : c.isEffect = false)
    (hnb : ∀ ids, c ≠ .blocked ids) (hk : ∀ r, SafeP (blockMon F v) false (k r) (fun _ _ => True)) :
    SafeP (blockMon F v) false (.call c k) (fun _ _ => True) := by
  intro r
  have : (blockMon F v).step false c r = some false := by
    cases c <;> simp_all [blockMon]
  rw [this]
  exact hk r

theorem authorize_blocked (F : TFacts) (v : J) (f : Bool → Prog α) :
    SafeP (blockMon F v) false (authorizePostInbox F v >>= f) (fun _ _ => True) := by
  unfold authorizePostInbox
  split
  · trivial
  · rename_i xs hx
    cases hids : idsOf F xs with
    | error e => simp only [AV.liftLib]; trivial
    | ok ids =>
      simp only [AV.liftLib]
      show SafeP (blockMon F v) false (Prog.call (.blocked ids) _) _
      intro r
      have : (blockMon F v).step false (.blocked ids) r = some true := by
        simp [blockMon, actorIdsOf, hx, hids]
      rw [this]
      exact asked_safe F v _

/-- **C06 (block check)**: on every run of an inbox POST, for every application, nothing is read, written,
fetched, delivered or called back before `Blocked` has been asked, and what it is asked about is exactly the
id of every actor of the activity — IRIs as they are, embedded actors by their own id. -/
theorem postInbox_blocked (F : TFacts) (cfg : BaseCfg) (r : Request) :
    SafeP (blockMon F (bodyVal r.body)) false (postInboxScheme F cfg r) (fun _ _ => True) := by
  unfold postInboxScheme
  split
  · trivial
  · split
    · exact pre_call _ _ _ _ rfl (by intro ids h; cases h) (fun _ => trivial)
    · unfold viaS2S
      split
      · apply pre_call _ _ _ _ rfl (by intro ids h; cases h)
        intro ra
        cases ra with
        | error e => trivial
        | ok authed =>
          show SafeP (blockMon F (bodyVal r.body)) false (if _ then _ else _) _
          split
          · trivial
          · split
            · trivial
            · exact pre_call _ _ _ _ rfl (by intro ids h; cases h) (fun _ => trivial)
            · rename_i raw v hp
              have hv : bodyVal r.body = v := by
                cases hb : r.body <;> simp_all [parseBody, bodyVal]
                all_goals (try (split at hp <;> simp_all))
              rw [hv]
              split
              · trivial
              · split
                · exact pre_call _ _ _ _ rfl (by intro ids h; cases h) (fun _ => trivial)
                · apply pre_call _ _ _ _ rfl (by intro ids h; cases h)
                  intro rh
                  cases rh with
                  | error e => trivial
                  | ok _ => exact authorize_blocked F v _
      · trivial


/-! ### Update / Delete only within the activity's own host -/

theorem isPure_liftLib (x : Except Unit α) : isPure (AV.liftLib x) = true := by cases x <;> rfl
theorem isPure_strOf (site : String) (u : Iri) : isPure (strOf site u) = true := by unfold strOf; split <;> rfl
theorem isPure_strsOf (site : String) (us : List Iri) : isPure (strsOf site us) = true := by unfold strsOf; split <;> rfl

/-- the loop over the objects of `mustHaveActivityOriginMatchObjects` -/
def originLoop (F : TFacts) (originHost : String) (xs : List J) : Prog Unit :=
  xs.forM fun j => do
    let iri ← liftLib (toId F (elemOf F j))
    let iri ← strOf "origin: iri.Host on nil" iri
    if originHost != Iri.hostOf iri then .fail .lib else pure ()

theorem originLoop_pure (F : TFacts) (h : String) (xs : List J) : isPure (originLoop F h xs) = true := by
  apply isPure_forM
  intro j
  apply isPure_bind (isPure_liftLib _); intro iri
  apply isPure_bind (isPure_strOf _ _); intro iri
  show isPure (if _ then _ else _) = true
  split <;> rfl

theorem originLoop_ret (F : TFacts) (h : String) (xs : List J) (hr : originLoop F h xs = .ret ()) :
    xs.all (fun j => match toId F (elemOf F j) with
      | .ok iri => iri != nilIri && h == Iri.hostOf iri
      | .error _ => false) = true := by
  induction xs with
  | nil => rfl
  | cons x xs ih =>
    have hr' : ((do
        let iri ← liftLib (toId F (elemOf F x))
        let iri ← strOf "origin: iri.Host on nil" iri
        if h != Iri.hostOf iri then Prog.fail .lib else pure ()) >>= fun _ => originLoop F h xs) = .ret () := hr
    cases ht : toId F (elemOf F x) with
    | error e => simp [ht, AV.liftLib] at hr'
    | ok iri =>
      simp only [ht, AV.liftLib, bind_ret] at hr'
      unfold strOf at hr'
      by_cases hn : iri == nilIri
      · simp [hn] at hr'
      · simp only [hn, Bool.false_eq_true, if_false, bind_ret] at hr'
        by_cases hh : h != Iri.hostOf iri
        · simp [hh] at hr'
        · simp only [hh, Bool.false_eq_true, if_false] at hr'
          have := ih hr'
          simp only [List.all_cons, ht, this, Bool.and_true]
          simp_all

theorem mustHave_eq (F : TFacts) (a : J) : mustHaveActivityOriginMatchObjects F a =
    (do let origin ← liftLib (getId F a)
        let origin ← strOf "origin: originIRI.Host on nil" origin
        match prop F a "object" with
        | none => pure ()
        | some xs => originLoop F (Iri.hostOf origin) xs) := rfl

theorem mustHave_pure (F : TFacts) (a : J) : isPure (mustHaveActivityOriginMatchObjects F a) = true := by
  rw [mustHave_eq]
  apply isPure_bind (isPure_liftLib _); intro o
  apply isPure_bind (isPure_strOf _ _); intro o
  split
  · rfl
  · exact originLoop_pure _ _ _

/-- the check lets exactly the same-host activities through -/
theorem mustHave_spec (F : TFacts) (a : J) (h : mustHaveActivityOriginMatchObjects F a = .ret ()) :
    originSpec F a = true := by
  rw [mustHave_eq] at h
  unfold originSpec
  cases hg : getId F a with
  | error e => simp [hg, AV.liftLib] at h
  | ok origin =>
    simp only [hg, AV.liftLib, bind_ret] at h
    unfold strOf at h
    by_cases hn : origin == nilIri
    · simp [hn] at h
    · simp only [hn, Bool.false_eq_true, if_false, bind_ret] at h
      have hn' : origin ≠ nilIri := by intro h'; exact hn (by simp [h'])
      cases hp : prop F a "object" with
      | none => simp [hn']
      | some xs =>
        simp only [hp] at h
        have := originLoop_ret F _ xs h
        have hne : (origin != nilIri) = true := by simp [hn']
        simp only [Option.getD_some, hne, Bool.true_and]
        exact this

/-- **C06 (origin)**: an Update whose objects are not all on the activity id's host does nothing at all —
no Database call, no callback — and is refused -/
theorem fedUpdate_guard (F : TFacts) (cfg : CbConfig) (a : J) (h : originSpec F a = false) (env : Env) (n : Nat) :
    (run (fedUpdate F cfg a) env n).1 = [] ∧ (run (fedUpdate F cfg a) env n).2.toOpt = none := by
  unfold fedUpdate requireObject
  split
  · exact ⟨rfl, rfl⟩
  · exact ⟨rfl, rfl⟩
  · rename_i xs _
    simp only [bind_ret]
    have hp := mustHave_pure F a
    cases hm : mustHaveActivityOriginMatchObjects F a with
    | ret u => cases u; rw [mustHave_spec F a hm] at h; cases h
    | fail e => exact ⟨rfl, rfl⟩
    | panic s => exact ⟨rfl, rfl⟩
    | call c k => rw [hm] at hp; cases hp

theorem fedDelete_guard (F : TFacts) (cfg : CbConfig) (a : J) (h : originSpec F a = false) (env : Env) (n : Nat) :
    (run (fedDelete F cfg a) env n).1 = [] ∧ (run (fedDelete F cfg a) env n).2.toOpt = none := by
  unfold fedDelete requireObject
  split
  · exact ⟨rfl, rfl⟩
  · exact ⟨rfl, rfl⟩
  · rename_i xs _
    simp only [bind_ret]
    have hp := mustHave_pure F a
    cases hm : mustHaveActivityOriginMatchObjects F a with
    | ret u => cases u; rw [mustHave_spec F a hm] at h; cases h
    | fail e => exact ⟨rfl, rfl⟩
    | panic s => exact ⟨rfl, rfl⟩
    | call c k => rw [hm] at hp; cases hp


/-! ### generic rules for monitors that do not react to Lock / Unlock -/

theorem safe_call {M : Mon} {s s1 : M.S} {c : Call} {k : c.Resp → Prog α} {Q : M.S → Option α → Prop}
    (r : c.Resp) (h : M.step s c r = some s1) (hk : SafeP M s1 (k r) Q) :
    (match M.step s c r with
      | none => False
      | some s' => SafeP M s' (k r) Q) := by
  rw [h]; exact hk

theorem safe_step {S : Type} {s1 : S} {X : Option S} {P : S → Prop} (h : X = some s1) (hk : P s1) :
    (match X with
      | none => False
      | some s' => P s') := by
  subst h; exact hk

theorem safe_locked {M : Mon} {s : M.S} {k : Iri} {body : Prog α} {Q : M.S → Option α → Prop}
    (hl : ∀ s r, M.step s (.lock k) r = some s) (hu : ∀ s r, M.step s (.unlock k) r = some s)
    (hb : SafeP M s body Q) (hn : Q s none) :
    SafeP M s (Op.locked k body) Q := by
  unfold Op.locked Op.lock
  intro r
  apply safe_call r (hl s r)
  cases r with
  | error e => exact hn
  | ok _ =>
    show SafeP M s (Prog.try_ body >>= fun r => Op.unlock k >>= fun _ => Op.ofE r) Q
    apply SafeP.bind
    apply SafeP.try_
    apply SafeP.mono hb
    intro s' o hq
    cases o with
    | none =>
      intro e
      show SafeP M s' (Op.unlock k >>= fun _ => Op.ofE (.error e)) Q
      unfold Op.unlock
      intro ru
      apply safe_call ru (hu s' ru)
      cases ru <;> exact hq
    | some a =>
      show SafeP M s' (Op.unlock k >>= fun _ => Op.ofE (.ok a)) Q
      unfold Op.unlock
      intro ru
      apply safe_call ru (hu s' ru)
      cases ru <;> exact hq

theorem safe_withLock {M : Mon} {s : M.S} {k : Iri} {body : Prog α} {Q : M.S → Option α → Prop}
    (hl : ∀ s r, M.step s (.lock k) r = some s) (hu : ∀ s r, M.step s (.unlock k) r = some s)
    (hb : SafeP M s body Q) (hn : Q s none) :
    SafeP M s (withLock k body) Q := by
  unfold withLock Op.lock
  intro r
  apply safe_call r (hl s r)
  cases r with
  | error e => exact hn
  | ok _ =>
    show SafeP M s (Prog.finally_ body (Op.unlock k)) Q
    apply SafeP.finally_
    apply SafeP.mono hb
    intro s' o hq
    unfold Op.unlock
    intro ru
    apply safe_call ru (hu s' ru)
    cases ru <;> cases o <;> exact hq


/-! ### Accept: `following` grows only on the strength of a stored, matching Follow -/

def accNeutral (c : Call) : Prop := (∀ k, c ≠ .get k) ∧ (∀ k, c ≠ .actorForInbox k) ∧ (∀ v, c ≠ .update v)

theorem acc_neutral (F : TFacts) (a : J) (c : Call) (h : accNeutral c) (s : AcceptSt) (r : c.Resp) :
    (acceptMon F a).step s c r = some s := by
  obtain ⟨h1, h2, h3⟩ := h
  cases c <;> first | rfl | (exfalso; first | exact h1 _ rfl | exact h2 _ rfl | exact h3 _ rfl)

/-- once verified, anything but another `Get` keeps it so -/
theorem verified_safe (F : TFacts) (a : J) {p : Prog α} (hp : OnlyCalls (fun c => ∀ k, c ≠ .get k) p) (s : AcceptSt)
    (hs : s.verified = true) : SafeP (acceptMon F a) s p (fun _ _ => True) := by
  induction hp generalizing s with
  | ret a => trivial
  | fail e => trivial
  | panic site => trivial
  | call c k hc _ ih =>
    intro r
    have : ∃ s', (acceptMon F a).step s c r = some s' ∧ s'.verified = true := by
      cases c with
      | get k' => exact absurd rfl (hc k')
      | actorForInbox k' => cases r <;> exact ⟨_, rfl, hs⟩
      | update v => exact ⟨s, by simp [acceptMon, hs], hs⟩
      | _ => exact ⟨s, rfl, hs⟩
    obtain ⟨s', h1, h2⟩ := this
    rw [h1]
    exact ih r s' h2

theorem isPure_needProp (F : TFacts) (site : String) (v : J) (p : String) : isPure (needProp F site v p) = true := by
  unfold needProp; split <;> rfl
theorem isPure_needPropE (F : TFacts) (v : J) (p : String) : isPure (needPropE F v p) = true := by
  unfold needPropE; split <;> rfl
theorem isPure_needVal (site : String) (o : Option J) : isPure (needVal site o) = true := by
  unfold needVal; split <;> rfl

theorem findMe_step_pure (F : TFacts) (site : String) (me : Iri) (found : Bool) (j : J) :
    isPure (if found then (pure true : Prog Bool) else do
      let id ← liftLib (toId F (elemOf F j))
      let id ← strOf site id
      pure (id == me)) = true := by
  split
  · rfl
  · apply isPure_bind (isPure_liftLib _); intro id
    apply isPure_bind (isPure_strOf _ _); intro id
    rfl

theorem findMe_pure (F : TFacts) (site : String) (xs : List J) (me : Iri) : isPure (findMe F site xs me) = true := by
  unfold findMe
  apply isPure_foldlM
  intro found j
  exact findMe_step_pure F site me found j

/-- `findMe` answers yes only if some element's id is `me` -/
theorem findMe_true (F : TFacts) (site : String) (xs : List J) (me : Iri) (init : Bool)
    (h : xs.foldlM (fun (found : Bool) j => do
        if found then pure true else
        let id ← liftLib (toId F (elemOf F j))
        let id ← strOf site id
        pure (id == me)) init = (.ret true : Prog Bool)) :
    init = true ∨ xs.any (idIs F me) = true := by
  induction xs generalizing init with
  | nil => left; simpa using h
  | cons x xs ih =>
    rw [List.foldlM_cons] at h
    cases init with
    | true => left; rfl
    | false =>
      right
      simp only [Bool.false_eq_true, if_false] at h
      cases ht : toId F (elemOf F x) with
      | error e => simp [ht, AV.liftLib] at h
      | ok u =>
        simp only [ht, AV.liftLib, bind_ret] at h
        unfold strOf at h
        by_cases hn : u == nilIri
        · simp [hn] at h
        · simp only [hn, Bool.false_eq_true, if_false, bind_ret] at h
          have h' : xs.foldlM (fun (found : Bool) j => do
              if found then pure true else
              let id ← liftLib (toId F (elemOf F j))
              let id ← strOf site id
              pure (id == me)) (u == me) = (.ret true : Prog Bool) := h
          rcases ih _ h' with h1 | h2
          · simp [List.any_cons, idIs, ht, h1]
          · simp [List.any_cons, h2]


/-- what `acceptVerifyStored` does with the value `Get` returned: no further call -/
def verifyTail (F : TFacts) (actorIRI : Iri) (activityActors : List J) (t : Option J) : Prog Unit := do
  let t ← needVal "accept: IsOrExtends on nil value" t
  if !F.isOrExt "Follow" (typeName t) then Prog.fail .lib else do
    let actors ← needPropE F t "actor"
    let me ← (if actors.isEmpty then pure actorIRI else strOf "accept: actorIRI.String() on nil" actorIRI)
    let ok ← findMe F "accept: id.String() on nil" actors me
    if !ok then Prog.fail .lib else do
      let acceptIds ← idsM F activityActors
      let acceptIds ← strsOf "accept: id.String() on nil" acceptIds
      let followObj ← needPropE F t "object"
      let objIds ← idsM F followObj
      let objIds ← strsOf "accept: id.String() on nil" objIds
      if acceptIds.all objIds.contains then pure () else Prog.fail .lib

theorem acceptVerifyStored_eq (F : TFacts) (followIRI actorIRI : Iri) (aa : List J) :
    acceptVerifyStored F followIRI actorIRI aa = (Op.get followIRI >>= verifyTail F actorIRI aa) := rfl

theorem verifyTail_pure (F : TFacts) (actorIRI : Iri) (aa : List J) (t : Option J) :
    isPure (verifyTail F actorIRI aa t) = true := by
  unfold verifyTail
  apply isPure_bind (isPure_needVal _ _); intro t
  show isPure (if _ then _ else _) = true
  split
  · rfl
  · apply isPure_bind (isPure_needPropE _ _ _); intro actors
    apply isPure_bind
    · show isPure (if _ then _ else _) = true
      split
      · rfl
      · exact isPure_strOf _ _
    intro me
    apply isPure_bind (findMe_pure _ _ _ _); intro ok
    show isPure (if _ then _ else _) = true
    split
    · rfl
    · apply isPure_bind (isPure_liftLib _); intro acceptIds
      apply isPure_bind (isPure_strsOf _ _); intro acceptIds
      apply isPure_bind (isPure_needPropE _ _ _); intro followObj
      apply isPure_bind (isPure_liftLib _); intro objIds
      apply isPure_bind (isPure_strsOf _ _); intro objIds
      show isPure (if _ then _ else _) = true
      split <;> rfl

theorem pure_cases {p : Prog α} (hp : isPure p = true) : (∃ a, p = .ret a) ∨ (∃ e, p = .fail e) ∨ (∃ s, p = .panic s) := by
  cases p with
  | ret a => exact Or.inl ⟨a, rfl⟩
  | fail e => exact Or.inr (Or.inl ⟨e, rfl⟩)
  | panic s => exact Or.inr (Or.inr ⟨s, rfl⟩)
  | call c k => cases hp

/-- the verification lets through only a stored Follow that matches -/
theorem verifyTail_ret (F : TFacts) (actorIRI : Iri) (aa : List J) (t : J)
    (h : verifyTail F actorIRI aa (some t) = .ret ()) :
    ∃ ids, idsOf F aa = .ok ids ∧ storedFollowOk F t actorIRI ids = true := by
  unfold verifyTail at h
  simp only [needVal, bind_ret] at h
  by_cases hf : F.isOrExt "Follow" (typeName t) = true
  · simp only [hf, Bool.not_true, Bool.false_eq_true, if_false] at h
    cases hpa : prop F t "actor" with
    | none => simp [needPropE, hpa] at h
    | some actors =>
      simp only [needPropE, hpa, bind_ret] at h
      -- `me` is the inbox's actor
      have hme : ∀ (k : Iri → Prog Unit),
          ((if actors.isEmpty then (pure actorIRI : Prog Iri) else strOf "accept: actorIRI.String() on nil" actorIRI) >>= k) = .ret () →
          k actorIRI = .ret () := by
        intro k hk
        by_cases he : actors.isEmpty
        · simpa [he] using hk
        · simp only [he, Bool.false_eq_true, if_false] at hk
          unfold strOf at hk
          by_cases hn : actorIRI == nilIri
          · simp [hn] at hk
          · simpa [hn] using hk
      have h2 := hme _ h
      rcases pure_cases (findMe_pure F "accept: id.String() on nil" actors actorIRI) with ⟨b, hb⟩ | ⟨e, hb⟩ | ⟨st, hb⟩
      · rw [hb] at h2
        simp only [bind_ret] at h2
        cases b with
        | false => simp at h2
        | true =>
          simp only [Bool.not_true, Bool.false_eq_true, if_false] at h2
          have hany : actors.any (idIs F actorIRI) = true := by
            rcases findMe_true F _ actors actorIRI false hb with h1 | h1
            · cases h1
            · exact h1
          cases hids : idsOf F aa with
          | error e => simp [idsM, hids, AV.liftLib] at h2
          | ok acceptIds =>
            simp only [idsM, hids, AV.liftLib, bind_ret] at h2
            unfold strsOf at h2
            by_cases hc : nilIri ∈ acceptIds
            · simp [hc] at h2
            · simp only [List.contains_eq_mem, hc, decide_false, Bool.false_eq_true, if_false, bind_ret] at h2
              cases hpo : prop F t "object" with
              | none => simp [hpo] at h2
              | some followObj =>
                simp only [hpo, bind_ret] at h2
                cases hoi : idsOf F followObj with
                | error e => simp [hoi] at h2
                | ok objIds =>
                  simp only [hoi, bind_ret] at h2
                  by_cases hc2 : nilIri ∈ objIds
                  · simp [hc2] at h2
                  · simp only [hc2, decide_false, Bool.false_eq_true, if_false, bind_ret] at h2
                    by_cases hall : acceptIds.all objIds.contains
                    · refine ⟨acceptIds, rfl, ?_⟩
                      simp only [storedFollowOk, hf, hpa, hany, hpo, hoi, hall, Bool.and_self]
                    · simp [hall] at h2
      · rw [hb] at h2; simp at h2
      · rw [hb] at h2; simp at h2
  · simp [hf] at h


theorem valueOrFetch_only (F : TFacts) (box : Iri) (j : J) : OnlyCalls accNeutral (valueOrFetch F box j) := by
  unfold valueOrFetch
  split
  · exact .ret _
  · unfold Op.newTransport Op.deref
    apply OnlyCalls.op _ ⟨(by intro k h; cases h), (by intro k h; cases h), (by intro k h; cases h)⟩
    intro r
    apply OnlyCalls.bind (OnlyCalls.ofE r); intro _
    apply OnlyCalls.op _ ⟨(by intro k h; cases h), (by intro k h; cases h), (by intro k h; cases h)⟩
    intro r2
    apply OnlyCalls.bind (OnlyCalls.ofE r2); intro d
    unfold docVal; split <;> constructor
  · exact .fail _

theorem acceptFindFollow_only (F : TFacts) (box : Iri) (op : List J) (actorIRI : Iri) :
    OnlyCalls accNeutral (acceptFindFollow F box op actorIRI) := by
  unfold acceptFindFollow
  apply OnlyCalls.foldlM
  intro found j
  split
  · exact .ret _
  · apply OnlyCalls.bind (valueOrFetch_only F box j); intro t
    show OnlyCalls accNeutral (if _ then _ else _)
    split
    · exact .ret _
    · apply OnlyCalls.bind (OnlyCalls.of_pure (isPure_liftLib _)); intro followId
      unfold acceptMatchFollow
      split
      · exact .ret _
      · apply OnlyCalls.bind
        · show OnlyCalls accNeutral (if _ then _ else _)
          split
          · exact .ret _
          · exact OnlyCalls.of_pure (isPure_strOf _ _)
        intro me
        apply OnlyCalls.bind (OnlyCalls.of_pure (findMe_pure _ _ _ _)); intro hit
        exact .ret _

theorem acceptUpdateFollowing_noGet (F : TFacts) (actorIRI : Iri) (aa : List J) :
    OnlyCalls (fun c => ∀ k, c ≠ .get k) (acceptUpdateFollowing F actorIRI aa) := by
  unfold acceptUpdateFollowing Op.locked Op.lock Op.unlock Op.following Op.update
  apply OnlyCalls.op _ (by intro k h; cases h); intro r
  apply OnlyCalls.bind (OnlyCalls.ofE r); intro _
  apply OnlyCalls.bind
  · apply OnlyCalls.try_
    apply OnlyCalls.op _ (by intro k h; cases h); intro r
    apply OnlyCalls.bind (OnlyCalls.ofE r); intro following
    apply OnlyCalls.bind (OnlyCalls.of_pure (isPure_liftLib _)); intro ids
    apply OnlyCalls.op _ (by intro k h; cases h); intro r
    exact OnlyCalls.ofE r
  intro res
  apply OnlyCalls.op _ (by intro k h; cases h); intro r
  exact OnlyCalls.bind (.ret _) (fun _ => OnlyCalls.ofE res)

theorem wrappedAfter_safe (F : TFacts) (a : J) (fed : Bool) (cfg : CbConfig) (ty : String) (v : J) (s : AcceptSt) :
    SafeP (acceptMon F a) s (wrappedAfter fed cfg ty v) (fun _ _ => True) := by
  unfold wrappedAfter
  split
  · unfold Op.appCb
    intro r
    show SafeP (acceptMon F a) s _ _
    cases r <;> trivial
  · trivial

theorem lock_neutral (F : TFacts) (a : J) (k : Iri) (s : AcceptSt) (r : (Call.lock k).Resp) : (acceptMon F a).step s (.lock k) r = some s := rfl
theorem unlock_neutral (F : TFacts) (a : J) (k : Iri) (s : AcceptSt) (r : (Call.unlock k).Resp) : (acceptMon F a).step s (.unlock k) r = some s := rfl

/-- **C06 (Accept)**: against every application and whatever the peer sent, the Accept handler updates a
collection only after a `Get` returned a value that is a Follow, has this inbox's actor among its actors and has
every actor of the Accept among its objects. -/
theorem acceptFollow_safe (F : TFacts) (box : Iri) (a : J) (op : List J) :
    SafeP (acceptMon F a) {} (acceptFollow F box a op) (fun _ _ => True) := by
  unfold acceptFollow
  apply SafeP.bind
  -- the inbox's actor is noted
  have h1 : SafeP (acceptMon F a) {} (Op.locked box (Op.actorForInbox box))
      (fun s' o => ∀ u, o = some u → s' = { me := some u, verified := false }) := by
    apply safe_locked (lock_neutral F a box) (unlock_neutral F a box)
    · unfold Op.actorForInbox
      intro r
      cases r with
      | error e =>
        show SafeP (acceptMon F a) ({} : AcceptSt) _ _
        intro u h; cases h
      | ok u =>
        show SafeP (acceptMon F a) ({ me := some u } : AcceptSt) _ _
        intro u' h; cases h; rfl
    · intro u h; cases h
  apply SafeP.mono h1
  intro s1 o hs1
  cases o with
  | none => trivial
  | some actorIRI =>
    have hs := hs1 actorIRI rfl
    subst hs
    -- looking for the Follow among the objects touches nothing the monitor watches
    apply SafeP.bind_frame (SafeP.frame (acc_neutral F a) (acceptFindFollow_only F box op actorIRI) _) _ trivial
    intro maybe
    split
    · trivial
    · rename_i followIRI
      -- the Accept's own actors
      unfold acceptNonEmptyActors
      split
      · trivial
      · trivial
      · rename_i aa _ haa
        show SafeP (acceptMon F a) _ (withLock followIRI (acceptVerifyStored F followIRI actorIRI aa) >>= fun _ =>
          acceptUpdateFollowing F actorIRI aa) _
        apply SafeP.bind
        have h2 : SafeP (acceptMon F a) { me := some actorIRI, verified := false }
            (withLock followIRI (acceptVerifyStored F followIRI actorIRI aa))
            (fun s' o => o.isSome = true → s'.verified = true) := by
          apply safe_withLock (lock_neutral F a followIRI) (unlock_neutral F a followIRI)
          · rw [acceptVerifyStored_eq]
            unfold Op.get
            intro r
            cases r with
            | error e =>
              show SafeP (acceptMon F a) ({ me := some actorIRI, verified := false } : AcceptSt) _ _
              intro h; cases h
            | ok ot =>
              cases ot with
              | none =>
                show SafeP (acceptMon F a) ({ me := some actorIRI, verified := false } : AcceptSt) _ _
                show SafeP (acceptMon F a) _ (verifyTail F actorIRI aa none) _
                exact SafeP.of_pure (verifyTail_pure _ _ _ _) (by intro u h; simp [verifyTail, needVal] at h) (by intro h; cases h)
              | some t =>
                show SafeP (acceptMon F a) ({ me := some actorIRI, verified := (match (some actorIRI : Option Iri), actorIdsOf F a with
                    | some m, some ids => storedFollowOk F t m ids
                    | _, _ => false) } : AcceptSt) (verifyTail F actorIRI aa (some t)) _
                apply SafeP.of_pure (verifyTail_pure _ _ _ _)
                · intro u hu _
                  cases u
                  obtain ⟨ids, hi, hok⟩ := verifyTail_ret F actorIRI aa t hu
                  simp only [actorIdsOf, haa, hi, hok]
                · intro h; cases h
          · intro h; cases h
        apply SafeP.mono h2
        intro s2 o2 hv
        cases o2 with
        | none => trivial
        | some _ => exact verified_safe F a (acceptUpdateFollowing_noGet F actorIRI aa) s2 (hv rfl)

theorem fedAccept_safe (F : TFacts) (cfg : CbConfig) (box : Iri) (a : J) :
    SafeP (acceptMon F a) {} (fedAccept F cfg box a) (fun _ _ => True) := by
  unfold fedAccept
  apply SafeP.bind
  have h : SafeP (acceptMon F a) {} (match prop F a "object" with
      | none => pure ()
      | some [] => pure ()
      | some op => acceptFollow F box a op) (fun _ _ => True) := by
    split
    · trivial
    · trivial
    · exact acceptFollow_safe F box a _
  apply SafeP.mono h
  intro s o _
  cases o with
  | none => trivial
  | some _ => exact wrappedAfter_safe F a true cfg "Accept" a s


/-! ### Undo: every actor of each undone activity must be an actor of the Undo -/

theorem undoTail_pure (F : TFacts) (actorIds : List Iri) (d : Doc) : isPure (undoTail F actorIds d) = true := by
  unfold undoTail
  apply isPure_bind (by unfold docVal; split <;> rfl); intro t
  show isPure (if _ then _ else _) = true
  split
  · rfl
  · apply isPure_bind (by unfold undoObjActors; split <;> rfl); intro xs
    apply isPure_bind (isPure_liftLib _); intro ids
    apply isPure_bind (isPure_strsOf _ _); intro ids
    show isPure (if _ then _ else _) = true
    split <;> rfl

theorem undoTail_ret (F : TFacts) (actorIds : List Iri) (t : J) (h : undoTail F actorIds (.val t) = .ret ()) :
    undoOk F actorIds t = true := by
  unfold undoTail at h
  simp only [docVal, bind_ret] at h
  by_cases hh : has F t "actor" = true
  · simp only [hh, Bool.not_true, Bool.false_eq_true, if_false] at h
    cases hr : rawList t "actor" with
    | none => simp [undoObjActors, hr] at h
    | some xs =>
      simp only [undoObjActors, hr, pure_eq, bind_ret] at h
      cases hi : idsOf F xs with
      | error e => simp [idsM, hi, AV.liftLib] at h
      | ok ids =>
        simp only [idsM, hi, AV.liftLib, bind_ret] at h
        unfold strsOf at h
        by_cases hc : nilIri ∈ ids
        · simp [hc] at h
        · simp only [List.contains_eq_mem, hc, decide_false, Bool.false_eq_true, if_false, bind_ret] at h
          by_cases hall : ids.all actorIds.contains
          · simp only [undoOk, hh, hr, hi, hall, Bool.and_self]
          · simp [hall] at h
  · simp [hh] at h

theorem undoLoop_safe (F : TFacts) (a : J) (fed : Bool) (actorIds : List Iri) (ha : actorIdsOf F a = some actorIds) (box : Iri)
    (op : List J) (s : UndoSt) (hs : s.ok = true) :
    SafeP (undoMon F a fed) s (undoLoop F actorIds box op)
      (fun s' o => o.isSome = true → s'.ok = true ∧ s'.checked = s.checked + op.length) := by
  induction op generalizing s with
  | nil => intro _; exact ⟨hs, rfl⟩
  | cons j op ih =>
    show SafeP (undoMon F a fed) s ((do
      let iri ← liftLib (toId F (elemOf F j))
      Op.newTransport box
      let d ← Op.deref iri
      undoTail F actorIds d) >>= fun _ => undoLoop F actorIds box op) _
    apply SafeP.bind
    cases ht : toId F (elemOf F j) with
    | error e => simp only [AV.liftLib]; intro h; cases h
    | ok iri =>
      simp only [AV.liftLib, bind_ret]
      unfold Op.newTransport Op.deref
      intro r1
      show SafeP (undoMon F a fed) s _ _
      cases r1 with
      | error e => intro h; cases h
      | ok _ =>
        intro r2
        cases r2 with
        | error e => show SafeP (undoMon F a fed) s (Prog.fail e) _; intro h; cases h
        | ok d =>
          cases d with
          | badJson => show SafeP (undoMon F a fed) s (undoTail F actorIds .badJson) _; exact SafeP.of_pure (undoTail_pure _ _ _) (by intro u h; simp [undoTail, docVal] at h) (by intro h; cases h)
          | undecodable b => show SafeP (undoMon F a fed) s (undoTail F actorIds (.undecodable b)) _; exact SafeP.of_pure (undoTail_pure _ _ _) (by intro u h; simp [undoTail, docVal] at h) (by intro h; cases h)
          | val t =>
            show SafeP (undoMon F a fed) ({ checked := s.checked + 1, ok := s.ok && (match actorIdsOf F a with
              | some ids => undoOk F ids t
              | none => false) } : UndoSt) (undoTail F actorIds (.val t)) _
            apply SafeP.of_pure (undoTail_pure _ _ _)
            · intro u hu
              have hok := undoTail_ret F actorIds t hu
              apply SafeP.mono (ih _ (by simp [hs, ha, hok]))
              intro s' o hq hsome
              obtain ⟨h1, h2⟩ := hq hsome
              refine ⟨h1, ?_⟩
              simp only [h2, List.length_cons]; omega
            · intro h; cases h


/-- **C06 (Undo)**: against every application and every peer, the Undo handler reaches the application's Undo
callback only after it fetched every undone activity and found all its actors among the Undo's own actors -/
theorem fedUndo_safe (F : TFacts) (fed : Bool) (cfg : CbConfig) (box : Iri) (a : J) :
    SafeP (undoMon F a fed) {} (fedUndo F fed cfg box a) (fun _ _ => True) := by
  unfold fedUndo requireObject
  split
  · trivial
  · trivial
  · rename_i op _ hop
    simp only [bind_ret]
    unfold mustHaveActivityActorsMatchObjectActors undoActorElems
    cases hact : prop F a "actor" with
    | none => trivial
    | some xs =>
      simp only [pure_eq, bind_ret]
      cases hids : idsOf F xs with
      | error e => simp only [idsM, hids, AV.liftLib]; trivial
      | ok ids =>
        simp only [idsM, hids, AV.liftLib, bind_ret]
        unfold strsOf
        split
        · trivial
        · simp only [bind_ret]
          have ha : actorIdsOf F a = some ids := by simp [actorIdsOf, hact, hids]
          apply SafeP.bind
          apply SafeP.mono (undoLoop_safe F a fed ids ha box op {} rfl)
          intro s o hq
          cases o with
          | none => trivial
          | some _ =>
            obtain ⟨h1, h2⟩ := hq rfl
            show SafeP (undoMon F a fed) s (wrappedAfter fed cfg "Undo" a) (fun _ _ => True)
            unfold wrappedAfter
            split
            · unfold Op.appCb
              intro r
              have : (undoMon F a fed).step s (.appCb fed "Undo" a) r = some s := by
                simp [undoMon, h1, h2, hop]
              rw [this]
              cases r <;> trivial
            · trivial

end AV.Props.C06
