import AV.Props.C16Lists
import AV.Pub.FedCallbacks
import AV.Pub.SocialCallbacks
/-
C04 / C16, value level for a federated Create: whatever the application and the transport answer, every value the
default Create callback hands to `Database.Create` is one of the activity's embedded objects or a document the
transport just returned for one of its objects given by IRI; and the callback never updates or deletes anything.
-/
namespace AV.Props.C04
open AV Prog Pub Val AV.Props.C16

/-- a `Create` must carry an embedded object of the activity or a value fetched before; no `Update`, no `Delete` -/
@[reducible] def createMon (embs : List J) : Mon where
  S := List J
  step s c r :=
    match c, r with
    | .deref _, .ok (.val d) => some (d :: s)
    | .create v, _ => if embs.contains v || s.contains v then some s else none
    | .update _, _ => none
    | .delete _, _ => none
    | _, _ => some s

/-- the monitor is not vacuous: it rejects a `Create` of a value that is neither an embedded object nor fetched, and
any `Update` / `Delete`; it accepts the `Create` of a value the transport has just returned -/
example : (createMon []).step [] (.create (.str "x")) (.ok ()) = none := rfl
example : (createMon []).step [] (.update (.str "x")) (.ok ()) = none := rfl
example : (createMon []).step [] (.delete "k") (.ok ()) = none := rfl
example : (createMon []).step [.str "x"] (.create (.str "x")) (.ok ()) = some [.str "x"] := by simp [createMon, J.beq_self]

abbrev Cr (embs : List J) (s : List J) (p : Prog α) : Prop := SafeP (createMon embs) s p (fun _ _ => True)

/-- calls the monitor does not look at -/
def crQuiet (c : Call) : Prop :=
  (∀ u, c ≠ .deref u) ∧ (∀ v, c ≠ .create v) ∧ (∀ v, c ≠ .update v) ∧ (∀ k, c ≠ .delete k)

theorem createMon_crQuiet (embs : List J) (c : Call) (hc : crQuiet c) (s : List J) (r : c.Resp) :
    (createMon embs).step s c r = some s := by
  obtain ⟨h1, h2, h3, h4⟩ := hc
  cases c <;> simp_all [createMon]

theorem Cr.of_quiet {embs s} {p : Prog α} (hp : OnlyCalls crQuiet p) : Cr embs s p :=
  SafeP.mono (SafeP.frame (M := createMon embs) (P := crQuiet) (fun c hc s r => createMon_crQuiet embs c hc s r) hp s)
    (fun _ _ _ => trivial)

theorem Cr.quiet_bind {embs s} {p : Prog α} {k : α → Prog β} (hp : OnlyCalls crQuiet p)
    (hk : ∀ a, Cr embs s (k a)) : Cr embs s (p >>= k) :=
  SafeP.bind_frame (M := createMon embs)
    (SafeP.frame (M := createMon embs) (P := crQuiet) (fun c hc s r => createMon_crQuiet embs c hc s r) hp s) hk trivial

theorem Cr.pure_bind {embs s} {p : Prog α} {k : α → Prog β} (hp : isPure p = true)
    (hk : ∀ a, Cr embs s (k a)) : Cr embs s (p >>= k) := Cr.quiet_bind (OnlyCalls.of_pure hp) hk

private theorem q4 {c : Call} (h1 : ∀ u, c ≠ .deref u) (h2 : ∀ v, c ≠ .create v) (h3 : ∀ v, c ≠ .update v)
    (h4 : ∀ k, c ≠ .delete k) : crQuiet c := ⟨h1, h2, h3, h4⟩

theorem lock_crQuiet (t : Iri) : OnlyCalls crQuiet (Op.lock t) :=
  OnlyCalls.op _ (q4 (by intro k h; cases h) (by intro k h; cases h) (by intro k h; cases h) (by intro k h; cases h)) _
    (fun r => OnlyCalls.ofE r)
theorem unlock_crQuiet (t : Iri) : OnlyCalls crQuiet (Op.unlock t) :=
  OnlyCalls.op _ (q4 (by intro k h; cases h) (by intro k h; cases h) (by intro k h; cases h) (by intro k h; cases h)) _
    (fun _ => .ret ())
theorem newTransport_crQuiet (b : Iri) : OnlyCalls crQuiet (Op.newTransport b) :=
  OnlyCalls.op _ (q4 (by intro k h; cases h) (by intro k h; cases h) (by intro k h; cases h) (by intro k h; cases h)) _
    (fun r => OnlyCalls.ofE r)
theorem wrappedAfter_crQuiet (fed : Bool) (cfg : CbConfig) (ty : String) (a : J) : OnlyCalls crQuiet (wrappedAfter fed cfg ty a) := by
  unfold wrappedAfter
  split
  · exact OnlyCalls.op _ (q4 (by intro k h; cases h) (by intro k h; cases h) (by intro k h; cases h) (by intro k h; cases h)) _
      (fun r => OnlyCalls.ofE r)
  · exact .ret ()

/-- `Create(t)` of an allowed value, under the lock of its id -/
theorem Cr.lockedCreate {embs s} (id : Iri) (t : J) (h : (embs.contains t || s.contains t) = true) :
    Cr embs s (withLock id (Op.create t)) := by
  unfold Pub.withLock
  apply Cr.quiet_bind (lock_crQuiet id)
  intro _
  apply SafeP.finally_
  unfold Op.create
  intro r
  have hstep : (createMon embs).step s (.create t) r = some s := by
    simp only [createMon, h, if_true]
  rw [hstep]
  have hu : ∀ (o : Option Unit), SafeP (createMon embs) s (Op.unlock id) (fun s'' o' => match o' with
      | some _ => (fun _ _ => True) s'' o
      | none => (fun _ _ => True) s'' (none : Option Unit)) := by
    intro o
    apply SafeP.mono (Cr.of_quiet (embs := embs) (s := s) (unlock_crQuiet id))
    intro _ o' _
    cases o' <;> trivial
  cases r with
  | ok u => exact hu (some u)
  | error e => exact hu none

theorem isPure_liftLib (x : Except Unit α) : isPure (liftLib x) = true := by
  unfold liftLib; cases x <;> rfl

theorem bind_assoc' (p : Prog α) (f : α → Prog β) (g : β → Prog γ) :
    ((p >>= f) >>= g) = (p >>= fun a => f a >>= g) := by
  induction p with
  | ret a => rfl
  | fail e => rfl
  | panic s => rfl
  | call c k ih =>
    show Prog.call c (fun r => (k r >>= f) >>= g) = Prog.call c (fun r => k r >>= fun a => f a >>= g)
    congr
    funext r
    exact ih r

section
variable (F : TFacts)

/-- the embedded objects of an object list -/
def embsOf (op : List J) : List J :=
  op.filterMap fun j => match elemOf F j with | .emb t => some t | _ => none

theorem embsOf_contains (op : List J) (j : J) (t : J) (hj : j ∈ op) (he : elemOf F j = .emb t) :
    (embsOf F op).contains t = true := by
  rw [List.contains_iff_exists_mem_beq]
  refine ⟨t, ?_, J.beq_self t⟩
  unfold embsOf
  rw [List.mem_filterMap]
  exact ⟨j, hj, by rw [he]⟩

/-- one element of the loop of `fedCreate` -/
def createOne (box : Iri) (j : J) : Prog Unit := do
  let t ← valueOrFetch F box j
  let id ← liftLib (getId F t)
  withLock id (Op.create t)

theorem createOne_ok (embs : List J) (box : Iri) (j : J) (hj : ∀ t, elemOf F j = .emb t → embs.contains t = true) (s : List J) :
    Cr embs s (createOne F box j) := by
  unfold createOne valueOrFetch
  cases he : elemOf F j with
  | emb t =>
    show Cr embs s (liftLib (getId F t) >>= fun id => withLock id (Op.create t))
    apply Cr.pure_bind (isPure_liftLib _)
    intro id
    apply Cr.lockedCreate
    rw [hj t he]; rfl
  | other o => trivial
  | iri u =>
    show Cr embs s ((Op.newTransport box >>= fun _ => Op.deref u >>= fun d => docVal d) >>= fun t =>
      liftLib (getId F t) >>= fun id => withLock id (Op.create t))
    rw [bind_assoc']
    apply Cr.quiet_bind (newTransport_crQuiet box)
    intro _
    rw [bind_assoc']
    unfold Op.deref
    intro r
    cases r with
    | error e => trivial
    | ok d =>
      cases d with
      | badJson => trivial
      | undecodable b => trivial
      | val dv =>
        show Cr embs (dv :: s) (liftLib (getId F dv) >>= fun id => withLock id (Op.create dv))
        apply Cr.pure_bind (isPure_liftLib _)
        intro id
        apply Cr.lockedCreate
        have : (dv :: s).contains dv = true := by
          rw [List.contains_cons]; simp [J.beq_self]
        rw [this]; simp

theorem forM_ok (embs : List J) (f : J → Prog Unit) :
    ∀ (xs : List J), (∀ x ∈ xs, ∀ s, Cr embs s (f x)) → ∀ s, Cr embs s (xs.forM f) := by
  intro xs
  induction xs with
  | nil => intro _ s; trivial
  | cons x xs ih =>
    intro h s
    show Cr embs s (f x >>= fun _ => xs.forM f)
    apply SafeP.bind
    apply SafeP.mono (h x (List.mem_cons_self ..) s)
    intro s' o _
    cases o with
    | none => trivial
    | some _ => exact ih (fun y hy => h y (List.mem_cons_of_mem _ hy)) s'

/-- **federated Create, value level**: whatever the application and the transport answer, every value handed to
`Database.Create` is an embedded object of the activity or a document the transport returned before; nothing is updated
or deleted; the wrapped callback writes nothing -/
theorem fedCreate_writes (cfg : CbConfig) (box : Iri) (a : J) :
    Cr (embsOf F ((prop F a "object").getD [])) [] (fedCreate F cfg box a) := by
  unfold fedCreate requireObject
  cases hp : prop F a "object" with
  | none => trivial
  | some op =>
    cases op with
    | nil => trivial
    | cons x xs =>
      show Cr _ [] ((x :: xs).forM (createOne F box) >>= fun _ => wrappedAfter true cfg "Create" a)
      apply SafeP.bind
      apply SafeP.mono (forM_ok (embsOf F (x :: xs)) (createOne F box) (x :: xs) (fun j hj s =>
        createOne_ok F _ box j (fun t he => embsOf_contains F (x :: xs) j t hj he) s) [])
      intro s' o _
      cases o with
      | none => trivial
      | some _ => exact Cr.of_quiet (wrappedAfter_crQuiet _ _ _ _)

end
end AV.Props.C04
