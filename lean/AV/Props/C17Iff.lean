import AV.Props.C17Search
/-
C17, "if and only if" as one statement about `InboxForwarding`: against an application without lock / transport /
store faults that answers from fixed tables (has this activity been seen, who owns what, what is stored, the federation
graph), the activity is handed to the transport exactly when it is new, some addressed to/cc/audience value is an owned
Collection / OrderedCollection, and the owned-value search succeeds.
-/
namespace AV.Props.C17
open AV Prog Pub Val AV.Spec.C17 AV.Props.C02

section
variable (F : TFacts) {ans : (c : Call) → c.Resp}

/-- does the deterministic run hand anything to the transport? -/
def deliversD (ans : (c : Call) → c.Resp) (p : Prog α) : Bool := (callsD ans p).any Call.isBatchDeliver

theorem deliversD_bind (p : Prog α) (f : α → Prog β) :
    deliversD ans (p >>= f) = (deliversD ans p || (match runD ans p with
      | .ret a => deliversD ans (f a)
      | _ => false)) := by
  unfold deliversD
  rw [callsD_bind, List.any_append]
  cases runD ans p <;> simp

theorem callsD_try (p : Prog α) : callsD ans (Prog.try_ p) = callsD ans p := by
  induction p with
  | ret a => rfl
  | fail e => rfl
  | panic s => rfl
  | call c k ih =>
    show c :: callsD ans (Prog.try_ (k (ans c))) = c :: callsD ans (k (ans c))
    rw [ih (ans c)]

theorem callsD_finally (p : Prog α) (q : Prog Unit) : callsD ans (Prog.finally_ p q) =
    callsD ans p ++ (match runD ans p with
      | .panic _ => []
      | _ => callsD ans q) := by
  induction p with
  | ret a =>
    show callsD ans (q >>= fun _ => Prog.ret a) = _
    rw [callsD_bind]
    cases runD ans q <;> simp
  | fail e =>
    show callsD ans (q >>= fun _ => (Prog.fail e : Prog α)) = _
    rw [callsD_bind]
    cases runD ans q <;> simp
  | panic s => rfl
  | call c k ih =>
    show c :: callsD ans (Prog.finally_ (k (ans c)) q) = c :: callsD ans (k (ans c)) ++ _
    rw [ih (ans c)]
    rfl

theorem deliversD_ret (a : α) : deliversD ans (Prog.ret a) = false := rfl
theorem deliversD_pure (a : α) : deliversD ans (pure a : Prog α) = false := rfl
theorem deliversD_fail (e : Err) : deliversD ans (Prog.fail e : Prog α) = false := rfl
theorem deliversD_panic (s : String) : deliversD ans (Prog.panic s : Prog α) = false := rfl

theorem deliversD_lock (k : Iri) : deliversD ans (Op.lock k) = false := by
  unfold deliversD Op.lock
  show (Call.lock k :: callsD ans (Op.ofE (ans (.lock k)))).any _ = false
  cases ans (.lock k) <;> rfl

theorem deliversD_unlock (k : Iri) : deliversD ans (Op.unlock k) = false := rfl

/-- `Lock; body; Unlock` hands over exactly what the body does -/
theorem deliversD_locked (hc : Calm ans) (k : Iri) (body : Prog α) :
    deliversD ans (Op.locked k body) = deliversD ans body := by
  have hl : runD ans (Op.lock k) = .ret () := by
    show runD ans (Op.ofE (ans (.lock k))) = _
    rw [hc.lock]; rfl
  unfold Op.locked
  rw [deliversD_bind, deliversD_lock, hl]
  simp only [Bool.false_or]
  rw [deliversD_bind]
  have htry : deliversD ans (Prog.try_ body) = deliversD ans body := by
    unfold deliversD; rw [callsD_try]
  rw [htry, runD_try]
  have hu : runD ans (Op.unlock k) = .ret () := rfl
  cases hb : runD ans body with
  | ret a =>
    simp only
    rw [deliversD_bind, deliversD_unlock, hu]
    show (deliversD ans body || (false || deliversD ans (Op.ofE (Except.ok a)))) = _
    simp [deliversD, Op.ofE]
  | fail e =>
    simp only
    rw [deliversD_bind, deliversD_unlock, hu]
    show (deliversD ans body || (false || deliversD ans (Op.ofE (Except.error e : E α)))) = _
    simp [deliversD, Op.ofE]
  | panic s => simp


/-- the owned collections the load loop ends up with (ids already loaded are skipped; a stored value that is not a
collection is let go) -/
def loadAll (F : TFacts) (ans : (c : Call) → c.Resp) : List Iri → List (Iri × J) → List (Iri × J)
  | [], cols => cols
  | iri :: rest, cols =>
    if cols.any (·.1 == iri) then loadAll F ans rest cols else
    match ans (.get iri) with
    | .ok (some t) =>
      if F.isOrExt "OrderedCollection" (typeName t) || F.isOrExt "Collection" (typeName t) then loadAll F ans rest (cols ++ [(iri, t)])
      else loadAll F ans rest cols
    | _ => cols

theorem deliversD_get (k : Iri) : deliversD ans (Op.get k) = false := by
  unfold deliversD Op.get
  show (Call.get k :: callsD ans (Op.ofE (ans (.get k)))).any _ = false
  cases ans (.get k) <;> rfl

/-- the load loop hands over exactly what its continuation does, called with `loadAll` -/
theorem fwdLoad_delivers {α : Type} (hc : Calm ans) (k : List (Iri × J) → Prog α) :
    ∀ (iris : List Iri) (cols : List (Iri × J)), (∀ iri ∈ iris, ∃ t, ans (.get iri) = .ok (some t)) →
      deliversD ans (fwdLoad F iris cols k) = deliversD ans (k (loadAll F ans iris cols)) := by
  intro iris
  induction iris with
  | nil => intro cols _; rfl
  | cons iri rest ih =>
    intro cols hget
    have hrest : ∀ u ∈ rest, ∃ t, ans (.get u) = .ok (some t) := fun u hu => hget u (List.mem_cons_of_mem _ hu)
    obtain ⟨t, ht⟩ := hget iri List.mem_cons_self
    unfold fwdLoad loadAll
    split
    · exact ih cols hrest
    · have hl : runD ans (Op.lock iri) = .ret () := by
        show runD ans (Op.ofE (ans (.lock iri))) = _
        rw [hc.lock]; rfl
      rw [deliversD_bind, deliversD_lock, hl]
      simp only [Bool.false_or]
      rw [deliversD_bind]
      have htry : deliversD ans (Prog.try_ (Op.get iri)) = false := by
        unfold deliversD; rw [callsD_try]; exact deliversD_get iri
      have hrun : runD ans (Prog.try_ (Op.get iri)) = .ret (.ok (some t)) := by
        rw [runD_try]
        have : runD ans (Op.get iri) = .ret (some t) := by
          show runD ans (Op.ofE (ans (.get iri))) = _
          rw [ht]; rfl
        rw [this]
      rw [htry, hrun, ht]
      simp only [Bool.false_or]
      split
      · -- a collection: stays locked until the continuation is done
        unfold deliversD
        rw [callsD_finally, List.any_append]
        have : (match runD ans (fwdLoad F rest (cols ++ [(iri, t)]) k) with
            | .panic _ => ([] : List Call)
            | _ => callsD ans (Op.unlock iri)).any Call.isBatchDeliver = false := by
          cases runD ans (fwdLoad F rest (cols ++ [(iri, t)]) k) <;> rfl
        rw [this, Bool.or_false]
        exact ih (cols ++ [(iri, t)]) hrest
      · rw [deliversD_bind, deliversD_unlock]
        have hu : runD ans (Op.unlock iri) = .ret () := rfl
        rw [hu]
        simp only [Bool.false_or]
        exact ih cols hrest


theorem deliversD_call (c : Call) (hcd : c.isBatchDeliver = false) (k : c.Resp → Prog α)
    (hk : deliversD ans (k (ans c)) = false) : deliversD ans (.call c k) = false := by
  unfold deliversD at hk ⊢
  show (c :: callsD ans (k (ans c))).any _ = false
  simp only [List.any_cons, hcd, Bool.false_or]
  exact hk

theorem deliversD_ofE (r : E α) : deliversD ans (Op.ofE r) = false := by cases r <;> rfl

theorem deliversD_foldlM_false {β σ : Type} (f : σ → β → Prog σ) (hf : ∀ s x, deliversD ans (f s x) = false) :
    ∀ (xs : List β) (init : σ), deliversD ans (xs.foldlM f init) = false := by
  intro xs
  induction xs with
  | nil => intro init; rfl
  | cons x xs ih =>
    intro init
    rw [List.foldlM_cons, deliversD_bind, hf init x]
    cases runD ans (f init x) with
    | ret s => simpa using ih s
    | fail e => rfl
    | panic s => rfl

/-- the ownership loop keeps exactly the owned ids, in order -/
theorem runD_filterLoop (owns : Iri → Bool) (f : List Iri → Iri → Prog (List Iri))
    (us : List Iri) (hf : ∀ acc, ∀ u ∈ us, runD ans (f acc u) = .ret (if owns u then acc ++ [u] else acc))
    (acc : List Iri) : runD ans (us.foldlM f acc) = .ret (acc ++ us.filter owns) := by
  induction us generalizing acc with
  | nil => simp
  | cons u us ih =>
    rw [List.foldlM_cons, runD_bind, hf acc u List.mem_cons_self]
    simp only [Outcome.bindD]
    rw [ih (fun acc v hv => hf acc v (List.mem_cons_of_mem _ hv))]
    cases h : owns u <;> simp [h]

/-- the ids the forwarding stage looks at: those of to, cc and audience -/
def addressed3 (F : TFacts) (a : J) : Option (List Iri) := ["to", "cc", "audience"].foldl (addrStep F a) (some [])

/-- **C17 (if and only if)**: against an application without lock / transport faults that answers from fixed tables,
`InboxForwarding` hands the activity to the transport exactly when the activity is new, an addressed to/cc/audience
value is an owned Collection or OrderedCollection (`cols` non-empty), and the owned-value search succeeds (`b`, which
is `ownsValueSpec` by `hasIFV_det`); an activity seen before is never handed over -/
theorem inboxForwarding_iff (hc : Calm ans) (box : Iri) (a : J) (hid : idState a ≠ .absent)
    (rs : List Iri) (hrs : addressed3 F a = some rs)
    (howns : ∀ u ∈ rs, ∃ bb, ans (.owns u) = .ok bb)
    (hget : ∀ u ∈ rs.filter (ownsOf ans), ∃ t, ans (.get u) = .ok (some t))
    (md : Int) (hdepth : ans .maxFwdDepth = md) (b : Bool)
    (hsearch : runD ans (hasInboxForwardingValues F box md (fwdFuel md) 0 a) = .ret b)
    (hmem : ∀ x ∈ loadAll F ans (rs.filter (ownsOf ans)) [], members F x.2 ≠ none)
    (toSend : List Iri)
    (hfilter : ans (.filterForwarding ((loadAll F ans (rs.filter (ownsOf ans)) []).map (·.1)) a) = .ok toSend) :
    (ans (.exists_ (idGet a)) = .ok false → ans (.create a) = .ok () →
      deliversD ans (inboxForwarding F box a) = (!(loadAll F ans (rs.filter (ownsOf ans)) []).isEmpty && b)) ∧
    (ans (.exists_ (idGet a)) = .ok true → deliversD ans (inboxForwarding F box a) = false) := by
  have hidget : runD ans (activityIdGet "InboxForwarding: id.Get()" a) = .ret (idGet a) := by
    unfold activityIdGet
    cases hs : idState a with
    | absent => exact absurd hs hid
    | _ => rfl
  have hidcalls : deliversD ans (activityIdGet "InboxForwarding: id.Get()" a) = false := by
    unfold activityIdGet
    cases idState a <;> rfl
  constructor
  · intro hex hcr
    unfold inboxForwarding
    rw [deliversD_bind, hidcalls, hidget]
    simp only [Bool.false_or]
    rw [deliversD_bind, deliversD_locked hc, runD_locked hc]
    -- the seen-test: Exists says no, Create succeeds
    have hseenRun : runD ans (do
        let ex ← Op.exists_ (idGet a)
        if ex then pure true else do
          Op.create a
          pure false) = .ret false := by
      rw [runD_bind]
      have : runD ans (Op.exists_ (idGet a)) = .ret false := by
        show runD ans (Op.ofE (ans (.exists_ (idGet a)))) = _
        rw [hex]; rfl
      rw [this]
      simp only [Outcome.bindD, Bool.false_eq_true, if_false]
      rw [runD_bind]
      have : runD ans (Op.create a) = .ret () := by
        show runD ans (Op.ofE (ans (.create a))) = _
        rw [hcr]; rfl
      rw [this]; rfl
    have hseenCalls : deliversD ans (do
        let ex ← Op.exists_ (idGet a)
        if ex then pure true else do
          Op.create a
          pure false) = false := by
      rw [deliversD_bind]
      have h1 : deliversD ans (Op.exists_ (idGet a)) = false := deliversD_call _ rfl _ (deliversD_ofE _)
      have h2 : runD ans (Op.exists_ (idGet a)) = .ret false := by
        show runD ans (Op.ofE (ans (.exists_ (idGet a)))) = _
        rw [hex]; rfl
      rw [h1, h2]
      simp only [Bool.false_or, Bool.false_eq_true, if_false]
      rw [deliversD_bind]
      have h3 : deliversD ans (Op.create a) = false := deliversD_call _ rfl _ (deliversD_ofE _)
      rw [h3]
      cases runD ans (Op.create a) <;> rfl
    rw [hseenCalls, hseenRun]
    simp only [Bool.false_or, Bool.false_eq_true, if_false]
    -- the addressed ids
    rw [deliversD_bind]
    rw [runD_addressed_from F a]
    case hf =>
      intro acc p
      unfold addrStep
      cases hp : prop F a p with
      | none => rfl
      | some xs =>
        cases hx : idsOf F xs with
        | ok ids => simp [idsM, hx, AV.liftLib]
        | error e => simp [idsM, hx, AV.liftLib]
    have hrs' : ["to", "cc", "audience"].foldl (addrStep F a) (some []) = some rs := hrs
    rw [hrs']
    rw [deliversD_foldlM_false]
    case hf =>
      intro s x
      cases prop F a x with
      | none => rfl
      | some xs =>
        simp only
        rw [deliversD_bind]
        have : deliversD ans (idsM F xs) = false := by
          unfold idsM AV.liftLib; cases idsOf F xs <;> rfl
        rw [this]
        cases runD ans (idsM F xs) <;> rfl
    simp only [Bool.false_or]
    -- which of them are owned
    rw [deliversD_bind]
    have hownsRun : ∀ u ∈ rs, runD ans (Op.locked u (Op.owns u)) = .ret (ownsOf ans u) := by
      intro u hu
      rw [runD_locked hc]
      obtain ⟨bb, hbb⟩ := howns u hu
      show runD ans (Op.ofE (ans (.owns u))) = _
      unfold ownsOf
      rw [hbb]; rfl
    rw [runD_filterLoop (ownsOf ans) _ rs]
    case hf =>
      intro acc u hu
      rw [runD_bind, hownsRun u hu]
      rfl
    rw [deliversD_foldlM_false]
    case hf =>
      intro s x
      rw [deliversD_bind, deliversD_locked hc]
      have : deliversD ans (Op.owns x) = false := deliversD_call _ rfl _ (deliversD_ofE _)
      rw [this]
      cases runD ans (Op.locked x (Op.owns x)) <;> rfl
    simp only [Bool.false_or, List.nil_append]
    -- load the owned collections; then the search decides
    rw [fwdLoad_delivers F hc _ _ _ hget]
    have hal := afterLoad_delivers F hc box a (loadAll F ans (rs.filter (ownsOf ans)) [])
    cases hemp : (loadAll F ans (rs.filter (ownsOf ans)) []).isEmpty with
    | true => simp only [hemp, if_true, Bool.not_true, Bool.false_and]; rfl
    | false =>
      have := hal hemp hmem md hdepth b hsearch toSend hfilter
      rw [hemp] at this
      simp only [Bool.not_false, Bool.true_and]
      exact this
  · intro hex
    unfold inboxForwarding
    rw [deliversD_bind, hidcalls, hidget]
    simp only [Bool.false_or]
    rw [deliversD_bind, deliversD_locked hc, runD_locked hc]
    have h2 : runD ans (Op.exists_ (idGet a)) = .ret true := by
      show runD ans (Op.ofE (ans (.exists_ (idGet a)))) = _
      rw [hex]; rfl
    have hseenRun : runD ans (do
        let ex ← Op.exists_ (idGet a)
        if ex then pure true else do
          Op.create a
          pure false) = .ret true := by
      rw [runD_bind, h2]; rfl
    have hseenCalls : deliversD ans (do
        let ex ← Op.exists_ (idGet a)
        if ex then pure true else do
          Op.create a
          pure false) = false := by
      rw [deliversD_bind]
      have h1 : deliversD ans (Op.exists_ (idGet a)) = false := deliversD_call _ rfl _ (deliversD_ofE _)
      rw [h1, h2]; rfl
    rw [hseenCalls, hseenRun]
    rfl

/-- the same with the third condition spelled out: some inReplyTo/object/target/tag value within the configured depth
of the federation graph is owned -/
theorem inboxForwarding_iff_spec (hc : Calm ans) (box : Iri) (a : J) (hid : idState a ≠ .absent)
    (rs : List Iri) (hrs : addressed3 F a = some rs)
    (howns : ∀ u ∈ rs, ∃ bb, ans (.owns u) = .ok bb)
    (hget : ∀ u ∈ rs.filter (ownsOf ans), ∃ t, ans (.get u) = .ok (some t))
    (md : Int) (hdepth : ans .maxFwdDepth = md) (hmd : md > 0) (b : Bool)
    (hsearch : runD ans (hasInboxForwardingValues F box md (fwdFuel md) 0 a) = .ret b)
    (hmem : ∀ x ∈ loadAll F ans (rs.filter (ownsOf ans)) [], members F x.2 ≠ none)
    (toSend : List Iri)
    (hfilter : ans (.filterForwarding ((loadAll F ans (rs.filter (ownsOf ans)) []).map (·.1)) a) = .ok toSend)
    (hex : ans (.exists_ (idGet a)) = .ok false) (hcr : ans (.create a) = .ok ()) :
    deliversD ans (inboxForwarding F box a) =
      (!(loadAll F ans (rs.filter (ownsOf ans)) []).isEmpty &&
        ownsValueSpec F (graph ans) (ownsOf ans) md.toNat a) := by
  have hb := hasIFV_det F hc box md hmd (fwdFuel md) 0 a b (by omega) hsearch
  rw [Nat.sub_zero] at hb
  rw [(inboxForwarding_iff F hc box a hid rs hrs howns hget md hdepth b hsearch hmem toSend hfilter).1 hex hcr, hb]

end
end AV.Props.C17
