import AV.Lemmas.Frame
import AV.Lemmas.JsonLemmas
import AV.Lemmas.LockRules
import AV.Spec.C17
import AV.Props.C06
/-
C17 — Inbox forwarding happens only under its three conditions, once, unchanged.
-/
namespace AV.Props.C17
open AV Prog Pub Val AV.Spec.C17
open AV.Props.C06 (safe_locked isPure_liftLib isPure_strOf isPure_strsOf pure_cases)

/-- frame rule with a state invariant: calls that leave every state satisfying `Inv` alone -/
theorem frame_inv {M : Mon} {P : Call → Prop} {Inv : M.S → Prop} {p : Prog α}
    (hn : ∀ c, P c → ∀ s r, Inv s → M.step s c r = some s) (hp : OnlyCalls P p) (s : M.S) (hs : Inv s) :
    SafeP M s p (fun s' _ => s' = s) := by
  induction hp with
  | ret a => rfl
  | fail e => rfl
  | panic site => trivial
  | call c k hc _ ih =>
    intro r
    rw [hn c hc s r hs]
    exact ih r

variable (F : TFacts) (a : J)

theorem lock_n (k : Iri) (s : FwdSt) (r : (Call.lock k).Resp) : (fwdMon F a).step s (.lock k) r = some s := rfl
theorem unlock_n (k : Iri) (s : FwdSt) (r : (Call.unlock k).Resp) : (fwdMon F a).step s (.unlock k) r = some s := rfl

/-! ### the owned-value search -/

/-- the monitor state during the search: everything fixed but `ownedVal` -/
def st (cols : List (Iri × J)) (b : Bool) : FwdSt :=
  { fresh := true, creates := 1, recorded := true, searching := true, ownedVal := b, loaded := cols }

/-- from search state `b`: the state stays a search state, `ownedVal` never falls back, and a result that is
`good` means an owned value was found -/
def Hv (cols : List (Iri × J)) (b : Bool) (p : Prog α) (good : α → Bool) : Prop :=
  SafeP (fwdMon F a) (st cols b) p (fun s' o => ∃ b', s' = st cols b' ∧ (b = true → b' = true) ∧
    (∀ x, o = some x → good x = true → b' = true))

theorem Hv.seq {cols : List (Iri × J)} {b : Bool} {p : Prog α} {f : α → Prog β} {g1 : α → Bool} {g2 : β → Bool}
    (hp : Hv F a cols b p g1)
    (hf : ∀ x b', (b = true → b' = true) → (g1 x = true → b' = true) → Hv F a cols b' (f x) g2) :
    Hv F a cols b (p >>= f) g2 := by
  apply SafeP.bind
  apply SafeP.mono hp
  intro s' o ⟨b', hs, hmono, hgood⟩
  subst hs
  cases o with
  | none => exact ⟨b', rfl, hmono, by intro x h; cases h⟩
  | some x =>
    apply SafeP.mono (hf x b' hmono (hgood x rfl))
    intro s'' o' ⟨b'', hs', hm', hg'⟩
    exact ⟨b'', hs', fun h => hm' (hmono h), hg'⟩

theorem Hv.retv {cols : List (Iri × J)} {b : Bool} (x : α) (good : α → Bool) (h : good x = true → b = true) :
    Hv F a cols b (pure x : Prog α) good :=
  ⟨b, rfl, id, by intro y hy hg; cases hy; exact h hg⟩

theorem Hv.of_pure {cols : List (Iri × J)} {b : Bool} {p : Prog α} (good : α → Bool) (hp : isPure p = true)
    (h : ∀ x, p = .ret x → good x = true → b = true) : Hv F a cols b p good := by
  apply SafeP.of_pure hp
  · intro x hx; exact ⟨b, rfl, id, by intro y hy hg; cases hy; exact h x hx hg⟩
  · exact ⟨b, rfl, id, by intro y hy; cases hy⟩

/-- `Lock(iri); Owns(iri); Unlock(iri)` during the search -/
theorem Hv.ownsLocked {cols : List (Iri × J)} {b : Bool} (iri : Iri) : Hv F a cols b (Op.locked iri (Op.owns iri)) id := by
  apply safe_locked (lock_n F a iri) (unlock_n F a iri)
  · unfold Op.owns
    intro r
    cases r with
    | error e => exact ⟨b, rfl, id, by intro y hy; cases hy⟩
    | ok ans =>
      cases ans with
      | false => exact ⟨b, rfl, id, by intro y hy hg; cases hy; cases hg⟩
      | true => exact ⟨true, rfl, fun _ => rfl, fun _ _ _ => rfl⟩
  · exact ⟨b, rfl, id, by intro y hy; cases hy⟩

/-- the "already found, or look at the next one" folds -/
theorem Hv.foundFold {β : Type} {cols : List (Iri × J)} (body : β → Prog Bool) (hb : ∀ x b, Hv F a cols b (body x) id) :
    ∀ (xs : List β) (b init : Bool), (init = true → b = true) →
      Hv F a cols b (xs.foldlM (fun (found : Bool) x => if found then pure true else body x) init) id := by
  intro xs
  induction xs with
  | nil => intro b init h; exact Hv.retv F a init id h
  | cons x xs ih =>
    intro b init h
    rw [List.foldlM_cons]
    apply Hv.seq F a (g1 := id)
    · cases init with
      | true => exact Hv.retv F a true id h
      | false => exact hb x b
    · intro y b' _ hg
      exact ih b' y hg


/-- a plain accumulating fold during the search -/
theorem Hv.plainFold {β σ : Type} {cols : List (Iri × J)} (f : σ → β → Prog σ) (hf : ∀ acc x b, Hv F a cols b (f acc x) (fun _ => false)) :
    ∀ (xs : List β) (init : σ) (b : Bool), Hv F a cols b (xs.foldlM f init) (fun _ => false) := by
  intro xs
  induction xs with
  | nil => intro init b; exact Hv.retv F a init _ (by intro h; cases h)
  | cons x xs ih =>
    intro init b
    rw [List.foldlM_cons]
    exact Hv.seq F a (hf init x b) (fun y b' _ _ => ih y b')

/-- a call the monitor does not react to during the search -/
theorem Hv.neutralCall {cols : List (Iri × J)} {b : Bool} (c : Call) (k : c.Resp → Prog α) (good : α → Bool)
    (hn : ∀ r, (fwdMon F a).step (st cols b) c r = some (st cols b)) (hk : ∀ r, Hv F a cols b (k r) good) :
    Hv F a cols b (.call c k) good := by
  intro r
  rw [hn r]
  exact hk r

/-- **the owned-value search**: it answers yes only after some `Owns` answered yes -/
theorem hasIFV_Hv (cols : List (Iri × J)) (box : Iri) (maxDepth : Int) :
    ∀ (fuel cur : Nat) (v : J) (b : Bool), Hv F a cols b (hasInboxForwardingValues F box maxDepth fuel cur v) id := by
  intro fuel
  induction fuel with
  | zero => intro cur v b; unfold hasInboxForwardingValues; exact trivial
  | succ n ih =>
    intro cur v b
    unfold hasInboxForwardingValues
    split
    · exact Hv.retv F a false id (by intro h; cases h)
    · dsimp only
      apply Hv.seq F a (g1 := id)
      · exact Hv.foundFold F a _ (fun iri b => Hv.ownsLocked F a iri) _ b false (by intro h; cases h)
      · intro hit b1 _ hg1
        split
        · rename_i hh; exact Hv.retv F a true id (fun _ => hg1 hh)
        · apply Hv.seq F a (g1 := id)
          · apply Hv.foundFold F a (fun v => liftLib (getId F v) >>= fun id => Op.locked id (Op.owns id)) _ _ b1 false (by intro h; cases h)
            intro x b'
            apply Hv.seq F a (g1 := fun _ => false) (Hv.of_pure F a _ (isPure_liftLib _) (by intro _ _ h; cases h))
            intro id b'' _ _
            exact Hv.ownsLocked F a id
          · intro hit2 b2 _ hg2
            split
            · rename_i hh; exact Hv.retv F a true id (fun _ => hg2 hh)
            · apply Hv.seq F a (g1 := fun _ => false)
              · apply Hv.plainFold F a
                intro acc iri b'
                unfold Op.newTransport Op.derefE
                apply Hv.neutralCall F a _ _ _ (fun _ => rfl)
                intro r1
                cases r1 with
                | error e => exact ⟨b', rfl, id, by intro y hy; cases hy⟩
                | ok _ =>
                  apply Hv.neutralCall F a _ _ _ (fun _ => rfl)
                  intro r2
                  cases r2 with
                  | error e => exact Hv.retv F a acc _ (by intro h; cases h)
                  | ok d =>
                    cases d with
                    | badJson => exact ⟨b', rfl, id, by intro y hy; cases hy⟩
                    | undecodable u => exact Hv.retv F a acc _ (by intro h; cases h)
                    | val t => exact Hv.retv F a _ _ (by intro h; cases h)
              · intro fetched b3 _ _
                exact Hv.foundFold F a _ (fun v b => ih (cur + 1) v b) _ b3 false (by intro h; cases h)


/-! ### the recipients are the members of the collections the filter kept -/

theorem colMembers_pure (t : J) : isPure (colMembers F t) = true := by
  unfold colMembers
  dsimp only
  split
  · rfl
  · exact isPure_liftLib _

theorem colMembers_ret (t : J) (ms : List Iri) (h : colMembers F t = .ret ms) : members F t = some ms := by
  unfold colMembers at h
  unfold members
  dsimp only at h ⊢
  cases hr : rawList t (if F.isOrExt "OrderedCollection" (typeName t) = true then "orderedItems" else "items") with
  | none => simp only [hr] at h; cases h; rfl
  | some xs =>
    simp only [hr] at h
    cases hi : idsOf F xs with
    | error e => simp [idsM, hi, AV.liftLib] at h
    | ok ids => simp only [idsM, hi, AV.liftLib] at h; cases h; simp [hi]

/-- the recipient loop of `InboxForwarding` -/
def recipLoop (cols : List (Iri × J)) (toSend : List Iri) (init : List Iri) : Prog (List Iri) :=
  toSend.foldlM (fun (acc : List Iri) iri =>
    match cols.find? (·.1 == iri) with
    | none => pure acc
    | some (_, t) => do let ms ← colMembers F t; pure (acc ++ ms)) init

theorem recipLoop_pure (cols : List (Iri × J)) (toSend init : List Iri) : isPure (recipLoop F cols toSend init) = true := by
  unfold recipLoop
  apply isPure_foldlM
  intro acc iri
  split
  · rfl
  · exact isPure_bind (colMembers_pure F _) (fun _ => rfl)

theorem recipLoop_ret (cols : List (Iri × J)) : ∀ (toSend init rs : List Iri), recipLoop F cols toSend init = .ret rs →
    toSend.foldl (fun (acc : Option (List Iri)) iri =>
      match acc with
      | none => none
      | some l => (match cols.find? (·.1 == iri) with
        | none => some l
        | some (_, t) => (match members F t with
          | some ms => some (l ++ ms)
          | none => none))) (some init) = some rs := by
  intro toSend
  induction toSend with
  | nil => intro init rs h; simp only [recipLoop, List.foldlM_nil, pure_eq] at h; cases h; rfl
  | cons x xs ih =>
    intro init rs h
    unfold recipLoop at h
    rw [List.foldlM_cons] at h
    simp only [List.foldl_cons]
    cases hf : cols.find? (·.1 == x) with
    | none =>
      simp only [hf, pure_eq, bind_ret] at h
      exact ih init rs h
    | some kt =>
      obtain ⟨k, t⟩ := kt
      simp only [hf] at h
      rcases pure_cases (colMembers_pure F t) with ⟨ms, hm⟩ | ⟨e, hm⟩ | ⟨site, hm⟩
      · rw [hm] at h
        simp only [bind_ret, pure_eq] at h
        simp only [hf, colMembers_ret F t ms hm]
        exact ih (init ++ ms) rs h
      · rw [hm] at h; simp at h
      · rw [hm] at h; simp at h


/-! ### the whole of `InboxForwarding` -/

/-- the monitor state once the activity has been recorded and `cols` have been loaded -/
def ld (cols : List (Iri × J)) : FwdSt := { fresh := true, creates := 1, recorded := true, loaded := cols }

theorem fwdLoad_safe {α : Type} (k : List (Iri × J) → Prog α)
    (hk : ∀ cols, SafeP (fwdMon F a) (ld cols) (k cols) (fun _ _ => True)) :
    ∀ (iris : List Iri) (cols : List (Iri × J)), SafeP (fwdMon F a) (ld cols) (fwdLoad F iris cols k) (fun _ _ => True) := by
  intro iris
  induction iris with
  | nil => intro cols; unfold fwdLoad; exact hk cols
  | cons iri rest ih =>
    intro cols
    unfold fwdLoad
    split
    · exact ih cols
    · unfold Op.lock Op.get Op.unlock
      intro r
      show SafeP (fwdMon F a) (ld cols) _ _
      cases r with
      | error e => trivial
      | ok _ =>
        intro r2
        cases r2 with
        | error e =>
          show SafeP (fwdMon F a) (ld cols) _ _
          intro r3
          show SafeP (fwdMon F a) (ld cols) _ _
          trivial
        | ok ot =>
          cases ot with
          | none => show SafeP (fwdMon F a) (ld cols) (Prog.panic _) _; trivial
          | some t =>
            by_cases hc : isCol F t = true
            · have hc' : (F.isOrExt "OrderedCollection" (typeName t) || F.isOrExt "Collection" (typeName t)) = true := hc
              have hstep : (fwdMon F a).step (ld cols) (.get iri) (.ok (some t)) = some (ld (cols ++ [(iri, t)])) := by
                simp [ld, hc]
              rw [hstep]
              show SafeP (fwdMon F a) (ld (cols ++ [(iri, t)]))
                (if F.isOrExt "OrderedCollection" (typeName t) || F.isOrExt "Collection" (typeName t) then
                  Prog.finally_ (fwdLoad F rest (cols ++ [(iri, t)]) k) (Prog.call (.unlock iri) fun _ => Prog.ret ())
                else _) _
              simp only [hc', if_true]
              apply SafeP.finally_
              apply SafeP.mono (ih (cols ++ [(iri, t)]))
              intro s' o _ r4
              show SafeP (fwdMon F a) s' (Prog.ret ()) _
              cases o <;> trivial
            · have hc' : (F.isOrExt "OrderedCollection" (typeName t) || F.isOrExt "Collection" (typeName t)) = false := by
                simpa [isCol] using hc
              have hstep : (fwdMon F a).step (ld cols) (.get iri) (.ok (some t)) = some (ld cols) := by
                simp [ld, hc]
              rw [hstep]
              show SafeP (fwdMon F a) (ld cols)
                (if F.isOrExt "OrderedCollection" (typeName t) || F.isOrExt "Collection" (typeName t) then _
                else (Prog.call (.unlock iri) fun _ => Prog.ret ()) >>= fun _ => fwdLoad F rest cols k) _
              simp only [hc', Bool.false_eq_true, if_false]
              intro r4
              show SafeP (fwdMon F a) (ld cols) (fwdLoad F rest cols k) _
              exact ih cols


theorem isPure_activityIdGet (site : String) (v : J) : isPure (activityIdGet site v) = true := by
  unfold activityIdGet; split <;> rfl

/-- what follows the loading of the owned collections -/
theorem afterLoad_safe (box : Iri) (cols : List (Iri × J)) :
    SafeP (fwdMon F a) (ld cols) (do
      if cols.isEmpty then pure () else
      let maxDepth ← Op.maxFwdDepth
      let ownsValue ← hasInboxForwardingValues F box maxDepth (fwdFuel maxDepth) 0 a
      if !ownsValue then pure () else
      let toSend ← Op.filterForwarding (cols.map (·.1)) a
      let recipients ← toSend.foldlM (fun (acc : List Iri) iri =>
          match cols.find? (·.1 == iri) with
          | none => pure acc
          | some (_, t) => do let ms ← colMembers F t; pure (acc ++ ms)) []
      deliverToRecipients box a recipients) (fun _ _ => True) := by
  by_cases he : cols.isEmpty = true
  · simp only [he, if_true]; trivial
  · simp only [he, Bool.false_eq_true, if_false]
    unfold Op.maxFwdDepth
    intro maxDepth
    show SafeP (fwdMon F a) (st cols false) (hasInboxForwardingValues F box maxDepth (fwdFuel maxDepth) 0 a >>= _) _
    apply SafeP.bind
    apply SafeP.mono (hasIFV_Hv F a cols box maxDepth (fwdFuel maxDepth) 0 a false)
    intro s1 o ⟨b', hs, _, hgood⟩
    subst hs
    cases o with
    | none => trivial
    | some ownsValue =>
      cases ownsValue with
      | false => trivial
      | true =>
        have hb : b' = true := hgood true rfl rfl
        subst hb
        show SafeP (fwdMon F a) (st cols true) (Op.filterForwarding (cols.map (·.1)) a >>= fun toSend =>
          recipLoop F cols toSend [] >>= fun recipients => deliverToRecipients box a recipients) _
        unfold Op.filterForwarding
        intro r
        have hstep : (fwdMon F a).step (st cols true) (.filterForwarding (cols.map (·.1)) a) r =
            some { st cols true with expected := match r with
              | .ok toSend => expectedRecipients F cols toSend
              | .error _ => none } := by
          simp [st, he]
          cases r <;> rfl
        rw [hstep]
        cases r with
        | error e => trivial
        | ok toSend =>
          show SafeP (fwdMon F a) { st cols true with expected := expectedRecipients F cols toSend }
            (recipLoop F cols toSend [] >>= fun recipients => deliverToRecipients box a recipients) _
          apply SafeP.bind
          apply SafeP.of_pure (recipLoop_pure F cols toSend [])
          · intro rs hrs
            have hexp : expectedRecipients F cols toSend = some rs := recipLoop_ret F cols toSend [] rs hrs
            unfold deliverToRecipients Op.newTransport Op.batchDeliver
            intro r1
            show SafeP (fwdMon F a) { st cols true with expected := expectedRecipients F cols toSend } _ _
            cases r1 with
            | error e => trivial
            | ok _ =>
              intro r2
              have hstep2 : (fwdMon F a).step { st cols true with expected := expectedRecipients F cols toSend } (.batchDeliver a rs) r2 =
                  some { st cols true with expected := expectedRecipients F cols toSend, forwarded := 1 } := by
                simp [st, hexp, J.beq_self]
              rw [hstep2]
              cases r2 <;> trivial
          · trivial

/-- **C17**: on every run of `InboxForwarding`, for every application and every peer: the activity is recorded
(`Create`) at most once and only after `Exists` said it was new; the filter is consulted — about exactly the loaded
collections — only after the activity was recorded, an owned Collection/OrderedCollection of to/cc/audience was
loaded and some `Owns` of the value search said yes; and the transport is handed the received activity itself,
once, with exactly the members of the collections the filter kept. -/
theorem inboxForwarding_safe (box : Iri) :
    SafeP (fwdMon F a) {} (inboxForwarding F box a) (fun _ _ => True) := by
  unfold inboxForwarding
  apply SafeP.bind_frame (SafeP.frame (P := fun _ => False) (fun _ h => h.elim) (OnlyCalls.of_pure (isPure_activityIdGet _ _)) _) _ trivial
  intro id
  apply SafeP.bind
  have h2 : SafeP (fwdMon F a) {} (Op.locked id (do
      let ex ← Op.exists_ id
      if ex then pure true else do
        Op.create a
        pure false)) (fun s' o => o = some false → s' = ld []) := by
    apply safe_locked (lock_n F a id) (unlock_n F a id)
    · unfold Op.exists_ Op.create
      intro r
      cases r with
      | error e => show SafeP (fwdMon F a) {} (Prog.fail e) _; intro h; cases h
      | ok ex =>
        cases ex with
        | true => show SafeP (fwdMon F a) {} (Prog.ret true) _; intro h; cases h
        | false =>
          show SafeP (fwdMon F a) { fresh := true } (Prog.call (.create a) _) _
          intro r2
          cases r2 with
          | error e => show SafeP (fwdMon F a) { fresh := true, creates := 1, recorded := false } (Prog.fail e) _; intro h; cases h
          | ok _ => show SafeP (fwdMon F a) (ld []) (Prog.ret false) _; intro _; rfl
    · intro h; cases h
  apply SafeP.mono h2
  intro s1 o hs1
  cases o with
  | none => trivial
  | some seen =>
    cases seen with
    | true => trivial
    | false =>
      have := hs1 rfl
      subst this
      show SafeP (fwdMon F a) (ld []) (_ >>= _) _
      -- the to/cc/audience ids: no call
      refine SafeP.bind_frame (SafeP.frame (P := fun _ => False) (fun _ h => h.elim) (OnlyCalls.of_pure ?hpure) _) ?hrest trivial
      case hpure =>
        apply isPure_foldlM
        intro acc p
        split
        · rfl
        · exact isPure_bind (isPure_liftLib _) (fun _ => rfl)
      case hrest =>
        intro rs
        -- which of them are owned: Lock / Owns / Unlock outside the search
        refine SafeP.bind_frame (frame_inv (M := fwdMon F a) (P := fun c => (∃ k, c = .lock k) ∨ (∃ k, c = .unlock k) ∨ (∃ k, c = .owns k))
          (Inv := fun s => s.searching = false) ?hneutral ?honly (ld []) rfl) ?hload trivial
        case hload =>
          intro myIRIs
          exact fwdLoad_safe F a _ (afterLoad_safe F a box) myIRIs []
        case hneutral =>
          intro c hc s r hinv
          rcases hc with ⟨k, rfl⟩ | ⟨k, rfl⟩ | ⟨k, rfl⟩
          · rfl
          · rfl
          · cases r with
            | error e => rfl
            | ok b => cases b <;> simp [hinv]
        case honly =>
          apply OnlyCalls.foldlM
          intro acc iri
          apply OnlyCalls.bind
          · unfold Op.locked Op.lock Op.unlock Op.owns
            apply OnlyCalls.op _ (Or.inl ⟨_, rfl⟩); intro r
            apply OnlyCalls.bind (OnlyCalls.ofE r); intro _
            apply OnlyCalls.bind
            · apply OnlyCalls.try_
              apply OnlyCalls.op _ (Or.inr (Or.inr ⟨_, rfl⟩)); intro r
              exact OnlyCalls.ofE r
            intro res
            apply OnlyCalls.op _ (Or.inr (Or.inl ⟨_, rfl⟩)); intro r
            exact OnlyCalls.bind (.ret _) (fun _ => OnlyCalls.ofE res)
          · intro owns; exact .ret _

end AV.Props.C17
