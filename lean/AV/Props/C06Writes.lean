import AV.Props.C04Create
import AV.Props.C06
/-
C06 / C16, value level for a federated Update and Delete: whatever the application answers, every value the default
Update callback hands to `Database.Update` is one of the activity's embedded objects, every id the default Delete
callback hands to `Database.Delete` is the id of one of the activity's objects, and neither creates anything.  Together
with `fedUpdate_guard` / `fedDelete_guard` (nothing at all happens unless every object is on the activity id's host)
this bounds what a peer can change to objects on its own host that it named itself.
-/
namespace AV.Props.C06
open AV Prog Pub Val AV.Props.C16 AV.Props.C04

/-- `Update` only of values `okUpd` accepts, `Delete` only of ids `okDel` accepts, no `Create` -/
@[reducible] def onlyMon (okUpd : J → Bool) (okDel : Iri → Bool) : Mon where
  S := Unit
  step _ c _ :=
    match c with
    | .create _ => none
    | .update v => if okUpd v then some () else none
    | .delete k => if okDel k then some () else none
    | _ => some ()

/-- not vacuous: a write the predicates do not accept is rejected -/
example : (onlyMon (fun _ => false) (fun _ => false)).step () (.update (.str "x")) (.ok ()) = none := rfl
example : (onlyMon (fun _ => true) (fun _ => false)).step () (.create (.str "x")) (.ok ()) = none := rfl
example : (onlyMon (fun _ => false) (fun k => k == "a")).step () (.delete "b") (.ok ()) = none := rfl
example : (onlyMon (fun _ => false) (fun k => k == "a")).step () (.delete "a") (.ok ()) = some () := rfl

abbrev Ow (okUpd : J → Bool) (okDel : Iri → Bool) (p : Prog α) : Prop := SafeP (onlyMon okUpd okDel) () p (fun _ _ => True)

def owQuiet (c : Call) : Prop := (∀ v, c ≠ .create v) ∧ (∀ v, c ≠ .update v) ∧ (∀ k, c ≠ .delete k)

theorem onlyMon_quiet (okUpd : J → Bool) (okDel : Iri → Bool) (c : Call) (hc : owQuiet c) (s : Unit) (r : c.Resp) :
    (onlyMon okUpd okDel).step s c r = some s := by
  obtain ⟨h1, h2, h3⟩ := hc
  cases c <;> simp_all [onlyMon]

theorem Ow.of_quiet {okUpd okDel} {p : Prog α} (hp : OnlyCalls owQuiet p) : Ow okUpd okDel p :=
  SafeP.mono (SafeP.frame (M := onlyMon okUpd okDel) (P := owQuiet) (fun c hc s r => onlyMon_quiet okUpd okDel c hc s r) hp ())
    (fun _ _ _ => trivial)

theorem Ow.quiet_bind {okUpd okDel} {p : Prog α} {k : α → Prog β} (hp : OnlyCalls owQuiet p)
    (hk : ∀ a, Ow okUpd okDel (k a)) : Ow okUpd okDel (p >>= k) :=
  SafeP.bind_frame (M := onlyMon okUpd okDel) (s := ())
    (SafeP.frame (M := onlyMon okUpd okDel) (P := owQuiet) (fun c hc s r => onlyMon_quiet okUpd okDel c hc s r) hp ()) hk trivial

theorem Ow.pure_bind {okUpd okDel} {p : Prog α} {k : α → Prog β} (hp : isPure p = true)
    (hk : ∀ a, Ow okUpd okDel (k a)) : Ow okUpd okDel (p >>= k) := Ow.quiet_bind (OnlyCalls.of_pure hp) hk

private theorem q3 {c : Call} (h1 : ∀ v, c ≠ .create v) (h2 : ∀ v, c ≠ .update v) (h3 : ∀ k, c ≠ .delete k) : owQuiet c := ⟨h1, h2, h3⟩

theorem lock_owQuiet (t : Iri) : OnlyCalls owQuiet (Op.lock t) :=
  OnlyCalls.op _ (q3 (by intro k h; cases h) (by intro k h; cases h) (by intro k h; cases h)) _ (fun r => OnlyCalls.ofE r)
theorem unlock_owQuiet (t : Iri) : OnlyCalls owQuiet (Op.unlock t) :=
  OnlyCalls.op _ (q3 (by intro k h; cases h) (by intro k h; cases h) (by intro k h; cases h)) _ (fun _ => .ret ())
theorem wrappedAfter_owQuiet (fed : Bool) (cfg : CbConfig) (ty : String) (a : J) : OnlyCalls owQuiet (wrappedAfter fed cfg ty a) := by
  unfold wrappedAfter
  split
  · exact OnlyCalls.op _ (q3 (by intro k h; cases h) (by intro k h; cases h) (by intro k h; cases h)) _ (fun r => OnlyCalls.ofE r)
  · exact .ret ()

private theorem afterWrite {okUpd okDel} (id : Iri) (o : Option Unit) :
    SafeP (onlyMon okUpd okDel) () (Op.unlock id) (fun s'' o' => match o' with
      | some _ => (fun _ _ => True) s'' o
      | none => (fun _ _ => True) s'' (none : Option Unit)) := by
  apply SafeP.mono (Ow.of_quiet (okUpd := okUpd) (okDel := okDel) (unlock_owQuiet id))
  intro _ o' _
  cases o' <;> trivial

theorem Ow.lockedUpdate {okUpd okDel} (id : Iri) (t : J) (h : okUpd t = true) : Ow okUpd okDel (withLock id (Op.update t)) := by
  unfold Pub.withLock
  apply Ow.quiet_bind (lock_owQuiet id)
  intro _
  apply SafeP.finally_
  unfold Op.update
  intro r
  have hstep : (onlyMon okUpd okDel).step () (.update t) r = some () := by simp only [onlyMon, h, if_true]
  rw [hstep]
  cases r with
  | ok u => exact afterWrite id (some u)
  | error e => exact afterWrite id none

theorem Ow.lockedDelete {okUpd okDel} (id k : Iri) (h : okDel k = true) : Ow okUpd okDel (withLock id (Op.delete k)) := by
  unfold Pub.withLock
  apply Ow.quiet_bind (lock_owQuiet id)
  intro _
  apply SafeP.finally_
  unfold Op.delete
  intro r
  have hstep : (onlyMon okUpd okDel).step () (.delete k) r = some () := by simp only [onlyMon, h, if_true]
  rw [hstep]
  cases r with
  | ok u => exact afterWrite id (some u)
  | error e => exact afterWrite id none

theorem Ow.forM {okUpd okDel} (f : J → Prog Unit) :
    ∀ (xs : List J), (∀ x ∈ xs, Ow okUpd okDel (f x)) → Ow okUpd okDel (xs.forM f) := by
  intro xs
  induction xs with
  | nil => intro _; trivial
  | cons x xs ih =>
    intro h
    show Ow okUpd okDel (f x >>= fun _ => xs.forM f)
    apply SafeP.bind
    apply SafeP.mono (h x (List.mem_cons_self ..))
    intro s' o _
    cases o with
    | none => trivial
    | some _ => exact ih (fun y hy => h y (List.mem_cons_of_mem _ hy))

section
variable (F : TFacts)

/-- the ids of the objects (those that have one) -/
def objIds (op : List J) : List Iri :=
  op.filterMap fun j => match toId F (elemOf F j) with | .ok id => some id | .error _ => none

theorem objIds_contains (op : List J) (j : J) (id : Iri) (hj : j ∈ op) (he : toId F (elemOf F j) = .ok id) :
    (objIds F op).contains id = true := by
  rw [List.contains_iff_exists_mem_beq]
  refine ⟨id, ?_, by simp⟩
  unfold objIds
  rw [List.mem_filterMap]
  exact ⟨j, hj, by rw [he]⟩

/-- **federated Update, value level**: every value handed to `Database.Update` is an embedded object of the activity;
nothing is created or deleted -/
theorem fedUpdate_writes (cfg : CbConfig) (a : J) :
    Ow (fun v => (embsOf F ((prop F a "object").getD [])).contains v) (fun _ => false) (fedUpdate F cfg a) := by
  unfold fedUpdate requireObject
  cases hp : prop F a "object" with
  | none => trivial
  | some op =>
    cases op with
    | nil => trivial
    | cons x xs =>
      simp only [bind_ret, Option.getD_some]
      apply Ow.pure_bind (mustHave_pure F a)
      intro _
      apply SafeP.bind
      refine SafeP.mono (Ow.forM _ (x :: xs) ?_) ?_
      · intro j hj
        cases he : elemOf F j with
        | emb t =>
          show Ow _ _ (liftLib (getId F t) >>= fun id => withLock id (Op.update t))
          apply Ow.pure_bind (isPure_liftLib _)
          intro id
          apply Ow.lockedUpdate
          exact embsOf_contains F (x :: xs) j t hj he
        | iri u => trivial
        | other o => trivial
      · intro s' o _
        cases o with
        | none => trivial
        | some _ => exact Ow.of_quiet (wrappedAfter_owQuiet _ _ _ _)

/-- **federated Delete, value level**: every id handed to `Database.Delete` is the id of one of the activity's objects;
nothing is created or updated -/
theorem fedDelete_writes (cfg : CbConfig) (a : J) :
    Ow (fun _ => false) (fun k => (objIds F ((prop F a "object").getD [])).contains k) (fedDelete F cfg a) := by
  unfold fedDelete requireObject
  cases hp : prop F a "object" with
  | none => trivial
  | some op =>
    cases op with
    | nil => trivial
    | cons x xs =>
      simp only [bind_ret, Option.getD_some]
      apply Ow.pure_bind (mustHave_pure F a)
      intro _
      apply SafeP.bind
      refine SafeP.mono (Ow.forM _ (x :: xs) ?_) ?_
      · intro j hj
        cases he : toId F (elemOf F j) with
        | error e => trivial
        | ok id =>
          show Ow _ _ (withLock id (Op.delete id))
          apply Ow.lockedDelete
          exact objIds_contains F (x :: xs) j id hj he
      · intro s' o _
        cases o with
        | none => trivial
        | some _ => exact Ow.of_quiet (wrappedAfter_owQuiet _ _ _ _)

end
end AV.Props.C06
