import AV.Lemmas.LockProofs
import AV.Lemmas.JsonLemmas
/-
C05 — Outbox posts are identified, normalised, stored, then delivered.
-/
namespace AV.Props.C05
open AV Prog Pub Val

/-! ### nothing is delivered before the outbox has been updated -/

/-- `stored` becomes true when `SetOutbox` succeeds; a `BatchDeliver` before that is a violation -/
def storedMon : Mon where
  S := Bool
  step stored c r :=
    match c, r with
    | .setOutbox _, .ok _ => some true
    | .batchDeliver _ _, _ => if stored then some stored else none
    | _, _ => some stored

theorem stored_step_true (c : Call) (r : c.Resp) : storedMon.step true c r = some true := by
  cases c <;> simp [storedMon] <;> (try split) <;> rfl

/-- once the outbox has been updated everything is allowed -/
theorem stored_true_safe (p : Prog α) : SafeP storedMon true p (fun _ _ => True) := by
  induction p with
  | ret a => trivial
  | fail e => trivial
  | panic s => trivial
  | call c k ih =>
    intro r
    rw [stored_step_true c r]
    exact ih r

/-- a program that never calls `BatchDeliver` cannot violate the monitor -/
theorem nd_safe {re aw : Bool} {H Hv He : List Iri} {p : Prog α} (h : Lk re aw noPayload H p Hv He) (s : Bool) :
    SafeP storedMon s p (fun _ _ => True) := by
  unfold Lk at h
  induction p generalizing H s with
  | ret a => trivial
  | fail e => trivial
  | panic site => trivial
  | call c k ih =>
    intro r
    have hr := h r
    have hnb : c.deliverBad noPayload = false := by
      revert hr
      simp only [lockMonG]
      cases hd : c.deliverBad noPayload <;> simp
    have hstep : ∃ s', storedMon.step s c r = some s' := by
      cases c with
      | batchDeliver p t => simp [Call.deliverBad, noPayload] at hnb
      | setOutbox v => cases r <;> exact ⟨_, rfl⟩
      | _ => exact ⟨_, rfl⟩
    obtain ⟨s', hs'⟩ := hstep
    rw [hs']
    revert hr
    cases hstep2 : (lockMonG re aw noPayload).step H c r with
    | none => intro hr; exact hr.elim
    | some H' => intro hr; exact ih r hr s'

/-- `addToOutbox` returns a value only after `SetOutbox` succeeded -/
theorem addToOutbox_stored (outbox : Iri) (a : J) (s : Bool) :
    SafeP storedMon s (addToOutbox outbox a) (fun s' o => o.isSome = true → s' = true) := by
  unfold addToOutbox activityIdGet
  split
  · trivial
  · show SafeP storedMon s (Op.locked _ (Op.create a) >>= _) _
    apply SafeP.bind
    apply SafeP.mono (nd_safe (re := false) (aw := true) (H := []) (Lk.locked (by simp) (Lk.create (by simp) _)) s)
    intro s1 o _
    cases o with
    | none => intro h; cases h
    | some _ =>
      unfold Op.lock Op.getOutbox Op.setOutbox Op.unlock Prog.finally_
      intro r1
      cases r1 with
      | error e => simp only [storedMon]; intro h; cases h
      | ok _ =>
        simp only [storedMon]
        intro r2
        cases r2 with
        | error e => simp only [storedMon, Op.ofE, Prog.finally_]; intro _; intro h; cases h
        | ok page =>
          simp only [storedMon, Op.ofE]
          intro r3
          cases r3 with
          | error e => simp only [storedMon, Op.ofE, Prog.finally_]; intro _; intro h; cases h
          | ok _ => simp only [storedMon, Op.ofE, Prog.finally_]; intro _; intro _; rfl


/-- `PostOutbox` returns a value only after the activity is in the outbox -/
theorem postOutbox_stored (F : TFacts) (cfg : ActorCfg) (a : J) (outbox : Iri) (raw : J) (s : Bool) :
    SafeP storedMon s (postOutbox F cfg (socCb F) a outbox raw) (fun s' o => o.isSome = true → s' = true) := by
  unfold postOutbox
  apply SafeP.bind
  apply SafeP.mono (nd_safe (re := false) (aw := true) (postOutboxEffects_ok F cfg a outbox raw) s)
  intro s1 o _
  cases o with
  | none => intro h; cases h
  | some r =>
    apply SafeP.bind
    apply SafeP.mono (addToOutbox_stored outbox r.1 s1)
    intro s2 o2 h2
    cases o2 with
    | none => intro h; cases h
    | some _ => intro _; exact h2 rfl

/-- **C05 (order)**: whatever the application answers, `deliver` — the body of `Send` and of an outbox
POST — hands nothing to the transport before `SetOutbox` has succeeded; every failure before that ends the
run, so nothing is delivered after a failed step. -/
theorem deliver_order (F : TFacts) (cfg : BaseCfg) (outbox : Iri) (v : J) (raw : Option J) :
    SafeP storedMon false (deliver F cfg outbox v raw) (fun _ _ => True) := by
  unfold deliver
  apply SafeP.bind
  apply SafeP.mono (nd_safe (re := false) (aw := true) (wrapIfNeeded_ok F outbox v) false)
  intro s1 o _
  cases o with
  | none => trivial
  | some v1 =>
    show SafeP storedMon s1 (if _ then _ else _) _
    split
    · trivial
    · apply SafeP.bind
      apply SafeP.mono (nd_safe (re := false) (aw := true) (addNewIDs_ok F v1) s1)
      intro s2 o2 _
      cases o2 with
      | none => trivial
      | some act =>
        apply SafeP.bind
        apply SafeP.mono (postOutbox_stored F cfg.delegate act outbox (raw.getD act) s2)
        intro s3 o3 h3
        cases o3 with
        | none => trivial
        | some r =>
          have : s3 = true := h3 rfl
          subst this
          exact stored_true_safe _

theorem send_order (F : TFacts) (cfg : BaseCfg) (outbox : Iri) (t : J) :
    SafeP storedMon false (send F cfg outbox t) (fun _ _ => True) := deliver_order F cfg outbox t none

def _root_.AV.Ev.isStore (e : Ev) : Bool :=
  match e.call, e.resp with
  | .setOutbox _, .ok _ => true
  | _, _ => false

def _root_.AV.Ev.isDeliver (e : Ev) : Bool :=
  match e.call with
  | .batchDeliver _ _ => true
  | _ => false

/-- what acceptance by `storedMon` means, in terms of the trace alone -/
theorem stored_trace_meaning (tr : List Ev) (b : Bool) (s : Bool) (h : storedMon.runTrace b tr = some s)
    (pre post : List Ev) (ev : Ev) (hsplit : tr = pre ++ ev :: post) (hd : ev.isDeliver = true) :
    b = true ∨ ∃ e ∈ pre, e.isStore = true := by
  induction pre generalizing tr b with
  | nil =>
    subst hsplit
    obtain ⟨c, r⟩ := ev
    cases c <;> simp [Ev.isDeliver] at hd
    simp only [List.nil_append, Mon.runTrace, storedMon] at h
    cases b
    · simp at h
    · exact Or.inl rfl
  | cons e pre ih =>
    subst hsplit
    simp only [List.cons_append, Mon.runTrace] at h
    revert h
    cases hs : storedMon.step b e.call e.resp with
    | none => intro h; cases h
    | some b' =>
      intro h
      rcases ih _ b' h rfl with hb | ⟨e', he', hst⟩
      · cases b
        · right
          refine ⟨e, List.mem_cons_self, ?_⟩
          obtain ⟨c, r⟩ := e
          subst hb
          cases c <;> simp [storedMon] at hs
          · cases r <;> simp_all [Ev.isStore]
        · exact Or.inl rfl
      · exact Or.inr ⟨e', List.mem_cons_of_mem _ he', hst⟩

/-- **C05 (order), trace form**: on every run of `Send`, against every application, every `BatchDeliver`
event is preceded by a `SetOutbox` that succeeded -/
theorem send_trace (F : TFacts) (cfg : BaseCfg) (outbox : Iri) (t : J) (env : Env) (pre post : List Ev) (ev : Ev)
    (hsplit : (run (send F cfg outbox t) env).1 = pre ++ ev :: post) (hd : ev.isDeliver = true) :
    ∃ e ∈ pre, e.isStore = true := by
  obtain ⟨s', h1, _⟩ := SafeP.sound (send_order F cfg outbox t) env 0
  rcases stored_trace_meaning _ false s' h1 pre post ev hsplit hd with h | h
  · cases h
  · exact h


/-! ### the same for an outbox POST (the handler around `deliver` delivers nothing itself) -/

abbrev St (s : Bool) (p : Prog α) : Prop := SafeP storedMon s p (fun _ _ => True)

theorem St.bind {s : Bool} {p : Prog α} {f : α → Prog β} (hp : St s p) (hf : ∀ s' a, St s' (f a)) : St s (p >>= f) := by
  apply SafeP.bind
  apply SafeP.mono hp
  intro s' o _
  cases o with
  | none => trivial
  | some a => exact hf s' a

theorem St.try_ {s : Bool} {p : Prog α} (hp : St s p) : St s (Prog.try_ p) := by
  apply SafeP.try_
  apply SafeP.mono hp
  intro s' o _
  cases o with
  | none => intro _; trivial
  | some a => trivial

theorem St.nd {s : Bool} {p : Prog α} (h : LockOK false true noPayload [] p) : St s p := nd_safe h s

section
attribute [local irreducible] Pub.withLock Op.locked Lk
theorem postOutboxScheme_order (F : TFacts) (cfg : BaseCfg) (r : Request) :
    St false (postOutboxScheme F cfg r) := by
  unfold postOutboxScheme
  split
  · trivial
  · split
    · exact St.nd (Lk.bind (Lk.writeHeader _) fun _ => Lk.pure' _)
    · apply St.bind (St.nd (viaC2S_ok _ _ _ Lk.authPostOutbox)); intro s1 authed
      split
      · trivial
      · split
        · trivial
        · exact St.nd (Lk.bind (Lk.writeHeader _) fun _ => Lk.pure' _)
        · apply St.bind (St.nd (viaC2S_ok _ _ _ (Lk.hookOutbox _))); intro s2 _
          have hd : ∀ v raw, St s2 (deliver F cfg r.box v raw) := by
            intro v raw
            cases s2
            · exact deliver_order F cfg r.box _ _
            · exact stored_true_safe _
          apply St.bind (St.try_ (hd _ _)); intro s3 res
          split
          · exact St.nd (Lk.bind (Lk.writeHeader _) fun _ => Lk.pure' _)
          · exact St.nd (Lk.bind (Lk.writeHeader _) fun _ => Lk.pure' _)
          · trivial
          · apply St.nd; lk_auto
end

theorem postOutbox_trace (F : TFacts) (cfg : BaseCfg) (r : Request) (env : Env) (pre post : List Ev) (ev : Ev)
    (hsplit : (run (postOutboxScheme F cfg r) env).1 = pre ++ ev :: post) (hd : ev.isDeliver = true) :
    ∃ e ∈ pre, e.isStore = true := by
  obtain ⟨s', h1, _⟩ := SafeP.sound (postOutboxScheme_order F cfg r) env 0
  rcases stored_trace_meaning _ false s' h1 pre post ev hsplit hd with h | h
  · cases h
  · exact h


/-! ### the outbox lists the accepted ids, newest first -/

def outboxItems (page : J) : List J := (rawList page "orderedItems").getD []

theorem isObj_set (j : J) (k : String) (v : J) (h : j.isObj = true) : (j.set k v).isObj = true := by
  cases j <;> simp_all [J.set, J.isObj]

theorem isObj_prependId (page : J) (id : Iri) (h : page.isObj = true) : (prependId page id).isObj = true := by
  unfold prependId setList
  split <;> exact isObj_set _ _ _ h

/-- one accepted post puts its id in front of what the page listed -/
theorem items_prependId (page : J) (id : Iri) (h : page.isObj = true) :
    outboxItems (prependId page id) = iriJ id :: outboxItems page := by
  unfold outboxItems prependId
  generalize (rawList page "orderedItems").getD [] = old
  cases old with
  | nil => unfold iriJ; split <;> simp [setList, rawList, J.get_set_same _ _ _ h]
  | cons x xs => simp [setList, rawList, J.get_set_same _ _ _ h]

/-- **C05 (history)**: if the Database hands back what was last stored, then after any sequence of
accepted posts the outbox page lists exactly their ids, newest first, in front of what it held before -/
theorem outbox_history (page : J) (ids : List Iri) (h : page.isObj = true) :
    outboxItems (ids.foldl prependId page) = (ids.map iriJ).reverse ++ outboxItems page := by
  induction ids generalizing page with
  | nil => simp
  | cons id ids ih =>
    rw [List.foldl_cons, ih _ (isObj_prependId page id h), items_prependId page id h]
    simp

example : outboxItems ((["https://h/a/1", "https://h/a/2"] : List Iri).foldl prependId (J.obj [("type", .str "OrderedCollectionPage")]))
    = [.str "https://h/a/2", .str "https://h/a/1"] := by
  rw [outbox_history _ _ rfl]; rfl

end AV.Props.C05
