import AV.Props.C02Prepare
import AV.Spec.C17
import AV.Lemmas.LockProofs
/-
C17, the third forwarding condition as computed: against an application without lock faults that answers `Owns` from
a fixed table and `Dereference` from a fixed federation graph, whenever `hasInboxForwardingValues` returns a value, that
value is `ownsValueSpec` — "some inReplyTo/object/target/tag value within the configured number of levels is owned".
-/
namespace AV.Props.C17
open AV Prog Pub Val AV.Spec.C17 AV.Props.C02

section
variable (F : TFacts) {ans : (c : Call) → c.Resp}

/-- the application's ownership table, as the fixed answers give it -/
def ownsOf (ans : (c : Call) → c.Resp) (u : Iri) : Bool :=
  match ans (.owns u) with
  | .ok b => b
  | .error _ => false

/-- a short-circuiting "is one of them owned?" loop that returns, returns `any` -/
theorem runD_anyLoop {β : Type} (f : Bool → β → Prog Bool) (g : β → Bool)
    (hf : ∀ x, ∀ b, runD ans (f false x) = .ret b → b = g x)
    (hT : ∀ x, runD ans (f true x) = .ret true)
    (xs : List β) (found out : Bool) (h : runD ans (xs.foldlM f found) = .ret out) :
    out = (found || xs.any g) := by
  induction xs generalizing found with
  | nil =>
    simp only [List.foldlM_nil, runD_pure, Outcome.ret.injEq] at h
    simp [h]
  | cons x xs ih =>
    rw [List.foldlM_cons] at h
    obtain ⟨b, h1, h2⟩ := runD_bind_ret h
    cases found with
    | true =>
      rw [hT x] at h1
      have : b = true := by simpa using h1.symm
      subst this
      have := ih true h2
      simp [this]
    | false =>
      have hb := hf x b h1
      have := ih b h2
      rw [this, hb]
      simp


/-- a collecting loop that returns, returns what it started with plus the documents that could be read -/
theorem runD_collectLoop (f : List J → Iri → Prog (List J)) (g : Iri → Option J)
    (hf : ∀ acc u out, runD ans (f acc u) = .ret out → out = acc ++ (g u).toList)
    (us : List Iri) (acc out : List J) (h : runD ans (us.foldlM f acc) = .ret out) :
    out = acc ++ us.filterMap g := by
  induction us generalizing acc with
  | nil =>
    simp only [List.foldlM_nil, runD_pure, Outcome.ret.injEq] at h
    simp [h]
  | cons u us ih =>
    rw [List.foldlM_cons] at h
    obtain ⟨a1, h1, h2⟩ := runD_bind_ret h
    have e1 := hf acc u a1 h1
    have e2 := ih a1 h2
    rw [e2, e1]
    cases hg : g u <;> simp [hg, List.append_assoc]

/-- **C17 (the owned-value search)**: whenever the search returns, it returns `ownsValueSpec` at the remaining depth -/
theorem hasIFV_det (hc : Calm ans) (box : Iri) (maxDepth : Int) (hm : maxDepth > 0) :
    ∀ (fuel cur : Nat) (v : J) (b : Bool), cur ≤ maxDepth.toNat →
      runD ans (hasInboxForwardingValues F box maxDepth fuel cur v) = .ret b →
      b = ownsValueSpec F (graph ans) (ownsOf ans) (maxDepth.toNat - cur) v := by
  intro fuel
  induction fuel with
  | zero => intro cur v b _ h; simp [hasInboxForwardingValues] at h
  | succ fuel ih =>
    intro cur v b hcur h
    unfold hasInboxForwardingValues at h
    by_cases hge : (cur : Int) ≥ maxDepth
    · have hz : maxDepth.toNat - cur = 0 := by omega
      simp only [hm, hge, decide_true, Bool.and_self, if_true, runD_pure, Outcome.ret.injEq] at h
      rw [hz]
      simp [ownsValueSpec, h]
    · obtain ⟨d', hd'⟩ : ∃ d', maxDepth.toNat - cur = d' + 1 := ⟨maxDepth.toNat - cur - 1, by omega⟩
      have hd'' : maxDepth.toNat - (cur + 1) = d' := by omega
      simp only [hm, hge, decide_true, decide_false, Bool.and_false, Bool.false_eq_true, if_false] at h
      rw [hd']
      unfold ownsValueSpec
      -- name the two lists
      generalize hvals : getInboxForwardingValues F v = vals at h ⊢
      obtain ⟨types, iris⟩ := vals
      simp only at h ⊢
      show b = (iris.any (ownsOf ans) || types.any (ownedEmb F (ownsOf ans)) ||
        (types ++ iris.filterMap (fetchedDoc (graph ans))).any (ownsValueSpec F (graph ans) (ownsOf ans) d'))
      -- 1. the IRIs themselves
      obtain ⟨hit1, h1, h⟩ := runD_bind_ret h
      have e1 : hit1 = (false || iris.any (ownsOf ans)) := by
        apply runD_anyLoop (ans := ans) _ (ownsOf ans) _ _ iris false hit1 h1
        · intro x b hb
          simp only [Bool.false_eq_true, if_false] at hb
          rw [runD_locked hc] at hb
          have : runD ans (Op.owns x) = runD ans (Op.ofE (ans (.owns x))) := rfl
          rw [this] at hb
          unfold ownsOf
          cases ho : ans (.owns x) with
          | ok bb => rw [ho] at hb; simpa [Op.ofE] using hb.symm
          | error e => rw [ho] at hb; simp [Op.ofE] at hb
        · intro x; rfl
      simp only [Bool.false_or] at e1
      cases hh1 : hit1 with
      | true =>
        rw [hh1] at h e1
        simp only [if_true, runD_pure, Outcome.ret.injEq] at h
        rw [← h, ← e1]; rfl
      | false =>
        rw [hh1] at h e1
        simp only [Bool.false_eq_true, if_false] at h
        -- 2. the embedded values' ids
        obtain ⟨hit2, h2, h⟩ := runD_bind_ret h
        have e2 : hit2 = (false || types.any (ownedEmb F (ownsOf ans))) := by
          apply runD_anyLoop (ans := ans) _ _ _ _ types false hit2 h2
          · intro x b hb
            simp only [Bool.false_eq_true, if_false] at hb
            obtain ⟨id, hid, hb⟩ := runD_bind_ret hb
            cases hg : getId F x with
            | error e => simp [hg, AV.liftLib] at hid
            | ok id' =>
              simp only [hg, AV.liftLib, runD_ret, Outcome.ret.injEq] at hid
              subst hid
              rw [runD_locked hc] at hb
              have : runD ans (Op.owns id') = runD ans (Op.ofE (ans (.owns id'))) := rfl
              rw [this] at hb
              unfold ownedEmb
              simp only [hg]
              unfold ownsOf
              cases ho : ans (.owns id') with
              | ok bb => rw [ho] at hb; simpa [Op.ofE] using hb.symm
              | error e => rw [ho] at hb; simp [Op.ofE] at hb
          · intro x; rfl
        simp only [Bool.false_or] at e2
        cases hh2 : hit2 with
        | true =>
          rw [hh2] at h e2
          simp only [if_true, runD_pure, Outcome.ret.injEq] at h
          rw [← h, ← e1, ← e2]; rfl
        | false =>
          rw [hh2] at h e2
          simp only [Bool.false_eq_true, if_false] at h
          -- 3. fetch the IRIs
          obtain ⟨fetched, h3, h⟩ := runD_bind_ret h
          have e3 : fetched = [] ++ iris.filterMap (fetchedDoc (graph ans)) := by
            apply runD_collectLoop (ans := ans) _ _ _ iris [] fetched h3
            intro acc u out ho
            obtain ⟨_, hnt, ho⟩ := runD_bind_ret ho
            obtain ⟨r, hr, ho⟩ := runD_bind_ret ho
            have hr' : r = ans (.deref u) := by
              have : runD ans (Op.derefE u) = .ret (ans (.deref u)) := rfl
              rw [this] at hr
              injection hr with hr
              exact hr.symm
            subst hr'
            unfold fetchedDoc graph
            cases hd : ans (.deref u) with
            | error e => rw [hd] at ho; simp at ho; simp [ho]
            | ok d =>
              rw [hd] at ho
              cases d with
              | badJson => simp at ho
              | undecodable bb => simp at ho; simp [ho]
              | val t => simp at ho; simp [ho]
          simp only [List.nil_append] at e3
          -- 4. recur
          have e4 : b = (false || (types ++ fetched).any (ownsValueSpec F (graph ans) (ownsOf ans) d')) := by
            apply runD_anyLoop (ans := ans) _ _ _ _ (types ++ fetched) false b h
            · intro x bb hb
              simp only [Bool.false_eq_true, if_false] at hb
              have := ih (cur + 1) x bb (by omega) hb
              rw [hd''] at this
              exact this
            · intro x; rfl
          simp only [Bool.false_or] at e4
          rw [e4, ← e1, ← e2, e3]
          simp only [Bool.false_or]


/-! ### … and the forward happens exactly when the search succeeds -/

def _root_.AV.Call.isBatchDeliver : Call → Bool
  | .batchDeliver _ _ => true
  | _ => false

/-- a program the lock judgement accepts with the payload predicate "nothing" hands nothing to the transport -/
theorem callsD_noDeliver {re aw : Bool} {H Hv He : List Iri} {p : Prog α} (h : Lk re aw noPayload H p Hv He) :
    ∀ c ∈ callsD ans p, c.isBatchDeliver = false := by
  unfold Lk at h
  induction p generalizing H with
  | ret a => intro c hc; cases hc
  | fail e => intro c hc; cases hc
  | panic site => intro c hc; cases hc
  | call c k ih =>
    intro c' hc'
    have hr := h (ans c)
    have hnb : c.deliverBad noPayload = false := by
      revert hr
      simp only [lockMonG]
      cases hd : c.deliverBad noPayload <;> simp
    rcases List.mem_cons.mp hc' with rfl | hin
    · cases c' <;> simp_all [Call.isBatchDeliver, Call.deliverBad, noPayload]
    · revert hr
      cases hstep : (lockMonG re aw noPayload).step H c (ans c) with
      | none => intro hr; exact hr.elim
      | some H' => intro hr; exact ih (ans c) hr c' hin

/-- **C17 (forwarded iff the search succeeds)**: with a non-empty list of loaded owned collections, whose members can
be read, against an application without lock / transport faults that answers the filter: the activity is handed to the
transport exactly when the owned-value search returns true — which, by `hasIFV_det`, is `ownsValueSpec` -/
theorem afterLoad_delivers (hc : Calm ans) (box : Iri) (a : J) (cols : List (Iri × J)) (hne : cols.isEmpty = false)
    (hmem : ∀ x ∈ cols, members F x.2 ≠ none)
    (md : Int) (hdepth : ans .maxFwdDepth = md) (b : Bool)
    (hsearch : runD ans (hasInboxForwardingValues F box md (fwdFuel md) 0 a) = .ret b)
    (toSend : List Iri) (hfilter : ans (.filterForwarding (cols.map (·.1)) a) = .ok toSend) :
    (callsD ans (do
      if cols.isEmpty then pure () else
      let maxDepth ← Op.maxFwdDepth
      let ownsValue ← hasInboxForwardingValues F box maxDepth (fwdFuel maxDepth) 0 a
      if !ownsValue then pure () else
      let toSend ← Op.filterForwarding (cols.map (·.1)) a
      let recipients ← toSend.foldlM (fun (acc : List Iri) iri =>
          match cols.find? (·.1 == iri) with
          | none => pure acc
          | some (_, t) => do let ms ← colMembers F t; pure (acc ++ ms)) []
      deliverToRecipients box a recipients)).any Call.isBatchDeliver = b := by
  simp only [hne, Bool.false_eq_true, if_false]
  rw [callsD_bind]
  have hmd : runD ans Op.maxFwdDepth = .ret md := by
    show runD ans (Prog.ret (ans .maxFwdDepth)) = _
    rw [hdepth]; rfl
  have hmdc : callsD ans Op.maxFwdDepth = [.maxFwdDepth] := rfl
  rw [hmd, hmdc]
  simp only
  rw [callsD_bind, hsearch]
  have hnd := callsD_noDeliver (ans := ans) (hasInboxForwardingValues_ok (aw := true) (ad := noPayload) F box md (fwdFuel md) 0 a [])
  have hsearchCalls : (callsD ans (hasInboxForwardingValues F box md (fwdFuel md) 0 a)).any Call.isBatchDeliver = false := by
    rw [List.any_eq_false]
    intro c hc
    rw [hnd c hc]; simp
  cases b with
  | false =>
    simp only [Bool.not_false, if_true, callsD_pure, List.append_nil, List.any_cons, List.any_append, hsearchCalls]
    rfl
  | true =>
    simp only [Bool.not_true, Bool.false_eq_true, if_false]
    rw [callsD_bind]
    have hfr : runD ans (Op.filterForwarding (cols.map (·.1)) a) = .ret toSend := by
      show runD ans (Op.ofE (ans (.filterForwarding (cols.map (·.1)) a))) = _
      rw [hfilter]; rfl
    rw [hfr]
    simp only
    rw [callsD_bind]
    -- the recipients loop makes no calls and, the members being readable, returns
    have hloop : ∀ (ts : List Iri) (acc : List Iri), ∃ rs, runD ans (ts.foldlM (fun (acc : List Iri) iri =>
          match cols.find? (·.1 == iri) with
          | none => pure acc
          | some (_, t) => do let ms ← colMembers F t; pure (acc ++ ms)) acc) = .ret rs := by
      intro ts
      induction ts with
      | nil => intro acc; exact ⟨acc, rfl⟩
      | cons u us ihu =>
        intro acc
        rw [List.foldlM_cons, runD_bind]
        cases hf : cols.find? (·.1 == u) with
        | none => simp only [runD_pure, Outcome.bindD]; exact ihu acc
        | some x =>
          obtain ⟨iri, t⟩ := x
          simp only
          have hx : (iri, t) ∈ cols := List.mem_of_find?_eq_some hf
          have hm := hmem (iri, t) hx
          rw [runD_bind]
          have hcm : ∃ ms, runD ans (colMembers F t) = .ret ms := by
            unfold colMembers
            unfold members at hm
            simp only at hm
            cases hr : rawList t (if F.isOrExt "OrderedCollection" (typeName t) = true then "orderedItems" else "items") with
            | none => exact ⟨[], by simp [hr]⟩
            | some xs =>
              simp only [hr] at hm ⊢
              cases hi : idsOf F xs with
              | ok ids => exact ⟨ids, by simp [idsM, hi, AV.liftLib]⟩
              | error e => simp [hi] at hm
          obtain ⟨ms, hms⟩ := hcm
          rw [hms]
          simp only [Outcome.bindD, runD_pure]
          exact ihu (acc ++ ms)
    obtain ⟨rs, hrs⟩ := hloop toSend []
    rw [hrs]
    simp only
    -- finally: NewTransport, BatchDeliver
    have hdel : (callsD ans (deliverToRecipients box a rs)).any Call.isBatchDeliver = true := by
      unfold deliverToRecipients
      rw [callsD_bind]
      have : runD ans (Op.newTransport box) = .ret () := by
        show runD ans (Op.ofE (ans (.newTransport box))) = _
        rw [hc.transport]; rfl
      rw [this]
      simp only [List.any_append]
      have : callsD ans (Op.batchDeliver a rs) = .batchDeliver a rs :: callsD ans (Op.ofE (ans (.batchDeliver a rs))) := rfl
      rw [this]
      simp [Call.isBatchDeliver]
    simp only [List.any_append, hdel, Bool.or_true]

end
end AV.Props.C17
