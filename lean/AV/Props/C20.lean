import AV.Spec.C20
import AV.Lemmas.LockProofs
/-
C20 — Served ActivityStreams bodies are faithful, de-duplicated and integrity-tagged.
-/
namespace AV.Props.C20
open AV Prog Pub Val

/-! ### `firstOcc`: what "later duplicates of an id removed, order otherwise kept" means -/

theorem firstOccGo_sublist (key : α → Iri) (xs : List α) (seen : List Iri) : (firstOccGo key xs seen).Sublist xs := by
  induction xs generalizing seen with
  | nil => exact List.Sublist.slnil
  | cons x xs ih =>
    unfold firstOccGo
    split
    · exact (ih _).cons _
    · exact (ih _).cons₂ _

/-- the result is a subsequence of the input: order is kept, nothing is invented -/
theorem firstOcc_sublist (key : α → Iri) (xs : List α) : (firstOcc key xs).Sublist xs := firstOccGo_sublist key xs []

theorem firstOccGo_fresh (key : α → Iri) (xs : List α) (seen : List Iri) :
    ∀ y ∈ firstOccGo key xs seen, key y ∉ seen := by
  induction xs generalizing seen with
  | nil => intro y hy; cases hy
  | cons x xs ih =>
    intro y hy
    unfold firstOccGo at hy
    split at hy
    · exact ih _ y hy
    · rename_i hx
      rcases List.mem_cons.mp hy with rfl | hy
      · simpa using hx
      · have := ih _ y hy
        intro hmem
        exact this (List.mem_cons_of_mem _ hmem)

/-- no two kept elements share an id -/
theorem firstOccGo_nodup (key : α → Iri) (xs : List α) (seen : List Iri) :
    ((firstOccGo key xs seen).map key).Nodup := by
  induction xs generalizing seen with
  | nil => exact List.nodup_nil
  | cons x xs ih =>
    unfold firstOccGo
    split
    · exact ih _
    · rw [List.map_cons, List.nodup_cons]
      refine ⟨?_, ih _⟩
      intro hmem
      obtain ⟨y, hy, hk⟩ := List.mem_map.mp hmem
      have := firstOccGo_fresh key xs (key x :: seen) y hy
      exact this (by rw [hk]; exact List.mem_cons_self)

theorem firstOcc_nodup (key : α → Iri) (xs : List α) : ((firstOcc key xs).map key).Nodup := firstOccGo_nodup key xs []

/-- every id of the input is still represented (once) -/
theorem firstOccGo_complete (key : α → Iri) (xs : List α) (seen : List Iri) :
    ∀ x ∈ xs, key x ∈ seen ∨ key x ∈ (firstOccGo key xs seen).map key := by
  induction xs generalizing seen with
  | nil => intro x hx; cases hx
  | cons y ys ih =>
    intro x hx
    unfold firstOccGo
    rcases List.mem_cons.mp hx with rfl | hx
    · split
      · rename_i h; exact Or.inl (by simpa using h)
      · exact Or.inr (by simp)
    · split
      · exact ih _ x hx
      · rcases ih (key y :: seen) x hx with h | h
        · rcases List.mem_cons.mp h with h | h
          · exact Or.inr (by rw [h]; simp)
          · exact Or.inl h
        · exact Or.inr (by simp only [List.map_cons, List.mem_cons]; exact Or.inr h)

theorem firstOcc_complete (key : α → Iri) (xs : List α) : ∀ x ∈ xs, key x ∈ (firstOcc key xs).map key := by
  intro x hx
  rcases firstOccGo_complete key xs [] x hx with h | h
  · cases h
  · exact h

/-! ### the transcription of `dedupeOrderedItems` computes `firstOcc` -/

theorem dedupeKey_eq (F : TFacts) (j : J) (k : Iri) (h : elemKey F j = some k) : dedupeKey F j = Prog.ret k := by
  unfold elemKey at h
  unfold dedupeKey
  split at h
  · rename_i v hv
    rw [hv]
    split at h
    · rename_i u hu
      split at h
      · cases h
      · rename_i hne
        cases h
        simp only [hu, liftLib, strOf, Prog.bind_ret]
        simp [hne]
    · cases h
  · rename_i u hu
    cases h
    rw [hu]
    simp only [strOf, Prog.pure_eq, Prog.bind_ret]
    split
    · rename_i hn
      -- an IRI element has a scheme, so it is not the "<nil>" marker
      exfalso
      unfold elemOf at hu
      split at hu
      · split at hu
        · rename_i s hs
          cases hu
          simp [nilIri] at hn
          subst hn
          revert hs; decide
        · cases hu
      · split at hu <;> cases hu
      · cases hu
    · rfl
  · cases h

theorem dedupeGo_eq (F : TFacts) (xs : List J) (seen : List Iri)
    (h : ∀ j ∈ xs, (elemKey F j).isSome = true) :
    dedupeGo F xs seen = Prog.ret (firstOccGo (fun j => (elemKey F j).getD "") xs seen) := by
  induction xs generalizing seen with
  | nil => rfl
  | cons j rest ih =>
    have hj := h j List.mem_cons_self
    obtain ⟨k, hk⟩ := Option.isSome_iff_exists.mp hj
    have hrest : ∀ j ∈ rest, (elemKey F j).isSome = true := fun j' hj' => h j' (List.mem_cons_of_mem _ hj')
    unfold dedupeGo firstOccGo
    rw [dedupeKey_eq F j k hk]
    simp only [Prog.bind_ret, hk, Option.getD_some]
    split
    · exact ih _ hrest
    · rw [ih _ hrest]; rfl

/-- **De-duplication**: when every item has a usable id, the page served by GetInbox carries exactly the first
occurrence of each id, in the original order. -/
theorem dedupe_spec (F : TFacts) (oc : J) (xs : List J) (hp : prop F oc "orderedItems" = some xs)
    (h : ∀ j ∈ xs, (elemKey F j).isSome = true) :
    ∃ oc', dedupeOrderedItems F oc = Prog.ret oc' ∧
      (oc' = oc ∨ oc' = setList oc "orderedItems" (firstOcc (fun j => (elemKey F j).getD "") xs)) := by
  unfold dedupeOrderedItems
  rw [hp]
  simp only [dedupeGo_eq F xs [] h, Prog.bind_ret, Prog.pure_eq]
  split
  · exact ⟨oc, rfl, Or.inl rfl⟩
  · exact ⟨_, rfl, Or.inr rfl⟩

/-! ### the GET tail: headers before the status, Content-Type constant, Date from the application's clock -/

theorem respond_headers (status : Nat) (v : J) : SafeP headersMon {} (respond status v) (fun _ _ => True) := by
  unfold respond addResponseHeaders Op.setHeader Op.now Op.writeHeader Op.writeBody
  intro _
  simp only [headersMon, contentTypeValue, beq_self_eq_true, ↓reduceIte]
  intro t
  simp only [headersMon]
  intro _
  simp only [headersMon, beq_self_eq_true, ↓reduceIte]
  intro _
  simp only [headersMon]
  intro _
  simp only [headersMon]
  intro rb
  simp only [headersMon, Bool.and_self, ↓reduceIte]
  cases rb with
  | error e => trivial
  | ok b => cases b <;> trivial

/-- a Tombstone is served with 410, anything else with 200 -/
theorem handler_status (F : TFacts) (r : Request) (t : J) (h : isAPGet r.method r.header = true) :
    ∃ k, Pub.handler F r = (Op.locked r.box (Op.get r.box) >>= k) ∧
      k (some t) = respond (if F.isOrExt "Tombstone" (typeName (clearSensitive F t)) then 410 else 200) (clearSensitive F t) ∧
      k none = Prog.fail .notFound := by
  unfold Pub.handler
  simp only [h, Bool.not_true, Bool.false_eq_true, ↓reduceIte]
  exact ⟨_, rfl, rfl, rfl⟩

/-! ### the oracle for the Digest header is SHA-256 / base64 (FIPS 180-4 vectors, RFC 4648 vectors) -/

theorem sha256_abc : Sha256.hex (Sha256.sha256 "abc".toUTF8.toList) =
    "ba7816bf8f01cfea414140de5dae2223b00361a396177a9cb410ff61f20015ad" := by decide +kernel

theorem sha256_empty : Sha256.hex (Sha256.sha256 []) =
    "e3b0c44298fc1c149afbf4c8996fb92427ae41e4649b934ca495991b7852b855" := by decide +kernel

theorem base64_vectors : String.ofList (Sha256.base64 "foobar".toUTF8.toList) = "Zm9vYmFy" ∧
    String.ofList (Sha256.base64 "fooba".toUTF8.toList) = "Zm9vYmE=" ∧ String.ofList (Sha256.base64 "foob".toUTF8.toList) = "Zm9vYg==" := by
  decide +kernel

/-- Non-vacuity: a page with duplicates at several positions -/
example : firstOcc id ["a", "b", "a", "c", "b", "a"] = ["a", "b", "c"] := by decide +kernel

end AV.Props.C20
