import AV.Lemmas.JsonLemmas
import AV.Lemmas.Frame
import AV.Pub.BaseActor
import AV.Lemmas.Det
/-
C16 — Client Update/Delete/Add/Remove/Like/Block have exactly their documented effect.
-/
namespace AV.Props.C16
open AV Prog Pub Val

/-! ### Update: exactly the supplied members replaced, the null ones removed, the rest kept -/

theorem isObj_set (j : J) (k : String) (v : J) (h : j.isObj = true) : (j.set k v).isObj = true := by
  cases j <;> simp_all [J.set, J.isObj]
theorem isObj_erase (j : J) (k : String) (h : j.isObj = true) : (j.erase k).isObj = true := by
  cases j <;> simp_all [J.erase, J.isObj]

/-- writing a key-distinct member list over `m`: a written key reads as written, any other key as before -/
theorem get_foldl_set (kvs : List (String × J)) (hn : (kvs.map (·.1)).Nodup) :
    ∀ (m : J), m.isObj = true → ∀ k,
      (kvs.foldl (fun (m : J) kv => m.set kv.1 kv.2) m).get? k =
        (match kvs.find? (·.1 == k) with
         | some kv => some kv.2
         | none => m.get? k) ∧ (kvs.foldl (fun (m : J) kv => m.set kv.1 kv.2) m).isObj = true := by
  induction kvs with
  | nil => intro m hm k; exact ⟨rfl, hm⟩
  | cons kv rest ih =>
    intro m hm k
    obtain ⟨k0, v0⟩ := kv
    simp only [List.map_cons, List.nodup_cons] at hn
    obtain ⟨hnot, hrest⟩ := hn
    simp only [List.foldl_cons]
    obtain ⟨h1, h2⟩ := ih hrest (m.set k0 v0) (isObj_set m k0 v0 hm) k
    refine ⟨?_, h2⟩
    rw [h1]
    by_cases hk : k0 = k
    · subst hk
      have : rest.find? (fun x => x.1 == k0) = none := by
        rw [List.find?_eq_none]
        intro x hx hx'
        apply hnot
        simp only [List.mem_map]
        exact ⟨x, hx, by simpa using hx'⟩
      simp [this, J.get_set_same m k0 v0 hm]
    · have hne : (k0 == k) = false := by simpa using hk
      simp only [List.find?_cons, hne]
      cases rest.find? (fun x => x.1 == k) with
      | some kv => rfl
      | none => simp only; exact J.get_set_other m k0 k v0 (fun h => hk h.symm)

/-- is member `k` given as JSON null? -/
def givenNull (kvs : List (String × J)) (k : String) : Bool :=
  kvs.any fun kv => kv.1 == k && (match kv.2 with
    | .null => true
    | _ => false)

theorem givenNull_cons (k0 : String) (v0 : J) (rest : List (String × J)) (k : String) :
    givenNull ((k0, v0) :: rest) k = ((k0 == k && (match v0 with
      | .null => true
      | _ => false)) || givenNull rest k) := by
  simp [givenNull]

theorem get_not_has (m : J) (k : String) (h : m.has k = false) : m.get? k = none := by
  cases hg : m.get? k with
  | none => rfl
  | some x => simp [J.has, hg] at h

theorem get_foldl_eraseNull (kvs : List (String × J)) :
    ∀ (m : J), ∀ k,
      (kvs.foldl eraseNullStep m).get? k = (if givenNull kvs k then none else m.get? k) := by
  induction kvs with
  | nil => intro m k; simp [givenNull]
  | cons kv rest ih =>
    intro m k
    obtain ⟨k0, v0⟩ := kv
    simp only [List.foldl_cons]
    rw [ih, givenNull_cons]
    unfold eraseNullStep
    cases hg : givenNull rest k with
    | true => simp
    | false =>
      simp only [Bool.false_eq_true, if_false, Bool.or_false]
      cases v0 with
      | null =>
        by_cases hk : k0 = k
        · subst hk
          simp only [beq_self_eq_true, Bool.and_self, if_true]
          cases hh : m.has k0 with
          | true => simp [J.get_erase_same]
          | false => simp [get_not_has m k0 hh]
        · have hne : (k0 == k) = false := by simpa using hk
          simp only [hne, Bool.false_and, Bool.false_eq_true, if_false]
          cases hh : m.has k0 with
          | true => simp only [if_true]; exact J.get_erase_other m k0 k (fun h => hk h.symm)
          | false => simp
      | _ => simp

/-- **C16 (Update)**: the value written back has, for every member name `k`: nothing if the raw object gives `k`
as null; otherwise the supplied member if the supplied object has one; otherwise the stored member. -/
theorem mergeUpdate_spec (stored supplied rawObj : J) (hs : stored.isObj = true)
    (hn : (supplied.members.map (·.1)).Nodup) (k : String) :
    (mergeUpdate stored supplied rawObj).get? k =
      if givenNull rawObj.members k then none
      else match supplied.members.find? (·.1 == k) with
        | some kv => some kv.2
        | none => stored.get? k := by
  unfold mergeUpdate
  rw [get_foldl_eraseNull]
  split
  · rfl
  · exact (get_foldl_set supplied.members hn stored hs k).1


/-! ### Delete: a Tombstone with the same id, the former type, the original times and `deleted = now` -/

theorem copyMember_isObj (F : TFacts) (obj t : J) (p : String) (h : t.isObj = true) : (copyMember F obj t p).isObj = true := by
  unfold copyMember
  split
  · split
    · exact isObj_set _ _ _ h
    · exact h
  · exact h

theorem copyMember_get_other (F : TFacts) (obj t : J) (p k : String) (hk : k ≠ p) : (copyMember F obj t p).get? k = t.get? k := by
  unfold copyMember
  split
  · split
    · exact J.get_set_other _ _ _ _ hk
    · rfl
  · rfl

theorem copyMember_get_same (F : TFacts) (obj t : J) (p : String) (h : t.isObj = true) (hh : has F obj p = true) (x : J)
    (hx : obj.get? p = some x) : (copyMember F obj t p).get? p = some x := by
  unfold copyMember
  simp only [hh, if_true, hx]
  exact J.get_set_same _ _ _ h

/-- **C16 (Delete)**: the Tombstone written in place of a deleted object keeps the id, names the former type, is
stamped with the current time, and carries the object's own `published` / `updated` -/
theorem tombstone_spec (F : TFacts) (obj : J) (id : Iri) (now : Int × Int) :
    (toTombstone F obj id now).get? "id" = some (.str id) ∧
    (toTombstone F obj id now).get? "type" = some (.str "Tombstone") ∧
    (toTombstone F obj id now).get? "formerType" = some (.str (typeName obj)) ∧
    (toTombstone F obj id now).get? "deleted" = some (.str (Time.rfc3339 now.1 now.2)) ∧
    (∀ x, has F obj "published" = true → obj.get? "published" = some x → (toTombstone F obj id now).get? "published" = some x) ∧
    (∀ x, has F obj "updated" = true → obj.get? "updated" = some x → (toTombstone F obj id now).get? "updated" = some x) := by
  unfold toTombstone
  simp only
  have h0 : (J.obj [("type", J.str "Tombstone")]).isObj = true := rfl
  have h1 := isObj_set _ "id" (J.str id) h0
  have h2 := isObj_set _ "formerType" (J.str (typeName obj)) h1
  have h3 := copyMember_isObj F obj _ "published" h2
  have h4 := copyMember_isObj F obj _ "updated" h3
  refine ⟨?_, ?_, ?_, ?_, ?_, ?_⟩
  · rw [J.get_set_other _ _ _ _ (by decide), copyMember_get_other _ _ _ _ _ (by decide), copyMember_get_other _ _ _ _ _ (by decide),
      J.get_set_other _ _ _ _ (by decide)]
    exact J.get_set_same _ _ _ h0
  · rw [J.get_set_other _ _ _ _ (by decide), copyMember_get_other _ _ _ _ _ (by decide), copyMember_get_other _ _ _ _ _ (by decide),
      J.get_set_other _ _ _ _ (by decide), J.get_set_other _ _ _ _ (by decide)]
    rfl
  · rw [J.get_set_other _ _ _ _ (by decide), copyMember_get_other _ _ _ _ _ (by decide), copyMember_get_other _ _ _ _ _ (by decide)]
    exact J.get_set_same _ _ _ h1
  · exact J.get_set_same _ _ _ h4
  · intro x hh hx
    rw [J.get_set_other _ _ _ _ (by decide), copyMember_get_other _ _ _ _ _ (by decide)]
    exact copyMember_get_same F obj _ "published" h2 hh x hx
  · intro x hh hx
    rw [J.get_set_other _ _ _ _ (by decide)]
    exact copyMember_get_same F obj _ "updated" h3 hh x hx

/-! ### Block is never delivered; a missing object or target refuses the request before anything is done -/

/-- the default Block side effect reports the activity as undeliverable whenever it succeeds -/
theorem block_undeliverable (F : TFacts) (cfg : CbConfig) (outbox : Iri) (raw a : J) (M : Mon) (s : M.S)
    (hn : ∀ s c r, M.step s c r = some s) :
    SafeP M s (socCb F cfg outbox raw "Block" a) (fun _ o => ∀ r, o = some r → r.2 = true) := by
  unfold socCb
  simp only
  apply SafeP.bind
  cases hr : requireObject F a with
  | ret xs =>
    show SafeP M s (wrappedAfter false cfg "Block" a >>= fun _ => pure (a, true)) _
    apply SafeP.bind
    unfold wrappedAfter Op.appCb
    split
    · intro r
      rw [hn]
      cases r with
      | error e => intro r h; cases h
      | ok _ => intro r h; cases h; rfl
    · intro r h; cases h; rfl
  | fail e => intro r h; cases h
  | panic site => trivial
  | call c k => unfold requireObject at hr; split at hr <;> cases hr

/-- an outbox activity of a type that needs an `object` and has none is refused with `ErrObjectRequired` before
any call is made -/
theorem object_required (F : TFacts) (cfg : CbConfig) (outbox : Iri) (raw a : J) (ty : String)
    (hty : ty ∈ ["Create", "Update", "Delete", "Follow", "Add", "Remove", "Like", "Undo", "Block"])
    (hobj : prop F a "object" = none ∨ prop F a "object" = some []) :
    socCb F cfg outbox raw ty a = .fail .objectRequired := by
  have hreq : requireObject F a = .fail .objectRequired := by
    unfold requireObject
    rcases hobj with h | h <;> simp [h]
  simp only [List.mem_cons, List.mem_nil_iff, or_false] at hty
  rcases hty with rfl | rfl | rfl | rfl | rfl | rfl | rfl | rfl | rfl
  all_goals
    simp only [socCb, socCreate, socUpdate, socDelete, socLike, fedAdd, fedRemove, fedUndo, hreq, bind_fail]


/-- the application left Block to the default side effect -/
def defaultBlock (F : TFacts) (cb : CbConfig) : Bool :=
  match dispatchOf F socialDefaults cb.other "Block" with
  | .default _ => true
  | _ => false

/-- **C16 (Block)**: against any application whose social callbacks leave Block to the default, the side effects
of a posted Block — whenever they succeed — report it as not deliverable; `deliver` hands an activity to the
federating side only when this flag is true (`if cfg.federated && r.1 then deliverS2S …`). -/
theorem block_not_deliverable (F : TFacts) (cfg : ActorCfg) (a : J) (outbox : Iri) (raw : J)
    (ans : (c : Call) → c.Resp) (cb : CbConfig) (r : J × Bool)
    (hsoc : cfg.social = true) (hty : typeName a = "Block")
    (hcb : ans .socialCallbacks = .ok cb) (hdef : defaultBlock F cb = true)
    (hr : runD ans (postOutboxEffects F cfg (socCb F) a outbox raw) = .ret r) : r.2 = false := by
  unfold postOutboxEffects at hr
  simp only [hsoc, Bool.not_true, Bool.false_eq_true, if_false] at hr
  obtain ⟨cb', h1, h2⟩ := runD_bind_ret hr
  have : cb' = cb := by
    have : runD ans Op.socialCallbacks = runD ans (Op.ofE (ans .socialCallbacks)) := rfl
    rw [this, hcb] at h1
    cases h1; rfl
  subst this
  rw [hty] at h2
  unfold defaultBlock at hdef
  cases hd : dispatchOf F socialDefaults cb'.other "Block" with
  | default ty =>
    have hty' : ty = "Block" := by
      unfold dispatchOf at hd
      split at hd
      · cases hd
      · split at hd
        · cases hd
        · split at hd
          · cases hd; rfl
          · cases hd
    subst hty'
    simp only [hd] at h2
    obtain ⟨r1, h3, h4⟩ := runD_bind_ret h2
    cases h4
    -- the default Block effect: requireObject, then the wrapped callback, then (a, undeliverable = true)
    unfold socCb at h3
    simp only at h3
    obtain ⟨_, _, h5⟩ := runD_bind_ret h3
    obtain ⟨_, _, h6⟩ := runD_bind_ret h5
    cases h6
    rfl
  | badCallbacks => simp [hd] at hdef
  | other i => simp [hd] at hdef
  | unmatched => simp [hd] at hdef

end AV.Props.C16
