import AV.GenProps.C14
/-
C14 — Resolvers call exactly the callback written for the value's own type.
-/
namespace AV.Props.C14
open AV

/-- The specification, declaratively: callback `i` is the one invoked iff it is written for the value's own
interface and no earlier callback is. -/
theorem spec_first (cbs : List String) (v : Value) (i : Nat) :
    specResolve cbs v = .invoked i ↔
      (cbs[i]? = some v.iface ∧ ∀ j, j < i → cbs[j]? ≠ some v.iface) := by
  unfold specResolve
  induction cbs generalizing i with
  | nil => simp
  | cons c cs ih =>
    rw [List.findIdx?_cons]
    by_cases hc : c == v.iface
    · simp only [hc, ↓reduceIte, RRes.invoked.injEq]
      have hc' : c = v.iface := by simpa using hc
      constructor
      · intro h; subst h; exact ⟨by simp [hc'], by intro j hj; omega⟩
      · rintro ⟨h1, h2⟩
        cases i with
        | zero => rfl
        | succ n => exact absurd (by simp [hc']) (h2 0 (by omega))
    · simp only [hc, Bool.false_eq_true, ↓reduceIte]
      have hc' : c ≠ v.iface := by simpa using hc
      cases hf : cs.findIdx? (· == v.iface) with
      | none =>
        simp only [Option.map_none]
        have := ih
        simp only [hf] at this
        constructor
        · intro h; cases h
        · rintro ⟨h1, h2⟩
          cases i with
          | zero => simp [hc'] at h1
          | succ n =>
            cases (this n).mpr ⟨by simpa using h1, fun j hj => by simpa using h2 (j+1) (by omega)⟩
      | some k =>
        simp only [Option.map_some, RRes.invoked.injEq]
        have := ih
        simp only [hf, RRes.invoked.injEq] at this
        constructor
        · intro h; subst h
          have ⟨a, b⟩ := (this k).mp rfl
          refine ⟨by simpa using a, ?_⟩
          intro j hj
          cases j with
          | zero => simp [hc']
          | succ n => simpa using b n (by omega)
        · rintro ⟨h1, h2⟩
          cases i with
          | zero => simp [hc'] at h1
          | succ n =>
            have := (this n).mpr ⟨by simpa using h1, fun j hj => by simpa using h2 (j+1) (by omega)⟩
            omega

/-- no callback for the value's type ⇒ the spec answers with an unmatched error -/
theorem spec_none (cbs : List String) (v : Value) (h : v.iface ∉ cbs) :
    specResolve cbs v = .noCallbackMatch := by
  unfold specResolve
  have : cbs.findIdx? (· == v.iface) = none := by
    rw [List.findIdx?_eq_none_iff]; intro x hx; simp; intro he; exact h (he ▸ hx)
  rw [this]

theorem typeResolveGo_spec (chain : List Arm) (v : Value) (a : Arm)
    (ha : armFor chain v.vocab v.name = some a) (hcb : a.cb = v.iface) (hcast : a.cast = v.iface)
    (cbs : List String) (i : Nat) :
    typeResolveGo chain v cbs i =
      match cbs.findIdx? (· == v.iface) with
      | some j => .invoked (i + j)
      | none => .noCallbackMatch := by
  induction cbs generalizing i with
  | nil => simp [typeResolveGo]
  | cons c cs ih =>
    rw [typeResolveGo, ha, List.findIdx?_cons]
    simp only [hcb, hcast, beq_self_eq_true, ↓reduceIte]
    by_cases hc : c == v.iface
    · simp [hc]
    · simp only [hc, Bool.false_eq_true, ↓reduceIte, ih]
      cases cs.findIdx? (· == v.iface) with
      | none => simp
      | some k => simp; omega

/-- **TypeResolver**: for a value whose chain arm is diagonal, the resolver does exactly what the
specification says, for every callback list. -/
theorem typeResolve_eq_spec (chain : List Arm) (cbs : List String) (v : Value)
    (h : diagB chain v.iface v.vocab v.name = true) : typeResolve chain cbs v = specResolve cbs v := by
  unfold diagB at h
  split at h
  · rename_i a ha
    simp only [Bool.and_eq_true, beq_iff_eq] at h
    rw [typeResolve, typeResolveGo_spec chain v a ha h.1 h.2, specResolve]
    cases cbs.findIdx? (· == v.iface) <;> simp
  · exact absurd h (by simp)

/-- a type the vocabularies do not define: nothing is invoked and the error is an unmatched one -/
theorem typeResolve_unknown (chain : List Arm) (cbs : List String) (v : Value)
    (h : armFor chain v.vocab v.name = none) :
    (typeResolve chain cbs v).isUnmatched = true ∧ ∀ i, typeResolve chain cbs v ≠ .invoked i := by
  unfold typeResolve
  cases cbs with
  | nil => simp [typeResolveGo, RRes.isUnmatched]
  | cons c cs => simp [typeResolveGo, h, RRes.isUnmatched]

/-- **TypePredicatedResolver**: the predicate is consulted iff it is written for the value's own type. -/
theorem predApply_eq (chain : List Arm) (pred : String) (v : Value)
    (h : diagB chain v.iface v.vocab v.name = true) :
    predApply chain pred v = if pred == v.iface then .predicate else .err .predUnmatched := by
  unfold diagB at h
  split at h
  · rename_i a ha
    simp only [Bool.and_eq_true, beq_iff_eq] at h
    simp [predApply, ha, h.1, h.2]
  · exact absurd h (by simp)

/-- **JSONResolver**: when `handleFn` invokes callback `i`, it is the first one written for the
interface of the selected type. -/
theorem jsonHandle_first (I : Impl) (m : List (String × String)) (cbs : List String) (s : String)
    (i : Nat) (a : Arm) (h : jsonHandle I m cbs s = (.invoked i, some a)) :
    cbs[i]? = some a.cb ∧ ∀ j, j < i → cbs[j]? ≠ some a.cb := by
  unfold jsonHandle at h
  split at h
  · cases h
  · rename_i a' ha'
    split at h
    · rename_i k hk
      simp only [Prod.mk.injEq, RRes.invoked.injEq, Option.some.injEq] at h
      obtain ⟨rfl, rfl⟩ := h
      exact (spec_first cbs ⟨"", "", a'.cb⟩ k).mp (by simp [specResolve, hk])
    · cases h

theorem unmatched_errors : ∀ r : RRes, r.isUnmatched = true ↔
    (r = .noCallbackMatch ∨ r = .unhandledType ∨ r = .predUnmatched) := by
  intro r; cases r <;> simp [RRes.isUnmatched]

/-! ### Instantiation on the chains regenerated from /repo -/

theorem shipped_diag {i v n : String} (h : (i, v, n) ∈ Gen.impl.ifaces) :
    diagB Gen.impl.typeChain i v n = true ∧ diagB Gen.impl.predChain i v n = true := by
  have ht := GenProps.c14_table
  have hd : c14DiagB Gen.impl = true := by
    unfold c14TableB at ht
    simp only [Bool.and_eq_true] at ht
    exact ht.1.1.1.1.1.1.1.1.1.1.1.1.1
  simp only [c14DiagB, List.all_eq_true, Bool.and_eq_true] at hd
  exact hd (i, v, n) h

/-- every shipped type, every callback list: the TypeResolver invokes exactly the first callback
written for the value's own type, else returns ErrNoCallbackMatch -/
theorem shipped_typeResolver {i v n : String} (h : (i, v, n) ∈ Gen.impl.ifaces) (cbs : List String) :
    typeResolve Gen.impl.typeChain cbs ⟨v, n, i⟩ = specResolve cbs ⟨v, n, i⟩ :=
  typeResolve_eq_spec _ _ _ (shipped_diag h).1

theorem shipped_predResolver {i v n : String} (h : (i, v, n) ∈ Gen.impl.ifaces) (pred : String) :
    predApply Gen.impl.predChain pred ⟨v, n, i⟩ = if pred == i then .predicate else .err .predUnmatched :=
  predApply_eq _ _ _ (shipped_diag h).2

/-! Non-vacuity -/
example : ("vocab.ActivityStreamsNote", "https://www.w3.org/ns/activitystreams", "Note") ∈ Gen.impl.ifaces := by
  decide +kernel
example : typeResolve Gen.impl.typeChain ["vocab.ActivityStreamsObject", "vocab.ActivityStreamsNote", "vocab.ActivityStreamsNote"]
    ⟨"https://www.w3.org/ns/activitystreams", "Note", "vocab.ActivityStreamsNote"⟩ = .invoked 1 := by decide +kernel

end AV.Props.C14
