import AV.Lemmas.CbOrderProofs
import AV.Props.C05FailFast
/-
C04, last clause: for every default federating callback, every input and every sequence of answers of the application,
the wrapped application callback runs only if no step of the default effect failed, at most once, and nothing but
deferred Unlocks follows it (monitor `cbOrderMon`, `Lemmas/CbOrder.lean`).
-/
namespace AV.Props.C04
open AV Prog Pub Val

/-- started clean, the program never upsets the callback-order monitor -/
def Fl (p : Prog α) : Prop :=
  ∀ s : CbSt, s.failed = false → s.done = false → SafeP cbOrderMon s p (fun _ _ => True)

theorem Fl.of_fw {p : Prog α} (h : Fw p) : Fl p := by
  intro s h1 h2
  apply SafeP.mono (h s h1 h2)
  intro _ _ _; trivial

theorem Fl.bind_fw {p : Prog α} {f : α → Prog β} (hp : Fw p) (hf : ∀ a, Fl (f a)) : Fl (p >>= f) := by
  intro s h1 h2
  apply SafeP.bind
  apply SafeP.mono (hp s h1 h2)
  intro s' o h
  cases o with
  | none => trivial
  | some a =>
    have : s' = s := h
    subst this
    exact hf a s' h1 h2

/-- the wrapped callback itself: allowed exactly because the state is clean; afterwards only values are returned -/
theorem Fl.wrappedAfter_then (fed : Bool) (cfg : CbConfig) (ty : String) (a : J) (x : β) :
    Fl (wrappedAfter fed cfg ty a >>= fun _ => (pure x : Prog β)) := by
  intro s h1 h2
  unfold wrappedAfter
  split
  · unfold Op.appCb
    apply Fw.call
    intro r
    refine ⟨{ s with done := true }, by obtain ⟨f, d⟩ := s; simp_all [cbOrderMon], ?_⟩
    cases r <;> trivial
  · trivial

theorem Fl.wrappedAfter (fed : Bool) (cfg : CbConfig) (ty : String) (a : J) : Fl (wrappedAfter fed cfg ty a) := by
  intro s h1 h2
  unfold AV.Pub.wrappedAfter
  split
  · unfold Op.appCb
    apply Fw.call
    intro r
    refine ⟨{ s with done := true }, by obtain ⟨f, d⟩ := s; simp_all [cbOrderMon], ?_⟩
    cases r <;> trivial
  · trivial

theorem Fl.then_pure {p : Prog α} (x : β) (h : Fl p) : Fl (p >>= fun _ => (pure x : Prog β)) := by
  intro s h1 h2
  apply SafeP.bind
  apply SafeP.mono (h s h1 h2)
  intro s' o _
  cases o <;> trivial

section
attribute [local irreducible] Pub.withLock Op.locked Fw Fl

macro "fl_step" : tactic => `(tactic| first
  | intro _
  | split
  | exact Fl.wrappedAfter ..
  | exact Fl.wrappedAfter_then ..
  | (refine Fl.bind_fw (by fw_auto) ?_)
  | exact Fl.of_fw (by fw_auto)
  | dsimp only)

macro "fl_auto" : tactic => `(tactic| repeat fl_step)

theorem fedCreate_order (F : TFacts) (cfg : CbConfig) (box : Iri) (a : J) : Fl (fedCreate F cfg box a) := by
  unfold fedCreate; fl_auto
theorem fedUpdate_order (F : TFacts) (cfg : CbConfig) (a : J) : Fl (fedUpdate F cfg a) := by
  unfold fedUpdate; fl_auto
theorem fedDelete_order (F : TFacts) (cfg : CbConfig) (a : J) : Fl (fedDelete F cfg a) := by
  unfold fedDelete; fl_auto
theorem fedFollow_order (F : TFacts) (cfg : CbConfig) (box : Iri) (a : J) :
    Fl (fedFollow F cfg box a (addNewIDs F) (deliverS2S F)) := by
  unfold fedFollow; fl_auto
theorem fedAccept_order (F : TFacts) (cfg : CbConfig) (box : Iri) (a : J) : Fl (fedAccept F cfg box a) := by
  unfold fedAccept; fl_auto
theorem fedAdd_order (F : TFacts) (fed : Bool) (cfg : CbConfig) (a : J) : Fl (fedAdd F fed cfg a) := by
  unfold fedAdd; fl_auto
theorem fedRemove_order (F : TFacts) (fed : Bool) (cfg : CbConfig) (a : J) : Fl (fedRemove F fed cfg a) := by
  unfold fedRemove; fl_auto
theorem fedLike_order (F : TFacts) (cfg : CbConfig) (a : J) : Fl (fedLike F cfg a) := by
  unfold fedLike; fl_auto
theorem fedAnnounce_order (F : TFacts) (cfg : CbConfig) (a : J) : Fl (fedAnnounce F cfg a) := by
  unfold fedAnnounce; fl_auto
theorem fedUndo_order (F : TFacts) (fed : Bool) (cfg : CbConfig) (box : Iri) (a : J) : Fl (fedUndo F fed cfg box a) := by
  unfold fedUndo; fl_auto
theorem fedBlock_order (F : TFacts) (cfg : CbConfig) (a : J) : Fl (fedBlock F cfg a) := by
  unfold fedBlock; fl_auto

/-- **C04 (wrapped callback after success, once, last)** for every handled type: whatever the activity and whatever
the application answers, the default federating callback runs the wrapped application callback only if none of the
steps of the default effect answered with an error, at most once, and only deferred Unlocks follow it -/
theorem fedCb_order (F : TFacts) (cfg : CbConfig) (box : Iri) (ty : String) (a : J) :
    Fl (fedCb F (addNewIDs F) (deliverS2S F) cfg box ty a) := by
  unfold fedCb
  split
  · exact Fl.then_pure a (fedCreate_order F cfg box a)
  · exact Fl.then_pure a (fedUpdate_order F cfg a)
  · exact Fl.then_pure a (fedDelete_order F cfg a)
  · exact fedFollow_order F cfg box a
  · exact Fl.then_pure a (fedAccept_order F cfg box a)
  · exact Fl.then_pure a (Fl.wrappedAfter true cfg "Reject" a)
  · exact Fl.then_pure a (fedAdd_order F true cfg a)
  · exact Fl.then_pure a (fedRemove_order F true cfg a)
  · exact Fl.then_pure a (fedLike_order F cfg a)
  · exact Fl.then_pure a (fedAnnounce_order F cfg a)
  · exact Fl.then_pure a (fedUndo_order F true cfg box a)
  · exact Fl.then_pure a (fedBlock_order F cfg a)
  · exact Fl.of_fw (Fw.fail _)
end


/-! ### what acceptance by the monitor means, on the trace alone -/

def _root_.AV.Ev.isAppCb (e : Ev) : Bool :=
  match e.call with
  | .appCb _ _ _ => true
  | _ => false

def _root_.AV.Ev.isUnlock (e : Ev) : Bool :=
  match e.call with
  | .unlock _ => true
  | _ => false

/-- a step of the default effect that answered with an error (a failing Unlock is ignored by the library, an
unreachable document may be skipped by it) -/
def _root_.AV.Ev.isFailedEffect (e : Ev) : Bool :=
  (match e.call with
   | .unlock _ | .deref _ | .appCb _ _ _ => false
   | _ => true) && !respOk e.call e.resp

theorem cb_step_cases (s s1 : CbSt) (e : Ev) (h : cbOrderMon.step s e.call e.resp = some s1) :
    (e.isUnlock = true ∧ s1 = s) ∨
    (s.done = false ∧ e.isUnlock = false ∧
      (if e.isAppCb then s.failed = false ∧ s1 = { s with done := true }
       else s1.done = false ∧ s1.failed = (s.failed || e.isFailedEffect))) := by
  obtain ⟨c, r⟩ := e
  obtain ⟨f, d⟩ := s
  cases c with
  | unlock k =>
    left
    simp only [cbOrderMon] at h
    cases h
    exact ⟨rfl, rfl⟩
  | _ =>
    right
    simp only [cbOrderMon] at h
    split at h
    · cases h
    · cases h
      simp_all [Ev.isUnlock, Ev.isAppCb, Ev.isFailedEffect]

theorem cb_failed_mono (tr : List Ev) (s s' : CbSt) (h : cbOrderMon.runTrace s tr = some s') (hf : s.failed = true) :
    s'.failed = true := by
  induction tr generalizing s with
  | nil => simp only [Mon.runTrace] at h; cases h; exact hf
  | cons e rest ih =>
    simp only [Mon.runTrace] at h
    revert h
    cases hs : cbOrderMon.step s e.call e.resp with
    | none => intro h; cases h
    | some s1 =>
      intro h
      apply ih s1 h
      rcases cb_step_cases s s1 e hs with ⟨_, e1⟩ | ⟨_, _, h3⟩
      · rw [e1]; exact hf
      · split at h3
        · rw [hf] at h3; cases h3.1
        · rw [h3.2, hf]; rfl

theorem cb_done_only_unlock (tr : List Ev) (s s' : CbSt) (h : cbOrderMon.runTrace s tr = some s') (hd : s.done = true) :
    ∀ e ∈ tr, e.isUnlock = true := by
  induction tr generalizing s with
  | nil => intro e he; cases he
  | cons e rest ih =>
    simp only [Mon.runTrace] at h
    revert h
    cases hs : cbOrderMon.step s e.call e.resp with
    | none => intro h; cases h
    | some s1 =>
      intro h x hx
      rcases cb_step_cases s s1 e hs with ⟨hu, e1⟩ | ⟨hnd, _, _⟩
      · rcases List.mem_cons.mp hx with hx | hx
        · subst hx; exact hu
        · exact ih s1 h (by rw [e1]; exact hd) x hx
      · rw [hd] at hnd; cases hnd

theorem cb_prefix (tr : List Ev) (s s' : CbSt) (h : cbOrderMon.runTrace s tr = some s') (hd' : s'.done = false) :
    s.done = false ∧ (∀ e ∈ tr, e.isAppCb = false) ∧ (s'.failed = false → s.failed = false ∧ ∀ e ∈ tr, e.isFailedEffect = false) := by
  induction tr generalizing s with
  | nil =>
    simp only [Mon.runTrace] at h; cases h
    refine ⟨hd', ?_, ?_⟩
    · intro e he; cases he
    · intro hf
      refine ⟨hf, ?_⟩
      intro e he; cases he
  | cons e rest ih =>
    simp only [Mon.runTrace] at h
    revert h
    cases hs : cbOrderMon.step s e.call e.resp with
    | none => intro h; cases h
    | some s1 =>
      intro h
      obtain ⟨i1, i2, i3⟩ := ih s1 h
      rcases cb_step_cases s s1 e hs with ⟨hu, e1⟩ | ⟨hnd, hnu, h3⟩
      · subst e1
        have hna : e.isAppCb = false := by
          obtain ⟨c, r⟩ := e
          cases c <;> simp_all [Ev.isUnlock, Ev.isAppCb]
        have hnf : e.isFailedEffect = false := by
          obtain ⟨c, r⟩ := e
          cases c <;> simp_all [Ev.isUnlock, Ev.isFailedEffect]
        refine ⟨i1, ?_, ?_⟩
        · intro x hx
          rcases List.mem_cons.mp hx with hx | hx
          · subst hx; exact hna
          · exact i2 x hx
        · intro hf
          obtain ⟨j1, j2⟩ := i3 hf
          refine ⟨j1, ?_⟩
          intro x hx
          rcases List.mem_cons.mp hx with hx | hx
          · subst hx; exact hnf
          · exact j2 x hx
      · cases hac : e.isAppCb with
        | true =>
          simp only [hac, if_true] at h3
          rw [h3.2] at i1
          cases i1
        | false =>
          simp only [hac, Bool.false_eq_true, if_false] at h3
          refine ⟨hnd, ?_, ?_⟩
          · intro x hx
            rcases List.mem_cons.mp hx with hx | hx
            · subst hx; exact hac
            · exact i2 x hx
          · intro hf
            obtain ⟨j1, j2⟩ := i3 hf
            rw [h3.2] at j1
            simp only [Bool.or_eq_false_iff] at j1
            refine ⟨j1.1, ?_⟩
            intro x hx
            rcases List.mem_cons.mp hx with hx | hx
            · subst hx; exact j1.2
            · exact j2 x hx

/-- **what the monitor's acceptance means**: wherever the wrapped application callback appears in an accepted trace,
no step of the default effect before it answered with an error, it had not run before, and only Unlocks follow -/
theorem cb_trace_meaning (tr : List Ev) (s' : CbSt) (h : cbOrderMon.runTrace {} tr = some s')
    (pre post : List Ev) (ev : Ev) (hsplit : tr = pre ++ ev :: post) (hcb : ev.isAppCb = true) :
    (∀ e ∈ pre, e.isFailedEffect = false) ∧ (∀ e ∈ pre, e.isAppCb = false) ∧ (∀ e ∈ post, e.isUnlock = true) := by
  subst hsplit
  have h := (AV.Props.C05.runTrace_append cbOrderMon pre (ev :: post) _).symm.trans h
  cases h1 : cbOrderMon.runTrace {} pre with
  | none => rw [h1] at h; cases h
  | some s1 =>
    rw [h1] at h
    simp only [Option.bind, Mon.runTrace] at h
    cases hs : cbOrderMon.step s1 ev.call ev.resp with
    | none => rw [hs] at h; cases h
    | some s2 =>
      rw [hs] at h
      rcases cb_step_cases s1 s2 ev hs with ⟨hu, _⟩ | ⟨hnd, _, h3⟩
      · exfalso
        obtain ⟨c, r⟩ := ev
        cases c <;> simp_all [Ev.isUnlock, Ev.isAppCb]
      · simp only [hcb, if_true] at h3
        obtain ⟨p1, p2, p3⟩ := cb_prefix pre {} s1 h1 hnd
        refine ⟨(p3 h3.1).2, p2, ?_⟩
        exact cb_done_only_unlock post s2 s' h (by rw [h3.2])

/-- **C04 (wrapped callback after success, once, last), trace form**: on every run of the default federating callback
of any handled type, against every application -/
theorem fedCb_order_trace (F : TFacts) (cfg : CbConfig) (box : Iri) (ty : String) (a : J) (env : Env)
    (pre post : List Ev) (ev : Ev)
    (hsplit : (run (fedCb F (addNewIDs F) (deliverS2S F) cfg box ty a) env).1 = pre ++ ev :: post) (hcb : ev.isAppCb = true) :
    (∀ e ∈ pre, e.isFailedEffect = false) ∧ (∀ e ∈ pre, e.isAppCb = false) ∧ (∀ e ∈ post, e.isUnlock = true) := by
  have hsafe : SafeP cbOrderMon {} (fedCb F (addNewIDs F) (deliverS2S F) cfg box ty a) (fun _ _ => True) :=
    fedCb_order F cfg box ty a {} rfl rfl
  obtain ⟨s', h1, _⟩ := SafeP.sound hsafe env 0
  exact cb_trace_meaning _ s' h1 pre post ev hsplit hcb

end AV.Props.C04
