import AV.Lemmas.HiddenProofs
import AV.Lemmas.LockProofs
/-
C03 — Hidden recipients (bto/bcc) never leave the server.
-/
namespace AV.Props.C03
open AV Prog Pub Val

/-- every payload handed to `BatchDeliver` in the trace satisfies `ok` -/
def payloadsOK (ok : J → Bool) (tr : List Ev) : Bool :=
  tr.all fun ev => !ev.call.deliverBad ok

/-- `PayloadClean ok p`: for every environment, every payload `p` hands to the transport satisfies `ok`. -/
def PayloadClean (ok : J → Bool) (p : Prog α) : Prop :=
  ∀ (env : Env) (n : Nat), payloadsOK ok (run p env n).1 = true

theorem runTrace_payloads (ok : J → Bool) (tr : List Ev) (H : List Iri) (h : ((lockMonG false true ok).runTrace H tr).isSome = true) :
    payloadsOK ok tr = true := by
  induction tr generalizing H with
  | nil => rfl
  | cons ev rest ih =>
    simp only [Mon.runTrace] at h
    cases hstep : (lockMonG false true ok).step H ev.call ev.resp with
    | none => rw [hstep] at h; cases h
    | some H' =>
      rw [hstep] at h
      have hb : ev.call.deliverBad ok = false := by
        revert hstep
        simp only [lockMonG]
        cases hd : ev.call.deliverBad ok <;> simp
      simp only [payloadsOK, List.all_cons, hb, Bool.not_false, Bool.true_and]
      exact ih H' h

theorem clean_of_ok {ok : J → Bool} {p : Prog α} (h : LockOK false true ok [] p) : PayloadClean ok p := by
  intro env n
  obtain ⟨s', h1, _⟩ := SafeP.sound h env n
  exact runTrace_payloads ok _ [] (by rw [h1]; rfl)

/-- the predicate of C03 for delivery: no bto/bcc on the activity nor on a typed value embedded in `object` -/
theorem accepts (F : TFacts) : AcceptsStripped F (noHidden1 F) := fun x => strip_noHidden1 F x

/-- **client POST to the outbox**: every payload given to the transport is free of bto/bcc (depth ≤ 1) -/
theorem postOutbox (F : TFacts) (cfg : BaseCfg) (r : Request) : PayloadClean (noHidden1 F) (postOutboxScheme F cfg r) :=
  clean_of_ok (postOutboxScheme_ok F cfg r (accepts F))

/-- **programmatic Send** -/
theorem send (F : TFacts) (cfg : BaseCfg) (outbox : Iri) (t : J) : PayloadClean (noHidden1 F) (Pub.send F cfg outbox t) :=
  clean_of_ok (send_ok F cfg outbox t (accepts F))

/-- **automatic Accept/Reject** (and every other inbox side effect): payloads free of bto/bcc -/
theorem inboxSideEffects (F : TFacts) (inbox : Iri) (a : J) : PayloadClean (noHidden1 F) (Pub.postInbox F (fedCbFull F) inbox a) :=
  clean_of_ok (postInbox_ok F inbox a (accepts F))

/-- **the GET handler**: the value it serialises has no bto/bcc at any depth of `object` nesting -/
theorem handler_body (F : TFacts) (t : J) : noHiddenDeep F (clearSensitive F t) = true := noHidden_clear F t

/-- every body the handler writes satisfies `noHiddenDeep` -/
def bodyMon (F : TFacts) : Mon where
  S := Unit
  step _ c _ := match c with
    | .writeBody b => if noHiddenDeep F b then some () else none
    | _ => some ()

theorem handler (F : TFacts) (r : Request) : SafeP (bodyMon F) () (Pub.handler F r) (fun _ _ => True) := by
  unfold Pub.handler
  split
  · trivial
  · unfold Op.locked Op.lock Op.get Op.unlock
    intro r1; cases r1 with
    | error e => trivial
    | ok _ =>
      intro r2; cases r2 with
      | error e => intro _; trivial
      | ok t =>
        intro _
        cases t with
        | none => trivial
        | some t =>
          unfold respond addResponseHeaders Op.setHeader Op.now Op.writeHeader Op.writeBody
          intro _ _ _ _ _ rb
          simp only [bodyMon, noHidden_clear F t, if_true]
          cases rb with
          | error e => trivial
          | ok b => cases b <;> trivial

/-! Non-vacuity: a value with bto on itself and bcc on an embedded object is cleaned; an untouched one is not clean. -/
def F1 : TFacts where
  hasProp _ _ := true
  isOrExt T n := n == T
  known n := n == "Create" || n == "Note"

def sample : J := .obj [("bto", .str "https://x.example/a"), ("object", .obj [("bcc", .str "https://x.example/b"), ("type", .str "Note")]), ("type", .str "Create")]

example : noHidden1 F1 sample = false ∧ noHidden1 F1 (stripHiddenRecipients F1 sample) = true := by decide +kernel

example : noHiddenDeep F1 sample = false := by
  simp [sample, noHiddenDeep, noHiddenKvs, noHiddenObjVal, F1, typeName, J.get?]

end AV.Props.C03
