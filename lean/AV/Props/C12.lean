import AV.GenProps.C12
import AV.Props.C13
/-
C12 — Each type has exactly its ontology's properties, with the declared ranges.
-/
namespace AV.Props.C12
open AV

variable {I : Impl} {O : Ontology}

theorem type_row (h : c12TableB I O = true) {ot : OType} (ho : ot ∈ O.types) :
    ∃ it, I.findType ot.name = some it ∧ it.typeless = ot.typeless ∧
      (∀ p, p ∈ it.props ↔ p ∈ O.expectedProps ot) ∧
      (∀ k, k ∈ it.knownKeys ↔ k ∈ I.expectedKnownKeys it) ∧
      (∀ p, p ∈ it.serProps ↔ p ∈ it.props) := by
  simp only [c12TableB, Bool.and_eq_true, List.all_eq_true] at h
  have := h.1.2 ot ho
  unfold c12TypeB at this
  split at this
  · exact absurd this (by simp)
  · rename_i it hit
    simp only [Bool.and_eq_true, beq_iff_eq] at this
    obtain ⟨⟨⟨⟨⟨⟨⟨⟨a1, _⟩, a3⟩, _⟩, a5⟩, _⟩, _⟩, a8⟩, _⟩ := this
    exact ⟨it, hit, a1, sameSet_iff a3, sameSet_iff a8, sameSet_iff a5⟩

/-- **Exactly the ontology's properties.** A generated type exposes property `p` iff the ontology gives it:
its domain contains the type or an ancestor, it is not withheld from the type or an ancestor — or it is `id`,
or `type` on a type that is not typeless. -/
theorem props_exact (h : c12TableB I O = true) {ot : OType} (ho : ot ∈ O.types) :
    ∃ it, I.findType ot.name = some it ∧ ∀ p, p ∈ it.props ↔
      ((∃ op ∈ O.props, op.name = p ∧ (∃ d ∈ op.domain, d ∈ ancSelf O ot.name) ∧
          ¬ (∃ w ∈ op.without, w ∈ ancSelf O ot.name)) ∨ p = "id" ∨ (p = "type" ∧ ot.typeless = false)) := by
  obtain ⟨it, hit, _, hp, _⟩ := type_row h ho
  refine ⟨it, hit, fun p => ?_⟩
  rw [hp p]
  simp only [Ontology.expectedProps, Ontology.propsOf, List.mem_append, List.mem_map, List.mem_filter,
    Bool.and_eq_true, List.any_eq_true, List.contains_iff_mem, Bool.not_eq_true', List.mem_singleton]
  constructor
  · rintro ((⟨op, ⟨ho, ⟨hd, hw⟩⟩, rfl⟩ | h) | h)
    · refine Or.inl ⟨op, ho, rfl, hd, ?_⟩
      rintro ⟨w, hw1, hw2⟩
      have : (op.without.any (ancSelf O ot.name).contains) = true := by
        simp only [List.any_eq_true, List.contains_iff_mem]; exact ⟨w, hw1, hw2⟩
      rw [this] at hw; cases hw
    · exact Or.inr (Or.inl h)
    · split at h
      · cases h
      · rename_i ht
        simp only [List.mem_singleton] at h
        exact Or.inr (Or.inr ⟨h, by simpa using ht⟩)
  · rintro (⟨op, ho, rfl, hd, hw⟩ | h | ⟨h, ht⟩)
    · refine Or.inl (Or.inl ⟨op, ⟨ho, hd, ?_⟩, rfl⟩)
      rw [Bool.eq_false_iff]; intro hc
      simp only [List.any_eq_true, List.contains_iff_mem] at hc
      exact hw hc
    · exact Or.inl (Or.inr h)
    · refine Or.inr ?_
      simp [ht, h]

/-- **Unknown members.** The deserializer's skip list is exactly the names of the type's properties plus the
`…Map` spelling of natural-language ones; every other member key is copied to `unknown`. -/
theorem known_keys_exact (h : c12TableB I O = true) {ot : OType} (ho : ot ∈ O.types) :
    ∃ it, I.findType ot.name = some it ∧ ∀ k, k ∈ it.knownKeys ↔ k ∈ I.expectedKnownKeys it := by
  obtain ⟨it, hit, _, _, hk, _⟩ := type_row h ho
  exact ⟨it, hit, hk⟩

theorem prop_row (h : c12TableB I O = true) {op : OProp} (ho : op ∈ O.props) :
    ∃ ip, I.findProp op.name = some ip ∧ ip.functional = op.functional ∧
      ip.natLang = op.range.contains "rdf:langString" ∧
      (∀ t, t ∈ ip.planTypes ↔ t ∈ O.kindTypes op) ∧ (∀ k, k ∈ ip.planLits ↔ k ∈ O.kindLits op) ∧
      (ip.hasIri = true ∨ "xsd:anyURI" ∈ ip.planLits) := by
  simp only [c12TableB, Bool.and_eq_true, List.all_eq_true] at h
  have := h.1.1.2 op ho
  unfold c12PropB at this
  split at this
  · exact absurd this (by simp)
  · rename_i ip hip
    simp only [Bool.and_eq_true, beq_iff_eq, Bool.or_eq_true, List.contains_iff_mem] at this
    obtain ⟨⟨⟨⟨⟨⟨⟨f, nat⟩, _⟩, tys⟩, _⟩, lits⟩, _⟩, iri⟩ := this
    exact ⟨ip, hip, f, nat, sameSet_iff tys, sameSet_iff lits, iri⟩

/-- **Declared ranges.** A property admits a type kind iff it is a ranged type or one of its descendants,
a literal kind iff it is in the declared range, and always an IRI; it is a single slot iff declared
functional and reads/writes the `Map` form iff `rdf:langString` is in its range. -/
theorem kinds_exact (h : c12TableB I O = true) {op : OProp} (ho : op ∈ O.props) :
    ∃ ip, I.findProp op.name = some ip ∧ ip.functional = op.functional ∧
      (ip.natLang = true ↔ "rdf:langString" ∈ op.range) ∧
      (∀ t, t ∈ ip.planTypes ↔ ∃ r ∈ op.range, isLitKind r = false ∧ t ∈ O.names ∧ (t = r ∨ r ∈ anc O t)) ∧
      (∀ k, k ∈ ip.planLits ↔ k ∈ op.range ∧ isLitKind k = true) ∧
      (ip.hasIri = true ∨ "xsd:anyURI" ∈ ip.planLits) := by
  obtain ⟨ip, hip, hf, hn, ht, hl, hi⟩ := prop_row h ho
  refine ⟨ip, hip, hf, by rw [hn, List.contains_iff_mem], fun t => ?_, fun k => ?_, hi⟩
  · rw [ht t]
    simp only [Ontology.kindTypes, Ontology.descSelf, List.mem_flatMap, List.mem_filter, Bool.not_eq_true',
      Bool.or_eq_true, beq_iff_eq, List.contains_iff_mem]
    constructor
    · rintro ⟨r, ⟨hr, hl⟩, hn, hd⟩; exact ⟨r, hr, hl, hn, hd⟩
    · rintro ⟨r, hr, hl, hn, hd⟩; exact ⟨r, ⟨hr, hl⟩, hn, hd⟩
  · rw [hl k]; simp [Ontology.kindLits, List.mem_filter]

/-- a ranged type admits all its descendants (stated over the closure relation) -/
theorem kinds_descendants (h : c12TableB I O = true) (h13 : c13TableB I O = true) {op : OProp} (ho : op ∈ O.props)
    {r t : String} (hr : r ∈ op.range) (hl : isLitKind r = false) (ht : t ∈ O.names)
    (hd : Relation.TransGen (Sub O) t r) :
    ∃ ip, I.findProp op.name = some ip ∧ t ∈ ip.planTypes := by
  obtain ⟨ip, hip, _, _, hk, _⟩ := kinds_exact h ho
  refine ⟨ip, hip, (hk t).mpr ⟨r, hr, hl, ht, Or.inr ?_⟩⟩
  exact (anc_spec (C13.closed_of_mem h13 ht) r).mpr hd

/-- inheritance: a type has every property of a parent unless withheld along the way -/
theorem inherit_mono (h13 : c13TableB I O = true) {child parent p : String}
    (hc : child ∈ O.names) (hpn : parent ∈ O.names)
    (hsub : Relation.TransGen (Sub O) child parent) (hp : p ∈ O.propsOf parent)
    (hw : ∀ op ∈ O.props, op.name = p → ∀ w ∈ op.without, w ∉ ancSelf O child) :
    p ∈ O.propsOf child := by
  simp only [Ontology.propsOf, List.mem_map, List.mem_filter, Bool.and_eq_true, List.any_eq_true,
    List.contains_iff_mem, Bool.not_eq_true'] at hp ⊢
  obtain ⟨op, ⟨ho, ⟨d, hd1, hd2⟩, _⟩, rfl⟩ := hp
  refine ⟨op, ⟨ho, ⟨d, hd1, ?_⟩, ?_⟩, rfl⟩
  · -- ancestors-or-self of the parent are ancestors of the child
    rw [mem_ancSelf_iff (C13.closed_of_mem h13 hpn)] at hd2
    rw [mem_ancSelf_iff (C13.closed_of_mem h13 hc)]
    rcases hd2 with rfl | hd2
    · exact Or.inr hsub
    · exact Or.inr (hsub.trans hd2)
  · rw [Bool.eq_false_iff]; intro hc'
    simp only [List.any_eq_true, List.contains_iff_mem] at hc'
    obtain ⟨w, hw1, hw2⟩ := hc'
    exact hw op ho rfl w hw1 hw2

/-! ### Instantiation on the tables regenerated from /repo -/

theorem shipped_props {ot : OType} (ho : ot ∈ Gen.ontology.types) :
    ∃ it, Gen.impl.findType ot.name = some it ∧ ∀ p, p ∈ it.props ↔
      ((∃ op ∈ Gen.ontology.props, op.name = p ∧ (∃ d ∈ op.domain, d ∈ ancSelf Gen.ontology ot.name) ∧
          ¬ (∃ w ∈ op.without, w ∈ ancSelf Gen.ontology ot.name)) ∨ p = "id" ∨ (p = "type" ∧ ot.typeless = false)) :=
  props_exact GenProps.c12_table ho

theorem shipped_known_keys {ot : OType} (ho : ot ∈ Gen.ontology.types) :
    ∃ it, Gen.impl.findType ot.name = some it ∧ ∀ k, k ∈ it.knownKeys ↔ k ∈ Gen.impl.expectedKnownKeys it :=
  known_keys_exact GenProps.c12_table ho

theorem shipped_kinds {op : OProp} (ho : op ∈ Gen.ontology.props) :
    ∃ ip, Gen.impl.findProp op.name = some ip ∧ ip.functional = op.functional ∧
      (ip.natLang = true ↔ "rdf:langString" ∈ op.range) ∧
      (∀ t, t ∈ ip.planTypes ↔ ∃ r ∈ op.range, isLitKind r = false ∧ t ∈ Gen.ontology.names ∧ (t = r ∨ r ∈ anc Gen.ontology t)) ∧
      (∀ k, k ∈ ip.planLits ↔ k ∈ op.range ∧ isLitKind k = true) ∧
      (ip.hasIri = true ∨ "xsd:anyURI" ∈ ip.planLits) :=
  kinds_exact GenProps.c12_table ho

/-! Non-vacuity: a type below a withholding ancestor (Arrive < IntransitiveActivity, `object` withheld)
and a property whose range is closed under descendants. -/
example : "object" ∉ Gen.ontology.propsOf "Arrive" ∧ "object" ∈ Gen.ontology.propsOf "Create" ∧
    "actor" ∈ Gen.ontology.propsOf "Arrive" := by decide +kernel
example : "OrderedCollectionPage" ∈ Gen.iP_likes.planTypes ∧ "Note" ∉ Gen.iP_likes.planTypes := by decide +kernel

end AV.Props.C12
