import AV.Props.C05
import AV.Lemmas.DeliverPhase
/-
C05, the remaining clause: *nothing is delivered once a persistence step failed*.  The monitor `outboxOrderMon`
(`Spec/Monitors.lean`, the same one the driver runs over the implementation's traces) rejects a `BatchDeliver` unless
`SetOutbox` has succeeded and no Database / id / callback step before that answered with an error.  Proved for
`Send` and for the outbox POST handler, for every input and every sequence of answers of the application.
-/
namespace AV.Props.C05
open AV Prog Pub Val

abbrev OM := outboxOrderMon

/-- a program that never calls `BatchDeliver` cannot violate the monitor, whatever its state -/
theorem nd_safe' {re aw : Bool} {H Hv He : List Iri} {p : Prog α} (h : Lk re aw noPayload H p Hv He) (s : OrderSt) :
    SafeP OM s p (fun _ _ => True) := by
  unfold Lk at h
  induction p generalizing H s with
  | ret a => trivial
  | fail e => trivial
  | panic site => trivial
  | call c k ih =>
    intro r
    have hr := h r
    have hnb : c.deliverBad noPayload = false := by
      revert hr
      simp only [lockMonG]
      cases hd : c.deliverBad noPayload <;> simp
    have hstep : ∃ s', OM.step s c r = some s' := by
      cases c with
      | batchDeliver p t => simp [Call.deliverBad, noPayload] at hnb
      | _ => simp only [OM, outboxOrderMon]; first | exact ⟨_, rfl⟩ | (split <;> exact ⟨_, rfl⟩)
    obtain ⟨s', hs'⟩ := hstep
    rw [hs']
    revert hr
    cases hstep2 : (lockMonG re aw noPayload).step H c r with
    | none => intro hr; exact hr.elim
    | some H' => intro hr; exact ih r hr s'

attribute [local irreducible] Pub.withLock Op.locked

/-- `addToOutbox`: returns a value only with the outbox updated and — like every fragment before it — only if none of
its steps failed -/
theorem addToOutbox_store (outbox : Iri) (a : J) (s : OrderSt) (hs : s.stored = false) :
    SafeP OM s (addToOutbox outbox a) (fun s' o => o.isSome = true → s' = { s with stored := true }) := by
  unfold addToOutbox
  apply SafeP.bind
  apply SafeP.mono (Ff.activityIdGet _ a s hs)
  intro s1 o1 h1
  cases o1 with
  | none => intro h; cases h
  | some id =>
    have : s1 = s := h1
    subst this
    apply SafeP.bind
    apply SafeP.mono (Ff.locked (k := id) (Ff.create a) s1 hs)
    intro s2 o2 h2
    cases o2 with
    | none => intro h; cases h
    | some _ =>
      have : s2 = s1 := h2
      subst this
      apply SafeP.bind
      apply SafeP.mono (Ff.lock outbox s2 hs)
      intro s3 o3 h3
      cases o3 with
      | none => intro h; cases h
      | some _ =>
        have : s3 = s2 := h3
        subst this
        apply SafeP.finally_
        apply SafeP.bind
        apply SafeP.mono (Ff.getOutbox outbox s3 hs)
        intro s4 o4 h4
        cases o4 with
        | none =>
          -- GetOutbox failed: Unlock, then the error
          apply SafeP.mono (nd_safe' (re := false) (aw := true) (H := [outbox]) (Lk.unlock_head (He := []) outbox) s4)
          intro s5 o5 _
          cases o5 <;> (intro h; cases h)
        | some page =>
          have : s4 = s3 := h4
          subst this
          unfold Op.setOutbox
          apply Ff.call
          intro r
          cases r with
          | ok u =>
            refine ⟨{ s4 with stored := true }, ?_, ?_⟩
            · simp [outboxOrderMon, respOk]
            · show SafeP OM _ (Op.unlock outbox) _
              unfold Op.unlock
              apply Ff.call
              intro r'
              exact ⟨{ s4 with stored := true }, rfl, fun _ => rfl⟩
          | error e =>
            refine ⟨{ s4 with failed := true }, ?_, ?_⟩
            · simp [outboxOrderMon, respOk, hs]
            · show SafeP OM _ (Op.unlock outbox) _
              unfold Op.unlock
              apply Ff.call
              intro r'
              exact ⟨{ s4 with failed := true }, rfl, fun h => by cases h⟩

theorem postOutbox_store (F : TFacts) (cfg : ActorCfg) (a : J) (outbox : Iri) (raw : J) (s : OrderSt) (hs : s.stored = false) :
    SafeP OM s (postOutbox F cfg (socCb F) a outbox raw) (fun s' o => o.isSome = true → s' = { s with stored := true }) := by
  unfold postOutbox
  apply SafeP.bind
  apply SafeP.mono (postOutboxEffects_ff F cfg a outbox raw s hs)
  intro s1 o1 h1
  cases o1 with
  | none => intro h; cases h
  | some r =>
    have : s1 = s := h1
    subst this
    apply SafeP.bind
    apply SafeP.mono (addToOutbox_store outbox r.1 s1 hs)
    intro s2 o2 h2
    cases o2 with
    | none => intro h; cases h
    | some _ => intro _; exact h2 rfl

/-- **C05 (nothing after a failed step)**: `deliver` — the body of `Send` and of an outbox POST — hands something
to the transport only after `SetOutbox` succeeded and only if no persistence / id / callback step before it failed -/
theorem deliver_failfast (F : TFacts) (cfg : BaseCfg) (outbox : Iri) (v : J) (raw : Option J) (d : Nat) :
    SafeP OM { failed := false, stored := false, delivered := d } (deliver F cfg outbox v raw) (fun _ _ => True) := by
  unfold deliver
  apply SafeP.bind
  apply SafeP.mono (wrapIfNeeded_ff F outbox v _ rfl)
  intro s1 o1 h1
  cases o1 with
  | none => trivial
  | some v1 =>
    have : s1 = _ := h1
    subst this
    show SafeP OM _ (if _ then _ else _) _
    split
    · trivial
    · apply SafeP.bind
      apply SafeP.mono (addNewIDs_ff F v1 _ rfl)
      intro s2 o2 h2
      cases o2 with
      | none => trivial
      | some act =>
        have : s2 = _ := h2
        subst this
        apply SafeP.bind
        apply SafeP.mono (postOutbox_store F cfg.delegate act outbox (raw.getD act) _ rfl)
        intro s3 o3 h3
        cases o3 with
        | none => trivial
        | some r =>
          have : s3 = _ := h3 rfl
          subst this
          show SafeP OM _ (if _ then _ else _) _
          split
          · apply SafeP.mono (deliverS2S_fd F outbox r.2 _ rfl rfl)
            intro _ _ _; trivial
          · trivial

theorem send_failfast (F : TFacts) (cfg : BaseCfg) (outbox : Iri) (t : J) :
    SafeP OM {} (send F cfg outbox t) (fun _ _ => True) := deliver_failfast F cfg outbox t none 0


/-! ### the same for an outbox POST -/

abbrev Ot (s : OrderSt) (p : Prog α) : Prop := SafeP OM s p (fun _ _ => True)

theorem Ot.bind {s : OrderSt} {p : Prog α} {f : α → Prog β} (hp : Ot s p) (hf : ∀ s' a, Ot s' (f a)) : Ot s (p >>= f) := by
  apply SafeP.bind
  apply SafeP.mono hp
  intro s' o _
  cases o with
  | none => trivial
  | some a => exact hf s' a

theorem Ot.nd {s : OrderSt} {p : Prog α} (h : LockOK false true noPayload [] p) : Ot s p := nd_safe' h s

/-- a fragment of the pre-store phase followed by a continuation that is fine from the same state -/
theorem Ot.ff_bind {s : OrderSt} {p : Prog α} {f : α → Prog β} (hs : s.stored = false) (hp : Ff p) (hf : ∀ a, Ot s (f a)) :
    Ot s (p >>= f) := by
  apply SafeP.bind
  apply SafeP.mono (hp s hs)
  intro s' o h
  cases o with
  | none => trivial
  | some a =>
    have : s' = s := h
    subst this
    exact hf a

section
attribute [local irreducible] Lk
theorem postOutboxScheme_failfast (F : TFacts) (cfg : BaseCfg) (r : Request) :
    Ot {} (postOutboxScheme F cfg r) := by
  unfold postOutboxScheme
  split
  · trivial
  · split
    · exact Ot.nd (Lk.bind (Lk.writeHeader _) fun _ => Lk.pure' _)
    · have hauth : Ff (viaC2S cfg "PostOutbox: nil SocialProtocol" Op.authPostOutbox) := by
        unfold viaC2S; split
        · exact Ff.authPostOutbox
        · exact Ff.panic _
      apply Ot.ff_bind rfl hauth; intro authed
      split
      · trivial
      · split
        · trivial
        · exact Ot.nd (Lk.bind (Lk.writeHeader _) fun _ => Lk.pure' _)
        · have hhook : ∀ v, Ff (viaC2S cfg "PostOutbox: nil SocialProtocol" (Op.hookOutbox v)) := by
            intro v; unfold viaC2S; split
            · exact Ff.hookOutbox _
            · exact Ff.panic _
          apply Ot.ff_bind rfl (hhook _); intro _
          apply Ot.bind
          · apply SafeP.try_
            apply SafeP.mono (deliver_failfast F cfg r.box _ _ 0)
            intro s' o _
            cases o with
            | none => intro _; trivial
            | some _ => trivial
          · intro s3 res
            split
            · exact Ot.nd (Lk.bind (Lk.writeHeader _) fun _ => Lk.pure' _)
            · exact Ot.nd (Lk.bind (Lk.writeHeader _) fun _ => Lk.pure' _)
            · trivial
            · apply Ot.nd; lk_auto
end

/-! ### what acceptance by the monitor means, on the trace alone -/

/-- a step of the identify / side-effect / store phase that answered with an error -/
def _root_.AV.Ev.isFailedStep (e : Ev) : Bool :=
  (match e.call with
   | .unlock _ => false
   | .batchDeliver _ _ => false
   | c => c.isDb || c.isSideEffectCb || (match c with | .setOutbox _ => true | _ => false)) && !respOk e.call e.resp

theorem om_step_failed (s s1 : OrderSt) (c : Call) (r : c.Resp) (h : outboxOrderMon.step s c r = some s1)
    (hf : s.failed = true) : s1.failed = true := by
  cases c <;> simp only [outboxOrderMon] at h
  all_goals (try split at h)
  all_goals (first
    | (cases h; simp [hf])
    | (cases h; exact hf)
    | (simp at h))


theorem om_failed_mono (tr : List Ev) (s s' : OrderSt) (h : outboxOrderMon.runTrace s tr = some s') (hf : s.failed = true) :
    s'.failed = true := by
  induction tr generalizing s with
  | nil => simp only [Mon.runTrace] at h; cases h; exact hf
  | cons e rest ih =>
    simp only [Mon.runTrace] at h
    revert h
    cases hs : outboxOrderMon.step s e.call e.resp with
    | none => intro h; cases h
    | some s1 => intro h; exact ih s1 h (om_step_failed s s1 e.call e.resp hs hf)

theorem om_step_unstored (s s1 : OrderSt) (e : Ev) (h : outboxOrderMon.step s e.call e.resp = some s1)
    (hst : s.stored = false) (hne : e.isStore = false) : s1.stored = false := by
  obtain ⟨c, r⟩ := e
  cases c with
  | setOutbox v =>
    cases r with
    | ok u => simp [Ev.isStore] at hne
    | error e =>
      simp only [outboxOrderMon] at h
      cases h
      simp [hst, respOk]
  | _ =>
    simp only [outboxOrderMon] at h
    all_goals (try split at h)
    all_goals (first
      | (cases h; exact hst)
      | (cases h; simp [hst])
      | (simp at h))

theorem om_step_fails (s s1 : OrderSt) (e : Ev) (h : outboxOrderMon.step s e.call e.resp = some s1)
    (hst : s.stored = false) (hf : e.isFailedStep = true) : s1.failed = true := by
  obtain ⟨c, r⟩ := e
  cases c <;> simp_all [outboxOrderMon, Ev.isFailedStep, Call.isDb, Call.isDbAccess, Call.isSideEffectCb] <;>
    (try (cases h; simp_all)) <;> (try (subst h; simp_all))

theorem om_deliver_needs (s s1 : OrderSt) (e : Ev) (h : outboxOrderMon.step s e.call e.resp = some s1)
    (hd : e.isDeliver = true) : s.failed = false ∧ s.stored = true := by
  obtain ⟨c, r⟩ := e
  cases c <;> simp [Ev.isDeliver] at hd
  simp only [outboxOrderMon] at h
  split at h
  · cases h
  · rename_i hc
    simp only [Bool.or_eq_true, Bool.not_eq_true', not_or, Bool.not_eq_true, Bool.not_eq_false] at hc
    exact ⟨hc.1, by cases hh : s.stored <;> simp_all⟩

theorem runTrace_append (M : Mon) (a b : List Ev) (s : M.S) :
    M.runTrace s (a ++ b) = (M.runTrace s a).bind (fun s' => M.runTrace s' b) := by
  induction a generalizing s with
  | nil => rfl
  | cons e rest ih =>
    simp only [List.cons_append, Mon.runTrace]
    cases M.step s e.call e.resp with
    | none => rfl
    | some s1 => exact ih s1

theorem om_unstored (tr : List Ev) (s s' : OrderSt) (h : outboxOrderMon.runTrace s tr = some s') (hst : s.stored = false)
    (hno : ∀ x ∈ tr, x.isStore = false) : s'.stored = false := by
  induction tr generalizing s with
  | nil => simp only [Mon.runTrace] at h; cases h; exact hst
  | cons e rest ih =>
    simp only [Mon.runTrace] at h
    revert h
    cases hs : outboxOrderMon.step s e.call e.resp with
    | none => intro h; cases h
    | some s1 =>
      intro h
      exact ih s1 h (om_step_unstored s s1 e hs hst (hno e List.mem_cons_self)) (fun x hx => hno x (List.mem_cons_of_mem _ hx))

/-- **what the monitor's acceptance means**: for every `BatchDeliver` event of an accepted trace, a successful
`SetOutbox` came before it, and every persistence / id / callback step made before the outbox was updated — and the
update itself — succeeded -/
theorem order_trace_meaning (tr : List Ev) (s' : OrderSt) (h : outboxOrderMon.runTrace {} tr = some s')
    (pre post : List Ev) (ev : Ev) (hsplit : tr = pre ++ ev :: post) (hd : ev.isDeliver = true) :
    (∃ e ∈ pre, e.isStore = true) ∧
    (∀ pre1 e pre2, pre = pre1 ++ e :: pre2 → (∀ x ∈ pre1, x.isStore = false) → e.isFailedStep = false) := by
  subst hsplit
  have h := (runTrace_append outboxOrderMon pre (ev :: post) _).symm.trans h
  cases h1 : outboxOrderMon.runTrace {} pre with
  | none => rw [h1] at h; cases h
  | some s1 =>
    rw [h1] at h
    simp only [Option.bind, Mon.runTrace] at h
    cases hs : outboxOrderMon.step s1 ev.call ev.resp with
    | none => rw [hs] at h; cases h
    | some s2 =>
      obtain ⟨hnf, hstored⟩ := om_deliver_needs s1 s2 ev hs hd
      constructor
      · -- otherwise the outbox would still be untouched
        apply Classical.byContradiction
        intro hne
        have hno : ∀ x ∈ pre, x.isStore = false := by
          intro x hx
          cases hxs : x.isStore with
          | false => rfl
          | true => exact absurd ⟨x, hx, hxs⟩ hne
        have := om_unstored pre {} s1 h1 rfl hno
        rw [this] at hstored
        cases hstored
      · intro pre1 e pre2 hpre hno
        cases hfs : e.isFailedStep with
        | false => rfl
        | true =>
          exfalso
          subst hpre
          have h1 := (runTrace_append outboxOrderMon pre1 (e :: pre2) _).symm.trans h1
          cases ha : outboxOrderMon.runTrace {} pre1 with
          | none => rw [ha] at h1; cases h1
          | some sa =>
            rw [ha] at h1
            simp only [Option.bind, Mon.runTrace] at h1
            cases hb : outboxOrderMon.step sa e.call e.resp with
            | none => rw [hb] at h1; cases h1
            | some sb =>
              rw [hb] at h1
              have hsa : sa.stored = false := om_unstored pre1 {} sa ha rfl hno
              have hsb : sb.failed = true := om_step_fails sa sb e hb hsa hfs
              have := om_failed_mono pre2 sb s1 h1 hsb
              rw [this] at hnf
              cases hnf

/-- **C05 (nothing after a failed step), trace form**: on every run of `Send`, against every application -/
theorem send_failfast_trace (F : TFacts) (cfg : BaseCfg) (outbox : Iri) (t : J) (env : Env) (pre post : List Ev) (ev : Ev)
    (hsplit : (run (send F cfg outbox t) env).1 = pre ++ ev :: post) (hd : ev.isDeliver = true) :
    (∃ e ∈ pre, e.isStore = true) ∧
    (∀ pre1 e pre2, pre = pre1 ++ e :: pre2 → (∀ x ∈ pre1, x.isStore = false) → e.isFailedStep = false) := by
  obtain ⟨s', h1, _⟩ := SafeP.sound (send_failfast F cfg outbox t) env 0
  exact order_trace_meaning _ s' h1 pre post ev hsplit hd

/-- … and of an outbox POST -/
theorem postOutbox_failfast_trace (F : TFacts) (cfg : BaseCfg) (r : Request) (env : Env) (pre post : List Ev) (ev : Ev)
    (hsplit : (run (postOutboxScheme F cfg r) env).1 = pre ++ ev :: post) (hd : ev.isDeliver = true) :
    (∃ e ∈ pre, e.isStore = true) ∧
    (∀ pre1 e pre2, pre = pre1 ++ e :: pre2 → (∀ x ∈ pre1, x.isStore = false) → e.isFailedStep = false) := by
  obtain ⟨s', h1, _⟩ := SafeP.sound (postOutboxScheme_failfast F cfg r) env 0
  exact order_trace_meaning _ s' h1 pre post ev hsplit hd

end AV.Props.C05
