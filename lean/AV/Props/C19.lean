import AV.Spec.C19
/-
C19 — The bundled transport signs every request, finishes every batch.
-/
namespace AV.Props.C19
open AV AV.Spec.C19

/-- the request handed to the signer carries Date (the application clock, RFC 7231 form), Host, the two-part
User-Agent and the ActivityStreams media type under Accept (GET) -/
theorem get_headers (cfg : Cfg) (url host : String) (now : Int) :
    let r := mkGet cfg url host now
    r.method = "GET" ∧ r.body = none ∧
    ("Date", Time.imfFixdate now) ∈ r.headers ∧ ("Host", host) ∈ r.headers ∧
    ("User-Agent", cfg.appAgent ++ " " ++ cfg.gofedAgent) ∈ r.headers ∧ ("Accept", asMediaType) ∈ r.headers := by
  simp [mkGet]

/-- … and under Content-Type (POST), with exactly the payload as body -/
theorem post_headers (cfg : Cfg) (url host : String) (now : Int) (b : String) :
    let r := mkPost cfg url host now b
    r.method = "POST" ∧ r.body = some b ∧
    ("Date", Time.imfFixdate now) ∈ r.headers ∧ ("Host", host) ∈ r.headers ∧
    ("User-Agent", cfg.appAgent ++ " " ++ cfg.gofedAgent) ∈ r.headers ∧ ("Content-Type", asMediaType) ∈ r.headers := by
  simp [mkPost]

/-- **C19 (Dereference)**: a body is returned exactly for status 200 -/
theorem deref_ok_iff (r : Resp) (b : String) : derefOutcome r = .ok b ↔ r = .status 200 b := by
  cases r with
  | err m => simp [derefOutcome]
  | status c body =>
    by_cases h : c = 200
    · subst h; simp [derefOutcome]
    · constructor
      · intro h'
        unfold derefOutcome at h'
        split at h' <;> simp_all
      · intro h'; cases h'; exact absurd rfl h

/-- **C19 (Deliver)**: success exactly for 200, 201, 202 -/
theorem deliver_ok_iff (to : String) (r : Resp) :
    deliverOutcome to r = .ok () ↔ ∃ c b, r = .status c b ∧ (c = 200 ∨ c = 201 ∨ c = 202) := by
  cases r with
  | err m => simp [deliverOutcome]
  | status c body =>
    simp only [deliverOutcome]
    cases hs : isSuccess c with
    | true =>
      simp only [if_true, true_iff]
      refine ⟨c, body, rfl, ?_⟩
      simp only [isSuccess, Bool.or_eq_true, beq_iff_eq] at hs
      rcases hs with (h | h) | h
      · exact Or.inl h
      · exact Or.inr (Or.inl h)
      · exact Or.inr (Or.inr h)
    | false =>
      simp only [Bool.false_eq_true, if_false]
      constructor
      · intro h; cases h
      · rintro ⟨c', b', h, hc⟩
        cases h
        have : isSuccess c = true := by
          rcases hc with rfl | rfl | rfl <;> rfl
        rw [this] at hs; cases hs

/-- **C19 (batch)**: the batch reports an error if and only if at least one attempt failed … -/
theorem batch_error_iff (attempts : List (String × Resp)) :
    (∃ fs, batchOutcome attempts = .error fs) ↔ ∃ a ∈ attempts, ∃ m, deliverOutcome a.1 a.2 = .error m := by
  unfold batchOutcome
  constructor
  · rintro ⟨fs, h⟩
    cases hf : batchFailures attempts with
    | nil => simp [hf] at h
    | cons f rest =>
      have : f ∈ batchFailures attempts := by rw [hf]; exact List.mem_cons_self
      unfold batchFailures at this
      rw [List.mem_filterMap] at this
      obtain ⟨a, ha, hm⟩ := this
      refine ⟨a, ha, f, ?_⟩
      obtain ⟨to, r⟩ := a
      simp only at hm
      cases hd : deliverOutcome to r with
      | ok u => simp [hd] at hm
      | error m => simp [hd] at hm; subst hm; rfl
  · rintro ⟨a, ha, m, hm⟩
    have hmem : m ∈ batchFailures attempts := by
      unfold batchFailures
      rw [List.mem_filterMap]
      refine ⟨a, ha, ?_⟩
      obtain ⟨to, r⟩ := a
      simp only at hm ⊢
      simp [hm]
    cases hf : batchFailures attempts with
    | nil => rw [hf] at hmem; cases hmem
    | cons f rest => exact ⟨f :: rest, by simp [hf]⟩

/-- … and names each failure, once per failed attempt, in recipient order -/
theorem batch_names_failures (attempts : List (String × Resp)) (fs : List String) (h : batchOutcome attempts = .error fs) :
    fs = batchFailures attempts := by
  unfold batchOutcome at h
  cases hf : batchFailures attempts with
  | nil => simp [hf] at h
  | cons f rest => simp [hf] at h; exact h.symm

/-- every recipient is judged: the number of failures and successes adds up to the number of recipients -/
theorem batch_attempts_all (attempts : List (String × Resp)) :
    (batchFailures attempts).length + (attempts.filter fun a => (deliverOutcome a.1 a.2).isOk).length = attempts.length := by
  induction attempts with
  | nil => rfl
  | cons a rest ih =>
    obtain ⟨to, r⟩ := a
    unfold batchFailures at ih ⊢
    cases hd : deliverOutcome to r with
    | ok u => simp [List.filterMap_cons, List.filter_cons, hd, Except.isOk, Except.toBool] at ih ⊢; omega
    | error m => simp [List.filterMap_cons, List.filter_cons, hd, Except.isOk, Except.toBool] at ih ⊢; omega

end AV.Props.C19
