import AV.Lemmas.LockRules
import AV.Lemmas.Frame
import AV.Lemmas.Det
import AV.Lemmas.JsonLemmas
import AV.Pub.Util
/-
C16 / C04, value level for Add and Remove: whatever the application answers, every collection `addLoop` / `removeLoop`
hands to `Update` is the value the preceding `Get` returned with exactly the object ids appended to (resp. every element
whose id is one of the object ids removed from) its items.
-/
namespace AV.Props.C16
open AV Prog Pub Val

/-- the member that holds a collection's elements -/
def colKey (F : TFacts) (t : J) : String :=
  if F.isOrExt "OrderedCollection" (typeName t) then "orderedItems" else "items"

def expectedAdd (F : TFacts) (opIds : List Iri) (t : J) : J :=
  setList t (colKey F t) ((rawList t (colKey F t)).getD [] ++ mkIdList opIds)

/-- keep an element unless its id is one of the removed ones -/
def keeps (F : TFacts) (opIds : List Iri) (j : J) : Bool :=
  match toId F (elemOf F j) with
  | .ok id => !opIds.contains id
  | .error _ => true

def expectedRemove (F : TFacts) (opIds : List Iri) (t : J) : J :=
  match rawList t (colKey F t) with
  | none => t
  | some xs => setList t (colKey F t) (xs.filter (keeps F opIds))

/-- an `Update` must carry `f` of the value the last `Get` returned -/
@[reducible] def writeMon (f : J → J) : Mon where
  S := Option J
  step s c r :=
    match c, r with
    | .get _, .ok (some t) => some (some t)
    | .update v, _ => (match s with
      | some t => if v == f t then some s else none
      | none => none)
    | _, _ => some s

section
variable (F : TFacts)

abbrev W (f : J → J) (s : Option J) (p : Prog α) : Prop := SafeP (writeMon f) s p (fun _ _ => True)

/-- calls the monitor does not look at -/
def neutral (c : Call) : Prop := (∀ k, c ≠ .get k) ∧ (∀ v, c ≠ .update v)

theorem writeMon_neutral (f : J → J) (c : Call) (hc : neutral c) (s : Option J) (r : c.Resp) : (writeMon f).step s c r = some s := by
  obtain ⟨hg, hu⟩ := hc
  cases c <;> simp_all [writeMon]

/-- a fragment of neutral calls, then the rest from the same state -/
theorem W.neutral_bind {f : J → J} {s : Option J} {p : Prog α} {k : α → Prog β} (hp : OnlyCalls neutral p)
    (hk : ∀ a, W f s (k a)) : W f s (p >>= k) :=
  SafeP.bind_frame (M := writeMon f) (SafeP.frame (M := writeMon f) (P := neutral) (fun c hc s r => writeMon_neutral f c hc s r) hp s) hk trivial

theorem W.of_neutral {f : J → J} {s : Option J} {p : Prog α} (hp : OnlyCalls neutral p) : W f s p :=
  SafeP.mono (SafeP.frame (M := writeMon f) (P := neutral) (fun c hc s r => writeMon_neutral f c hc s r) hp s) (fun _ _ _ => trivial)

theorem W.pure_bind {f : J → J} {s : Option J} {p : Prog α} {k : α → Prog β} (hp : isPure p = true)
    (hk : ∀ a, W f s (k a)) : W f s (p >>= k) := W.neutral_bind (OnlyCalls.of_pure hp) hk

/-- `Get`, then the rest from the state that remembers what it returned -/
theorem W.get_bind {f : J → J} {s : Option J} (t : Iri) {k : Option J → Prog β}
    (hsome : ∀ tp, W f (some tp) (k (some tp))) (hnone : W f s (k none)) : W f s (Op.get t >>= k) := by
  unfold Op.get
  intro r
  cases r with
  | error e => trivial
  | ok o =>
    cases o with
    | none => exact hnone
    | some tp => exact hsome tp

theorem W.update (f : J → J) (tp v : J) (h : v = f tp) : W f (some tp) (Op.update v) := by
  unfold Op.update
  intro r
  subst h
  have hstep : (writeMon f).step (some tp) (.update (f tp)) r = some (some tp) := by
    simp [writeMon, J.beq_self]
  rw [hstep]
  cases r <;> trivial

theorem lock_neutral (t : Iri) : OnlyCalls neutral (Op.lock t) :=
  OnlyCalls.op _ ⟨(by intro k h; cases h), (by intro v h; cases h)⟩ _ (fun r => OnlyCalls.ofE r)
theorem unlock_neutral (t : Iri) : OnlyCalls neutral (Op.unlock t) :=
  OnlyCalls.op _ ⟨(by intro k h; cases h), (by intro v h; cases h)⟩ _ (fun _ => .ret ())
theorem owns_neutral (t : Iri) : OnlyCalls neutral (Op.owns t) :=
  OnlyCalls.op _ ⟨(by intro k h; cases h), (by intro v h; cases h)⟩ _ (fun r => OnlyCalls.ofE r)

/-- `Lock(t); defer Unlock(t); body` -/
theorem W.locked_body {f : J → J} (t : Iri) {body : Prog α} (hb : ∀ s, W f s body) (s : Option J) :
    W f s (Op.lock t >>= fun _ => Prog.finally_ body (Op.unlock t)) := by
  apply W.neutral_bind (lock_neutral t)
  intro _
  apply SafeP.finally_
  apply SafeP.mono (hb s)
  intro s' o _
  apply SafeP.mono (W.of_neutral (f := f) (s := s') (unlock_neutral t))
  intro _ o' _
  cases o' <;> trivial

theorem strsOf_cases (site : String) (us : List Iri) : strsOf site us = Prog.panic site ∨ strsOf site us = Prog.ret us := by
  unfold strsOf; split
  · exact Or.inl rfl
  · exact Or.inr rfl

theorem addTail (opIds : List Iri) (tp : J) :
    W (expectedAdd F opIds) (some tp) (do
      let key ←
        if F.isOrExt "OrderedCollection" (typeName tp) then pure "orderedItems"
        else if F.isOrExt "Collection" (typeName tp) then pure "items"
        else Prog.fail .lib
      let ids ← strsOf "add: AppendIRI(nil)" opIds
      let tp := setList tp key ((rawList tp key).getD [] ++ mkIdList ids)
      Op.update tp) := by
  by_cases h1 : F.isOrExt "OrderedCollection" (typeName tp) = true
  · simp only [h1, if_true]
    rcases strsOf_cases "add: AppendIRI(nil)" opIds with h | h
    · rw [h]; trivial
    · rw [h]
      apply W.update
      unfold expectedAdd colKey
      simp [h1]
  · by_cases h2 : F.isOrExt "Collection" (typeName tp) = true
    · simp only [h1, h2, Bool.false_eq_true, if_false, if_true]
      rcases strsOf_cases "add: AppendIRI(nil)" opIds with h | h
      · rw [h]; trivial
      · rw [h]
        apply W.update
        unfold expectedAdd colKey
        simp [h1]
    · simp only [h1, h2, Bool.false_eq_true, if_false]
      trivial

/-- **Add, value level**: every collection handed to `Update` is the one `Get` returned with exactly the object ids
appended -/
theorem addLoop_writes (opIds : List Iri) (t : Iri) (s : Option J) :
    W (expectedAdd F opIds) s (addLoop F opIds t) := by
  unfold addLoop
  apply W.locked_body
  intro s
  apply W.neutral_bind (owns_neutral t)
  intro owns
  cases owns with
  | false => trivial
  | true =>
    simp only [Bool.not_true, Bool.false_eq_true, if_false]
    apply W.get_bind
    · intro tp
      exact addTail F opIds tp
    · trivial

theorem add_writes (op target : List J) (s : Option J) : W (expectedAdd F ((idsOf F op).toOption.getD [])) s (add F op target) := by
  unfold add
  cases hop : idsOf F op with
  | error e => simp [idsM, hop, AV.liftLib]; trivial
  | ok opIds =>
    simp only [idsM, hop, AV.liftLib, Except.toOption, Option.getD]
    show W _ s (Prog.ret opIds >>= _)
    show W _ s (AV.liftLib (idsOf F target) >>= _)
    apply W.pure_bind (by cases idsOf F target <;> rfl)
    intro targetIds
    generalize hs : s = s0
    clear hs
    induction targetIds generalizing s0 with
    | nil => trivial
    | cons t ts ih =>
      show W _ s0 (addLoop F opIds t >>= fun _ => ts.forM (addLoop F opIds))
      apply SafeP.bind
      apply SafeP.mono (addLoop_writes F opIds t s0)
      intro s' o _
      cases o with
      | none => trivial
      | some _ => exact ih s'

/-- a pure program is a value, an error or a panic -/
theorem pure_cases {p : Prog α} (h : isPure p = true) : (∃ a, p = .ret a) ∨ (∃ e, p = .fail e) ∨ (∃ s, p = .panic s) := by
  cases p with
  | ret a => exact Or.inl ⟨a, rfl⟩
  | fail e => exact Or.inr (Or.inl ⟨e, rfl⟩)
  | panic s => exact Or.inr (Or.inr ⟨s, rfl⟩)
  | call c k => cases h

/-- the value of a program that makes no call -/
def valOf : Prog α → Option α
  | .ret a => some a
  | _ => none

theorem valOf_bind (p : Prog α) (f : α → Prog β) : valOf (p >>= f) = (valOf p).bind (fun a => valOf (f a)) := by
  cases p <;> rfl

/-- the filtering loop of `remove`, when it produces a value, produces the kept elements -/
theorem keptLoop (opIds : List Iri) (f : List J → J → Prog (List J))
    (hf : ∀ acc j, valOf (f acc j) = (match toId F (elemOf F j) with
      | .ok id => if id == nilIri then none else some (if opIds.contains id then acc else acc ++ [j])
      | .error _ => none)) :
    ∀ (xs acc out : List J), valOf (xs.foldlM f acc) = some out → out = acc ++ xs.filter (keeps F opIds) := by
  intro xs
  induction xs with
  | nil =>
    intro acc out h
    have : some acc = some out := h
    cases this
    simp
  | cons j js ih =>
    intro acc out h
    rw [List.foldlM_cons, valOf_bind, hf acc j] at h
    cases hid : toId F (elemOf F j) with
    | error e => rw [hid] at h; cases h
    | ok id =>
      rw [hid] at h
      by_cases hn : (id == nilIri) = true
      · simp only [hn, if_true] at h; cases h
      · simp only [hn, Bool.false_eq_true, if_false, Option.bind] at h
        have := ih _ out h
        rw [this]
        have hk : keeps F opIds j = !opIds.contains id := by unfold keeps; rw [hid]
        rw [List.filter_cons, hk]
        cases hc : opIds.contains id <;> simp

theorem W.pure_bind' {f : J → J} {s : Option J} {p : Prog α} {k : α → Prog β} (hp : isPure p = true)
    (hk : ∀ a, p = .ret a → W f s (k a)) : W f s (p >>= k) := by
  rcases pure_cases hp with ⟨a, h⟩ | ⟨e, h⟩ | ⟨st, h⟩
  · rw [h]; exact hk a h
  · rw [h]; trivial
  · rw [h]; trivial

theorem isPure_keptStep (opIds : List Iri) (acc : List J) (j : J) : isPure (do
    let id ← AV.liftLib (toId F (elemOf F j))
    let id ← strOf "remove: id.String() on nil" id
    pure (if opIds.contains id then acc else acc ++ [j]) : Prog (List J)) = true := by
  apply isPure_bind
  · cases toId F (elemOf F j) <;> rfl
  · intro id
    apply isPure_bind
    · unfold strOf; split <;> rfl
    · intro _; rfl

theorem removeTail (opIds : List Iri) (tp : J) :
    W (expectedRemove F opIds) (some tp) (do
      let key ←
        if F.isOrExt "OrderedCollection" (typeName tp) then pure "orderedItems"
        else if F.isOrExt "Collection" (typeName tp) then pure "items"
        else Prog.fail .lib
      let tp ← match rawList tp key with
        | none => pure tp
        | some xs => do
          let kept ← xs.foldlM (fun (acc : List J) j => do
            let id ← AV.liftLib (toId F (elemOf F j))
            let id ← strOf "remove: id.String() on nil" id
            pure (if opIds.contains id then acc else acc ++ [j])) []
          pure (setList tp key kept)
      Op.update tp) := by
  -- the same for either member name, as long as it is the collection's
  have hkey : ∀ key, key = colKey F tp →
      W (expectedRemove F opIds) (some tp) (match rawList tp key with
        | none => do
          let tp ← pure tp
          Op.update tp
        | some xs => do
          let kept ← xs.foldlM (fun (acc : List J) j => do
            let id ← AV.liftLib (toId F (elemOf F j))
            let id ← strOf "remove: id.String() on nil" id
            pure (if opIds.contains id then acc else acc ++ [j])) []
          let tp ← pure (setList tp key kept)
          Op.update tp) := by
    intro key hk
    cases hr : rawList tp key with
    | none =>
      show W _ (some tp) (Op.update tp)
      apply W.update
      unfold expectedRemove
      rw [← hk, hr]
    | some xs =>
      simp only
      show W _ (some tp) (xs.foldlM _ [] >>= fun kept => Op.update (setList tp key kept))
      have hpure : isPure (xs.foldlM (fun (acc : List J) j => do
          let id ← AV.liftLib (toId F (elemOf F j))
          let id ← strOf "remove: id.String() on nil" id
          pure (if opIds.contains id then acc else acc ++ [j])) ([] : List J)) = true :=
        isPure_foldlM _ (fun acc j => isPure_keptStep F opIds acc j) xs []
      rcases pure_cases hpure with ⟨kept, h⟩ | ⟨e, h⟩ | ⟨st, h⟩
      · rw [h]
        show W _ (some tp) (Op.update (setList tp key kept))
        apply W.update
        have hrun : valOf (xs.foldlM (fun (acc : List J) j => do
            let id ← AV.liftLib (toId F (elemOf F j))
            let id ← strOf "remove: id.String() on nil" id
            pure (if opIds.contains id then acc else acc ++ [j])) ([] : List J)) = some kept := by rw [h]; rfl
        have hk2 := keptLoop F opIds _ (by
          intro acc j
          cases hid : toId F (elemOf F j) with
          | error e => simp [hid, AV.liftLib, valOf]
          | ok id =>
            simp only [hid, AV.liftLib, strOf]
            by_cases hn : (id == nilIri) = true
            · have : id = nilIri := by simpa using hn
              subst this
              simp [valOf]
            · have hne : ¬ id = nilIri := by simpa using hn
              simp [hn, hne, valOf]) xs [] kept hrun
        unfold expectedRemove
        rw [← hk, hr, hk2]
        simp
      · rw [h]; trivial
      · rw [h]; trivial
  by_cases h1 : F.isOrExt "OrderedCollection" (typeName tp) = true
  · simp only [h1, if_true]
    exact hkey "orderedItems" (by unfold colKey; simp [h1])
  · by_cases h2 : F.isOrExt "Collection" (typeName tp) = true
    · simp only [h1, h2, Bool.false_eq_true, if_false, if_true]
      exact hkey "items" (by unfold colKey; simp [h1])
    · simp only [h1, h2, Bool.false_eq_true, if_false]
      trivial

/-- **Remove, value level**: every collection handed to `Update` is the one `Get` returned without the elements whose id
is one of the object ids (every occurrence), everything else in place -/
theorem removeLoop_writes (opIds : List Iri) (t : Iri) (s : Option J) :
    W (expectedRemove F opIds) s (removeLoop F opIds t) := by
  unfold removeLoop
  apply W.locked_body
  intro s
  apply W.neutral_bind (owns_neutral t)
  intro owns
  cases owns with
  | false => trivial
  | true =>
    simp only [Bool.not_true, Bool.false_eq_true, if_false]
    apply W.get_bind
    · intro tp
      exact removeTail F opIds tp
    · trivial

end
end AV.Props.C16

namespace AV.Props.C16
open AV Prog Pub Val

section
variable (F : TFacts)

/-- what Like / Announce write for an owned object: the stored value with the activity id at the front of its
`likes` / `shares` collection (`bumpCollection` is a pure function of the stored value) -/
def expectedBump (F : TFacts) (p : String) (id : Iri) (t : J) : J := (valOf (bumpCollection F t p id)).getD t

theorem isPure_bumpCollection (t : J) (p : String) (id : Iri) : isPure (bumpCollection F t p id) = true := by
  unfold bumpCollection
  split
  · rfl
  · split
    · rfl
    · split <;> rfl

/-- **Like / Announce, value level**: for every application, what `likeLoop` hands to `Update` is the value `Get`
returned with the activity id prepended to the collection -/
theorem likeLoop_writes (p : String) (id : Iri) (j : J) (s : Option J) :
    W (expectedBump F p id) s (likeLoop F p id j) := by
  unfold likeLoop
  apply W.pure_bind (by cases toId F (elemOf F j) <;> rfl)
  intro objId
  show W _ s (Op.lock objId >>= fun _ => Prog.finally_ _ (Op.unlock objId))
  apply W.locked_body
  intro s
  apply W.neutral_bind (owns_neutral objId)
  intro owns
  cases owns with
  | false => trivial
  | true =>
    simp only [Bool.not_true, Bool.false_eq_true, if_false]
    apply W.get_bind
    · intro tp
      show W _ (some tp) (bumpCollection F tp p id >>= fun t => Op.update t)
      apply W.pure_bind' (isPure_bumpCollection F tp p id)
      intro t' ht
      apply W.update
      unfold expectedBump
      rw [ht]; rfl
    · trivial

/-- … where the collection is the object's `likes` / `shares` (a fresh Collection when it had none, or only an IRI), and
the activity id goes in front of whichever of `items` / `orderedItems` it has -/
theorem bumpCollection_spec (t : J) (p : String) (id : Iri) (t' : J) (h : valOf (bumpCollection F t p id) = some t') :
    ∃ key, (key = "items" ∨ key = "orderedItems") ∧ has F (bumpCol F t p) key = true ∧
      t' = t.set p (setList (bumpCol F t p) key (iriJ id :: (rawList (bumpCol F t p) key).getD [])) := by
  unfold bumpCollection at h
  split at h
  · cases h
  · split at h
    · rename_i hi
      refine ⟨"items", Or.inl rfl, hi, ?_⟩
      have : some (t.set p (setList (bumpCol F t p) "items" (iriJ id :: (rawList (bumpCol F t p) "items").getD []))) = some t' := h
      cases this; rfl
    · split at h
      · rename_i ho
        refine ⟨"orderedItems", Or.inr rfl, ho, ?_⟩
        have : some (t.set p (setList (bumpCol F t p) "orderedItems" (iriJ id :: (rawList (bumpCol F t p) "orderedItems").getD []))) = some t' := h
        cases this; rfl
      · cases h

end
end AV.Props.C16
