import AV.Props.C01
/-
C01, exactness clause as a whole-value theorem: a canonical typed value (executable predicate `canonB`, any nesting
depth) is a fixed point of the round trip — the re-serialised value is *equal* to the decoded one, not merely
member-wise.  The step from members to the whole object is extensionality of key-sorted association lists.
-/
namespace AV.Props.C01
open AV AV.RoundTrip

/-! ### key-sorted association lists -/

abbrev Sorted (l : List (String × J)) : Prop := l.Pairwise (fun a b => a.1 < b.1)

theorem sorted_of_sortedB : ∀ (l : List (String × J)), sortedB l = true → Sorted l
  | [], _ => List.Pairwise.nil
  | [_], _ => List.pairwise_singleton _ _
  | a :: b :: r, h => by
    simp only [sortedB, Bool.and_eq_true, decide_eq_true_eq] at h
    have ih := sorted_of_sortedB (b :: r) h.2
    refine List.Pairwise.cons ?_ ih
    intro x hx
    rcases List.mem_cons.mp hx with hx | hx
    · subst hx; exact h.1
    · exact String.lt_trans h.1 (List.rel_of_pairwise_cons ih hx)

theorem str_lt_of_not (a b : String) (h1 : ¬ a = b) (h2 : ¬ a < b) : b < a := by
  have hle : b ≤ a := String.not_lt.mp h2
  rcases Decidable.em (b < a) with h | h
  · exact h
  · exact absurd (String.le_antisymm (String.not_lt.mp h) hle) h1

theorem mem_insKv (k : String) (v : J) : ∀ (l : List (String × J)) (x : String × J),
    x ∈ J.insKv k v l → x = (k, v) ∨ x ∈ l := by
  intro l
  induction l with
  | nil => intro x hx; simp only [J.insKv, List.mem_singleton] at hx; exact Or.inl hx
  | cons y ys ih =>
    intro x hx
    obtain ⟨k', v'⟩ := y
    simp only [J.insKv] at hx
    split at hx
    · rcases List.mem_cons.mp hx with h | h
      · exact Or.inl h
      · exact Or.inr (List.mem_cons_of_mem _ h)
    · split at hx
      · rcases List.mem_cons.mp hx with h | h
        · exact Or.inl h
        · exact Or.inr h
      · rcases List.mem_cons.mp hx with h | h
        · exact Or.inr (h ▸ List.mem_cons_self)
        · rcases ih x h with h' | h'
          · exact Or.inl h'
          · exact Or.inr (List.mem_cons_of_mem _ h')

theorem insKv_sorted (k : String) (v : J) : ∀ (l : List (String × J)), Sorted l → Sorted (J.insKv k v l) := by
  intro l
  induction l with
  | nil => intro _; exact List.pairwise_singleton _ _
  | cons y ys ih =>
    intro hs
    obtain ⟨k', v'⟩ := y
    have hys : Sorted ys := (List.pairwise_cons.mp hs).2
    have hhead : ∀ x ∈ ys, k' < x.1 := (List.pairwise_cons.mp hs).1
    simp only [J.insKv]
    split
    · rename_i heq
      have : k = k' := by simpa using heq
      subst this
      exact List.Pairwise.cons hhead hys
    · split
      · rename_i hlt
        refine List.Pairwise.cons ?_ hs
        intro x hx
        rcases List.mem_cons.mp hx with h | h
        · subst h; exact hlt
        · exact String.lt_trans hlt (hhead x h)
      · rename_i hne hnlt
        have hne' : ¬ k = k' := by simpa using hne
        have hgt : k' < k := str_lt_of_not k k' hne' hnlt
        refine List.Pairwise.cons ?_ (ih hys)
        intro x hx
        rcases mem_insKv k v ys x hx with h | h
        · subst h; exact hgt
        · exact hhead x h

theorem find_none_of_lt (k : String) (l : List (String × J)) (h : ∀ x ∈ l, k < x.1) :
    l.find? (·.1 == k) = none := by
  rw [List.find?_eq_none]
  intro x hx hEq
  have : x.1 = k := by simpa using hEq
  have hlt := h x hx
  rw [this] at hlt
  exact String.lt_irrefl k hlt

/-- two key-sorted association lists with the same lookups are the same list -/
theorem sorted_ext : ∀ (a b : List (String × J)), Sorted a → Sorted b →
    (∀ key, (a.find? (·.1 == key)).map (·.2) = (b.find? (·.1 == key)).map (·.2)) → a = b := by
  intro a
  induction a with
  | nil =>
    intro b _ _ h
    cases b with
    | nil => rfl
    | cons y ys =>
      have := h y.1
      simp at this
  | cons x xs ih =>
    intro b ha hb h
    cases b with
    | nil =>
      have := h x.1
      simp at this
    | cons y ys =>
      obtain ⟨kx, vx⟩ := x
      obtain ⟨ky, vy⟩ := y
      have hxs : Sorted xs := (List.pairwise_cons.mp ha).2
      have hys : Sorted ys := (List.pairwise_cons.mp hb).2
      have hxh : ∀ z ∈ xs, kx < z.1 := (List.pairwise_cons.mp ha).1
      have hyh : ∀ z ∈ ys, ky < z.1 := (List.pairwise_cons.mp hb).1
      by_cases hk : kx = ky
      · subst hk
        have hv : vx = vy := by
          have := h kx
          simpa using this
        subst hv
        congr 1
        apply ih ys hxs hys
        intro key
        by_cases hkey : kx = key
        · subst hkey
          rw [find_none_of_lt kx xs hxh, find_none_of_lt kx ys hyh]
        · have hb' : (kx == key) = false := by simpa using hkey
          have := h key
          simpa [List.find?_cons, hb'] using this
      · exfalso
        by_cases hlt : kx < ky
        · -- kx is found on the left, and lies before everything on the right
          have := h kx
          have hne : (ky == kx) = false := by simpa using (fun e : ky = kx => hk e.symm)
          rw [List.find?_cons] at this
          simp only [beq_self_eq_true, Option.map_some, List.find?_cons, hne] at this
          rw [find_none_of_lt kx ys (fun z hz => String.lt_trans hlt (hyh z hz))] at this
          cases this
        · have hgt : ky < kx := str_lt_of_not kx ky hk hlt
          have := h ky
          have hne : (kx == ky) = false := by simpa using hk
          simp only [List.find?_cons, hne, beq_self_eq_true, Option.map_some] at this
          rw [find_none_of_lt ky xs (fun z hz => String.lt_trans hgt (hxh z hz))] at this
          cases this

def SortedObj : J → Prop
  | .obj kvs => Sorted kvs
  | _ => False

theorem sortedObj_set (j : J) (k : String) (v : J) (h : SortedObj j) : SortedObj (j.set k v) := by
  cases j with
  | obj kvs => exact insKv_sorted k v kvs h
  | _ => cases h

theorem sortedObj_isObj (j : J) (h : SortedObj j) : j.isObj = true := by
  cases j with
  | obj kvs => rfl
  | _ => cases h

theorem sortedObj_foldl_set (kvs : List (String × J)) : ∀ (m : J), SortedObj m →
    SortedObj (kvs.foldl (fun (m : J) kv => m.set kv.1 kv.2) m) := by
  induction kvs with
  | nil => intro m h; exact h
  | cons kv rest ih => intro m h; exact ih _ (sortedObj_set m kv.1 kv.2 h)

theorem sortedObj_foldl_copy (kvs : List (String × J)) : ∀ (m : J), SortedObj m →
    SortedObj (kvs.foldl (fun (m : J) kv => if m.has kv.1 then m else m.set kv.1 kv.2) m) := by
  induction kvs with
  | nil => intro m h; exact h
  | cons kv rest ih =>
    intro m h
    simp only [List.foldl_cons]
    split
    · exact ih m h
    · exact ih _ (sortedObj_set m kv.1 kv.2 h)

/-- objects with sorted keys are equal when all their members are -/
theorem obj_ext (a b : J) (ha : SortedObj a) (hb : SortedObj b) (h : ∀ key, a.get? key = b.get? key) : a = b := by
  cases a with
  | obj xs =>
    cases b with
    | obj ys => exact congrArg J.obj (sorted_ext xs ys ha hb h)
    | _ => cases hb
  | _ => cases ha


/-! ### a canonical property value re-serialises to exactly the members it came from -/

theorem elem_fix (I : Impl) (rec : String → J → J) (C : String → J → Bool)
    (hC : ∀ k e, C k e = true → rec k e = e) (plan : List Step) (e : J) (h : canonElemB I C plan e = true) :
    rtElem I rec plan e = e := by
  unfold canonElemB at h
  unfold rtElem
  split
  · rename_i k' hl
    rw [hl] at h
    exact hC k' e h
  · rfl

theorem isNull_false (e : J) (h : isNull e = false) : e ≠ .null := by
  intro he; subst he; cases h

theorem rtProp_map_functional (I : Impl) (rec : String → J → J) (p : IProp) (j : J) (kvs : List (String × J))
    (hf : p.functional = true) (hnl : p.natLang = true) (hnone : j.get? p.name = none)
    (hget : j.get? (p.name ++ "Map") = some (.obj kvs)) (hmap : isLangMap I p.plan (.obj kvs) = true) :
    rtProp I rec p j = [(p.name ++ "Map", .obj kvs)] := by
  have hfix : rtElem I rec p.plan (.obj kvs) = .obj kvs := by
    unfold isLangMap at hmap
    unfold rtElem
    split at hmap
    · rename_i h; rw [h]
    · cases hmap
  unfold rtProp
  simp only [hf, if_true, hnone, hnl, hget, hfix, hmap, Bool.and_self]

theorem single_present (I : Impl) (rec : String → J → J) (C : String → J → Bool)
    (hC : ∀ k e, C k e = true → rec k e = e) (p : IProp) (j e : J) (hget : j.get? p.name = some e)
    (h : canonValueB I C p e = true) :
    rtProp I rec p j = [(p.name, e)] := by
  unfold canonValueB at h
  cases hf : p.functional with
  | true =>
    simp only [hf, if_true, canonSingleB, Bool.and_eq_true, Bool.not_eq_true'] at h
    exact rtProp_functional I rec p j e hf hget (isNull_false e h.1.1) (elem_fix I rec C hC p.plan e h.1.2) h.2
  | false =>
    simp only [hf, Bool.false_eq_true, if_false] at h
    cases e with
    | arr xs =>
      simp only [Bool.and_eq_true, bne_iff_ne, ne_eq, List.all_eq_true] at h
      exact rtProp_list I rec p j xs hf hget h.1 (fun x hx => elem_fix I rec C hC p.plan x (h.2 x hx))
    | null => simp [canonSingleB, isNull] at h
    | bool b =>
      simp only [canonSingleB, Bool.and_eq_true, Bool.not_eq_true'] at h
      exact rtProp_scalar I rec p j _ hf hget (fun xs hx => by cases hx) (by intro hx; cases hx)
        (elem_fix I rec C hC p.plan _ h.1.2) h.2
    | num m ex =>
      simp only [canonSingleB, Bool.and_eq_true, Bool.not_eq_true'] at h
      exact rtProp_scalar I rec p j _ hf hget (fun xs hx => by cases hx) (by intro hx; cases hx)
        (elem_fix I rec C hC p.plan _ h.1.2) h.2
    | str st =>
      simp only [canonSingleB, Bool.and_eq_true, Bool.not_eq_true'] at h
      exact rtProp_scalar I rec p j _ hf hget (fun xs hx => by cases hx) (by intro hx; cases hx)
        (elem_fix I rec C hC p.plan _ h.1.2) h.2
    | obj kvs =>
      simp only [canonSingleB, Bool.and_eq_true, Bool.not_eq_true'] at h
      exact rtProp_scalar I rec p j _ hf hget (fun xs hx => by cases hx) (by intro hx; cases hx)
        (elem_fix I rec C hC p.plan _ h.1.2) h.2

theorem rtProp_absent (I : Impl) (rec : String → J → J) (p : IProp) (j : J) (h1 : j.get? p.name = none)
    (h2 : p.natLang = false ∨ j.get? (p.name ++ "Map") = none) : rtProp I rec p j = [] := by
  unfold rtProp
  rcases h2 with h2 | h2
  · simp only [h1, h2, Bool.false_eq_true, if_false]
    split <;> rfl
  · simp only [h1, h2, ite_self]

theorem canonProp_present (I : Impl) (rec : String → J → J) (C : String → J → Bool)
    (hC : ∀ k e, C k e = true → rec k e = e) (p : IProp) (j : J) (h : canonPropB I C p j = true) :
    rtProp I rec p j = present p j := by
  unfold canonPropB at h
  unfold present
  cases hg1 : j.get? p.name with
  | none =>
    cases hnl : p.natLang with
    | false =>
      simp only [Bool.false_eq_true, if_false, List.append_nil]
      exact rtProp_absent I rec p j hg1 (Or.inl hnl)
    | true =>
      cases hg2 : j.get? (p.name ++ "Map") with
      | none =>
        simp only [if_true, List.append_nil]
        exact rtProp_absent I rec p j hg1 (Or.inr hg2)
      | some e =>
        simp only [hg1, hnl, if_true, hg2, Bool.and_eq_true] at h
        simp only [if_true, List.nil_append]
        cases e with
        | obj kvs =>
          cases hf : p.functional with
          | true => exact rtProp_map_functional I rec p j kvs hf hnl hg1 hg2 h.2
          | false => exact rtProp_map I rec p j kvs hf hnl hg1 hg2 h.2
        | _ => simp [isObjLit] at h
  | some e =>
    cases hnl : p.natLang with
    | false =>
      simp only [hg1, hnl, Bool.false_eq_true, if_false] at h
      simp only [Bool.false_eq_true, if_false, List.append_nil]
      exact single_present I rec C hC p j e hg1 h
    | true =>
      cases hg2 : j.get? (p.name ++ "Map") with
      | none =>
        simp only [hg1, hnl, if_true, hg2] at h
        simp only [if_true, List.append_nil]
        exact single_present I rec C hC p j e hg1 h
      | some e2 =>
        simp only [hg1, hnl, if_true, hg2] at h
        cases h

theorem present_get (p : IProp) (j : J) (kv : String × J) (h : kv ∈ present p j) : j.get? kv.1 = some kv.2 := by
  unfold present at h
  rcases List.mem_append.mp h with h | h
  · split at h
    · rename_i v hv
      have : kv = (p.name, v) := by simpa using h
      subst this; exact hv
    · cases h
  · split at h
    · split at h
      · rename_i v hv
        have : kv = (p.name ++ "Map", v) := by simpa using h
        subst this; exact hv
      · cases h
    · cases h

theorem get_present (p : IProp) (j : J) (key : String) (v : J) (hget : j.get? key = some v)
    (hkey : key = p.name ∨ (p.natLang = true ∧ key = p.name ++ "Map")) : (key, v) ∈ present p j := by
  unfold present
  rcases hkey with hk | ⟨hn, hk⟩
  · subst hk
    simp [hget]
  · subst hk
    simp [hget, hn]

/-- table fact: a type's skip list holds nothing but the spellings of the properties it serialises -/
def knownExactB (I : Impl) : Bool :=
  I.types.all fun t =>
    t.knownKeys.all fun key => t.serProps.any fun pn => match I.findProp pn with
      | none => false
      | some p => key == p.name || (p.natLang && key == p.name ++ "Map")

/-- **C01 (exactness, one level)**: a value whose properties are all in canonical form, with key-sorted members,
is reproduced exactly -/
theorem rtTypeWith_canonical (I : Impl) (h1 : rtKeysB I = true) (h2 : keysNodupB I = true) (h3 : knownExactB I = true)
    (rec : String → J → J) (C : String → J → Bool) (hC : ∀ k e, C k e = true → rec k e = e)
    (k : String) (j : J) (hc : canonTypeB I C k j = true) : rtTypeWith I rec k j = j := by
  unfold canonTypeB at hc
  cases hk : I.findType k with
  | none => simp [hk] at hc
  | some t =>
    simp only [hk, Bool.and_eq_true, Bool.or_eq_true, List.all_eq_true] at hc
    obtain ⟨⟨hsorted, htype⟩, hprops⟩ := hc
    have ht : t ∈ I.types := List.mem_of_find?_eq_some hk
    have hsj : SortedObj j := by
      cases j with
      | obj kvs => exact sorted_of_sortedB kvs hsorted
      | _ => cases hsorted
    have hjobj : j.isObj = true := sortedObj_isObj j hsj
    -- every property reproduces its members
    have hp : ∀ pn ∈ t.serProps, ∀ p, I.findProp pn = some p → propMembers I rec j pn = present p j := by
      intro pn hpn p hf
      have := hprops pn hpn
      simp only [hf] at this
      unfold propMembers
      simp only [hf]
      exact canonProp_present I rec C hC p j this
    have hmemGet : ∀ kv ∈ t.serProps.flatMap (propMembers I rec j), j.get? kv.1 = some kv.2 := by
      intro kv hkv
      obtain ⟨pn, hpn, hin⟩ := List.mem_flatMap.mp hkv
      cases hf : I.findProp pn with
      | none => unfold propMembers at hin; simp [hf] at hin
      | some p =>
        rw [hp pn hpn p hf] at hin
        exact present_get p j kv hin
    apply obj_ext
    · -- the result is key-sorted
      unfold rtTypeWith
      simp only [hk]
      apply sortedObj_foldl_copy
      apply sortedObj_foldl_set
      split
      · exact List.Pairwise.nil
      · exact List.pairwise_singleton _ _
    · exact hsj
    · intro key
      cases hkn : t.knownKeys.contains key with
      | false => exact unknown_kept I h1 rec k t hk j hjobj key hkn
      | true =>
        have hkmem : key ∈ t.knownKeys := by simpa using hkn
        have hrow := List.all_eq_true.mp (List.all_eq_true.mp h3 t ht) key hkmem
        obtain ⟨pn, hpn, hspell⟩ := List.any_eq_true.mp hrow
        cases hf : I.findProp pn with
        | none => simp [hf] at hspell
        | some p =>
          simp only [hf, Bool.or_eq_true, beq_iff_eq, Bool.and_eq_true] at hspell
          cases hg : j.get? key with
          | some v =>
            apply known_kept I h2 rec k t hk j pn hpn key v
            rw [hp pn hpn p hf]
            exact get_present p j key v hg hspell
          | none =>
            unfold rtTypeWith
            simp only [hk]
            have hbaseObj : (if t.typeless = true then J.obj [] else J.obj [("type", J.str k)]).isObj = true := by
              split <;> rfl
            have hnd := known_keys_nodup I h2 rec t ht j
            have hwk : (List.foldl (fun (m : J) kv => m.set kv.1 kv.2)
                (if t.typeless = true then J.obj [] else J.obj [("type", J.str k)])
                (t.serProps.flatMap (propMembers I rec j))).get? key = none := by
              rw [get_foldl_set_find _ hnd _ hbaseObj key]
              cases hfind : (t.serProps.flatMap (propMembers I rec j)).find? (·.1 == key) with
              | some kv =>
                exfalso
                have hin := List.mem_of_find?_eq_some hfind
                have hkeq : kv.1 = key := by simpa using List.find?_some hfind
                have := hmemGet kv hin
                rw [hkeq, hg] at this
                cases this
              | none =>
                simp only
                split
                · rfl
                · rename_i htl
                  have hne : key ≠ "type" := by
                    intro he
                    subst he
                    rcases htype with h | h
                    · exact htl h
                    · simp [J.has, hg] at h
                  have hb : ("type" == key) = false := by simpa using (Ne.symm hne)
                  simp [J.get?, List.find?, hb]
            rw [get_foldl_copy _ key _ (isObj_foldl_set _ _ hbaseObj) hwk]
            have : (j.members.filter fun kv => !t.knownKeys.contains kv.1).find? (·.1 == key) = none := by
              rw [List.find?_eq_none]
              intro x hx hxe
              have hxin : x ∈ j.members := (List.mem_filter.mp hx).1
              cases j with
              | obj kvs =>
                have hsome : (kvs.find? (·.1 == key)).isSome = true := by
                  rw [List.find?_isSome]
                  exact ⟨x, hxin, hxe⟩
                simp only [J.get?] at hg
                cases hfk : kvs.find? (·.1 == key) with
                | none => rw [hfk] at hsome; cases hsome
                | some y => rw [hfk] at hg; cases hg
              | _ => cases hjobj
            rw [this]
            rfl

/-- **C01 (exactness)**: a canonical typed value of any nesting depth is a fixed point of decode → encode -/
theorem rt_canonical (I : Impl) (h1 : rtKeysB I = true) (h2 : keysNodupB I = true) (h3 : knownExactB I = true) :
    ∀ (n : Nat) (k : String) (j : J), canonB I n k j = true → rt I n k j = j := by
  intro n
  induction n with
  | zero => intro k j h; cases h
  | succ n ih =>
    intro k j h
    exact rtTypeWith_canonical I h1 h2 h3 (rt I n) (canonB I n) (fun k e he => ih k e he) k j h


/-- the whole document: exact but for `@context` members of child maps, which the serialiser always deletes -/
theorem rtDoc_canonical (I : Impl) (h1 : rtKeysB I = true) (h2 : keysNodupB I = true) (h3 : knownExactB I = true)
    (n : Nat) (k : String) (j : J) (h : canonB I n k j = true) : rtDoc I n k j = cleanCtx n j := by
  unfold rtDoc
  rw [rt_canonical I h1 h2 h3 n k j h]

end AV.Props.C01
