import AV.Lemmas.GateProofs
/-
C07 — Nothing happens before authentication, authorization and protocol checks.

`GateClean nb p`: for every environment, no Database or Transport call and no application side-effect
callback (activity callbacks, default callback, forwarding filter, the callback tables) occurs in the trace of
`p` before the application's authentication has answered "authenticated" and — for inbox POSTs (`nb`) —
`Blocked` has answered "not blocked".
-/
namespace AV.Props.C07
open AV Prog Pub

def GateClean (nb : Bool) (p : Prog α) : Prop :=
  ∀ (env : Env) (n : Nat), ((gateMon nb).runTrace {} (run p env n).1).isSome = true

theorem clean_of_gt {nb : Bool} {p : Prog α} (h : Gt nb {} p (fun _ _ => True)) : GateClean nb p := by
  intro env n
  obtain ⟨s', h1, _⟩ := SafeP.sound h env n
  simp [h1]

private theorem ne_writeHeader (c : Nat) : (Call.writeHeader c).isEffect = false := rfl
private theorem ne_hookInbox (a : J) : (Call.hookInbox a).isEffect = false := rfl
private theorem ne_hookOutbox (a : J) : (Call.hookOutbox a).isEffect = false := rfl
private theorem ne_blocked (ids : List Iri) : (Call.blocked ids).isEffect = false := rfl

/-- after a status has been written and the handler returns, nothing else happens -/
theorem gt_writeThenRet {nb : Bool} {s : GateSt} (code : Nat) (h : Handled) :
    Gt nb s (Op.writeHeader code >>= fun _ => (pure h : Prog Handled)) (fun _ _ => True) := by
  unfold Op.writeHeader
  exact Gt.nonEffect _ rfl _ (fun _ => trivial)

theorem gt_activityIdGet {nb : Bool} {s : GateSt} (site : String) (v : J) (f : Iri → Prog α) {Q : GateSt → Option α → Prop}
    (hf : ∀ id, Gt nb s (f id) Q) : Gt nb s (activityIdGet site v >>= f) Q := by
  unfold activityIdGet
  split
  · trivial
  · exact hf _

/-- **PostOutbox**: no effect before `AuthenticatePostOutbox` said yes. -/
theorem postOutbox (F : TFacts) (cfg : BaseCfg) (r : Request) : GateClean false (postOutboxScheme F cfg r) := by
  apply clean_of_gt
  unfold postOutboxScheme
  split
  · trivial
  · split
    · exact gt_writeThenRet _ _
    · unfold viaC2S
      split
      · unfold Op.authPostOutbox
        apply Gt.nonEffect _ rfl
        intro r
        cases r with
        | error e => trivial
        | ok b =>
          cases b with
          | false => trivial
          | true => exact gate_open _ _ _ rfl
      · trivial

/-- **GetOutbox** -/
theorem getOutbox (r : Request) : GateClean false (getOutboxH r) := by
  apply clean_of_gt
  unfold getOutboxH
  split
  · trivial
  · unfold Op.authGetOutbox
    apply Gt.nonEffect _ rfl
    intro r
    cases r with
    | error e => trivial
    | ok b =>
      cases b with
      | false => trivial
      | true => exact gate_open _ _ _ rfl

/-- **GetInbox** -/
theorem getInbox (F : TFacts) (cfg : BaseCfg) (r : Request) : GateClean false (getInboxH F cfg r) := by
  apply clean_of_gt
  unfold getInboxH
  split
  · trivial
  · unfold Op.authGetInbox
    apply Gt.nonEffect _ rfl
    intro r
    cases r with
    | error e => trivial
    | ok b =>
      cases b with
      | false => trivial
      | true => exact gate_open _ _ _ rfl

/-- the block check: `Blocked` is the only call; a positive or failing answer ends the request -/
theorem gt_authorize (F : TFacts) (v : J) (s : GateSt) (hs : s.authed = true) (f : Bool → Prog Handled)
    (hf : ∀ s', Gt true s' (f false) (fun _ _ => True)) :
    Gt true s (authorizePostInbox F v >>= f) (fun _ _ => True) := by
  unfold authorizePostInbox
  split
  · trivial
  · rename_i xs _
    apply Gt.bind
    apply Gt.bind
    · -- the id-collecting fold makes no calls at all
      have hfold : ∀ (x : Except Unit (List Iri)) (s0 : GateSt) (Q : GateSt → Option (List Iri) → Prop),
          (∀ l, Q s0 (some l)) → Q s0 none → Gt true s0 (liftLib x) Q := by
        intro x s0 Q h1 h2
        cases x with
        | error _ => exact h2
        | ok l => exact h1 l
      apply hfold
      · intro iris
        unfold Op.blocked
        apply Gt.nonEffect _ rfl
        intro r
        cases r with
        | error e => trivial
        | ok b =>
          cases b with
          | true =>
            show Gt true _ (Op.writeHeader 403 >>= fun _ => pure false) _
            unfold Op.writeHeader
            apply Gt.nonEffect _ rfl
            intro _
            exact hf _
          | false => exact gate_open _ _ _ (by simp [gateNext, GateSt.isOpen, hs])
      · trivial

/-- **PostInbox**: no effect before `AuthenticatePostInbox` said yes and `Blocked` said no. -/
theorem postInbox (F : TFacts) (cfg : BaseCfg) (r : Request) : GateClean true (postInboxScheme F cfg r) := by
  apply clean_of_gt
  unfold postInboxScheme
  split
  · trivial
  · split
    · exact gt_writeThenRet _ _
    · unfold viaS2S
      split
      · unfold Op.authPostInbox
        apply Gt.nonEffect _ rfl
        intro r
        cases r with
        | error e => trivial
        | ok b =>
          cases b with
          | false => trivial
          | true =>
            show Gt true _ (if (!true) = true then pure Handled.handled else _) _
            simp only [Bool.not_true, Bool.false_eq_true, ↓reduceIte]
            split
            · trivial
            · exact gt_writeThenRet _ _
            · split
              · trivial
              · split
                · exact gt_writeThenRet _ _
                · unfold Op.hookInbox
                  apply Gt.nonEffect _ rfl
                  intro r
                  cases r with
                  | error e => trivial
                  | ok _ =>
                    apply gt_authorize
                    · rfl
                    · intro s'; trivial
      · trivial

/-! #### the ActivityStreams GET handler consults nobody: only its Database access, the clock and the writer -/

def HandlerClean (p : Prog α) : Prop :=
  ∀ (env : Env) (n : Nat), (handlerGateMon.runTrace () (run p env n).1).isSome = true

theorem handler (F : TFacts) (r : Request) : HandlerClean (Pub.handler F r) := by
  have key : SafeP handlerGateMon () (Pub.handler F r) (fun _ _ => True) := by
    unfold Pub.handler
    split
    · trivial
    · unfold Op.locked Op.lock Op.get Op.unlock
      intro r1; cases r1 with
      | error e => trivial
      | ok _ =>
        intro r2; cases r2 with
        | error e => intro _; trivial
        | ok t =>
          intro _
          cases t with
          | none => trivial
          | some t =>
            unfold respond addResponseHeaders Op.setHeader Op.now Op.writeHeader Op.writeBody
            intro _ _ _ _ _ rb
            cases rb with
            | error e => trivial
            | ok b => cases b <;> trivial
  intro env n
  obtain ⟨s', h1, _⟩ := SafeP.sound key env n
  simp [h1]

/-! #### requests that are not ActivityPub requests, and disabled protocols -/

/-- wrong method or media type: not handled, and nothing at all is done -/
theorem notAP_postInbox (F : TFacts) (cfg : BaseCfg) (r : Request) (h : isAPPost r.method r.header = false) :
    postInboxScheme F cfg r = Prog.ret .notHandled := by
  unfold postInboxScheme; simp [h]

theorem notAP_postOutbox (F : TFacts) (cfg : BaseCfg) (r : Request) (h : isAPPost r.method r.header = false) :
    postOutboxScheme F cfg r = Prog.ret .notHandled := by
  unfold postOutboxScheme; simp [h]

theorem notAP_getInbox (F : TFacts) (cfg : BaseCfg) (r : Request) (h : isAPGet r.method r.header = false) :
    getInboxH F cfg r = Prog.ret .notHandled := by
  unfold getInboxH; simp [h]

theorem notAP_getOutbox (r : Request) (h : isAPGet r.method r.header = false) :
    getOutboxH r = Prog.ret .notHandled := by
  unfold getOutboxH; simp [h]

theorem notAP_handler (F : TFacts) (r : Request) (h : isAPGet r.method r.header = false) :
    Pub.handler F r = Prog.ret .notHandled := by
  unfold Pub.handler; simp [h]

theorem run_writeThenRet (code : Nat) (h : Handled) (env : Env) (n : Nat) :
    run (Op.writeHeader code >>= fun _ => (pure h : Prog Handled)) env n = ([⟨.writeHeader code, env n (.writeHeader code)⟩], .ret h) := rfl

/-- a disabled protocol answers 405 and consults nobody: the whole trace is that one status -/
theorem disabled_postInbox (F : TFacts) (cfg : BaseCfg) (r : Request) (h : isAPPost r.method r.header = true)
    (hd : cfg.federated = false) (env : Env) :
    (run (postInboxScheme F cfg r) env 0).1.map (·.call) = [Call.writeHeader 405] ∧
    (run (postInboxScheme F cfg r) env 0).2.toOpt = some .handled := by
  have : postInboxScheme F cfg r = (Op.writeHeader 405 >>= fun _ => (pure .handled : Prog Handled)) := by
    unfold postInboxScheme; simp [h, hd]
  rw [this, run_writeThenRet]
  exact ⟨rfl, rfl⟩

theorem disabled_postOutbox (F : TFacts) (cfg : BaseCfg) (r : Request) (h : isAPPost r.method r.header = true)
    (hd : cfg.social = false) (env : Env) :
    (run (postOutboxScheme F cfg r) env 0).1.map (·.call) = [Call.writeHeader 405] ∧
    (run (postOutboxScheme F cfg r) env 0).2.toOpt = some .handled := by
  have : postOutboxScheme F cfg r = (Op.writeHeader 405 >>= fun _ => (pure .handled : Prog Handled)) := by
    unfold postOutboxScheme; simp [h, hd]
  rw [this, run_writeThenRet]
  exact ⟨rfl, rfl⟩

/-! Non-vacuity: the accepted media types are recognised, a plain JSON type is not. -/
example : isAPPost "POST" "application/ld+json; profile=\"https://www.w3.org/ns/activitystreams\"" = true ∧
    isAPPost "POST" "application/json" = false ∧ isAPGet "POST" "application/activity+json" = false := by decide +kernel

end AV.Props.C07
