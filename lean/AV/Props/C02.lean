import AV.Lemmas.Det
import AV.Spec.C02
import AV.Pub.SideEffect
/-
C02 — Federated delivery reaches exactly the addressed inboxes.
-/
namespace AV.Props.C02
open AV Prog Pub Val AV.Spec.C02

/-! ### pure parts: Public is dropped, duplicates and the sender's own inbox are dropped -/

theorem mem_filterPublic (us : List Iri) (u : Iri) : u ∈ filterPublic us ↔ u ∈ us ∧ isPublic u = false := by
  simp [filterPublic]

theorem dedupe_acc (rs ignored acc : List Iri) (hacc : acc.Nodup) (hign : ∀ k ∈ acc, k ∉ ignored) :
    let out := rs.foldl (fun (acc : List Iri) k => if ignored.contains k || acc.contains k then acc else acc ++ [k]) acc
    out.Nodup ∧ (∀ k, k ∈ out ↔ (k ∈ acc ∨ (k ∈ rs ∧ k ∉ ignored))) := by
  induction rs generalizing acc with
  | nil => simp_all
  | cons r rs ih =>
    simp only [List.foldl_cons]
    by_cases h : (ignored.contains r || acc.contains r) = true
    · simp only [h, if_true]
      obtain ⟨h1, h2⟩ := ih acc hacc hign
      refine ⟨h1, ?_⟩
      intro k
      rw [h2 k]
      simp only [Bool.or_eq_true, List.contains_eq_mem, decide_eq_true_eq] at h
      constructor
      · rintro (hk | ⟨hk, hn⟩)
        · exact Or.inl hk
        · exact Or.inr ⟨List.mem_cons_of_mem _ hk, hn⟩
      · rintro (hk | ⟨hk, hn⟩)
        · exact Or.inl hk
        · rcases List.mem_cons.mp hk with rfl | hk'
          · rcases h with h | h
            · exact absurd h hn
            · exact Or.inl h
          · exact Or.inr ⟨hk', hn⟩
    · simp only [h, Bool.false_eq_true, if_false]
      simp only [Bool.or_eq_true, List.contains_eq_mem, decide_eq_true_eq, not_or] at h
      have hacc' : (acc ++ [r]).Nodup := by
        rw [List.nodup_append]
        refine ⟨hacc, by simp, ?_⟩
        intro a ha b hb
        simp only [List.mem_singleton] at hb
        subst hb
        intro hab; subst hab; exact h.2 ha
      have hign' : ∀ k ∈ acc ++ [r], k ∉ ignored := by
        intro k hk
        rcases List.mem_append.mp hk with hk | hk
        · exact hign k hk
        · simp only [List.mem_singleton] at hk; subst hk; exact h.1
      obtain ⟨h1, h2⟩ := ih (acc ++ [r]) hacc' hign'
      refine ⟨h1, ?_⟩
      intro k
      rw [h2 k]
      constructor
      · rintro (hk | ⟨hk, hn⟩)
        · rcases List.mem_append.mp hk with hk | hk
          · exact Or.inl hk
          · simp only [List.mem_singleton] at hk; subst hk; exact Or.inr ⟨List.mem_cons_self, h.1⟩
        · exact Or.inr ⟨List.mem_cons_of_mem _ hk, hn⟩
      · rintro (hk | ⟨hk, hn⟩)
        · exact Or.inl (List.mem_append_left _ hk)
        · rcases List.mem_cons.mp hk with rfl | hk'
          · exact Or.inl (List.mem_append_right _ (List.mem_singleton.mpr rfl))
          · exact Or.inr ⟨hk', hn⟩

/-- **C02 (no duplicates, not the sender)**: `dedupeIRIs` keeps exactly the recipients that are not ignored, once each -/
theorem dedupe_spec (rs ignored : List Iri) :
    (dedupeIRIs rs ignored).Nodup ∧ ∀ k, k ∈ dedupeIRIs rs ignored ↔ (k ∈ rs ∧ k ∉ ignored) := by
  have := dedupe_acc rs ignored [] List.nodup_nil (by simp)
  simpa [dedupeIRIs] using this


/-! ### the recursive expansion of recipients computes the reachable actors -/

section
variable (F : TFacts) (ans : (c : Call) → c.Resp)

/-- the federation graph the fixed answers describe -/
def graph : Iri → E Doc := fun u => ans (.deref u)

/-- one dereference (errors caught) agrees with `fetchSpec` -/
theorem deref_det (u : Iri) :
    ∃ r, runD ans (Prog.try_ (dereferenceForResolvingInboxes F u)) = .ret r ∧
      (match r with
       | .ok x => fetchSpec F (graph ans) u = some x
       | .error _ => fetchSpec F (graph ans) u = none) := by
  have hrun : runD ans (dereferenceForResolvingInboxes F u) =
      (runD ans (Op.ofE (ans (.deref u)))).bindD (fun d => runD ans (derefTail F d)) := by
    unfold dereferenceForResolvingInboxes
    rw [runD_bind]
    rfl
  rw [runD_try, hrun]
  unfold fetchSpec graph
  cases hd : ans (.deref u) with
  | error e => exact ⟨.error e, by simp [Op.ofE, Outcome.bindD], by simp⟩
  | ok d =>
    cases d with
    | badJson => exact ⟨.error .lib, by simp [Op.ofE, Outcome.bindD, derefTail, docVal], by simp⟩
    | undecodable b => exact ⟨.error .lib, by simp [Op.ofE, Outcome.bindD, derefTail, docVal], by simp⟩
    | val doc =>
      simp only [Op.ofE, runD_ret, Outcome.bindD, derefTail, docVal, bind_ret]
      by_cases hi : has F doc "items" = true
      · simp only [hi, if_true]
        cases hr : rawList doc "items" with
        | none => exact ⟨.ok (none, []), by simp, by simp⟩
        | some xs =>
          cases hx : idsOf F xs with
          | ok more => exact ⟨.ok (none, more), by simp [idsM, hx, AV.liftLib], by simp [hx]⟩
          | error e => exact ⟨.error .lib, by simp [idsM, hx, AV.liftLib], by simp [hx]⟩
      · simp only [hi, Bool.false_eq_true, if_false]
        by_cases ho : has F doc "orderedItems" = true
        · simp only [ho, if_true]
          cases hr : rawList doc "orderedItems" with
          | none => exact ⟨.ok (none, []), by simp, by simp⟩
          | some xs =>
            cases hx : idsOf F xs with
            | ok more => exact ⟨.ok (none, more), by simp [idsM, hx, AV.liftLib], by simp [hx]⟩
            | error e => exact ⟨.error .lib, by simp [idsM, hx, AV.liftLib], by simp [hx]⟩
        · simp only [ho, Bool.false_eq_true, if_false]
          exact ⟨.ok (some doc, []), by simp, by simp⟩

theorem runD_foldlM_append {β γ : Type} {f : List β → γ → Prog (List β)} {g : γ → List β}
    (h : ∀ acc u, runD ans (f acc u) = .ret (acc ++ g u)) :
    ∀ (us : List γ) (acc : List β), runD ans (us.foldlM f acc) = .ret (acc ++ us.flatMap g) := by
  intro us
  induction us with
  | nil => intro acc; simp
  | cons u us ih =>
    intro acc
    rw [List.foldlM_cons, runD_bind, h acc u]
    simp only [Outcome.bindD, ih, List.flatMap_cons, List.append_assoc]

/-- **C02 (expansion)**: against a fixed federation graph, `resolveActors` returns exactly the actor documents
reachable within the remaining depth — unreachable, garbled and unknown documents are skipped without failing,
and nothing is looked at beyond the configured depth. -/
theorem resolveActors_det (maxDepth : Int) (hm : maxDepth > 0) :
    ∀ (fuel depth : Nat) (us : List Iri), depth ≤ maxDepth.toNat → fuel ≥ maxDepth.toNat - depth + 1 →
      runD ans (resolveActors F maxDepth fuel depth us) = .ret (reachActors F (graph ans) (maxDepth.toNat - depth) us) := by
  intro fuel
  induction fuel with
  | zero => intro depth us _ hf; omega
  | succ fuel ih =>
    intro depth us hd hf
    unfold resolveActors
    by_cases hge : (depth : Int) ≥ maxDepth
    · have : maxDepth.toNat - depth = 0 := by omega
      simp [hm, hge, this, reachActors]
    · have hlt : depth < maxDepth.toNat := by omega
      obtain ⟨d', hd'⟩ : ∃ d', maxDepth.toNat - depth = d' + 1 := ⟨maxDepth.toNat - depth - 1, by omega⟩
      have hd'' : maxDepth.toNat - (depth + 1) = d' := by omega
      simp only [hm, hge, decide_true, decide_false, Bool.and_false, Bool.false_eq_true, if_false, hd', reachActors]
      have hstep : ∀ (acc : List J) (u : Iri),
          runD ans (do
            let d ← Prog.try_ (dereferenceForResolvingInboxes F u)
            match d with
            | .error _ => pure acc
            | .ok (act, more) => do
              let recur ← resolveActors F maxDepth fuel (depth + 1) more
              pure (acc ++ (match act with | some x => [x] | none => []) ++ recur)) =
          .ret (acc ++ (match fetchSpec F (graph ans) u with
            | none => []
            | some (act, more) => act.toList ++ reachActors F (graph ans) d' more)) := by
        intro acc u
        obtain ⟨r, hr, hspec⟩ := deref_det F ans u
        rw [runD_bind, hr]
        cases r with
        | error e => simp only [Outcome.bindD] ; simp only at hspec; simp [hspec]
        | ok x =>
          obtain ⟨act, more⟩ := x
          simp only at hspec
          simp only [Outcome.bindD, hspec]
          rw [runD_bind, ih (depth + 1) more (by omega) (by omega), hd'']
          cases act <;> simp [Outcome.bindD]
      have := runD_foldlM_append ans hstep us []
      simp only [List.nil_append] at this
      exact this

end

end AV.Props.C02
