import AV.GenProps.C13
/-
C13 — Type-hierarchy predicates equal the ontology's closure.
Generic theorems hold for every implementation table `I` and ontology `O` that
pass the decidable condition `c13TableB`; the instantiations at the end apply
them to the tables regenerated from /repo.
-/
namespace AV.Props.C13
open AV

variable {I : Impl} {O : Ontology}

theorem type_ok (h : c13TableB I O = true) {t : IType} (ht : t ∈ I.types) : c13TypeB O t = true := by
  simp only [c13TableB, Bool.and_eq_true, List.all_eq_true] at h
  exact h.2 t ht

theorem name_in_ontology (h : c13TableB I O = true) {t : IType} (ht : t ∈ I.types) : t.name ∈ O.names := by
  simp only [c13TableB, Bool.and_eq_true] at h
  exact (sameSet_iff h.1.1.1 t.name).mp (List.mem_map.mpr ⟨t, ht, rfl⟩)

theorem closed_of_mem (h : c13TableB I O = true) {a : String} (ha : a ∈ O.names) :
    closedB O a (anc O a) = true := by
  simp only [c13TableB, Bool.and_eq_true, allClosedB, List.all_eq_true] at h
  obtain ⟨t, ht, rfl⟩ := List.mem_map.mp ha
  exact h.1.1.2 t ht

/-- 'A extends B' (the `…Extends` function of A applied to a value of type B)
holds exactly when B is a proper ancestor of A under the transitive closure of
the declared subClassOf relation. -/
theorem extends_iff (h : c13TableB I O = true) {tA : IType} (hA : tA ∈ I.types) (B : String) :
    tA.extendsP B = true ↔ Relation.TransGen (Sub O) tA.name B := by
  have ht := type_ok h hA
  simp only [c13TypeB, Bool.and_eq_true] at ht
  rw [IType.extendsP, List.contains_iff_mem, sameSet_iff ht.1.1.1 B]
  exact anc_spec (closed_of_mem h (name_in_ontology h hA)) B

/-- 'B is extended by A' holds exactly when B is a proper ancestor of A. -/
theorem extendedBy_iff (h : c13TableB I O = true) {tA tB : IType} (hA : tA ∈ I.types) (hB : tB ∈ I.types) :
    tB.isExtendedByP tA.name = true ↔ Relation.TransGen (Sub O) tA.name tB.name := by
  have ht := type_ok h hB
  simp only [c13TypeB, Bool.and_eq_true] at ht
  rw [IType.isExtendedByP, List.contains_iff_mem, sameSet_iff ht.1.1.2 tA.name, List.mem_filter,
    List.contains_iff_mem, anc_spec (closed_of_mem h (name_in_ontology h hA))]
  exact ⟨fun x => x.2, fun x => ⟨name_in_ontology h hA, x⟩⟩

/-- extends and extended-by are converses. -/
theorem extends_converse (h : c13TableB I O = true) {tA tB : IType} (hA : tA ∈ I.types) (hB : tB ∈ I.types) :
    tA.extendsP tB.name = tB.isExtendedByP tA.name := by
  rw [Bool.eq_iff_iff, extends_iff h hA, extendedBy_iff h hA hB]

/-- 'is or extends' additionally holds for A = B. -/
theorem isOrExtends_iff (h : c13TableB I O = true) {tA tB : IType} (hA : tA ∈ I.types) (hB : tB ∈ I.types) :
    tB.isOrExtendsP tA.name = true ↔ tA.name = tB.name ∨ Relation.TransGen (Sub O) tA.name tB.name := by
  rw [IType.isOrExtendsP, Bool.or_eq_true, extendedBy_iff h hA hB, beq_iff_eq]

/-- 'A is disjoint with B' holds exactly when some ancestor-or-self of A is
declared disjoint (in either direction) with some ancestor-or-self of B. -/
theorem disjoint_iff (h : c13TableB I O = true) {tA tB : IType} (hA : tA ∈ I.types) (hB : tB ∈ I.types) :
    tA.disjointP tB.name = true ↔ DisjSpec O tA.name tB.name := by
  have ht := type_ok h hA
  simp only [c13TypeB, Bool.and_eq_true] at ht
  rw [IType.disjointP, List.contains_iff_mem, sameSet_iff ht.1.2 tB.name, List.mem_filter,
    disjB_spec (closed_of_mem h (name_in_ontology h hA)) (closed_of_mem h (name_in_ontology h hB))]
  exact ⟨fun x => x.2, fun x => ⟨name_in_ontology h hB, x⟩⟩

/-- Disjointness is symmetric. -/
theorem disjoint_symm (h : c13TableB I O = true) {tA tB : IType} (hA : tA ∈ I.types) (hB : tB ∈ I.types) :
    tA.disjointP tB.name = tB.disjointP tA.name := by
  have h1 := type_ok h hA
  have h2 := type_ok h hB
  simp only [c13TypeB, Bool.and_eq_true] at h1 h2
  rw [Bool.eq_iff_iff, IType.disjointP, IType.disjointP, List.contains_iff_mem, List.contains_iff_mem,
    sameSet_iff h1.1.2, sameSet_iff h2.1.2, List.mem_filter, List.mem_filter, disjB_symm O tA.name tB.name]
  exact ⟨fun x => ⟨name_in_ontology h hA, x.2⟩, fun x => ⟨name_in_ontology h hB, x.2⟩⟩

/-- No type is disjoint with itself or with one of its ancestors. -/
theorem disjoint_irrefl (h : c13TableB I O = true) {tA : IType} (hA : tA ∈ I.types) (B : String)
    (hB : B = tA.name ∨ Relation.TransGen (Sub O) tA.name B) : tA.disjointP B = false := by
  have ht := type_ok h hA
  simp only [c13TypeB, Bool.and_eq_true, List.all_eq_true, Bool.not_eq_true'] at ht
  have hmem : B ∈ ancSelf O tA.name := by
    rw [mem_ancSelf_iff (closed_of_mem h (name_in_ontology h hA))]
    rcases hB with rfl | hB
    · exact Or.inl rfl
    · exact Or.inr hB
  have := ht.2 B hmem
  rw [Bool.eq_false_iff]
  intro hd
  rw [IType.disjointP, List.contains_iff_mem, sameSet_iff ht.1.2 B, List.mem_filter] at hd
  rw [this] at hd
  exact absurd hd.2 (by simp)

/-! ### Instantiation on the tables regenerated from /repo -/

theorem shipped_extends {tA : IType} (hA : tA ∈ Gen.impl.types) (B : String) :
    tA.extendsP B = true ↔ Relation.TransGen (Sub Gen.ontology) tA.name B :=
  extends_iff GenProps.c13_table hA B

theorem shipped_extendedBy {tA tB : IType} (hA : tA ∈ Gen.impl.types) (hB : tB ∈ Gen.impl.types) :
    tB.isExtendedByP tA.name = true ↔ Relation.TransGen (Sub Gen.ontology) tA.name tB.name :=
  extendedBy_iff GenProps.c13_table hA hB

theorem shipped_isOrExtends {tA tB : IType} (hA : tA ∈ Gen.impl.types) (hB : tB ∈ Gen.impl.types) :
    tB.isOrExtendsP tA.name = true ↔ tA.name = tB.name ∨ Relation.TransGen (Sub Gen.ontology) tA.name tB.name :=
  isOrExtends_iff GenProps.c13_table hA hB

theorem shipped_disjoint {tA tB : IType} (hA : tA ∈ Gen.impl.types) (hB : tB ∈ Gen.impl.types) :
    tA.disjointP tB.name = true ↔ DisjSpec Gen.ontology tA.name tB.name :=
  disjoint_iff GenProps.c13_table hA hB

theorem shipped_converse {tA tB : IType} (hA : tA ∈ Gen.impl.types) (hB : tB ∈ Gen.impl.types) :
    tA.extendsP tB.name = tB.isExtendedByP tA.name := extends_converse GenProps.c13_table hA hB

theorem shipped_disjoint_symm {tA tB : IType} (hA : tA ∈ Gen.impl.types) (hB : tB ∈ Gen.impl.types) :
    tA.disjointP tB.name = tB.disjointP tA.name := disjoint_symm GenProps.c13_table hA hB

theorem shipped_disjoint_irrefl {tA : IType} (hA : tA ∈ Gen.impl.types) (B : String)
    (hB : B = tA.name ∨ Relation.TransGen (Sub Gen.ontology) tA.name B) : tA.disjointP B = false :=
  disjoint_irrefl GenProps.c13_table hA B hB

/-! Non-vacuity: the hypotheses are met by concrete, non-trivial members. -/
example : Gen.iT_Tombstone ∈ Gen.impl.types := by decide +kernel            -- Tombstone
example : Gen.iT_Tombstone.name = "Tombstone" ∧ Gen.iT_Tombstone.extendsP "Object" = true ∧
    Gen.iT_Tombstone.disjointP "Mention" = true := by decide +kernel

end AV.Props.C13
