import AV.Lemmas.Frame
import AV.Lemmas.LockRules
import AV.Spec.Own
import AV.Pub.BaseActor
import AV.Props.C06
/-
C04 — Default inbox side effects do exactly what is documented, only to owned data.
(The lemmas on `add` / `remove` are shared with the outbox side, C16.)
-/
namespace AV.Props.C04
open AV Prog Pub Val AV.Spec.Own
open AV.Props.C06 (isPure_liftLib isPure_strOf isPure_strsOf isPure_needVal isPure_needProp isPure_needPropE)

/-! ### automation for `OnlyCalls` -/

syntax "oc_side" : tactic
macro_rules | `(tactic| oc_side) => `(tactic| (first | (intro k h; cases h) | simp | trivial))

syntax "oc_step" : tactic
macro_rules | `(tactic| oc_step) => `(tactic| first
  | intro _
  | exact OnlyCalls.ret _
  | exact OnlyCalls.fail _
  | exact OnlyCalls.panic _
  | exact OnlyCalls.ofE _
  | exact OnlyCalls.of_pure (isPure_liftLib _)
  | exact OnlyCalls.of_pure (isPure_strOf _ _)
  | exact OnlyCalls.of_pure (isPure_strsOf _ _)
  | exact OnlyCalls.of_pure (isPure_needVal _ _)
  | split
  | (apply OnlyCalls.op _ (by oc_side); intro _)
  | (apply OnlyCalls.foldlM; intro _ _)
  | (apply OnlyCalls.forM; intro _)
  | apply OnlyCalls.finally_
  | apply OnlyCalls.try_
  | apply OnlyCalls.bind
  | dsimp only)
macro "oc_auto" : tactic => `(tactic| repeat oc_step)

/-- not an `Owns` question -/
def notOwns (c : Call) : Prop := ∀ k, c ≠ .owns k
/-- neither an `Owns` question nor a write to the store -/
def quiet (c : Call) : Prop := (∀ k, c ≠ .owns k) ∧ Call.isStoreWrite c = false

/-- after a yes, anything but another `Owns` question is allowed and the yes stands -/
theorem yes_safe {p : Prog α} (hp : OnlyCalls notOwns p) : SafeP ownMon true p (fun s _ => s = true) := by
  induction hp with
  | ret a => rfl
  | fail e => rfl
  | panic s => trivial
  | call c k hc _ ih =>
    intro r
    have : ownMon.step true c r = some true := by
      cases c <;> first | rfl | exact absurd rfl (hc _)
    rw [this]; exact ih r

/-- code that neither asks nor writes leaves the monitor alone -/
theorem quiet_safe {p : Prog α} (hp : OnlyCalls quiet p) (s : Bool) : SafeP ownMon s p (fun s' _ => s' = s) := by
  apply SafeP.frame (P := quiet) _ hp
  intro c hc s r
  obtain ⟨h1, h2⟩ := hc
  cases c <;> first | rfl | exact absurd rfl (h1 _) | (simp [Call.isStoreWrite] at h2)


/-- safe from every monitor state -/
def AnyS (M : Mon) (p : Prog α) : Prop := ∀ s, SafeP M s p (fun _ _ => True)

theorem AnyS.bind {M : Mon} {p : Prog α} {f : α → Prog β} (hp : AnyS M p) (hf : ∀ a, AnyS M (f a)) : AnyS M (p >>= f) := by
  intro s
  apply SafeP.bind
  apply SafeP.mono (hp s)
  intro s' o _
  cases o with
  | none => trivial
  | some a => exact hf a s'

theorem AnyS.forM {M : Mon} {β : Type} (f : β → Prog Unit) (hf : ∀ x, AnyS M (f x)) (xs : List β) : AnyS M (xs.forM f) := by
  induction xs with
  | nil => intro s; trivial
  | cons x xs ih =>
    show AnyS M (f x >>= fun _ => xs.forM f)
    exact AnyS.bind (hf x) (fun _ => ih)

theorem AnyS.of_quiet {p : Prog α} (hp : OnlyCalls quiet p) : AnyS ownMon p := by
  intro s
  exact SafeP.mono (quiet_safe hp s) (fun _ _ _ => trivial)

theorem AnyS.lockedBody {k : Iri} {body : Prog α} (hb : AnyS ownMon body) : AnyS ownMon (withLock k body) := by
  intro s
  unfold withLock Op.lock
  intro r
  show SafeP ownMon s _ _
  cases r with
  | error e => trivial
  | ok _ =>
    show SafeP ownMon s (Prog.finally_ body (Op.unlock k)) _
    apply SafeP.finally_
    apply SafeP.mono (hb s)
    intro s' o _
    unfold Op.unlock
    intro ru
    show SafeP ownMon s' (Prog.ret ()) _
    cases o <;> trivial

/-- `owns ← Owns(t); if !owns { skip }; rest` where `rest` asks no further `Owns` question -/
theorem owns_then (t : Iri) (rest : Prog Unit) (hrest : OnlyCalls notOwns rest) :
    AnyS ownMon (Op.owns t >>= fun owns => if !owns then pure () else rest) := by
  intro s
  unfold Op.owns
  intro r
  cases r with
  | error e => show SafeP ownMon false (Prog.fail e) _; trivial
  | ok b =>
    cases b with
    | false => show SafeP ownMon false (Prog.ret ()) _; trivial
    | true =>
      show SafeP ownMon true rest _
      exact SafeP.mono (yes_safe hrest) (fun _ _ _ => trivial)

/-- **C04/C16 (Add)**: a target collection is written only after `Owns` said yes about it -/
theorem addLoop_owned (F : TFacts) (opIds : List Iri) (t : Iri) : AnyS ownMon (addLoop F opIds t) := by
  show AnyS ownMon (withLock t _)
  apply AnyS.lockedBody
  apply owns_then
  unfold Op.get Op.update
  oc_auto

theorem removeLoop_owned (F : TFacts) (opIds : List Iri) (t : Iri) : AnyS ownMon (removeLoop F opIds t) := by
  show AnyS ownMon (withLock t _)
  apply AnyS.lockedBody
  apply owns_then
  unfold Op.get Op.update
  oc_auto


theorem add_owned (F : TFacts) (op target : List J) : AnyS ownMon (add F op target) := by
  unfold add
  apply AnyS.bind (AnyS.of_quiet (OnlyCalls.of_pure (isPure_liftLib _))); intro opIds
  apply AnyS.bind (AnyS.of_quiet (OnlyCalls.of_pure (isPure_liftLib _))); intro targetIds
  exact AnyS.forM _ (fun t => addLoop_owned F opIds t) _

theorem remove_owned (F : TFacts) (op target : List J) : AnyS ownMon (remove F op target) := by
  unfold remove
  apply AnyS.bind (AnyS.of_quiet (OnlyCalls.of_pure (isPure_liftLib _))); intro opIds
  apply AnyS.bind (AnyS.of_quiet (OnlyCalls.of_pure (isPure_strsOf _ _))); intro opIds
  apply AnyS.bind (AnyS.of_quiet (OnlyCalls.of_pure (isPure_liftLib _))); intro targetIds
  exact AnyS.forM _ (fun t => removeLoop_owned F opIds t) _

theorem wrappedAfter_quiet (fed : Bool) (cfg : CbConfig) (ty : String) (a : J) : OnlyCalls quiet (wrappedAfter fed cfg ty a) := by
  unfold wrappedAfter Op.appCb
  split
  · exact OnlyCalls.op _ ⟨(by intro k h; cases h), rfl⟩ _ (fun r => OnlyCalls.ofE r)
  · exact .ret _

theorem requireObject_pure (F : TFacts) (a : J) : isPure (requireObject F a) = true := by
  unfold requireObject; split <;> rfl
theorem requireTarget_pure (F : TFacts) (a : J) : isPure (requireTarget F a) = true := by
  unfold requireTarget; split <;> rfl

/-- **C04 (Add / Remove)**, federating and social side alike: no collection is written unless `Owns` just said yes -/
theorem fedAdd_owned (F : TFacts) (fed : Bool) (cfg : CbConfig) (a : J) : AnyS ownMon (fedAdd F fed cfg a) := by
  unfold fedAdd
  apply AnyS.bind (AnyS.of_quiet (OnlyCalls.of_pure (requireObject_pure F a))); intro op
  apply AnyS.bind (AnyS.of_quiet (OnlyCalls.of_pure (requireTarget_pure F a))); intro target
  apply AnyS.bind (add_owned F op target); intro _
  exact AnyS.of_quiet (wrappedAfter_quiet _ _ _ _)

theorem fedRemove_owned (F : TFacts) (fed : Bool) (cfg : CbConfig) (a : J) : AnyS ownMon (fedRemove F fed cfg a) := by
  unfold fedRemove
  apply AnyS.bind (AnyS.of_quiet (OnlyCalls.of_pure (requireObject_pure F a))); intro op
  apply AnyS.bind (AnyS.of_quiet (OnlyCalls.of_pure (requireTarget_pure F a))); intro target
  apply AnyS.bind (remove_owned F op target); intro _
  exact AnyS.of_quiet (wrappedAfter_quiet _ _ _ _)

theorem bumpCollection_pure (F : TFacts) (t : J) (p : String) (id : Iri) : isPure (bumpCollection F t p id) = true := by
  unfold bumpCollection
  split
  · rfl
  · split
    · rfl
    · split <;> rfl

/-- **C04 (Like / Announce)**: the likes / shares collection of an object is written only if the object is owned -/
theorem likeLoop_owned (F : TFacts) (p : String) (id : Iri) (j : J) : AnyS ownMon (likeLoop F p id j) := by
  unfold likeLoop
  apply AnyS.bind (AnyS.of_quiet (OnlyCalls.of_pure (isPure_liftLib _))); intro objId
  apply AnyS.lockedBody
  apply owns_then
  unfold Op.get Op.update
  apply OnlyCalls.op _ (by intro k h; cases h); intro r
  apply OnlyCalls.bind (OnlyCalls.ofE r); intro t
  apply OnlyCalls.bind (OnlyCalls.of_pure (isPure_needVal _ _)); intro t
  apply OnlyCalls.bind (OnlyCalls.of_pure (bumpCollection_pure F t p id)); intro t
  exact OnlyCalls.op _ (by intro k h; cases h) _ (fun r => OnlyCalls.ofE r)

theorem fedLike_owned (F : TFacts) (cfg : CbConfig) (a : J) : AnyS ownMon (fedLike F cfg a) := by
  unfold fedLike
  apply AnyS.bind (AnyS.of_quiet (OnlyCalls.of_pure (requireObject_pure F a))); intro op
  apply AnyS.bind (AnyS.of_quiet (OnlyCalls.of_pure (isPure_liftLib _))); intro id
  apply AnyS.bind (AnyS.forM _ (fun j => likeLoop_owned F "likes" id j) _); intro _
  exact AnyS.of_quiet (wrappedAfter_quiet _ _ _ _)

theorem fedAnnounce_owned (F : TFacts) (cfg : CbConfig) (a : J) : AnyS ownMon (fedAnnounce F cfg a) := by
  unfold fedAnnounce
  apply AnyS.bind (AnyS.of_quiet (OnlyCalls.of_pure (isPure_liftLib _))); intro id
  apply AnyS.bind
  · split
    · intro s; trivial
    · exact AnyS.forM _ (fun j => likeLoop_owned F "shares" id j) _
  intro _
  exact AnyS.of_quiet (wrappedAfter_quiet _ _ _ _)

/-! ### an application function supplied as `other` replaces the default effect entirely -/

/-- calls that are part of the inbox bookkeeping or of the `other` callback, nothing else -/
def bookkeeping (c : Call) : Prop :=
  (∃ k, c = .lock k) ∨ (∃ k, c = .unlock k) ∨ (∃ i id, c = .inboxContains i id) ∨ (∃ i, c = .getInbox i) ∨
  (∃ v, c = .setInbox v) ∨ c = .fedCallbacks ∨ (∃ i v, c = .otherCb true i v)

theorem addToInboxIfNew_bookkeeping (inbox : Iri) (a : J) : OnlyCalls bookkeeping (addToInboxIfNew inbox a) := by
  unfold addToInboxIfNew Op.lock Op.unlock Op.inboxContains Op.getInbox Op.setInbox activityIdGet
  apply OnlyCalls.op _ (Or.inl ⟨_, rfl⟩); intro r
  apply OnlyCalls.bind (OnlyCalls.ofE r); intro _
  apply OnlyCalls.finally_
  · apply OnlyCalls.bind
    · split
      · exact .panic _
      · exact .ret _
    intro id
    apply OnlyCalls.op _ (Or.inr (Or.inr (Or.inl ⟨_, _, rfl⟩))); intro r
    apply OnlyCalls.bind (OnlyCalls.ofE r); intro contains
    split
    · exact .ret _
    · apply OnlyCalls.op _ (Or.inr (Or.inr (Or.inr (Or.inl ⟨_, rfl⟩)))); intro r
      apply OnlyCalls.bind (OnlyCalls.ofE r); intro page
      apply OnlyCalls.op _ (Or.inr (Or.inr (Or.inr (Or.inr (Or.inl ⟨_, rfl⟩))))); intro r
      exact OnlyCalls.bind (OnlyCalls.ofE r) (fun _ => .ret _)
  · exact OnlyCalls.op _ (Or.inr (Or.inl ⟨_, rfl⟩)) _ (fun _ => .ret _)

/-- what `PostInbox` does once the application's callbacks are known -/
def afterCallbacks (F : TFacts) (fedCb : CbConfig → Iri → String → J → Prog J) (inbox : Iri) (a : J) (cfg : CbConfig) : Prog J :=
  match dispatchOf F fedDefaults cfg.other (typeName a) with
  | .badCallbacks => Prog.fail .lib
  | .other i => do Op.otherCb true i a; pure a
  | .default ty => fedCb cfg inbox ty a
  | .unmatched => do Op.fedDefault a; pure a

/-- **C04 (other)**: when the application supplied a function for the activity's type among `other`, the library
calls that function and nothing else — no default side effect, no default callback -/
theorem other_replaces (F : TFacts) (fedCb : CbConfig → Iri → String → J → Prog J) (inbox : Iri) (a : J) (cfg : CbConfig)
    (hknown : cfg.other.any (fun o => !F.known o) = false) (hin : (typeName a) ∈ cfg.other) :
    OnlyCalls bookkeeping (afterCallbacks F fedCb inbox a cfg) := by
  unfold afterCallbacks dispatchOf
  simp only [hknown, Bool.false_eq_true, if_false]
  cases hf : cfg.other.findIdx? (· == typeName a) with
  | some i =>
    simp only
    unfold Op.otherCb
    exact OnlyCalls.op _ (Or.inr (Or.inr (Or.inr (Or.inr (Or.inr (Or.inr ⟨_, _, rfl⟩)))))) _ (fun r => OnlyCalls.bind (OnlyCalls.ofE r) (fun _ => .ret _))
  | none =>
    exfalso
    rw [List.findIdx?_eq_none_iff] at hf
    have := hf (typeName a) hin
    simp at this

theorem postInbox_eq (F : TFacts) (fedCb : CbConfig → Iri → String → J → Prog J) (inbox : Iri) (a : J) :
    postInbox F fedCb inbox a = (addToInboxIfNew inbox a >>= fun isNew =>
      if !isNew then pure a else Op.fedCallbacks >>= fun cfg => afterCallbacks F fedCb inbox a cfg) := rfl

end AV.Props.C04
