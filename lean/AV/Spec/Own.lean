import AV.Core.Prog
/-
C04 / C16 — "data this server does not own is never modified", for the side effects that decide by `Owns`
(Add, Remove, Like, Announce): a write is allowed only when the most recent `Owns` answered yes.
-/
namespace AV.Spec.Own
open AV

def Call.isStoreWrite : Call → Bool
  | .update _ | .delete _ | .create _ => true
  | _ => false

@[reducible] def ownMon : Mon where
  S := Bool
  step s c r :=
    match c, r with
    | .owns _, .ok b => some b
    | .owns _, .error _ => some false
    | c, _ => if Call.isStoreWrite c && !s then none else some s

end AV.Spec.Own
