import AV.Streams.Closure
/-
C13 — the generated hierarchy predicates, as the template computes them from
the per-type literal lists, and the decidable table condition relating those
lists to the ontology's closure.
-/
namespace AV

/-- `<Vocab><A>Extends(other)`: loop over A's `extensions` literal. -/
def IType.extendsP (tA : IType) (other : String) : Bool := tA.ext.contains other
/-- `<B>IsExtendedBy(other)`. -/
def IType.isExtendedByP (tB : IType) (other : String) : Bool := tB.extBy.contains other
/-- `IsOrExtends<B>(other)`: name test, then delegate to IsExtendedBy. -/
def IType.isOrExtendsP (tB : IType) (other : String) : Bool := other == tB.name || tB.isExtendedByP other
/-- `<A>IsDisjointWith(other)`. -/
def IType.disjointP (tA : IType) (other : String) : Bool := tA.disj.contains other

def sameSet (xs ys : List String) : Bool := xs.all ys.contains && ys.all xs.contains

theorem sameSet_iff {xs ys : List String} (h : sameSet xs ys = true) (x : String) :
    x ∈ xs ↔ x ∈ ys := by
  simp only [sameSet, Bool.and_eq_true, List.all_eq_true, List.contains_iff_mem] at h
  exact ⟨h.1 x, h.2 x⟩

def Ontology.names (O : Ontology) : List String := O.types.map (·.name)
def Impl.names (I : Impl) : List String := I.types.map (·.name)

/-- Per-type table condition. -/
def c13TypeB (O : Ontology) (t : IType) : Bool :=
  sameSet t.ext (anc O t.name) &&
  sameSet t.extBy (O.names.filter fun u => (anc O u).contains t.name) &&
  sameSet t.disj (O.names.filter fun u => disjB O t.name u) &&
  (ancSelf O t.name).all (fun u => !disjB O t.name u)

/-- The whole-table condition, evaluated by the kernel on the regenerated data. -/
def c13TableB (I : Impl) (O : Ontology) : Bool :=
  sameSet I.names O.names && allClosedB O && (anc O "").isEmpty && I.types.all (c13TypeB O)

end AV
