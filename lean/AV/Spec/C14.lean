import AV.Streams.Resolver
/-
C14 — what a resolver must do, stated without the chain: the first callback whose
parameter interface is the interface of the value's own type is invoked, nothing
else; otherwise an unmatched error.
-/
namespace AV

/-- the specification: first callback written for the value's own type -/
def specResolve (cbs : List String) (v : Value) : RRes :=
  match cbs.findIdx? (· == v.iface) with
  | some i => .invoked i
  | none => .noCallbackMatch

/-- chain arm of type `t` is diagonal: it tests t's own (vocabulary, name) and asserts t's own interface -/
def diagB (chain : List Arm) (iface vocab name : String) : Bool :=
  match armFor chain vocab name with
  | some a => a.cb == iface && a.cast == iface
  | none => false

/-- same members, and the first list has no repetition -/
def sameSetNodup (xs ys : List String) : Bool :=
  xs.all ys.contains && ys.all xs.contains && xs.length == ys.length

/-- type and predicated chains are diagonal over all types -/
def c14DiagB (I : Impl) : Bool :=
  I.ifaces.all (fun (i, v, n) => diagB I.typeChain i v n && diagB I.predChain i v n)

def c14TableB (I : Impl) : Bool :=
  c14DiagB I &&
  -- every generated type has a Go interface, distinct from all others
  I.ifaces.length == I.types.length &&
  (I.ifaces.map (·.1)).Nodup &&
  I.types.all (fun t => I.ifaces.any fun (_, v, n) => v == t.vocab && n == t.name) &&
  -- the chains contain nothing else
  I.typeChain.length == I.ifaces.length && I.predChain.length == I.ifaces.length &&
  -- JSON chain: one arm per type, deserialises that type, asserts that type's interface
  I.jsonChain.length == I.ifaces.length &&
  I.jsonChain.all (fun a => a.deser == a.name && I.jsonAlias.any (·.1 == a.vocab) &&
     I.ifaces.any fun (i, v, n) => n == a.name && a.cb == i &&
        (I.jsonAlias.any fun (al, u1, u2) => al == a.vocab && (u1 == v || u2 == v))) &&
  (I.jsonChain.map (·.name)).Nodup &&
  -- constructors accept exactly the legal signatures
  sameSetNodup I.typeCtor (I.ifaces.map (·.1)) && sameSetNodup I.jsonCtor (I.ifaces.map (·.1)) &&
  sameSetNodup I.predCtor (I.ifaces.map (·.1)) && sameSetNodup I.toTypeCbs (I.ifaces.map (·.1)) &&
  -- IsUnmatchedErr is the three-way disjunction
  I.unmatched == ["ErrPredicateUnmatched", "ErrUnhandledType", "ErrNoCallbackMatch"]

end AV
