import AV.Core.Prog
import AV.Pub.Val
import AV.Pub.Util
/-
C02 — who receives a federated activity, stated declaratively over a fixed federation graph
`G : Iri → E Doc` (what dereferencing an IRI yields) and a fixed table of application-stored inboxes.
-/
namespace AV.Spec.C02
open AV Val Pub

/-- what one dereference contributes: an actor document, or the members of a collection / page;
`none`: unreachable, garbled, of unknown type, or with an unreadable member — skipped -/
def fetchSpec (F : TFacts) (G : Iri → E Doc) (u : Iri) : Option (Option J × List Iri) :=
  match G u with
  | .ok (.val doc) =>
    if has F doc "items" then
      (match rawList doc "items" with
       | none => some (none, [])
       | some xs => (match idsOf F xs with
          | .ok more => some (none, more)
          | .error _ => none))
    else if has F doc "orderedItems" then
      (match rawList doc "orderedItems" with
       | none => some (none, [])
       | some xs => (match idsOf F xs with
          | .ok more => some (none, more)
          | .error _ => none))
    else some (some doc, [])
  | _ => none

/-- the actor documents reachable from `us` through at most `d` levels of dereferencing, in delivery order -/
def reachActors (F : TFacts) (G : Iri → E Doc) : Nat → List Iri → List J
  | 0, _ => []
  | d + 1, us => us.flatMap fun u =>
      match fetchSpec F G u with
      | none => []
      | some (act, more) => act.toList ++ reachActors F G d more

/-- the ids named by the five addressing properties, in order (`none`: some element has no id) -/
def addressed (F : TFacts) (a : J) : Option (List Iri) :=
  addressing.foldl (fun (acc : Option (List Iri)) p =>
    match acc with
    | none => none
    | some l => (match prop F a p with
      | none => some l
      | some xs => (match idsOf F xs with
        | .ok ids => some (l ++ ids)
        | .error _ => none))) (some [])

/-- first occurrences of `rs`, without the `ignored` ones -/
def dedupeSpec (rs ignored : List Iri) : List Iri := dedupeIRIs rs ignored

end AV.Spec.C02
