import AV.Core.Prog
import AV.Pub.Val
import AV.Pub.Util
/-
C02 — who receives a federated activity, stated declaratively over a fixed federation graph
`G : Iri → E Doc` (what dereferencing an IRI yields) and a fixed table of application-stored inboxes.
-/
namespace AV.Spec.C02
open AV Val Pub

/-- what one dereference contributes: an actor document, or the members of a collection / page;
`none`: unreachable, garbled, of unknown type, or with an unreadable member — skipped -/
def fetchSpec (F : TFacts) (G : Iri → E Doc) (u : Iri) : Option (Option J × List Iri) :=
  match G u with
  | .ok (.val doc) =>
    if has F doc "items" then
      (match rawList doc "items" with
       | none => some (none, [])
       | some xs => (match idsOf F xs with
          | .ok more => some (none, more)
          | .error _ => none))
    else if has F doc "orderedItems" then
      (match rawList doc "orderedItems" with
       | none => some (none, [])
       | some xs => (match idsOf F xs with
          | .ok more => some (none, more)
          | .error _ => none))
    else some (some doc, [])
  | _ => none

/-- the actor documents reachable from `us` through at most `d` levels of dereferencing, in delivery order -/
def reachActors (F : TFacts) (G : Iri → E Doc) : Nat → List Iri → List J
  | 0, _ => []
  | d + 1, us => us.flatMap fun u =>
      match fetchSpec F G u with
      | none => []
      | some (act, more) => act.toList ++ reachActors F G d more

/-- the ids named by the five addressing properties, in order (`none`: some element has no id) -/
def addressed (F : TFacts) (a : J) : Option (List Iri) :=
  addressing.foldl (fun (acc : Option (List Iri)) p =>
    match acc with
    | none => none
    | some l => (match prop F a p with
      | none => some l
      | some xs => (match idsOf F xs with
        | .ok ids => some (l ++ ids)
        | .error _ => none))) (some [])

/-- first occurrences of `rs`, without the `ignored` ones -/
def dedupeSpec (rs ignored : List Iri) : List Iri := dedupeIRIs rs ignored


/-- the inbox an actor document names -/
def inboxOf (F : TFacts) (t : J) : Option Iri :=
  if !has F t "inbox" then none
  else match t.get? "inbox" with
    | none => none
    | some j => (match toId F (elemOf F j) with
      | .ok i => some i
      | .error _ => none)

/-- the inboxes of a list of actor documents (`none`: one of them names none) -/
def inboxesOf (F : TFacts) : List J → Option (List Iri)
  | [] => some []
  | t :: ts => (match inboxOf F t, inboxesOf F ts with
    | some i, some is => some (i :: is)
    | _, _ => none)

/-- **who receives a federated activity** (the statement of C02): the application's stored inbox of every addressed,
non-Public id that has one, then the inboxes of the actor documents reachable from the other addressed ids within `md`
levels of the federation graph `G`, without duplicates and without the sender's own inbox.  `none`: the delivery fails
(an addressed element has no id, or a reachable actor document or the sender's names no inbox). -/
def recipientsSpec (F : TFacts) (G : Iri → E Doc) (stored : Iri → Option Iri) (md : Nat) (me : J) (a : J) : Option (List Iri) :=
  match addressed F a with
  | none => none
  | some r0 =>
    let r := filterPublic r0
    let foundInboxes := r.filterMap stored
    let foundActors := r.filter fun u => (stored u).isSome
    let rest := foundActors.foldl removeOne r
    match inboxesOf F (reachActors F G md rest), inboxOf F me with
    | some remote, some mine => some (dedupeIRIs (foundInboxes ++ remote) [mine])
    | _, _ => none

end AV.Spec.C02
