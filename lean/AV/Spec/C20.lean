import AV.Pub.BaseActor
import AV.Core.Sha256
/-
C20 — served bodies are faithful, de-duplicated and integrity-tagged: declarative specs.
-/
namespace AV
open Val

/-- first occurrences by key, order kept -/
def firstOccGo (key : α → Iri) : List α → List Iri → List α
  | [], _ => []
  | x :: xs, seen => if seen.contains (key x) then firstOccGo key xs seen else x :: firstOccGo key xs (key x :: seen)

def firstOcc (key : α → Iri) (xs : List α) : List α := firstOccGo key xs []

/-- the id an `orderedItems` element is de-duplicated by, when it has a usable one -/
def elemKey (F : TFacts) (j : J) : Option Iri :=
  match elemOf F j with
  | .emb v => (match getId F v with | .ok u => if u == nilIri then none else some u | .error _ => none)
  | .iri u => some u
  | .other _ => none

mutual
/-- no bto/bcc on a typed value nor, recursively, on the typed values of its `object` member -/
def noHiddenDeep (F : TFacts) : J → Bool
  | .obj kvs => if F.known (typeName (.obj kvs)) then noHiddenKvs F (typeName (.obj kvs)) kvs else true
  | _ => true
def noHiddenKvs (F : TFacts) (tn : String) : List (String × J) → Bool
  | [] => true
  | (k, v) :: rest =>
    !((k == "bto" && F.hasProp tn "bto") || (k == "bcc" && F.hasProp tn "bcc")) &&
    (if k == "object" && F.hasProp tn "object" then noHiddenObjVal F v else true) && noHiddenKvs F tn rest
def noHiddenObjVal (F : TFacts) : J → Bool
  | .arr xs => noHiddenList F xs
  | .obj kvs => noHiddenDeep F (.obj kvs)
  | _ => true
def noHiddenList (F : TFacts) : List J → Bool
  | [] => true
  | x :: xs => noHiddenDeep F x && noHiddenList F xs
end

/-- no bto/bcc on the value nor on the typed values directly embedded in `object` (delivery payloads) -/
def noHidden1 (F : TFacts) (v : J) : Bool :=
  !v.has "bto" && !v.has "bcc" &&
  (match prop F v "object" with
   | none => true
   | some xs => xs.all fun j => match elemOf F j with
      | .emb o => !(has F o "bto" && o.has "bto") && !(has F o "bcc" && o.has "bcc")
      | _ => true)

/-- every `bto`/`bcc` member removed, everywhere (for comparing "nothing else changed") -/
partial def eraseHiddenEverywhere : J → J
  | .obj kvs => .obj ((kvs.filter fun kv => kv.1 != "bto" && kv.1 != "bcc").map fun kv => (kv.1, eraseHiddenEverywhere kv.2))
  | .arr xs => .arr (xs.map eraseHiddenEverywhere)
  | j => j

/-- the response-header discipline of the GET paths -/
structure HdrSt where
  now : Option Int := none
  ct : Bool := false
  date : Bool := false
  digest : Bool := false
  deriving Repr, DecidableEq

def headersMon : Mon where
  S := HdrSt
  step s c r :=
    match c, r with
    | .now, (t, _) => some { s with now := some t }
    | .setHeader "Content-Type" v, _ => if v == Pub.contentTypeValue then some { s with ct := true } else none
    | .setHeader "Date" v, _ => (match s.now with
        | some t => if v == Time.imfFixdate t then some { s with date := true } else none
        | none => none)
    | .setHeader "Digest" _, _ => some { s with digest := true }
    | .writeBody _, _ => if s.ct && s.date && s.digest then some s else none
    | _, _ => some s

end AV
