import AV.Core.Prog
import AV.Pub.Val
import AV.Spec.Monitors
/-
C06 — the authority checks as specifications: pure predicates over values and trace monitors.
Used by the theorems in `AV.Props.C06` and, unchanged, by the driver over the implementation's traces.
-/
namespace AV.Spec.C06
open AV Val

/-- ids of the actors of an activity, each read the way `ToId` reads it: an IRI is itself, an embedded value
its own `id` -/
def actorIdsOf (F : TFacts) (v : J) : Option (List Iri) :=
  match prop F v "actor" with
  | some xs => (match idsOf F xs with
    | .ok ids => some ids
    | .error _ => none)
  | none => none

/-- `asked`: `Blocked` has been consulted.  Until then no Database / transport / callback call may happen, and
the consultation itself must name exactly the actors' ids. -/
def blockMon (F : TFacts) (v : J) : Mon where
  S := Bool
  step asked c _ :=
    if asked then some true else
    match c with
    | .blocked ids => if actorIdsOf F v = some ids then some true else none
    | c => if c.isEffect then none else some false


/-- every object id has the same host as the activity id (ids read as `ToId` reads them) -/
def originSpec (F : TFacts) (a : J) : Bool :=
  match getId F a with
  | .ok origin =>
    origin != nilIri && ((prop F a "object").getD []).all fun j =>
      match toId F (elemOf F j) with
      | .ok iri => iri != nilIri && Iri.hostOf origin == Iri.hostOf iri
      | .error _ => false
  | .error _ => false


/-- the element's id (as `ToId` reads it) is `me` -/
def idIs (F : TFacts) (me : Iri) (j : J) : Bool :=
  match toId F (elemOf F j) with
  | .ok u => u == me
  | .error _ => false

/-- the stored value is a Follow, has `me` among its actors, and has every accepting actor among its objects -/
def storedFollowOk (F : TFacts) (t : J) (me : Iri) (acceptIds : List Iri) : Bool :=
  F.isOrExt "Follow" (typeName t) &&
  (match prop F t "actor" with
   | some xs => xs.any (idIs F me)
   | none => false) &&
  (match prop F t "object" with
   | some ys => (match idsOf F ys with
      | .ok objIds => acceptIds.all objIds.contains
      | .error _ => false)
   | none => false)

structure AcceptSt where
  me : Option Iri := none          -- what `ActorForInbox` answered
  verified : Bool := false         -- the value the last `Get` returned passes `storedFollowOk`

/-- an `Update` (the only one the Accept handler makes is that of the `following` collection) requires a verified Follow -/
@[reducible] def acceptMon (F : TFacts) (a : J) : Mon where
  S := AcceptSt
  step s c r :=
    match c, r with
    | .actorForInbox _, .ok u => some { s with me := some u }
    | .get _, .ok (some t) => some { s with verified := match s.me, actorIdsOf F a with
        | some m, some ids => storedFollowOk F t m ids
        | _, _ => false }
    | .update _, _ => if s.verified then some s else none
    | _, _ => some s


/-- the fetched activity's actors are all among `actorIds` -/
def undoOk (F : TFacts) (actorIds : List Iri) (t : J) : Bool :=
  has F t "actor" &&
  (match rawList t "actor" with
   | some xs => (match idsOf F xs with
      | .ok ids => ids.all actorIds.contains
      | .error _ => false)
   | none => false)

structure UndoSt where
  checked : Nat := 0       -- undone activities fetched so far
  ok : Bool := true        -- all of them passed `undoOk`

/-- the application's Undo callback may run only after every object was fetched and passed -/
@[reducible] def undoMon (F : TFacts) (a : J) (fed : Bool) : Mon where
  S := UndoSt
  step s c r :=
    match c, r with
    | .deref _, .ok (.val t) => some { checked := s.checked + 1, ok := s.ok && (match actorIdsOf F a with
        | some ids => undoOk F ids t
        | none => false) }
    | .appCb fed' "Undo" _, _ =>
      if fed' == fed then (if s.ok && s.checked == ((prop F a "object").getD []).length then some s else none) else some s
    | _, _ => some s


end AV.Spec.C06
