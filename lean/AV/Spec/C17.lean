import AV.Core.Prog
import AV.Pub.Val
import AV.Spec.Monitors
import AV.Pub.Util
/-
C17 — inbox forwarding, as a trace monitor over the events of `InboxForwarding`.
-/
namespace AV.Spec.C17
open AV Val

def isCol (F : TFacts) (t : J) : Bool := F.isOrExt "OrderedCollection" (typeName t) || F.isOrExt "Collection" (typeName t)

/-- ids of the members of a loaded collection -/
def members (F : TFacts) (t : J) : Option (List Iri) :=
  let key := if F.isOrExt "OrderedCollection" (typeName t) then "orderedItems" else "items"
  match rawList t key with
  | none => some []
  | some xs => (match idsOf F xs with
    | .ok ids => some ids
    | .error _ => none)

/-- the recipients of a forward: the members of the collections the filter kept, in the filter's order -/
def expectedRecipients (F : TFacts) (loaded : List (Iri × J)) (toSend : List Iri) : Option (List Iri) :=
  toSend.foldl (fun (acc : Option (List Iri)) iri =>
    match acc with
    | none => none
    | some l => (match loaded.find? (·.1 == iri) with
      | none => some l
      | some (_, t) => (match members F t with
        | some ms => some (l ++ ms)
        | none => none))) (some [])

structure FwdSt where
  fresh : Bool := false            -- `Exists` answered "no"
  creates : Nat := 0               -- `Create` calls so far
  recorded : Bool := false         -- … and `Create` succeeded: the activity is now recorded as seen
  searching : Bool := false        -- the forwarding depth has been asked for: the owned-value search is on
  ownedVal : Bool := false         -- some `Owns` during the search answered yes
  loaded : List (Iri × J) := []    -- owned collections loaded from to/cc/audience
  expected : Option (List Iri) := none   -- what the filter's answer makes the recipients
  forwarded : Nat := 0

/-- Violations: a second `Create`, or one although the activity was seen before; consulting the filter before
the activity was recorded, an owned collection loaded and an owned value found, or about other collections than
the loaded ones; handing the transport anything but the received activity and the members of the collections the
filter kept; forwarding twice. -/
@[reducible] def fwdMon (F : TFacts) (a : J) : Mon where
  S := FwdSt
  step s c r :=
    match c, r with
    | .exists_ _, .ok false => some { s with fresh := true }
    | .create v, r => if !s.fresh || s.creates > 0 then none else some { s with creates := 1, recorded := respOk (.create v) r }
    | .get k, .ok (some t) => if !s.searching && isCol F t then some { s with loaded := s.loaded ++ [(k, t)] } else some s
    | .maxFwdDepth, _ => some { s with searching := true }
    | .owns _, .ok true => if s.searching then some { s with ownedVal := true } else some s
    | .filterForwarding cols _, r =>
      if s.recorded && s.ownedVal && !s.loaded.isEmpty && cols == s.loaded.map (·.1) then
        some { s with expected := match r with
          | .ok toSend => expectedRecipients F s.loaded toSend
          | .error _ => none }
      else none
    | .batchDeliver p rs, _ => if p == a && s.expected == some rs && s.forwarded == 0 then some { s with forwarded := 1 } else none
    | _, _ => some s


/-- is some inReplyTo/object/target/tag value, reachable through at most `d` levels of embedded values and
fetched IRIs, owned?  (`G`: what dereferencing yields; `owns`: the application's answer) -/
def ownedEmb (F : TFacts) (owns : Iri → Bool) (t : J) : Bool :=
  match getId F t with
  | .ok id => owns id
  | .error _ => false

/-- what a fetched IRI contributes to the search: its document, if it can be read -/
def fetchedDoc (G : Iri → E Doc) (u : Iri) : Option J :=
  match G u with
  | .ok (.val t) => some t
  | _ => none

def ownsValueSpec (F : TFacts) (G : Iri → E Doc) (owns : Iri → Bool) : Nat → J → Bool
  | 0, _ => false
  | d + 1, v =>
    (Pub.getInboxForwardingValues F v).2.any owns ||
    (Pub.getInboxForwardingValues F v).1.any (ownedEmb F owns) ||
    ((Pub.getInboxForwardingValues F v).1 ++ (Pub.getInboxForwardingValues F v).2.filterMap (fetchedDoc G)).any (ownsValueSpec F G owns d)

end AV.Spec.C17
