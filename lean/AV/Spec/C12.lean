import AV.Spec.C13
/-
C12 — each generated type has exactly its ontology's properties, each property
exactly its declared kinds.  `propsOf`/`kindsOf` are the ontology's reading
(independent of astool); `c12TableB` compares them with the tables extracted
from the generated Go.
-/
namespace AV

def isLitKind (r : String) : Bool := r.startsWith "xsd:" || r.startsWith "rdf:" || r.startsWith "rfc:"

/-- properties the ontology gives type `t`: domain meets ancestors-or-self, not withheld from any of them -/
def Ontology.propsOf (O : Ontology) (t : String) : List String :=
  let up := ancSelf O t
  (O.props.filter fun p => p.domain.any up.contains && !(p.without.any up.contains)).map (·.name)

def Ontology.expectedProps (O : Ontology) (t : OType) : List String :=
  O.propsOf t.name ++ ["id"] ++ (if t.typeless then [] else ["type"])

/-- `r` and all its descendants -/
def Ontology.descSelf (O : Ontology) (r : String) : List String :=
  O.names.filter fun u => u == r || (anc O u).contains r

def Ontology.kindTypes (O : Ontology) (p : OProp) : List String :=
  (p.range.filter (fun r => !isLitKind r)).flatMap O.descSelf

def Ontology.kindLits (_O : Ontology) (p : OProp) : List String := p.range.filter isLitKind

def IProp.planTypes (p : IProp) : List String := p.plan.filterMap fun | .ty n => some n | _ => none
def IProp.planLits (p : IProp) : List String := p.plan.filterMap fun | .lit k => some k | _ => none
def IProp.hasIri (p : IProp) : Bool := p.plan.any fun | .iri => true | _ => false

def stripHash (s : String) : String := if s.endsWith "#" then (s.dropEnd 1).toString else s

/-- keys a type's deserializer must skip: its property names and the Map spelling of natural-language ones -/
def Impl.expectedKnownKeys (I : Impl) (t : IType) : List String :=
  t.props.flatMap fun n =>
    match I.findProp n with
    | some p => if p.natLang then [n, n ++ "Map"] else [n]
    | none => [n]

def c12PropB (I : Impl) (O : Ontology) (op : OProp) : Bool :=
  match I.findProp op.name with
  | none => false
  | some ip =>
    ip.functional == op.functional &&
    ip.natLang == op.range.contains "rdf:langString" &&
    ip.vocab == stripHash op.vocab &&
    sameSet ip.planTypes (O.kindTypes op) && ip.planTypes.Nodup &&
    sameSet ip.planLits (O.kindLits op) && ip.planLits.Nodup &&
    -- any property also admits an IRI (as its own step, or as the anyURI literal)
    (ip.hasIri || ip.planLits.contains "xsd:anyURI")

def c12TypeB (I : Impl) (O : Ontology) (ot : OType) : Bool :=
  match I.findType ot.name with
  | none => false
  | some it =>
    it.typeless == ot.typeless && it.vocab == stripHash ot.vocab &&
    sameSet it.props (O.expectedProps ot) && it.props.Nodup &&
    sameSet it.serProps it.props && it.serProps.Nodup &&
    sameSet it.ctxProps it.props &&
    sameSet it.knownKeys (I.expectedKnownKeys it) && it.knownKeys.Nodup

/-- the two JSON-LD built-ins, which no vocabulary file declares -/
def c12BuiltinsB (I : Impl) : Bool :=
  (match I.findProp "id" with
   | some p => p.functional && !p.natLang && p.plan == [.lit "xsd:anyURI"]
   | none => false) &&
  (match I.findProp "type" with
   | some p => !p.functional && !p.natLang && sameSet p.planLits ["xsd:anyURI", "xsd:string"] && p.planTypes.isEmpty
   | none => false)

def c12TableB (I : Impl) (O : Ontology) : Bool :=
  sameSet I.names O.names &&
  sameSet (I.props.map (·.name)) (O.props.map (·.name) ++ ["id", "type"]) &&
  (I.props.map (·.name)).Nodup && (O.props.map (·.name)).Nodup &&
  O.props.all (c12PropB I O) && O.types.all (c12TypeB I O) && c12BuiltinsB I

end AV
