import AV.Core.Time
/-
C19 — the bundled HTTP-signature transport (pub/transport.go), as pure functions:
how a request is built before it is handed to the signer, how a response is judged, how a batch is summed up.
The goroutines of a batch are independent deliveries; their interleaving (and data races) is runtime behaviour the
model cannot exhibit — the harness runs batches concurrently under the race detector in the thorough tier.
-/
namespace AV.Spec.C19

def asMediaType : String := "application/ld+json; profile=\"https://www.w3.org/ns/activitystreams\""

structure Cfg where
  appAgent : String
  gofedAgent : String
  keyId : String

structure Req where
  method : String
  url : String
  headers : List (String × String)     -- in the order they are set
  body : Option String
  deriving Repr, DecidableEq

/-- the request as it is handed to the signer (`now`: unix seconds of the application clock) -/
def mkGet (cfg : Cfg) (url host : String) (now : Int) : Req :=
  { method := "GET", url := url, body := none,
    headers := [("Accept", asMediaType), ("Accept-Charset", "utf-8"), ("Date", Time.imfFixdate now),
                ("User-Agent", cfg.appAgent ++ " " ++ cfg.gofedAgent), ("Host", host)] }

def mkPost (cfg : Cfg) (url host : String) (now : Int) (body : String) : Req :=
  { method := "POST", url := url, body := some body,
    headers := [("Content-Type", asMediaType), ("Accept-Charset", "utf-8"), ("Date", Time.imfFixdate now),
                ("User-Agent", cfg.appAgent ++ " " ++ cfg.gofedAgent), ("Host", host)] }

/-- what the HTTP client answered: a transport-level error or a status (and body) -/
inductive Resp where
  | err (msg : String)
  | status (code : Nat) (body : String)
  deriving Repr, DecidableEq

/-- `Dereference`: the body, only for 200 -/
def derefOutcome : Resp → Except String String
  | .err m => .error m
  | .status 200 b => .ok b
  | .status c _ => .error s!"GET failed ({c})"

def isSuccess (c : Nat) : Bool := c == 200 || c == 201 || c == 202

/-- `Deliver`: success only for 200, 201, 202 -/
def deliverOutcome (to : String) : Resp → Except String Unit
  | .err m => .error m
  | .status c _ => if isSuccess c then .ok () else .error s!"POST request to {to} failed ({c})"

/-- `BatchDeliver`: every recipient is attempted; the failures, in recipient order -/
def batchFailures (attempts : List (String × Resp)) : List String :=
  attempts.filterMap fun (to, r) => match deliverOutcome to r with
    | .ok _ => none
    | .error m => some m

def batchOutcome (attempts : List (String × Resp)) : Except (List String) Unit :=
  match batchFailures attempts with
  | [] => .ok ()
  | fs => .error fs

end AV.Spec.C19
