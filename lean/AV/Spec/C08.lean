/-
C08 — concurrent requests, at the granularity of Database calls.
A request is a sequence of guarded read-modify-write sections on keyed collections:
  Lock(k); v := read k; write k (x added to v [only if new]); Unlock(k)
— the shape C09 proves every handler of `pub` has (each Database access of id k lies between Lock(k) and Unlock(k),
one lock at a time), with the collection updates of the side effects (inbox, outbox, followers, following, liked,
likes, shares, Add targets: an id put in front, for the inbox only if it is not there yet).  Lock(k) blocks while
another thread holds k; every other step is always enabled.  A schedule picks the thread that moves next.
-/
namespace AV.Spec.C08

abbrev Key := String
abbrev Id := String

/-- one section: the collection, the id to add, and whether it is added only when absent -/
structure Sec where
  key : Key
  id : Id
  ifNew : Bool
  deriving Repr, DecidableEq

inductive Phase where
  | idle        -- between sections: holds nothing
  | locked      -- holds the lock of the current section's key
  | readDone    -- … and has read the collection into `seen`
  | written     -- … and has written it back
  deriving Repr, DecidableEq

structure Thread where
  secs : List Sec                 -- the current section first
  phase : Phase := .idle
  seen : List Id := []
  done : List Sec := []           -- ghost: the sections this thread has completed
  deriving Repr

structure Cfg where
  store : Key → List Id
  held : Key → Option Nat
  threads : List Thread

def setAt (f : Key → α) (k : Key) (v : α) : Key → α := fun k' => if k' = k then v else f k'

def writeBack (s : Sec) (seen : List Id) : List Id := if s.ifNew && seen.contains s.id then seen else s.id :: seen

/-- thread `i` takes its next step, if it has one and it is enabled -/
def step (c : Cfg) (i : Nat) : Option Cfg :=
  match c.threads[i]? with
  | none => none
  | some t =>
    match t.secs with
    | [] => none
    | s :: rest =>
      match t.phase with
      | .idle => (match c.held s.key with
        | some _ => none
        | none => some { c with held := setAt c.held s.key (some i), threads := c.threads.set i { t with phase := .locked } })
      | .locked => some { c with threads := c.threads.set i { t with phase := .readDone, seen := c.store s.key } }
      | .readDone => some { c with store := setAt c.store s.key (writeBack s t.seen), threads := c.threads.set i { t with phase := .written } }
      | .written => some { c with held := setAt c.held s.key none, threads := c.threads.set i { secs := rest, phase := .idle, seen := t.seen, done := t.done ++ [s] } }

/-- run a schedule; a choice that is not enabled is skipped -/
def runSched (c : Cfg) : List Nat → Cfg
  | [] => c
  | i :: rest => match step c i with
    | some c' => runSched c' rest
    | none => runSched c rest

def init (store : Key → List Id) (reqs : List (List Sec)) : Cfg :=
  { store := store, held := fun _ => none, threads := reqs.map fun r => { secs := r } }

def finished (c : Cfg) : Prop := ∀ t ∈ c.threads, t.secs = []

/-- the same requests one after another -/
def sequential (store : Key → List Id) (reqs : List (List Sec)) : Key → List Id :=
  reqs.flatten.foldl (fun σ s => setAt σ s.key (writeBack s (σ s.key))) store

end AV.Spec.C08
