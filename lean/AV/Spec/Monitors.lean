import AV.Core.Prog
/-
Trace monitors: the properties of `pub` as state machines over the events at
the application boundary.  The same definitions are (a) the statements the
`Safe` theorems are about and (b) the spec monitors the driver runs over the
implementation's recorded traces.
-/
namespace AV

/-- did a response of type `E α` report success? -/
def respOk : (c : Call) → c.Resp → Bool
  | .lock _, r | .unlock _, r | .setInbox _, r | .create _, r | .update _, r | .delete _, r | .setOutbox _, r =>
    (match r with | .ok _ => true | .error _ => false)
  | .inboxContains _ _, r | .owns _, r | .exists_ _, r => (match r with | .ok _ => true | .error _ => false)
  | .getInbox _, r | .getOutbox _, r | .followers _, r | .following _, r | .liked _, r | .appGetInbox, r | .appGetOutbox, r =>
    (match r with | .ok _ => true | .error _ => false)
  | .get _, r => (match r with | .ok _ => true | .error _ => false)
  | .actorForOutbox _, r | .actorForInbox _, r | .outboxForInbox _, r | .newID _, r => (match r with | .ok _ => true | .error _ => false)
  | .inboxForActor _, r => (match r with | .ok _ => true | .error _ => false)
  | .newTransport _, r | .batchDeliver _ _, r => (match r with | .ok _ => true | .error _ => false)
  | .deref _, r => (match r with | .ok _ => true | .error _ => false)
  | .authGetInbox, r | .authGetOutbox, r | .authPostInbox, r | .authPostOutbox, r => (match r with | .ok _ => true | .error _ => false)
  | .hookInbox _, r | .hookOutbox _, r => (match r with | .ok _ => true | .error _ => false)
  | .blocked _, r => (match r with | .ok _ => true | .error _ => false)
  | .fedCallbacks, r | .socialCallbacks, r => (match r with | .ok _ => true | .error _ => false)
  | .fedDefault _, r | .socialDefault _, r | .appCb _ _ _, r | .otherCb _ _ _, r => (match r with | .ok _ => true | .error _ => false)
  | .maxFwdDepth, _ | .maxDeliveryDepth, _ => true
  | .filterForwarding _ _, r => (match r with | .ok _ => true | .error _ => false)
  | .now, _ | .writeHeader _, _ | .setHeader _ _, _ => true
  | .writeBody _, r => (match r with | .ok _ => true | .error _ => false)

/-- Database reads and writes that must happen under a lock (everything but Lock/Unlock and id generation) -/
def Call.isDbAccess : Call → Bool
  | .inboxContains _ _ | .getInbox _ | .setInbox _ | .owns _ | .actorForOutbox _ | .actorForInbox _
  | .outboxForInbox _ | .inboxForActor _ | .exists_ _ | .get _ | .create _ | .update _ | .delete _
  | .getOutbox _ | .setOutbox _ | .followers _ | .following _ | .liked _ => true
  | _ => false

/-- Database calls of any kind -/
def Call.isDb : Call → Bool
  | .lock _ | .unlock _ | .newID _ => true
  | c => c.isDbAccess

def Call.isTransport : Call → Bool
  | .newTransport _ | .deref _ | .batchDeliver _ _ => true
  | _ => false

/-- application side-effect callbacks of C07: activity callbacks, default callback, forwarding filter -/
def Call.isSideEffectCb : Call → Bool
  | .fedDefault _ | .socialDefault _ | .appCb _ _ _ | .otherCb _ _ _ | .filterForwarding _ _ | .fedCallbacks | .socialCallbacks => true
  | _ => false

/-- anything C07 forbids before the checks have passed -/
def Call.isEffect (c : Call) : Bool := c.isDb || c.isTransport || c.isSideEffectCb

def Call.isAuth : Call → Bool
  | .authGetInbox | .authGetOutbox | .authPostInbox | .authPostOutbox => true
  | _ => false

/-! ### C09: lock discipline -/

def removeFirst (k : Iri) : List Iri → List Iri
  | [] => []
  | x :: xs => if x == k then xs else x :: removeFirst k xs

/-- writes to the ResponseWriter -/
def Call.isWrite : Call → Bool
  | .writeHeader _ | .setHeader _ _ | .writeBody _ => true
  | _ => false

/-- a `BatchDeliver` whose payload the predicate rejects -/
def Call.deliverBad (ok : J → Bool) : Call → Bool
  | .batchDeliver p _ => !ok p
  | _ => false

def anyPayload : J → Bool := fun _ => true
def noPayload : J → Bool := fun _ => false

/-- held = ids currently locked by the request.  Violations: locking an id already held (when `reentry`
is checked), unlocking an id not held, a Database access while nothing is held — and, when `allowWrite` is
off, any write to the ResponseWriter or authentication call (used to show that the side-effect code never
touches the response: C10); `deliverOK` constrains the payloads
handed to `BatchDeliver` (`noPayload`: nothing is delivered at all — C05; "no bto/bcc" — C03). -/
def lockMonG (reentry allowWrite : Bool) (deliverOK : J → Bool) : Mon where
  S := List Iri
  step held c r :=
    if !allowWrite && (c.isWrite || c.isAuth) then none else
    if c.deliverBad deliverOK then none else
    match c with
    | .lock k => if reentry && held.contains k then none else if respOk (.lock k) r then some (k :: held) else some held
    | .unlock k => if held.contains k then some (removeFirst k held) else none
    | c => if c.isDbAccess && held.isEmpty then none else some held

/-- the full lock discipline of C09 -/
abbrev lockMon : Mon := lockMonG true true anyPayload
/-- C09 without the "never locked again while held" clause (balance, no stray Unlock, access under lock) -/
abbrev balanceMon : Mon := lockMonG false true anyPayload

/-! ### C07: nothing before authentication (and, for inbox POSTs, the block check) -/

structure GateSt where
  authed : Bool := false
  unblocked : Bool := false
  deriving Repr, DecidableEq

def GateSt.isOpen (needBlock : Bool) (s : GateSt) : Bool := s.authed && (s.unblocked || !needBlock)

/-- how the gate moves: a successful authentication, a negative answer of the block check -/
def gateNext (s : GateSt) : (c : Call) → c.Resp → GateSt
  | .authGetInbox, .ok true | .authGetOutbox, .ok true | .authPostInbox, .ok true | .authPostOutbox, .ok true =>
    { s with authed := true }
  | .blocked _, .ok false => { s with unblocked := true }
  | _, _ => s

/-- `needBlock`: the entry point is an inbox POST.  An effect call while the gate is shut is a violation. -/
def gateMon (needBlock : Bool) : Mon where
  S := GateSt
  step s c r := if c.isEffect && !(s.isOpen needBlock) then none else some (gateNext s c r)

/-- the ActivityStreams handler consults nobody: its Database access is all it does -/
def handlerGateMon : Mon where
  S := Unit
  step _ c _ := if c.isTransport || c.isSideEffectCb || c.isAuth then none else some ()

/-! ### C10: each outcome reported exactly once -/

structure OnceSt where
  statuses : List Nat := []     -- WriteHeader calls so far
  bodies : Nat := 0
  denied : Bool := false        -- the application's authentication answered "not authenticated" (it writes its own response)
  writeFailed : Bool := false   -- the body write failed or was short
  deriving Repr, DecidableEq

def authDenied : (c : Call) → c.Resp → Bool
  | .authGetInbox, .ok false | .authGetOutbox, .ok false | .authPostInbox, .ok false | .authPostOutbox, .ok false => true
  | _, _ => false

def bodyWritten : (c : Call) → c.Resp → Bool
  | .writeBody _, .ok true => true
  | _, _ => false

/-- at most one status, headers only before it, a body only after it -/
def onceMon : Mon where
  S := OnceSt
  step s c r :=
    match c with
    | .writeHeader code => if s.statuses.isEmpty then some { s with statuses := [code] } else none
    | .setHeader _ _ => if s.statuses.isEmpty then some s else none
    | .writeBody b => if s.statuses.length == 1 && s.bodies == 0
        then some { s with bodies := 1, writeFailed := !bodyWritten (.writeBody b) r } else none
    | c => some { s with denied := s.denied || authDenied c r }

/-- the three end states of C10 (`none` = the handler returned an error) -/
def onceEnd (notHandled : α → Bool) (s : OnceSt) : Option α → Prop
  | some a => if notHandled a then s.statuses = [] ∧ s.bodies = 0
              else (s.statuses.length = 1 ∧ s.writeFailed = false) ∨ (s.denied = true ∧ s.statuses = [])
  | none => s.statuses = [] ∨ s.writeFailed = true

/-! ### C05: identify, store, list in the outbox, then deliver; nothing delivered after a failed step -/

structure OrderSt where
  failed : Bool := false        -- some persistence / id / callback step answered with an error
  stored : Bool := false        -- SetOutbox succeeded
  delivered : Nat := 0
  deriving Repr, DecidableEq

def outboxOrderMon : Mon where
  S := OrderSt
  step s c r :=
    match c with
    | .batchDeliver _ _ => if s.failed || !s.stored then none else some { s with delivered := s.delivered + 1 }
    | .setOutbox v => some { s with stored := s.stored || respOk (.setOutbox v) r, failed := s.failed || !respOk (.setOutbox v) r }
    | .unlock _ => some s                     -- the library cannot act on a failing Unlock
    | c =>
      -- a step of the identify / side-effect / store phase answered with an error (delivery-phase failures —
      -- unreachable recipients, a failing transport — come after the outbox was updated and are not such steps)
      if !s.stored && (c.isDb || c.isSideEffectCb) && !respOk c r then some { s with failed := true } else some s

/-! ### C06: the block check sees an id for every actor, before any side effect -/

/-- after the body hook, the first effect call of an inbox POST must be `Blocked` -/
def blockedFirstMon : Mon where
  S := Bool                                   -- Blocked has been asked
  step asked c _ :=
    match c with
    | .blocked _ => some true
    | c => if c.isEffect && !c.isAuth && !asked then none else some asked

end AV
