import AV.Streams.Vocab
import AV.Gen.Ontology
import AV.Gen.Impl
