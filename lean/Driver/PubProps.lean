import Driver.Mon
import AV.Spec.C20
import AV.Streams.Closure
import AV.Gen.Ontology
import AV.Spec.C06
import AV.Spec.C02
import AV.Spec.C17
import AV.Spec.Own
import AV.Lemmas.CbOrder
open Lean AV AV.Pub

namespace Drv

def stepsOf (obs : Json) : List (Json × Json) :=
  match jget obs "steps" with
  | .arr xs => xs.toList.map fun s => (jget s "in", jget s "obs")
  | _ => []

/-- model ↔ implementation agreement over all steps of a scenario -/
def replayAll (inp obs : Json) : Bool × String × Bool :=
  let strict := !(jbool inp "unordered")
  let hasFault := (stepsOf obs).any fun (_, o) => (parseTrace (jget o "trace")).any fun ev => isErr ev.resp
  (stepsOf obs).zipIdx.foldl (fun (acc : Bool × String × Bool) ((sin, sobs), i) =>
    if !acc.1 then acc else
    if (sobs.getObjVal? "setupError").toOption.isSome then (false, s!"step {i}: harness setup error {(jget sobs "setupError").compress}", false) else
    let (out, outcomeOk, why) := replayStep sin sobs strict
    if !out.ok then
      -- a fault inside the region whose call order depends on Go-map iteration: the set of calls made before the
      -- fault is not determined by the input; such a case is inconclusive, not a disagreement
      if !strict && hasFault then (true, s!"inconclusive (fault inside map-ordered region): {out.why}", true)
      else (false, s!"step {i}: {out.why}", false)
    else if !outcomeOk then (false, s!"step {i}: {why}", false)
    else acc) (true, "", false)

/-- first step whose trace the monitor rejects / whose end condition fails -/
def checkSteps (obs : Json) (f : Json → Json → Option String) : Option String :=
  (stepsOf obs).zipIdx.foldl (fun (acc : Option String) ((sin, sobs), i) =>
    match acc with
    | some _ => acc
    | none => (f sin sobs).map fun m => s!"step {i}: {m}") none

/-! #### C09 -/

/-- classes of lock violations that are recorded findings (DESIGN §6).  `C09-fwd-relock`: InboxForwarding keeps
the owned collections of to/cc/audience locked (deferred unlock, pinned by the repository's own tests) while
`hasInboxForwardingValues` locks the ids of inReplyTo/object/target/tag — an owned collection that is also one of
those values is locked again while held. -/
def c09Class (evs : List RecEv) (idx : Nat) (held : List Iri) : String :=
  let cur := evs.getD idx default
  let k := ((cur.args.getD 0 Json.null).getStr?).toOption.getD ""
  let before := evs.take idx
  -- k is held because the forwarding load loop locked it (lock k; get k) after the seen-test …
  let loadedByFwd := before.zipIdx.any fun (e, i) =>
    e.name == "get" && !isErr e.resp && ((e.args.getD 0 Json.null).getStr?).toOption.getD "" == k &&
    (before.getD (i - 1) default).name == "lock" && (before.take i).any (fun e => e.name == "exists")
  -- … and the second Lock comes from the ownership search that follows MaxInboxForwardingRecursionDepth
  if cur.name == "lock" && held.contains k && loadedByFwd && before.any (fun e => e.name == "maxFwdDepth") then "C09-fwd-relock"
  else ""

def c09Step (_sin sobs : Json) : Option String × String :=
  let evs := libTrace sobs
  match monRun lockMon [] evs with
  | .error (i, what) =>
    -- recompute the held set at the failing event for classification
    let held : List Iri := match monRun lockMon [] (evs.take i) with | .ok h => h | .error _ => []
    (some s!"lock discipline broken at event {i}: {what} (held: {held})", c09Class evs i held)
  | .ok (held : List Iri) =>
    if held.isEmpty then (none, "")
    else
      (some s!"locks still held when the handler returned: {held}", "")

def c09 (inp obs : Json) : Res :=
  let (agree, why, inconclusive) := replayAll inp obs
  let results := (stepsOf obs).map fun (sin, sobs) => c09Step sin sobs
  let bad := results.filter fun r => r.1.isSome
  match bad with
  | [] => { agree := agree, specOk := true, why := why, nontrivial := !inconclusive && (stepsOf obs).any fun (_, o) => (libTrace o).any fun e => e.name == "lock" }
  | (msg, cls) :: _ => { agree := agree, specOk := false, why := msg.getD "" ++ (if agree then "" else " | " ++ why), known := cls }

/-! #### C07 -/

def c07Step (sin sobs : Json) : Option String :=
  let evs := libTrace sobs
  let entry := jstr sin "entry"
  let isAP := if entry == "postInbox" || entry == "postOutbox" then isAPPost (jstr sin "method") (jstr sin "header")
    else isAPGet (jstr sin "method") (jstr sin "header")
  let cfg := cfgOf (jstr sin "kind")
  if entry == "send" then none else
  if !isAP then
    if jbool sobs "handled" || !evs.isEmpty || jstr sobs "err" != "nil" then some "a non-ActivityPub request must be reported not handled, with nothing done or written" else none
  else if (entry == "postInbox" && !cfg.federated) || (entry == "postOutbox" && !cfg.social) then
    if evs.map (·.name) == ["writeHeader"] && (evs.head!.args.getD 0 Json.null) == (405 : Nat) && jbool sobs "handled" then none
    else some "a disabled protocol must answer 405 without consulting the application"
  else
    let res := if entry == "handler" then (monRun handlerGateMon () evs).toOption.isSome
      else (monRun (gateMon (entry == "postInbox")) {} evs).toOption.isSome
    if res then none else
      match (if entry == "handler" then (match monRun handlerGateMon () evs with | .error e => some e | .ok _ => none)
             else (match monRun (gateMon (entry == "postInbox")) {} evs with | .error e => some e | .ok _ => none)) with
      | some (i, what) => some s!"side effect before the checks passed, at event {i}: {what}"
      | none => none

def c07 (inp obs : Json) : Res :=
  let (agree, why, inconclusive) := replayAll inp obs
  match checkSteps obs c07Step with
  | none => { agree := agree, specOk := true, why := why, nontrivial := !inconclusive }
  | some m => { agree := agree, specOk := false, why := m ++ (if agree then "" else " | " ++ why) }

/-! #### C10 -/

def statusesOf (evs : List RecEv) : List Nat :=
  evs.filterMap fun e => if e.name == "writeHeader" || e.name == "app:writeHeader" then (e.args.getD 0 Json.null).getNat?.toOption else none

/-- does the default side effect of this activity run, and does the activity lack the object/target it needs?
(decided from the input value and from what the application answered in the trace) -/
def requiredMissing (entry : String) (v : J) (evs : List RecEv) (sin : Json := Json.null) : Bool :=
  let ty := Val.typeName v
  let needsObject := ["Create", "Update", "Delete", "Follow", "Add", "Remove", "Like", "Undo", "Block"].contains ty
  let needsTarget := ["Add", "Remove"].contains ty
  let empty (p : String) : Bool := match Val.rawList v p with | none => true | some [] => true | _ => false
  let missing := (needsObject && empty "object") || (needsTarget && empty "target")
  let faultFree := !(evs.any fun e => isErr e.resp)
  -- the default callback runs: callbacks were asked for, and no `other` callback of that type replaces it
  let cfgEv := evs.find? fun e => e.name == (if entry == "postInbox" then "fedCallbacks" else "socialCallbacks")
  let other := jIris (jget sin (if entry == "postInbox" then "fedOther" else "socOther"))
  let reached := if entry == "postInbox"
    then evs.any (fun e => e.name == "inboxContains" && e.resp == Json.mkObj [("ok", false)])
    else evs.any (fun e => e.name == "hookOutbox")
  let defaultRuns := match cfgEv with
    | some e => !(jIris (jget (jget e.resp "ok") "other")).contains ty
    | none => reached && !other.contains ty && other.all (fun o => (Gen.impl.findType o).isSome)
  missing && faultFree && defaultRuns && (entry == "postInbox" || entry == "postOutbox")

/-- the activity lacks an object/target its type needs (whether or not the default side effect got to look) -/
def missingShape (v : J) : Bool :=
  let ty := Val.typeName v
  let needsObject := ["Create", "Update", "Delete", "Follow", "Add", "Remove", "Like", "Undo", "Block"].contains ty
  let needsTarget := ["Add", "Remove"].contains ty
  let empty (p : String) : Bool := match Val.rawList v p with | none => true | some [] => true | _ => false
  (needsObject && empty "object") || (needsTarget && empty "target")

def c10Step (sin sobs : Json) : Option String × String :=
  let all := parseTrace (jget sobs "trace")
  let evs := libTrace sobs
  let entry := jstr sin "entry"
  if entry == "send" then (none, "") else
  let handled := jbool sobs "handled"
  let err := jstr sobs "err"
  let libStatuses := statusesOf evs
  let allStatuses := statusesOf all
  let bodies := (evs.filter fun e => e.name == "writeBody").length
  if (sobs.getObjVal? "panic").toOption.isSome then (none, "") else     -- crashes are C11's
  let touched : List String := jIris (jget sobs "headersTouched")
  if !handled then
    (if allStatuses.isEmpty && bodies == 0 && err == "nil" && touched.isEmpty then none else some s!"not handled, yet something was written (headers changed: {touched}) or an error returned", "")
  else if err != "nil" && requiredMissing entry (toJ (jget (jget sin "body") "v")) evs sin then
    (some "the activity lacks a required object/target: the documented answer is 400, not an error", "")
  else if err != "nil" then
    -- a failing body write is reported after the status went out; nothing else may be written
    let writeFailed := evs.any fun e => e.name == "writeBody" && (isErr e.resp || e.resp == Json.mkObj [("ok", false)])
    (if !(libStatuses.isEmpty || writeFailed) then some s!"error returned but the library had already written status {libStatuses}"
     else if libStatuses.isEmpty && !touched.isEmpty then some s!"error returned and no status written, yet the library had changed the response headers {touched}"
     else none, "")
  else
    match allStatuses with
    | [s] =>
      -- the documented status for the branch taken
      let isGet := entry == "getInbox" || entry == "getOutbox" || entry == "handler"
      let cfg := cfgOf (jstr sin "kind")
      let body := jget sin "body"
      let v := toJ (jget body "v")
      let idUsable := match Val.idState v with | .iri _ => true | _ => false
      let blockedYes := evs.any fun e => e.name == "blocked" && e.resp == Json.mkObj [("ok", true)]
      let authDenied := all.any fun e => e.name == "app:writeHeader"
      let missingRequired := requiredMissing entry v evs sin
      let expect : Option Nat :=
        if authDenied then some 401
        else if isGet then (if entry == "handler" && Val.typeName (toJ (match (evs.find? fun e => e.name == "get") with | some e => (jget e.resp "ok") | none => Json.null)) == "Tombstone" then some 410 else some 200)
        else if (entry == "postInbox" && !cfg.federated) || (entry == "postOutbox" && !cfg.social) then some 405
        else if jstr body "k" == "undecodable" then some 400
        else if entry == "postInbox" && !idUsable then some 400
        else if blockedYes then some 403
        else none   -- 400 (missing object/target), 200 or 201: decided by the side effects; checked against the model
      let okStatus := match expect with
        | some e => s == e
        | none =>
          -- 400 only for an activity that lacks what its type needs; otherwise the documented success status
          if missingRequired then s == 400
          else if missingShape v then (if entry == "postInbox" then s == 200 || s == 400 else s == 201 || s == 400)
          else if entry == "postInbox" then s == 200 else s == 201
      let locOk := if s == 201 then
          -- Location = id of the activity that was stored and listed in the outbox
          let loc := match evs.find? fun e => e.name == "writeHeader" with
            | some e => jstr (e.args.getD 1 Json.null) "Location"
            | none => ""
          let storedIds := evs.filterMap fun e => if e.name == "setOutbox" then
              (match toJ (e.args.getD 0 Json.null) |> fun p => Val.rawList p "orderedItems" with
               | some (J.str s :: _) => some s
               | _ => none) else none
          storedIds.getLast? == some loc
        else true
      if !okStatus then (some s!"status {s} written where the documented status is {expect}", if entry == "postInbox" && !idUsable && s == 200 then "C10-F7" else "")
      else if !locOk then (some "201 without a Location header equal to the new activity's id", "")
      else (none, "")
    | ss => (some s!"handled without error but {ss.length} statuses were written: {ss}", "")

def c10 (inp obs : Json) : Res :=
  let (agree, why, inconclusive) := replayAll inp obs
  let results := (stepsOf obs).map fun (sin, sobs) => c10Step sin sobs
  match results.filter fun r => r.1.isSome with
  | [] => { agree := agree, specOk := true, why := why, nontrivial := !inconclusive }
  | (msg, cls) :: _ => { agree := agree, specOk := false, why := msg.getD "" ++ (if agree then "" else " | " ++ why), known := cls }

/-! #### C20 -/

def c20Step (sin sobs : Json) : Option String :=
  let evs := libTrace sobs
  let entry := jstr sin "entry"
  if !(entry == "getInbox" || entry == "getOutbox" || entry == "handler") then none else
  if (sobs.getObjVal? "panic").toOption.isSome then none else
  let err := jstr sobs "err"
  let getEv := evs.find? fun e => e.name == "get"
  -- a missing value: ErrNotFound, nothing written
  if entry == "handler" && (match getEv with | some e => e.resp == Json.mkObj [("ok", Json.null)] | none => false) then
    (if err == "notFound" && !(evs.any fun e => e.name == "writeHeader" || e.name == "writeBody") then none
     else some "a missing value must yield ErrNotFound with nothing written")
  else
  match evs.find? (fun e => e.name == "writeHeader"), evs.find? (fun e => e.name == "writeBody") with
  | some wh, some wb =>
    let status := (wh.args.getD 0 Json.null).getNat?.toOption.getD 0
    let hdrs := wh.args.getD 1 Json.null
    let raw := (wb.args.getD 1 Json.null).getStr?.toOption.getD ""
    let body := J.norm (toJ (wb.args.getD 0 Json.null))
    let nowT := match evs.find? (fun e => e.name == "now") with
      | some e => (match e.resp with | .arr xs => (xs.getD 0 Json.null).getInt?.toOption.getD 0 | _ => 0)
      | none => 0
    if jstr hdrs "Content-Type" != contentTypeValue then some "Content-Type is not the ActivityStreams media type"
    else if jstr hdrs "Date" != Time.imfFixdate nowT then some s!"Date header {jstr hdrs "Date"} is not the RFC 7231 form of the application clock ({Time.imfFixdate nowT})"
    else if jstr hdrs "Digest" != Sha256.digestHeader raw then some s!"Digest header {jstr hdrs "Digest"} is not the SHA-256 of the bytes written ({Sha256.digestHeader raw})"
    else
      let supplied : Option J := match entry with
        | "getOutbox" => (evs.find? fun e => e.name == "appGetOutbox").map fun e => J.norm (toJ (jget e.resp "ok"))
        | "getInbox" => (evs.find? fun e => e.name == "appGetInbox").map fun e => J.norm (toJ (jget e.resp "ok"))
        | _ => getEv.map fun e => J.norm (toJ (jget e.resp "ok"))
      match supplied with
      | none => some "a body was written although the application supplied no value"
      | some v =>
        if entry == "getOutbox" then (if body == v then none else some "GetOutbox body differs from the page the application supplied")
        else if entry == "getInbox" then
          let xs := (Val.rawList v "orderedItems").getD []
          if !(xs.all fun j => (elemKey facts j).isSome) then none else
          let kept := firstOcc (fun j => (elemKey facts j).getD "") xs
          let expect := if kept.length == xs.length then v else Val.setList v "orderedItems" kept
          if body == expect then none else some "GetInbox body is not the supplied page with later duplicates (by id) removed"
        else
          if !noHiddenDeep facts body then some "handler body still carries bto/bcc on the value or along its object chain"
          else if !(eraseHiddenEverywhere body == eraseHiddenEverywhere v) then some "handler body differs from the stored value in more than bto/bcc"
          else if (status == 410) != facts.isOrExt "Tombstone" (Val.typeName v) then some s!"status {status} for a value of type {Val.typeName v}"
          else none
  | _, _ => none

def c20 (inp obs : Json) : Res :=
  let (agree, why, inconclusive) := replayAll inp obs
  match checkSteps obs c20Step with
  | none => { agree := agree, specOk := true, why := why, nontrivial := !inconclusive && (stepsOf obs).any fun (_, o) => (libTrace o).any fun e => e.name == "writeBody" }
  | some m => { agree := agree, specOk := false, why := m ++ (if agree then "" else " | " ++ why) }

/-! #### C03 -/

/-- the property's reading: `bto`/`bcc` members of the value and of the typed values in its `object` *property*
(a member called "object" on a type that has no such property is an uninterpreted extension member) -/
def rawHidden1 (j : J) : Bool := !noHidden1 facts j
def rawHiddenDeep (j : J) : Bool := !noHiddenDeep facts j

def c03Step (sin sobs : Json) : Option String :=
  let evs := libTrace sobs
  let entry := jstr sin "entry"
  let receivedId := Val.idGet (toJ (jget (jget sin "body") "v"))
  let badDelivery := evs.find? fun e =>
    e.name == "batchDeliver" &&
    (let p := toJ (e.args.getD 0 Json.null)
     -- inbox forwarding re-sends the received activity unchanged; that is not an activity of this server's outbox
     !(entry == "postInbox" && Val.idGet p == receivedId) && rawHidden1 p)
  match badDelivery with
  | some e => some s!"payload handed to the transport still carries bto/bcc: {showArgs [e.args.getD 0 Json.null]}"
  | none =>
    if entry == "handler" then
      match evs.find? fun e => e.name == "writeBody" with
      | some e => if rawHiddenDeep (toJ (e.args.getD 0 Json.null)) then some "the GET handler served a body that still carries bto/bcc along its object chain" else none
      | none => none
    else none

/-- a `bto` / `bcc` member under any spelling (plain, or prefixed by a JSON-LD alias), at any depth -/
partial def hiddenAnySpelling (j : Json) : Bool :=
  match j with
  | .obj kvs => kvs.foldl (fun acc k v => acc || k == "bto" || k == "bcc" || k.endsWith ":bto" || k.endsWith ":bcc" || hiddenAnySpelling v) false
  | .arr xs => xs.any hiddenAnySpelling
  | _ => false

/-- documents written with an aliased `@context` (`as:bto`): not modelled — judged by the oracle alone -/
def c03Aliased (obs : Json) : Res :=
  let bad := (stepsOf obs).findSome? fun (_, sobs) =>
    (libTrace sobs).findSome? fun e =>
      if (e.name == "batchDeliver" || e.name == "writeBody") && hiddenAnySpelling (e.args.getD 0 Json.null)
      then some s!"{e.name}: what left the server still carries a hidden-recipient member written with the document's alias: {showArgs [e.args.getD 0 Json.null]}"
      else none
  let seen := (stepsOf obs).any fun (_, o) => (libTrace o).any fun e => e.name == "batchDeliver" || e.name == "writeBody"
  match bad with
  | none => { agree := true, specOk := true, nontrivial := seen }
  | some m => { agree := true, specOk := false, why := m, known := "C03-aliased-context" }

def c03 (inp obs : Json) : Res :=
  if (jstr inp "label").startsWith "aliased" then c03Aliased obs else
  let (agree, why, inconclusive) := replayAll inp obs
  match checkSteps obs c03Step with
  | none => { agree := agree, specOk := true, why := why,
              nontrivial := !inconclusive && (stepsOf obs).any fun (_, o) => (libTrace o).any fun e => e.name == "batchDeliver" || e.name == "writeBody" }
  | some m => { agree := agree, specOk := false, why := m ++ (if agree then "" else " | " ++ why) }

/-! #### C05 -/

def sortDedup (xs : List String) : List String :=
  (xs.foldl (fun (acc : List String) x => if acc.contains x then acc else acc ++ [x]) []).toArray.qsort (· < ·) |>.toList

/-- the set of ids a property names (`none`: some element has no id) -/
def idSet (v : J) (p : String) : Option (List String) :=
  match Val.prop facts v p with
  | none => some []
  | some xs => match Val.idsOf facts xs with
    | .ok ids => some (sortDedup ids)
    | .error _ => none

def unionS (a b : List String) : List String := sortDedup (a ++ b)

def addressing : List String := ["to", "bto", "cc", "bcc", "audience"]

def embObjects (v : J) : List J :=
  ((Val.prop facts v "object").getD []).filterMap fun j => match Val.elemOf facts j with | .emb t => some t | _ => none

def c05Step (sin sobs : Json) : Option String :=
  let evs := libTrace sobs
  let entry := jstr sin "entry"
  if !(entry == "postOutbox" || entry == "send") then none else
  if (sobs.getObjVal? "panic").toOption.isSome then none else
  match monRun outboxOrderMon {} evs with
  | .error (i, what) => some s!"event {i} ({what}): delivery before the activity was stored in the outbox, or after a failed step"
  | .ok _ =>
  let err := jstr sobs "err"
  let wh := evs.find? fun e => e.name == "writeHeader"
  let status := match wh with | some e => (e.args.getD 0 Json.null).getNat?.toOption.getD 0 | none => 0
  let accepted := err == "nil" && (if entry == "send" then (sobs.getObjVal? "returned").toOption.isSome else status == 201)
  if !accepted then none else
  let input : J := if entry == "send" then toJ (jget sin "value") else toJ (jget (jget sin "body") "v")
  let newIds : List String := evs.filterMap fun e => if e.name == "newID" then (jget e.resp "ok").getStr?.toOption else none
  match newIds with
  | [] => some "accepted, but no id was requested for the activity"
  | actId :: objIds =>
  let returnedId := if entry == "send" then Val.idGet (toJ (jget sobs "returned"))
    else match wh with | some e => jstr (e.args.getD 1 Json.null) "Location" | none => ""
  if returnedId != actId then some s!"the id reported to the caller ({returnedId}) is not the fresh id {actId}" else
  let creates : List J := evs.filterMap fun e => if e.name == "create" && !isErr e.resp then some (J.norm (toJ (e.args.getD 0 Json.null))) else none
  match creates.find? fun c => Val.idGet c == actId with
  | none => some "the activity was not stored under its fresh id"
  | some A' =>
  -- outbox: exactly one SetOutbox, = the page GetOutbox returned with the id in front
  let gets := evs.filterMap fun e => if e.name == "getOutbox" && !isErr e.resp then some (toJ (jget e.resp "ok")) else none
  let sets := evs.filterMap fun e => if e.name == "setOutbox" then some (toJ (e.args.getD 0 Json.null)) else none
  match gets, sets with
  | [pg], [ps] =>
    let items (p : J) := (Val.rawList p "orderedItems").getD []
    if items ps != J.str actId :: items pg then some "the outbox page written is not the page read with the new id in front" else
    let createIdx := evs.findIdx fun e => e.name == "create" && Val.idGet (toJ (e.args.getD 0 Json.null)) == actId
    let setIdx := evs.findIdx fun e => e.name == "setOutbox"
    if !(createIdx < setIdx) then some "the outbox was updated before the activity was stored" else
    -- what an activity is comes from the vocabularies themselves (the ontology's closure), not from the generated code
    let isActivity := Val.typeName input == "Activity" || (AV.anc Gen.ontology (Val.typeName input)).contains "Activity"
    let owner : Option String := (evs.find? fun e => e.name == "actorForOutbox").bind fun e => (jget e.resp "ok").getStr?.toOption
    -- wrapping
    -- the value as it was handed to NewID: the posted activity, or the Create wrapped around the posted object
    let W : J := match evs.find? fun e => e.name == "newID" with
      | some e => J.norm (toJ (e.args.getD 0 Json.null))
      | none => .null
    let wrapBad : Option String :=
      if isActivity then (if W == J.norm input then none else some "an activity was altered before ids were assigned") else
      if Val.typeName W != "Create" then some "a non-activity was not wrapped in a Create" else
      if idSet W "actor" != owner.map (fun o => [o]) then some "the wrapping Create's actor is not the outbox's owner" else
      if embObjects W != [J.norm input] then some "the wrapping Create does not embed exactly the posted object" else
      if (W.get? "published") != (input.get? "published") then some "the wrapping Create did not copy published" else
      match addressing.find? fun p => idSet W p != idSet input p with
      | some p => some s!"the wrapping Create's {p} is not the object's"
      | none => none
    match wrapBad with
    | some m => some m
    | none =>
    let isCreate := facts.isOrExt "Create" (Val.typeName A')
    -- fresh ids on every embedded object of a Create
    let objs' := embObjects A'
    let idsBad := isCreate && (objs'.map Val.idGet) != objIds.take objs'.length
    if idsBad then some "an embedded object of the Create did not receive its fresh id" else
    let socialOn := (cfgOf (jstr sin "kind")).social
    let cfgEv := evs.find? fun e => e.name == "socialCallbacks"
    let defaultCreate := socialOn && Val.typeName A' == "Create" &&
      (match cfgEv with | some e => !(jIris (jget (jget e.resp "ok") "other")).contains "Create" | none => false)
    if !defaultCreate then none else
    -- the activity as it entered the side effects
    let A0actor : Option (List String) := if isActivity then idSet input "actor" else owner.map fun o => [o]
    let A0addr (p : String) : Option (List String) := idSet input p
    let objs0 : List J := if isActivity then embObjects input else [input]
    if objs0.length != objs'.length then some "the Create's objects changed in number" else
    let pairs := objs0.zip objs'
    let opt2 (a b : Option (List String)) : Option (List String) := match a, b with | some x, some y => some (unionS x y) | _, _ => none
    let unionAll (base : Option (List String)) (p : String) : Option (List String) := objs0.foldl (fun acc o => opt2 acc (idSet o p)) base
    let bad : Option String :=
      (addressing.findSome? fun p =>
        if idSet A' p != unionAll (A0addr p) p then some s!"the Create's {p} is not the union over the activity and its objects"
        else pairs.findSome? fun (o, o') =>
          if idSet o' p != opt2 (idSet o p) (A0addr p) then some s!"an object's {p} is not its own plus the activity's" else none)
      <|> (if (Val.prop facts A' "actor").isSome && idSet A' "actor" != unionAll A0actor "attributedTo" then some "the Create's actors do not cover every object's attributedTo" else none)
      <|> (pairs.findSome? fun (o, o') =>
          if idSet o' "attributedTo" != opt2 (idSet o "attributedTo") A0actor then some "an object's attributedTo is not its own plus the Create's actors" else none)
      <|> (objs'.findSome? fun o' => if creates.any (fun c => c == J.norm o') then none else some s!"the object {Val.idGet o'} was not stored as it ended up")
    bad
  | _, _ => some s!"expected one GetOutbox and one SetOutbox, saw {gets.length} and {sets.length}"

/-- across the steps of a scenario: each outbox lists the accepted ids newest first in front of what it held -/
def c05History (obs : Json) : Option String :=
  let steps := stepsOf obs
  let boxes := sortDedup (steps.map fun (sin, _) => jstr sin "box")
  boxes.findSome? fun box =>
    let mine := steps.filter fun (sin, _) => jstr sin "box" == box
    let accepted : List String := mine.filterMap fun (sin, sobs) =>
      let evs := libTrace sobs
      let ok := jstr sobs "err" == "nil" && (if jstr sin "entry" == "send" then (sobs.getObjVal? "returned").toOption.isSome
        else evs.any fun e => e.name == "writeHeader" && (e.args.getD 0 Json.null).getNat?.toOption == some 201)
      if !ok then none else
      if jstr sin "entry" == "send" then some (Val.idGet (toJ (jget sobs "returned")))
      else (evs.find? fun e => e.name == "writeHeader").map fun e => jstr (e.args.getD 1 Json.null) "Location"
    let allEvs := mine.flatMap fun (_, sobs) => libTrace sobs
    let firstGet := allEvs.findSome? fun e => if e.name == "getOutbox" && !isErr e.resp then some (toJ (jget e.resp "ok")) else none
    let lastSet := (allEvs.filterMap fun e => if e.name == "setOutbox" && !isErr e.resp then some (toJ (e.args.getD 0 Json.null)) else none).getLast?
    let items (p : J) := (Val.rawList p "orderedItems").getD []
    match firstGet, lastSet with
    | some pg, some ps =>
      if accepted.length < 1 then none else
      -- posts that updated the outbox and then failed to deliver are listed too; they are exactly the SetOutbox successes
      let listed := (allEvs.filterMap fun e => if e.name == "setOutbox" && !isErr e.resp then
          (match items (toJ (e.args.getD 0 Json.null)) with | J.str s :: _ => some s | _ => none) else none)
      if items ps != (listed.reverse.map J.str) ++ items pg then some s!"outbox {box} does not list the stored ids newest first"
      else if !(accepted.all fun a => listed.contains a) then some s!"outbox {box} misses an id that was reported to a caller"
      else if listed.length != (sortDedup listed).length then some s!"outbox {box} lists an id twice"
      else none
    | _, _ => none

def c05 (inp obs : Json) : Res :=
  let (agree, why, inconclusive) := replayAll inp obs
  match (checkSteps obs c05Step) <|> c05History obs with
  | none => { agree := agree, specOk := true, why := why,
              nontrivial := !inconclusive && (stepsOf obs).any fun (_, o) => (libTrace o).any fun e => e.name == "setOutbox" }
  | some m => { agree := agree, specOk := false, why := m ++ (if agree then "" else " | " ++ why) }

/-! #### C06 -/

open AV.Spec.C06 in
def c06Step (sin sobs : Json) : Option String :=
  let evs := libTrace sobs
  if jstr sin "entry" != "postInbox" then none else
  if (sobs.getObjVal? "panic").toOption.isSome then none else
  let body := jget sin "body"
  if jstr body "k" != "val" then none else
  let v := J.norm (toJ (jget body "v"))
  let ty := Val.typeName v
  -- the block check: asked first, about exactly the actors' ids
  match monRun (blockMon facts v) false evs with
  | .error (i, what) => some s!"event {i} ({what}): a side effect before the block check, or the block check was not asked about exactly the ids of the activity's actors"
  | .ok _ =>
  let cfgEv := evs.find? fun e => e.name == "fedCallbacks"
  let defaultRuns := match cfgEv with
    | some e => !isErr e.resp && !(jIris (jget (jget e.resp "ok") "other")).contains ty
    | none => false
  if !defaultRuns then none else
  let err := jstr sobs "err"
  let wrote (names : List String) := evs.any fun e => names.contains e.name
  if (ty == "Update" || ty == "Delete") && !originSpec facts v then
    (if wrote ["update", "delete", "create", "appCb"] then some s!"{ty} with an object on another host than the activity id was applied"
     else if err == "nil" && !(evs.any fun e => isErr e.resp) && ((Val.prop facts v "object").getD []).length > 0 then some s!"{ty} with an object on another host was accepted"
     else none)
  else if ty == "Accept" then
    match monRun (acceptMon facts v) {} evs with
    | .error (i, what) => some s!"event {i} ({what}): the following collection was updated without a stored Follow of this actor that names every accepting actor"
    | .ok _ => none
  else if ty == "Undo" then
    -- the callback phase ends where inbox forwarding starts (its first call is Exists on the activity id)
    let cbEvs := evs.takeWhile fun e => e.name != "exists"
    match monRun (undoMon facts v true) {} cbEvs with
    | .error (i, what) => some s!"event {i} ({what}): the Undo callback ran although an undone activity has an actor that is not an actor of the Undo"
    | .ok st =>
      if err == "nil" && !(evs.any fun e => isErr e.resp) && !(st.ok && st.checked == ((Val.prop facts v "object").getD []).length) && (evs.any fun e => e.name == "setInbox")
      then some "an Undo whose actors do not cover the undone activities' actors was accepted" else none
  else none

def c06 (inp obs : Json) : Res :=
  let (agree, why, inconclusive) := replayAll inp obs
  match checkSteps obs c06Step with
  | none => { agree := agree, specOk := true, why := why,
              nontrivial := !inconclusive && (stepsOf obs).any fun (_, o) => (libTrace o).any fun e => e.name == "blocked" }
  | some m => { agree := agree, specOk := false, why := m ++ (if agree then "" else " | " ++ why) }

/-! #### C02 -/

/-- the inbox of an actor document, as `getInbox` reads it -/
def inboxOfDoc (doc : J) : Option Iri :=
  if !Val.has facts doc "inbox" then none else
  match doc.get? "inbox" with
  | none => none
  | some j => (match Val.toId facts (Val.elemOf facts j) with
    | .ok u => some u
    | .error _ => none)

def depthOf (evs : List RecEv) : Int :=
  match evs.find? fun e => e.name == "maxDeliveryDepth" with
  | some e => e.resp.getInt?.toOption.getD 0
  | none => 0

open AV.Spec.C02 in
def c02Step (sin sobs : Json) : Option String :=
  let evs := libTrace sobs
  let entry := jstr sin "entry"
  if !(entry == "postOutbox" || entry == "send") then none else
  if (sobs.getObjVal? "panic").toOption.isSome then none else
  let delivers := evs.filter fun e => e.name == "batchDeliver"
  -- Public is never dereferenced as a recipient (a member of a fetched collection is the collection's business)
  let derefs : List (Iri × Json) := evs.filterMap fun e => if e.name == "deref" then some ((e.args.getD 0 Json.null).getStr?.toOption.getD "", e.resp) else none
  if delivers.length > 1 then some s!"the payload was handed to the transport {delivers.length} times" else
  -- no delivery at all: only a question when the activity was stored and listed, federation is on and nothing the
  -- application or the transport answered was an error (an unfetchable document aside: those recipients are skipped)
  let listedId : Option Iri := evs.findSome? fun e => if e.name == "setOutbox" && !isErr e.resp then
      (match Val.rawList (toJ (e.args.getD 0 Json.null)) "orderedItems" with
       | some (J.str s :: _) => some s
       | _ => none) else none
  let quietRun := evs.all fun e => !isErr e.resp || e.name == "deref"
  let federating := (cfgOf (jstr sin "kind")).federated
  if delivers.isEmpty && !(listedId.isSome && quietRun && federating) then none else
  let got : List Iri := match delivers with | dl :: _ => jIris (dl.args.getD 1 Json.null) | [] => []
  let pid : Iri := match delivers with
    | dl :: _ => Val.idGet (J.norm (toJ (dl.args.getD 0 Json.null)))
    | [] => listedId.getD ""
  -- the activity as stored (still with bto/bcc)
  let stored := evs.findSome? fun e => if e.name == "create" && !isErr e.resp && Val.idGet (toJ (e.args.getD 0 Json.null)) == pid then some (J.norm (toJ (e.args.getD 0 Json.null))) else none
  match stored with
  | none => none
  | some A =>
  match addressed facts A with
  | none => some "delivered although an addressing element has no id"
  | some r0 =>
  let r := filterPublic r0
  -- a federation graph read off the trace; a recipient answered differently at different times makes the case inconclusive
  let consistent := derefs.all fun (u, resp) => derefs.all fun (u', resp') => u != u' || resp == resp'
  if !consistent then none else
  -- the federation graph: ground truth from the scenario where the harness supplies it, overridden by what the
  -- transport actually answered (injected faults)
  let truth := jget sin "remoteDocs"
  let G : Iri → E Doc := fun u => match derefs.find? (fun d => d.1 == u) with
    | some (_, resp) => (eDoc resp).getD (.error .injected)
    | none => (match (truth.getObjVal? u).toOption with
      | some resp => (eDoc resp).getD (.error .injected)
      | none => .error .injected)
  let storedTruth := jget sin "inboxFor"
  let storedInbox (u : Iri) : Option Iri := match evs.find? (fun e => e.name == "inboxForActor" && (e.args.getD 0 Json.null).getStr?.toOption == some u) with
    | some e => (jget e.resp "ok").getStr?.toOption
    | none => (storedTruth.getObjValAs? String u).toOption
  let rest := r.filter fun u => (storedInbox u).isNone
  -- the configured depth: what the application answered, else the scenario's setting (the code may not have asked)
  let depth : Int := if evs.any (fun e => e.name == "maxDeliveryDepth") then depthOf evs
    else ((sin.getObjVal? "maxDeliveryDepth").toOption.bind fun j => j.getInt?.toOption).getD 0
  -- zero or negative: no limit (the generated graphs are then acyclic and shallow)
  let md : Nat := if depth ≤ 0 then 32 else depth.toNat
  let owner : Option Iri := match (evs.find? fun e => e.name == "actorForOutbox").bind (fun e => (jget e.resp "ok").getStr?.toOption) with
    | some o => some o
    | none => (sin.getObjValAs? String "sender").toOption
  -- the sender's actor document: what the Database answered, else the scenario's ground truth (the code may not have
  -- asked at all)
  let ownDoc : Option J := match owner.bind (fun o => (evs.findSome? fun e =>
      if e.name == "get" && (e.args.getD 0 Json.null).getStr?.toOption == some o && !isErr e.resp then some (J.norm (toJ (jget e.resp "ok"))) else none)) with
    | some d => some d
    | none => (match (sin.getObjVal? "senderDoc").toOption with
      | some (.obj kvs) => if evs.any (fun e => isErr e.resp) then none else some (J.norm (toJ (.obj kvs)))
      | _ => none)
  match ownDoc with
  | none => none
  | some meDoc =>
  -- the statement of theorem `prepare_det`, evaluated on the ground truth (`none`: the delivery must fail — an actor
  -- document without inbox; that is C11's business)
  match recipientsSpec facts G storedInbox md meDoc A with
  | none => none
  | some want =>
  let expect := sortDedup want
  -- (a Block is stored and listed but, by design, not delivered)
  if delivers.isEmpty && jstr sobs "err" == "nil" && Val.typeName A == "Block" then none else
  if delivers.isEmpty then some s!"the stored and listed activity was never handed to the transport although no lookup that has to succeed failed; its recipients are {expect}" else
  if sortDedup got != expect then some s!"recipients {got} are not the addressed inboxes {expect}"
  else if got.length != (sortDedup got).length then some s!"recipients contain duplicates: {got}"
  else if derefs.any (fun d => isPublic d.1 && r0.contains d.1) then some "the Public collection was dereferenced"
  else
    -- nothing is fetched that is not within the configured depth of an addressed recipient
    let rec allowed (d : Nat) (us : List Iri) : List Iri :=
      match d with
      | 0 => []
      | d + 1 => us ++ allowed d (us.flatMap fun u => match fetchSpec facts G u with | some (_, more) => more | none => [])
    let ok := allowed md rest
    match derefs.find? fun d => !ok.contains d.1 with
    | some d => some s!"{d.1} was dereferenced although it is not within depth {depth} of an addressed recipient"
    | none => none

def c02 (inp obs : Json) : Res :=
  let (agree, why, inconclusive) := replayAll inp obs
  match checkSteps obs c02Step with
  | none => { agree := agree, specOk := true, why := why,
              nontrivial := !inconclusive && (stepsOf obs).any fun (_, o) => (libTrace o).any fun e => e.name == "batchDeliver" }
  | some m => { agree := agree, specOk := false, why := m ++ (if agree then "" else " | " ++ why) }

/-! #### C17 -/

def fwdDepthOf (evs : List RecEv) : Int :=
  match evs.find? fun e => e.name == "maxFwdDepth" with
  | some e => e.resp.getInt?.toOption.getD 0
  | none => 3

structure FwdAcc where
  recorded : List Iri := []      -- activity ids a successful Create of an earlier forwarding stage recorded
  bad : Option String := none
  known : String := ""           -- a recorded finding was observed (and nothing else)

open AV.Spec.C17 in
def c17Step (acc : FwdAcc) (i : Nat) (sin sobs : Json) : FwdAcc :=
  if acc.bad.isSome then acc else
  let evs := libTrace sobs
  if jstr sin "entry" != "postInbox" then acc else
  if (sobs.getObjVal? "panic").toOption.isSome then acc else
  let body := jget sin "body"
  if jstr body "k" != "val" then acc else
  let v := J.norm (toJ (jget body "v"))
  let vid := Val.idGet v
  -- the forwarding stage: from its Exists check on
  let fwd := evs.dropWhile fun e => e.name != "exists"
  -- the lock that precedes Exists belongs to it too; it does not matter to the monitor
  let fail (m : String) : FwdAcc := { acc with bad := some s!"step {i}: {m}" }
  match monRun (fwdMon facts v) {} fwd with
  | .error (k, what) => fail s!"forwarding event {k} ({what}): recorded twice / filter consulted or transport used without the three conditions / payload or recipients differ"
  | .ok st =>
  let acc' : FwdAcc := if st.recorded then { acc with recorded := acc.recorded ++ [vid] } else acc
  -- the decision, against ground truth (only when nothing failed and the request went through)
  -- (a document that cannot be fetched is not a failure: the search skips it; what the transport answered is what
  -- the federation graph is, for the IRIs it was asked about)
  let faulty := evs.any fun e => isErr e.resp && e.name != "deref"
  let status200 := evs.any fun e => e.name == "writeHeader" && (e.args.getD 0 Json.null).getNat?.toOption == some 200
  let truth := jget sin "remoteDocs"
  if faulty || !status200 || truth.isNull then acc' else
  let ownedL := jIris (jget sin "owned")
  let owns (u : Iri) : Bool := ownedL.contains u
  let derefs : List (Iri × Json) := evs.filterMap fun e => if e.name == "deref" then some ((e.args.getD 0 Json.null).getStr?.toOption.getD "", e.resp) else none
  -- an IRI answered differently at different times (an injected fault on one of several fetches) is no fixed graph
  let consistent := derefs.all fun (u, resp) => derefs.all fun (u', resp') => u != u' || resp == resp'
  if !consistent then acc' else
  let G : Iri → E Doc := fun u => match derefs.find? (fun d => d.1 == u) with
    | some (_, resp) => (eDoc resp).getD (.error .injected)
    | none => (match (truth.getObjVal? u).toOption with
      | some resp => (eDoc resp).getD (.error .injected)
      | none => .error .injected)
  let depth : Int := fwdDepthOf evs
  let seenBefore := acc.recorded.contains vid
  -- owned collections among to/cc/audience: decided by the Get answers of the loading phase
  let loadedCols := st.loaded
  let asked := fwd.any fun e => e.name == "filterForwarding"
  let delivered := fwd.any fun e => e.name == "batchDeliver"
  let toSendEmpty := fwd.any fun e => e.name == "filterForwarding" && !isErr e.resp
  -- a badly typed document on the way makes the search fail rather than answer; such runs end in an error (not 200)
  if seenBefore then
    (if asked || delivered || st.creates > 0 then fail "an activity this server had already recorded was recorded or forwarded again" else acc')
  else
    let addressedIds := ["to", "cc", "audience"].flatMap fun p => match Val.prop facts v p with
      | some xs => (match Val.idsOf facts xs with | .ok ids => ids | .error _ => [])
      | none => []
    let couldLoad := addressedIds.any owns
    if depth ≤ 0 then acc' else
    let expectFwd := couldLoad && !loadedCols.isEmpty && ownsValueSpec facts G owns depth.toNat v
    if st.creates == 0 then fail "the activity was not recorded as seen although it had not been seen before"
    else if expectFwd && !asked then fail "all three forwarding conditions hold but the activity was not forwarded"
    else if !expectFwd && asked && !loadedCols.isEmpty then fail "forwarded although no inReplyTo/object/target/tag value within the depth limit is owned"
    else if asked && toSendEmpty && !delivered then fail "the filter answered but nothing was handed to the transport"
    else
      -- recorded finding C17-member-ids: the transport is given the members' ids, not their inboxes
      let storedTruth := jget sin "inboxFor"
      let inboxOf (m : Iri) : Option Iri := match (storedTruth.getObjValAs? String m).toOption with
        | some i => some i
        | none => (match G m with
          | .ok (.val doc) => inboxOfDoc doc
          | _ => none)
      let rs : List Iri := match fwd.find? fun e => e.name == "batchDeliver" with
        | some e => jIris (e.args.getD 1 Json.null)
        | none => []
      if rs.any (fun m => match inboxOf m with | some i => i != m | none => false) then { acc' with known := "C17-member-ids" } else acc'

def c17 (inp obs : Json) : Res :=
  let (agree, why, inconclusive) := replayAll inp obs
  let acc := (stepsOf obs).zipIdx.foldl (fun (acc : FwdAcc) ((sin, sobs), i) => c17Step acc i sin sobs) {}
  match acc.bad with
  | none =>
    if acc.known != "" then
      { agree := agree, specOk := false, known := acc.known, why := "forwarded to the ids of the collection members, not to their inboxes" ++ (if agree then "" else " | " ++ why) }
    else { agree := agree, specOk := true, why := why,
              nontrivial := !inconclusive && (stepsOf obs).any fun (_, o) => (libTrace o).any fun e => e.name == "exists" }
  | some m => { agree := agree, specOk := false, why := m ++ (if agree then "" else " | " ++ why) }

/-! #### C11 -/

def c11Step (sin sobs : Json) : Option String × String :=
  let evs := libTrace sobs
  if (sobs.getObjVal? "hang").toOption.isSome then (some "the call did not return within the watchdog time", "") else
  match (sobs.getObjVal? "panic").toOption with
  | none => (none, "")
  | some msg =>
    -- an application that hands the library a nil value where its interface promises one is not hostile *input*
    let nilFromApp := evs.any fun e => (e.name == "get" || e.name == "actorForInbox" || e.name == "actorForOutbox" || e.name == "outboxForInbox" || e.name == "newID")
      && e.resp == Json.mkObj [("ok", Json.null)]
    if nilFromApp then (none, "app-nil") else
    if jstr sin "entry" == "getInbox" && jstr sin "kind" == "social" then
      (some s!"GetInbox on a social-only actor panics: {msg.compress}", "C11-getinbox-social-only")
    else (some s!"panic: {msg.compress}", "")

def c11 (inp obs : Json) : Res :=
  if jstr inp "k" == "decode" then
    let res := jstr obs "res"
    if res == "panic" || res == "hang" then
      { agree := true, specOk := false, why := s!"streams.ToType/Serialize {res} on {jstr inp "mut"}: {jstr obs "msg"}" }
    else { agree := true, specOk := true, nontrivial := res == "ok" || res == "err" }
  else
  -- a mutated value that cannot even be built cannot be handed to Send: nothing was run
  if (stepsOf obs).any (fun (_, o) => (o.getObjVal? "setupError").toOption.isSome) then { agree := true, specOk := true, nontrivial := false } else
  let (agree0, why, inconclusive0) := replayAll inp obs
  -- a JSON null inside a property is kept by the Go value as an element of unknown kind but vanishes from its
  -- serialisation, which is all the model sees: such cases are checked for crashes only
  let nullMut := match jget inp "mutations" with
    | .arr ms => ms.any fun m => let t := m.getStr?.toOption.getD ""; (t.splitOn ":null@").length > 1 || (t.splitOn ":arrayMixed@").length > 1
    | _ => false
  -- the social Update re-decodes the merged member map; the model assumes that re-decoding is the identity, which
  -- hostile members (an object where a string belongs) break: C01's business, crash-checked only here
  let updMerge := (why.splitOn "model calls update").length > 1 && (why.splitOn "next call is update").length > 1
  let agree := agree0 || nullMut || updMerge
  let inconclusive := inconclusive0 || ((nullMut || updMerge) && !agree0)
  let results := (stepsOf obs).map fun (sin, sobs) => c11Step sin sobs
  match results.filter fun r => r.1.isSome with
  | [] => { agree := agree, specOk := true, why := why, nontrivial := !inconclusive }
  | (msg, cls) :: _ => { agree := agree, specOk := false, why := msg.getD "" ++ (if agree then "" else " | " ++ why), known := cls }

/-! #### C04 / C16 -/

def jOk (e : RecEv) : Bool := !isErr e.resp
def evArgJ (e : RecEv) (i : Nat := 0) : J := J.norm (toJ (e.args.getD i Json.null))
def evArgS (e : RecEv) (i : Nat := 0) : String := (e.args.getD i Json.null).getStr?.toOption.getD ""
def itemsOf (c : J) : List J := ((Val.rawList c "items").getD []) ++ ((Val.rawList c "orderedItems").getD [])

/-- the events of the default-callback phase of an inbox POST: after the callbacks were fetched, before forwarding -/
def cbPhase (evs : List RecEv) (cfgName : String) : List RecEv :=
  ((evs.dropWhile fun e => e.name != cfgName).drop 1).takeWhile fun e => e.name != "exists" && e.name != "getOutbox"

def c04Step (sin sobs : Json) : Option String :=
  let evs := libTrace sobs
  if jstr sin "entry" != "postInbox" then none else
  if (sobs.getObjVal? "panic").toOption.isSome then none else
  let body := jget sin "body"
  if jstr body "k" != "val" then none else
  let v := J.norm (toJ (jget body "v"))
  let ty := Val.typeName v
  match evs.find? fun e => e.name == "fedCallbacks" with
  | none => none
  | some cfgEv =>
  if isErr cfgEv.resp then none else
  let cb := jget cfgEv.resp "ok"
  let other := jIris (jget cb "other")
  let wrapped := jIris (jget cb "wrapped")
  let onFollow := jnat cb "onFollow"
  -- the callback phase: for the inbox, everything after FederatingCallbacks up to the forwarding stage's Exists;
  -- but the automatic Follow response calls GetOutbox (through Deliver) — cut only at Exists there
  let phase0 := ((evs.dropWhile fun e => e.name != "fedCallbacks").drop 1).takeWhile fun e => e.name != "exists"
  -- the forwarding stage locks the activity id before its Exists check: that Lock is not the callback's
  let vid := Val.idGet v
  let cut := phase0.findIdx fun e => e.name == "lock" && evArgS e == vid
  -- (the default callbacks never lock the activity's own id — Like/Announce lock the objects' ids — unless it names itself)
  let phase := if cut < phase0.length && !(phase0.drop (cut + 1)).any (fun e => e.name != "unlock" && e.name != "exists") then phase0.take cut else phase0
  let writes := phase.filter fun e => e.name == "create" || e.name == "update" || e.name == "delete"
  let faulty := phase.any fun e => isErr e.resp
  if other.contains ty then
    -- `other` replaces the default effect entirely
    (if phase.any (fun e => e.name != "otherCb") then some s!"an application function for {ty} was supplied as 'other', yet the library also did {(phase.find? fun e => e.name != "otherCb").map (·.name)}" else none)
  else if !fedDefaultsD.contains ty then none else
  -- the monitor of theorem `fedCb_order`, on the implementation's own trace: the wrapped callback only after success,
  -- once, last
  match monRun AV.cbOrderMon {} phase with
  | .error (k, what) => some s!"event {k} ({what}): the wrapped application callback ran after a failed step of the default effect, twice, or was followed by further library calls"
  | .ok _ =>
  -- a wrapped callback is the last thing of the phase
  let appIdx := phase.findIdx fun e => e.name == "appCb"
  if appIdx + 1 < phase.length then some "a library call follows the wrapped application callback" else
  if phase.any (fun e => e.name == "appCb") && !wrapped.contains ty then some "a wrapped callback ran that the application did not register" else
  -- … and it runs only after the default effect succeeded (unreachable recipients are skipped, not failures)
  let errIdx := phase.findIdx fun e => isErr e.resp && e.name != "deref" && e.name != "unlock"
  if errIdx < phase.length && appIdx < phase.length && errIdx < appIdx then some s!"the wrapped callback ran although {(phase.getD errIdx default).name} of the default effect had failed" else
  if errIdx < phase.length && (phase.getD errIdx default).name != "appCb" && jstr sobs "err" == "nil" && (evs.any fun e => e.name == "writeHeader" && (e.args.getD 0 Json.null).getNat?.toOption == some 200)
    then some s!"the request was answered 200 although {(phase.getD errIdx default).name} of the default effect had failed" else
  -- ownership-decided side effects
  let ownBad : Option String :=
    if ["Add", "Remove", "Like", "Announce"].contains ty then
      (match monRun AV.Spec.Own.ownMon false phase with
       | .error (k, what) => some s!"event {k} ({what}): a stored value was written although Owns did not just say yes"
       | .ok _ => none)
    else none
  match ownBad with
  | some m => some m
  | none =>
  if faulty then none else
  let succeeded := (jstr sobs "err") == "nil" && evs.any fun e => e.name == "writeHeader" && (e.args.getD 0 Json.null).getNat?.toOption == some 200
  -- the wrapped application callback of this type runs whenever the default effect went through
  if succeeded && wrapped.contains ty && !(phase.any fun e => e.name == "appCb") then
    some s!"the request succeeded but the wrapped {ty} callback the application registered was not run" else
  if (ty == "Add" || ty == "Remove") && succeeded then
    -- every target is looked at: Owns is asked about each of them, in order
    let targets := match Val.prop facts v "target" with
      | some xs => (match Val.idsOf facts xs with | .ok ids => ids | .error _ => [])
      | none => []
    let asked := (phase.filter fun e => e.name == "owns").map fun e => evArgS e
    if asked != targets then some s!"{ty}: Owns was asked about {asked}, the targets are {targets}" else none
  else
  if ty == "Like" || ty == "Announce" then
    -- each update = the value Get returned, with the activity id at the front of likes / shares
    let p := if ty == "Like" then "likes" else "shares"
    let gets := phase.filter fun e => e.name == "get"
    let bad := (phase.filter fun e => e.name == "update").find? fun u =>
      let nv := evArgJ u
      !(gets.any fun g =>
        let old := J.norm (toJ (jget g.resp "ok"))
        Val.idGet old == Val.idGet nv &&
        (match nv.get? p with
         | some col => (match itemsOf col with
            | first :: rest => first == J.str (Val.idGet v) &&
                rest == (match old.get? p with | some oc => (match Val.elemOf facts oc with | .emb c => itemsOf c | _ => []) | none => []) &&
                (nv.erase p) == (old.erase p)
            | [] => false)
         | none => false))
    bad.map fun u => s!"{ty}: the value written for {Val.idGet (evArgJ u)} is not the stored one with the activity id at the front of {p}"
  else if ty == "Create" then
    -- what is stored is exactly the activity's objects, in order: embedded ones as given, those given by IRI as fetched
    if !succeeded then none else
    let objs := (Val.prop facts v "object").getD []
    let want : List (Option J) := objs.map fun j => match Val.elemOf facts j with
      | .emb t => some (J.norm t)
      | .iri u => phase.findSome? fun e => if e.name == "deref" && evArgS e == u then
          (match eDoc e.resp with | some (.ok (.val d)) => some d | _ => none) else none
      | .other _ => none
    let got := (phase.filter fun e => e.name == "create").map fun e => some (evArgJ e)
    if want.all (·.isSome) && got != want then
      some s!"Create: the values stored {got.map fun o => o.map Val.idGet} are not exactly the activity's objects (embedded as given, by IRI as fetched), in order"
    else none
  else if ty == "Follow" then
    let me := (phase.find? fun e => e.name == "actorForInbox").bind fun e => (jget e.resp "ok").getStr?.toOption
    let objIds := match Val.prop facts v "object" with
      | some xs => (match Val.idsOf facts xs with | .ok ids => ids | .error _ => [])
      | none => []
    let isMe := match me with | some m => objIds.contains m | none => false
    let delivered := phase.filter fun e => e.name == "batchDeliver"
    let followersUpd := phase.filter fun e => e.name == "update"
    if onFollow == 0 || !isMe then
      (if !delivered.isEmpty || !writes.isEmpty then some "a Follow that is not answered automatically sent or changed something" else none)
    else if !succeeded then none
    else
      let wantTy := if onFollow == 1 then "Accept" else "Reject"
      let followActors := match Val.prop facts v "actor" with
        | some xs => (match Val.idsOf facts xs with | .ok ids => ids | .error _ => [])
        | none => []
      match delivered with
      | [d] =>
        let resp := evArgJ d
        if Val.typeName resp != wantTy then some s!"the automatic answer to the Follow is a {Val.typeName resp}, not a {wantTy}"
        else if idSet resp "actor" != me.map (fun m => [m]) then some "the automatic answer is not from the followed actor"
        else if idSet resp "to" != some (sortDedup followActors) then some "the automatic answer is not addressed to the following actors"
        else if (match Val.prop facts resp "object" with | some [o] => Val.idGet (J.norm o) != Val.idGet v | _ => true) then some "the automatic answer does not carry the Follow as its object"
        else if !(phase.any fun e => e.name == "newID") then some "the automatic answer was not freshly identified"
        else if onFollow == 1 then
          (match followersUpd, phase.find? (fun e => e.name == "followers") with
           | [u], some f =>
             let old := itemsOf (J.norm (toJ (jget f.resp "ok")))
             let nw := itemsOf (evArgJ u)
             if nw == (followActors.reverse.map J.str) ++ old then none else some "auto-accept did not put exactly the following actors in front of the followers collection"
           | _, _ => some "auto-accept did not update the followers collection exactly once")
        else (if !followersUpd.isEmpty then some "auto-reject changed a stored collection" else none)
      | ds => some s!"the automatic answer was delivered {ds.length} times"
  else if ty == "Accept" then
    -- following changes only for a verified Accept (a stored Follow of this actor naming every accepting actor) …
    match monRun (AV.Spec.C06.acceptMon facts v) {} phase with
    | .error (i, what) => some s!"event {i} ({what}): an Accept that is not verified (a stored Follow of this actor naming every accepting actor) changed the following collection"
    | .ok _ =>
      if !succeeded then none else
      let acceptActors := match Val.prop facts v "actor" with
        | some xs => (match Val.idsOf facts xs with | .ok ids => ids | .error _ => [])
        | none => []
      -- … and then gains exactly the accepting actors, at the front
      match phase.filter (fun e => e.name == "update"), phase.find? (fun e => e.name == "following") with
      | [], _ => none
      | [u], some f =>
        let old := itemsOf (J.norm (toJ (jget f.resp "ok")))
        if itemsOf (evArgJ u) == (acceptActors.reverse.map J.str) ++ old then none
        else some "a verified Accept did not put exactly its actors in front of the following collection"
      | _, _ => some "an Accept updated more than the following collection once"
  else none
where fedDefaultsD : List String := ["Create", "Update", "Delete", "Follow", "Accept", "Reject", "Add", "Remove", "Like", "Announce", "Undo", "Block"]

def c04 (inp obs : Json) : Res :=
  let (agree, why, inconclusive) := replayAll inp obs
  match checkSteps obs c04Step with
  | none => { agree := agree, specOk := true, why := why,
              nontrivial := !inconclusive && (stepsOf obs).any fun (_, o) => (libTrace o).any fun e => e.name == "fedCallbacks" }
  | some m => { agree := agree, specOk := false, why := m ++ (if agree then "" else " | " ++ why) }

/-- C16: is member `k` given as JSON null in the raw object? -/
def rawNull (rawObj : Json) (k : String) : Bool :=
  match (rawObj.getObjVal? k).toOption with
  | some .null => true
  | _ => false

def c16Step (sin sobs : Json) : Option String :=
  let evs := libTrace sobs
  let entry := jstr sin "entry"
  if !(entry == "postOutbox" || entry == "send") then none else
  if (sobs.getObjVal? "panic").toOption.isSome then none else
  let input : J := J.norm (if entry == "send" then toJ (jget sin "value") else toJ (jget (jget sin "body") "v"))
  let rawIn : Json := if entry == "send" then jget sin "value" else jget (jget sin "body") "raw"
  let ty := Val.typeName input
  if !["Update", "Delete", "Add", "Remove", "Like", "Block"].contains ty then none else
  match evs.find? fun e => e.name == "socialCallbacks" with
  | none => none
  | some cfgEv =>
  if isErr cfgEv.resp then none else
  let other := jIris (jget (jget cfgEv.resp "ok") "other")
  if other.contains ty then none else
  -- the side-effect phase ends where addToOutbox starts: Lock(new activity id), Create(activity)
  let newId := (evs.findSome? fun e => if e.name == "newID" then (jget e.resp "ok").getStr?.toOption else none).getD ""
  let phase := ((evs.dropWhile fun e => e.name != "socialCallbacks").drop 1).takeWhile fun e =>
    !((e.name == "lock" && evArgS e == newId) || e.name == "getOutbox")
  let faulty := evs.any fun e => isErr e.resp
  let empty (p : String) : Bool := match Val.prop facts input p with | none => true | some [] => true | _ => false
  let missing := empty "object" || ((ty == "Add" || ty == "Remove") && empty "target")
  if missing then
    (if evs.any (fun e => e.name == "create" || e.name == "update" || e.name == "delete" || e.name == "setOutbox" || e.name == "batchDeliver")
      then some s!"{ty} without its required object/target changed or sent something"
     else if entry == "postOutbox" && !faulty && !(evs.any fun e => e.name == "writeHeader" && (e.args.getD 0 Json.null).getNat?.toOption == some 400)
      then some s!"{ty} without its required object/target was not answered 400" else none)
  else
  if ty == "Block" then
    (if evs.any (fun e => e.name == "batchDeliver") then some "a Block was handed to the transport" else none)
  else if ty == "Add" || ty == "Remove" then
    (match monRun AV.Spec.Own.ownMon false phase with
     | .error (k, what) => some s!"event {k} ({what}): a target collection was written although Owns did not just say yes"
     | .ok _ =>
       if faulty then none else
       let opIds := match Val.prop facts input "object" with
         | some xs => (match Val.idsOf facts xs with | .ok ids => ids | .error _ => [])
         | none => []
       let gets := phase.filter fun e => e.name == "get"
       let bad := (phase.filter fun e => e.name == "update").find? fun u =>
         let nv := evArgJ u
         !(gets.any fun g =>
           let old := J.norm (toJ (jget g.resp "ok"))
           Val.idGet old == Val.idGet nv &&
           (let key := if facts.isOrExt "OrderedCollection" (Val.typeName old) then "orderedItems" else "items"
            let oldItems := (Val.rawList old key).getD []
            let newItems := (Val.rawList nv key).getD []
            if ty == "Add" then newItems == oldItems ++ opIds.map J.str
            else newItems == oldItems.filter fun j => match Val.toId facts (Val.elemOf facts j) with | .ok id => !opIds.contains id | .error _ => true))
       let updates := phase.filter fun e => e.name == "update"
       -- every owned target that was loaded and is a collection (pages included) is written back
       let skipped := gets.find? fun g =>
         let old := J.norm (toJ (jget g.resp "ok"))
         let isCol := facts.isOrExt "OrderedCollection" (Val.typeName old) || facts.isOrExt "Collection" (Val.typeName old)
         let key := if facts.isOrExt "OrderedCollection" (Val.typeName old) then "orderedItems" else "items"
         let itemsOk := ((Val.rawList old key).getD []).all fun j => match Val.toId facts (Val.elemOf facts j) with | .ok id => id != nilIri | .error _ => false
         !isErr g.resp && isCol && (ty == "Add" || itemsOk) && !opIds.isEmpty && !opIds.contains nilIri &&
           !(updates.any fun u => Val.idGet (evArgJ u) == Val.idGet old)
       match bad with
       | some u => some s!"{ty}: the collection written for {Val.idGet (evArgJ u)} is not the stored one with exactly the object ids {if ty == "Add" then "appended" else "removed"}"
       | none => skipped.map fun g => s!"{ty}: the owned target {Val.idGet (J.norm (toJ (jget g.resp "ok")))} was loaded but never written back")
  else if faulty then none
  else if !(jstr sobs "err" == "nil" && (entry == "send" || evs.any fun e => e.name == "writeHeader" && (e.args.getD 0 Json.null).getNat?.toOption == some 201)) then none
  else if ty == "Like" then
    let opIds := match Val.prop facts input "object" with
      | some xs => (match Val.idsOf facts xs with | .ok ids => ids | .error _ => [])
      | none => []
    (match phase.find? (fun e => e.name == "liked"), phase.filter (fun e => e.name == "update") with
     | some l, [u] =>
       let old := itemsOf (J.norm (toJ (jget l.resp "ok")))
       if itemsOf (evArgJ u) == (opIds.reverse.map J.str) ++ old then none else some "Like did not put exactly the object ids at the front of the actor's liked collection"
     | some _, us => if us.isEmpty then none else some "Like updated more than the liked collection"
     | none, _ => none)
  else if ty == "Delete" then
    let gets := phase.filter fun e => e.name == "get"
    let nowEv := phase.find? fun e => e.name == "now"
    let bad := (phase.filter fun e => e.name == "update").find? fun u =>
      let t := evArgJ u
      !(gets.any fun g =>
        let old := J.norm (toJ (jget g.resp "ok"))
        Val.idGet old == Val.idGet t && Val.typeName t == "Tombstone" &&
        t.get? "formerType" == some (J.str (Val.typeName old)) &&
        t.get? "published" == old.get? "published" && t.get? "updated" == old.get? "updated" &&
        (match nowEv, t.get? "deleted" with
         | some ne, some (J.str d) => (match ne.resp with
            | .arr xs => d == Time.rfc3339 ((xs.getD 0 Json.null).getInt?.toOption.getD 0) ((xs.getD 1 Json.null).getInt?.toOption.getD 0)
            | _ => false)
         | _, _ => false))
    bad.map fun u => s!"Delete: what replaced {Val.idGet (evArgJ u)} is not a Tombstone with its id, former type, original times and deleted = now"
  else -- Update
    let objs := ((Val.prop facts input "object").getD [])
    let rawObjs : List Json := match jget rawIn "object" with
      | .arr xs => xs.toList
      | o => [o]
    let gets := phase.filter fun e => e.name == "get"
    let upds := phase.filter fun e => e.name == "update"
    let bad := (objs.zip rawObjs).zipIdx.find? fun ((sup, rawObj), i) =>
      match upds[i]?, gets[i]? with
      | some u, some g =>
        let nv := evArgJ u
        let old := J.norm (toJ (jget g.resp "ok"))
        let sup := J.norm sup
        let keys := sortDedup (old.keys ++ sup.keys)
        -- hostile members that change under re-decoding (C01) are not this property's business: only compare well-behaved members
        keys.any fun k =>
          let expect := if rawNull rawObj k then none else (match sup.get? k with | some x => some x | none => old.get? k)
          nv.get? k != expect && !(k == "@context")
      | _, _ => true
    bad.map fun ((sup, _), i) => s!"Update: object {i} ({Val.idGet (J.norm sup)}) was not written back as 'stored members, overwritten by the supplied ones, minus those given as null'"

def c16 (inp obs : Json) : Res :=
  let (agree, why, inconclusive) := replayAll inp obs
  match checkSteps obs c16Step with
  | none => { agree := agree, specOk := true, why := why,
              nontrivial := !inconclusive && (stepsOf obs).any fun (_, o) => (libTrace o).any fun e => e.name == "socialCallbacks" }
  | some m => { agree := agree, specOk := false, why := m ++ (if agree then "" else " | " ++ why) }

def pubGeneric (_prop : String) (inp obs : Json) : Res :=
  let (agree, why, inconclusive) := replayAll inp obs
  { agree := agree, specOk := true, why := why, nontrivial := !inconclusive }

end Drv
