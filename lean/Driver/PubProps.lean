import Driver.Pub
open Lean AV AV.Pub

namespace Drv

def stepsOf (obs : Json) : List (Json × Json) :=
  match jget obs "steps" with
  | .arr xs => xs.toList.map fun s => (jget s "in", jget s "obs")
  | _ => []

/-- model ↔ implementation agreement over all steps of a scenario -/
def replayAll (obs : Json) (strict : Bool) : Bool × String :=
  (stepsOf obs).zipIdx.foldl (fun (acc : Bool × String) ((sin, sobs), i) =>
    if !acc.1 then acc else
    if (sobs.getObjVal? "setupError").toOption.isSome then (false, s!"step {i}: harness setup error {(jget sobs "setupError").compress}") else
    let (out, outcomeOk, why) := replayStep sin sobs strict
    if !out.ok then (false, s!"step {i}: {out.why}")
    else if !outcomeOk then (false, s!"step {i}: {why}")
    else acc) (true, "")

def pubGeneric (_prop : String) (inp obs : Json) : Res :=
  let strict := !(jbool inp "unordered")
  let (agree, why) := replayAll obs strict
  { agree := agree, specOk := true, why := why }

end Drv
