import Lean.Data.Json
open Lean

namespace Drv

def jstr (j : Json) (k : String) : String := (j.getObjValAs? String k).toOption.getD ""
def jbool (j : Json) (k : String) : Bool := (j.getObjValAs? Bool k).toOption.getD false
def jnat (j : Json) (k : String) : Nat := (j.getObjValAs? Nat k).toOption.getD 0
def jget (j : Json) (k : String) : Json := (j.getObjVal? k).toOption.getD Json.null

/-- Result of one case. -/
structure Res where
  agree  : Bool            -- model = implementation on this case
  specOk : Bool            -- implementation's behaviour satisfies the spec monitor
  model  : Json := Json.null
  spec   : Json := Json.null
  why    : String := ""
  known  : String := ""    -- known-finding class the case falls in ("" = none)
  nontrivial : Bool := true

def Res.toJson (r : Res) (case : Nat) : Json :=
  Json.mkObj [("case", case), ("agree", r.agree), ("specOk", r.specOk), ("model", r.model),
    ("spec", r.spec), ("why", r.why), ("known", r.known), ("nontrivial", r.nontrivial)]

end Drv
