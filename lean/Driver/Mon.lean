import Driver.Pub
import AV.Spec.Monitors
open Lean AV AV.Pub

namespace Drv

/-- recorded events as typed events (events the library did not make — e.g. the application writing a
status from its Authenticate hook — are not `Call`s and are skipped) -/
def typedTrace (evs : List RecEv) : List (Option Ev) :=
  evs.map fun ev =>
    match decCall ev.name ev.args with
    | none => none
    | some c => match parseResp c ev.resp with
      | none => none
      | some r => some ⟨c, r⟩

/-- run a monitor over a recorded trace: final state, or the index and name of the event it rejects -/
def monRun (M : Mon) (s0 : M.S) (evs : List RecEv) : Except (Nat × String) M.S :=
  let rec go (s : M.S) (i : Nat) : List RecEv → Except (Nat × String) M.S
    | [] => .ok s
    | ev :: rest =>
      match decCall ev.name ev.args with
      | none => go s (i + 1) rest
      | some c => match parseResp c ev.resp with
        | none => go s (i + 1) rest
        | some r => match M.step s c r with
          | none => .error (i, s!"{ev.name} {showArgs ev.args}")
          | some s' => go s' (i + 1) rest
  go s0 0 evs

def libTrace (obs : Json) : List RecEv :=
  (parseTrace (jget obs "trace")).filter fun ev => !ev.name.startsWith "app:"

end Drv
