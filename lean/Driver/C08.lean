import Driver.Util
import AV.Spec.C08
open Lean

namespace Drv

def c08 (_inp obs : Json) : Res :=
  if jbool obs "hang" then { agree := false, specOk := false, why := "the concurrent requests did not all complete (blocked forever or livelock)" } else
  if (match jget obs "leaked" with | .arr xs => !xs.isEmpty | _ => false) then
    { agree := false, specOk := false, why := s!"a request finished while still holding {(jget obs "leaked").compress}: the next request that needs it never completes" } else
  if jbool obs "deadlock" then { agree := false, specOk := false, why := "deadlock: every unfinished request waits for a lock another one holds" } else
  let seq := jget obs "seq"
  let con := jget obs "con"
  let keysOf (j : Json) : List String := match j with | .obj kvs => kvs.foldl (fun acc k _ => acc ++ [k]) [] | _ => []
  let keys := keysOf seq
  let keys' := keysOf con
  let all := (keys ++ keys'.filter fun k => !keys.contains k)
  match all.find? fun k => jget seq k != jget con k with
  | some k => { agree := false, specOk := false,
                why := s!"{k}: concurrently {(jget con k).compress}, one after another {(jget seq k).compress} — an update was lost or applied twice" }
  | none =>
    if jget obs "conCb" != jget obs "seqCb" then
      { agree := false, specOk := false, why := s!"application callbacks ran {(jget obs "conCb").compress} concurrently, {(jget obs "seqCb").compress} sequentially" }
    else if jget obs "conFwd" != jget obs "seqFwd" then
      { agree := false, specOk := false, why := s!"deliveries {(jget obs "conFwd").compress} concurrently, {(jget obs "seqFwd").compress} sequentially" }
    else { agree := true, specOk := true, nontrivial := jnat obs "steps" > 10 }

end Drv
