import Driver.Util
import Driver.Conv
import AV.Spec.C14
import AV.Gen.Impl
import AV.Gen.Ontology
open Lean AV

namespace Drv

def strList (j : Json) (k : String) : List String :=
  match (j.getObjVal? k).toOption with
  | some (.arr xs) => xs.toList.map fun x => x.getStr?.toOption.getD ""
  | _ => []

def ifaceOfName (n : String) : String :=
  match Gen.impl.ifaces.find? (fun (_, _, m) => m == n) with
  | some (i, _, _) => i
  | none => "?" ++ n

def valueOfName (n : String) : Value :=
  match Gen.impl.ifaces.find? (fun (_, _, m) => m == n) with
  | some (i, v, _) => ⟨v, n, i⟩
  | none => ⟨"?", n, "?"⟩

def errOfRet (r : String) : String :=
  match r with
  | "E" => "E" | "NCM" => "NoCallbackMatch" | "UT" => "UnhandledType" | _ => "nil"

def rresErr : RRes → String
  | .noCallbackMatch => "NoCallbackMatch" | .unhandledType => "UnhandledType"
  | .predUnmatched => "PredicateUnmatched" | .cannotAssert => "other" | .otherErr => "other"
  | .invoked _ => "nil"

def isUnm (e : String) : Bool := e == "NoCallbackMatch" || e == "UnhandledType" || e == "PredicateUnmatched"

def mkObs (ctorErr : Bool) (invoked : List Nat) (err : String) (extra : List (String × Json) := []) : Json :=
  Json.mkObj ([("ctorErr", Json.bool ctorErr), ("invoked", Json.arr (invoked.map fun (n : Nat) => (n : Json)).toArray),
    ("err", Json.str err), ("unmatched", Json.bool (isUnm err))] ++ extra)

/-- outcome of resolving with a type resolver, given each callback's return class -/
def typeOutcome (r : RRes) (rets : List String) : List Nat × String :=
  match r with
  | .invoked i => ([i], errOfRet (rets.getD i "nil"))
  | r => ([], rresErr r)

/-- JSON resolver with callback return values: array entries are tried in order; a nil result ends,
ErrUnhandledType (from the chain or from the callback) continues, anything else is returned. -/
def jsonOutcome (handle : String → RRes) (rets : List String) (ty : J) : List Nat × String :=
  match ty with
  | .str s => typeOutcome (handle s) rets
  | .arr xs =>
    let rec go (xs : List J) (log : List Nat) : List Nat × String :=
      match xs with
      | [] => (log, "UnhandledType")
      | .str s :: rest =>
        let (l, e) := typeOutcome (handle s) rets
        if e == "nil" then (log ++ l, "nil")
        else if e == "UnhandledType" then go rest (log ++ l)
        else (log ++ l, e)
      | _ :: rest => go rest log
    go xs []
  | _ => ([], "UnhandledType")

def c14 (inp obs : Json) : Res :=
  let kind := jstr inp "resolver"
  let cbNames := strList inp "cbs"
  let rets := strList inp "ret"
  let cbIfaces := cbNames.map ifaceOfName
  let hasWrong := (inp.getObjVal? "wrong").toOption.isSome || (inp.getObjVal? "predWrong").toOption.isSome
  if hasWrong then
    -- a constructor argument outside the legal signature list must be rejected
    let m := Json.mkObj [("ctorErr", true), ("invoked", Json.arr #[]), ("err", "nil"), ("unmatched", false)]
    { agree := obs == m, specOk := obs == m, model := m, spec := m }
  else
  match kind with
  | "type" =>
    let vn := jstr inp "value"
    let v := valueOfName vn
    let (mi, me) := typeOutcome (typeResolve Gen.impl.typeChain cbIfaces v) rets
    let model := mkObs false mi me
    -- spec on type names: first callback written for the value's own type
    let (si, se) := match cbNames.findIdx? (· == vn) with
      | some i => ([i], errOfRet (rets.getD i "nil"))
      | none => ([], "NoCallbackMatch")
    let spec := mkObs false si se
    let specOk := (jget obs "invoked") == (jget spec "invoked") && jbool obs "ctorErr" == false &&
      (if si.isEmpty then jbool obs "unmatched" else jstr obs "err" == se)
    { agree := obs == model, specOk := specOk, model := model, spec := spec, nontrivial := cbNames.contains vn }
  | "pred" =>
    let vn := jstr inp "value"
    let v := valueOfName vn
    let pn := jstr inp "pred"
    let pass := jbool inp "pass"
    let pret := errOfRet (jstr inp "predRet")
    let run (predOk : Bool) (deleg : List Nat × String) : List Nat × String × Bool × Nat :=
      if !predOk then ([], "PredicateUnmatched", false, 0)
      else if pret != "nil" then ([], pret, pass, 1)
      else if pass then (deleg.1, deleg.2, true, 1)
      else ([], "nil", false, 1)
    let mPredOk := match predApply Gen.impl.predChain (ifaceOfName pn) v with | .predicate => true | _ => false
    let (mi, me, ma, mc) := run mPredOk (typeOutcome (typeResolve Gen.impl.typeChain cbIfaces v) rets)
    let model := mkObs false mi me [("applied", ma), ("predCalled", mc)]
    let sDeleg := match cbNames.findIdx? (· == vn) with
      | some i => ([i], errOfRet (rets.getD i "nil"))
      | none => ([], "NoCallbackMatch")
    let (si, se, sa, sc) := run (pn == vn) sDeleg
    let spec := mkObs false si se [("applied", sa), ("predCalled", sc)]
    { agree := obs == model, specOk := obs == spec, model := model, spec := spec, nontrivial := pn == vn }
  | "json" | "totype" =>
    let doc := toJ (jget inp "doc")
    match doc.get? "type", doc.get? "@context" with
    | some ty, some ctx =>
      let am := aliasMap ctx
      let handleM := fun s => (jsonHandle Gen.impl am cbIfaces s).1
      let (mi, me) := jsonOutcome handleM rets ty
      let model := mkObs false mi me
      -- spec: type names come from the ontology, prefixes from the declared vocabularies
      let handleS := fun (s : String) =>
        let hit := Gen.ontology.types.find? fun t =>
          match Gen.impl.jsonAlias.find? (fun (_, u1, u2) => u1 == t.vocab || u2 == t.vocab || u1 ++ "#" == t.vocab || u2 ++ "#" == t.vocab) with
          | some (_, u1, u2) => s == aliasPrefix am (u1, u2) ++ t.name
          | none => false
        match hit with
        | none => RRes.unhandledType
        | some t => match cbNames.findIdx? (· == t.name) with
          | some i => .invoked i
          | none => .noCallbackMatch
      let (si, se) := jsonOutcome handleS rets ty
      let spec := mkObs false si se
      let specOk := (jget obs "invoked") == (jget spec "invoked") && jbool obs "ctorErr" == false &&
        (if isUnm se then jbool obs "unmatched" else jstr obs "err" == se)
      { agree := obs == model, specOk := specOk, model := model, spec := spec, nontrivial := !si.isEmpty }
    | _, _ =>
      let m := mkObs false [] "other"
      { agree := obs == m, specOk := obs == m, model := m, spec := m, nontrivial := false }
  | _ => { agree := false, specOk := false, why := "unknown resolver kind" }

end Drv
