import Driver.Util
import Driver.Conv
import AV.Spec.C12
import AV.Streams.Decode
import AV.Gen.Impl
import AV.Gen.Ontology
open Lean AV

namespace Drv

def natOf (j : Json) (k : String) : Nat := (j.getObjValAs? Nat k).toOption.getD 0
def intOf (j : Json) (k : String) : Int := (j.getObjValAs? Int k).toOption.getD 0

def oProp? (n : String) : Option OProp := Gen.ontology.props.find? (·.name == n)

/-- ontology-level facts about a property, with the two JSON-LD built-ins filled in -/
def specFunctional (p : String) : Bool :=
  match oProp? p with | some op => op.functional | none => p == "id"
def specNatLang (p : String) : Bool :=
  match oProp? p with | some op => op.range.contains "rdf:langString" | none => false
def specKindTypes (p : String) : List String :=
  match oProp? p with | some op => Gen.ontology.kindTypes op | none => []
def specKindLits (p : String) : List String :=
  match oProp? p with
  | some op => Gen.ontology.kindLits op
  | none => if p == "id" then ["xsd:anyURI"] else if p == "type" then ["xsd:anyURI", "xsd:string"] else []

def c12 (inp obs : Json) : Res :=
  match jstr inp "k" with
  | "tp" =>
    let T := jstr inp "type"; let P := jstr inp "prop"; let key := jstr inp "key"
    let isArr := match jget inp "value" with | .arr _ => true | _ => false
    match Gen.impl.findType T, Gen.impl.findProp P, Gen.ontology.findType T with
    | some it, some ip, some ot =>
      let has := it.props.contains P
      let readKeys := if has then (if ip.natLang then [P, P ++ "Map"] else [P]) else []
      let mWhere := if readKeys.contains key then "accessor" else if !it.knownKeys.contains key then "unknown" else "lost"
      let mk (wh : String) (has fn : Bool) : Json :=
        if wh == "accessor" then
          Json.mkObj [("where", wh), ("hasAccessor", has), ("isList", !fn), ("len", if !fn && isArr then (2 : Nat) else (1 : Nat))]
        else Json.mkObj [("where", wh), ("hasAccessor", has)]
      let model := mk mWhere has ip.functional
      let sHas := (Gen.ontology.expectedProps ot).contains P
      let sWhere := if sHas && (key == P || (key == P ++ "Map" && specNatLang P)) then "accessor" else "unknown"
      let spec := mk sWhere sHas (specFunctional P)
      { agree := obs == model, specOk := obs == spec, model := model, spec := spec, nontrivial := sHas }
    | _, _, _ => { agree := false, specOk := false, why := "type or property missing from tables" }
  | "pk" =>
    let P := jstr inp "prop"
    let v := toJ (jget inp "value")
    match Gen.impl.findProp P with
    | none => { agree := false, specOk := false, why := "property missing from Impl" }
    | some ip =>
      let m := (landing Gen.impl ip.plan v).label
      let model := Json.mkObj [("landed", m)]
      let o := jstr obs "landed"
      -- spec: which declared kinds accept the probe
      let kt := specKindTypes P
      let kl := specKindLits P
      let tyCands := kt.filter fun k => typeAccepts Gen.impl k v   -- uses only: typeless flag + the probe's type member
      let litCands := kl.filter fun k => litAccepts k v
      let iriOk := match v with | .str s => Iri.hasScheme s | _ => false
      let anyAccept := !tyCands.isEmpty || !litCands.isEmpty || iriOk
      let okLabel :=
        if o == "unknown" then !anyAccept
        else if o == "iri" then iriOk
        else if o.startsWith "ty:" then tyCands.contains (o.drop 3).toString
        else if o.startsWith "lit:" then litCands.contains (o.drop 4).toString
        else false
      { agree := obs == model, specOk := okLabel, model := model,
        spec := Json.mkObj [("acceptingTypes", Json.arr (tyCands.map Json.str).toArray), ("acceptingLits", Json.arr (litCands.map Json.str).toArray), ("iri", iriOk)],
        nontrivial := anyAccept }
  | "lit" =>
    let kind := jstr inp "lit"
    let comps := jget inp "comps"
    let mkRes (r : String) (val : String) (extra : List (String × Json) := []) : Json :=
      if r == "ok" then Json.mkObj ([("res", Json.str r), ("val", Json.str val)] ++ extra) else Json.mkObj [("res", r)]
    match kind with
    | "duration" =>
      let text := jstr inp "text"
      let model := match Lit.deserDuration text.toList with
        | .ok ns => mkRes "ok" (toString ns)
        | .err => mkRes "notlit" ""
        | .panic => mkRes "panic" ""
      let malformed := jbool comps "malformed"
      let den := Lit.denoteDuration (jbool comps "neg") (natOf comps "Y") (natOf comps "M") (natOf comps "D") (natOf comps "H") (natOf comps "m") (natOf comps "S")
      let inRange := den.natAbs ≤ Lit.maxInt64
      let spec := mkRes "ok" (toString den)
      -- malformed lexical forms are outside C12 (no denotation); their crash-freedom is C11's business
      let specOk := if malformed then true else if inRange then obs == spec else true
      { agree := obs == model, specOk := specOk, model := model, spec := if malformed then Json.str "no denotation" else spec,
        nontrivial := !malformed && inRange }
    | "dateTime" =>
      let text := jstr inp "text"
      let extraOf (dt : Lit.DT) : List (String × Json) := [("nanos", (dt.nanos : Json)), ("offMin", Json.num ⟨dt.offMin, 0⟩)]
      let model := match Lit.deserDateTime text.toList with
        | .ok dt => mkRes "ok" (toString dt.unix) (extraOf dt)
        | _ => mkRes "notlit" ""
      let y := natOf comps "y"; let mo := natOf comps "mo"; let d := natOf comps "d"
      let valid := d ≤ Lit.daysInMonth y mo
      let sdt : Lit.DT := { unix := Lit.unixOf y mo d (natOf comps "h") (natOf comps "mi") (natOf comps "s") (intOf comps "offMin"), nanos := natOf comps "nanos", offMin := intOf comps "offMin" }
      let spec := if valid then mkRes "ok" (toString sdt.unix) (extraOf sdt) else mkRes "notlit" ""
      let strip (j : Json) : Json := match j with
        | .obj _ => Json.mkObj [("res", jget j "res"), ("val", jget j "val"), ("nanos", jget j "nanos"), ("offMin", jget j "offMin")]
        | j => j
      let o := if jstr obs "res" == "ok" then strip obs else obs
      let m := if jstr model "res" == "ok" then strip model else model
      let s := if jstr spec "res" == "ok" then strip spec else spec
      { agree := o == m, specOk := o == s, model := model, spec := spec, nontrivial := valid }
    | "nonNeg" =>
      let v := toJ (jget inp "text")
      let model := match Lit.deserNonNeg v with
        | .ok n => mkRes "ok" (toString n)
        | _ => mkRes "notlit" ""
      { agree := obs == model, specOk := obs == model, model := model, spec := model }
    | "boolean" =>
      let v := toJ (jget inp "text")
      let model := match Lit.deserBool v with
        | .ok b => mkRes "ok" (toString b)
        | _ => mkRes "notlit" ""
      { agree := obs == model, specOk := obs == model, model := model, spec := model }
    | _ => { agree := false, specOk := false, why := "unknown literal kind" }
  | _ => { agree := false, specOk := false, why := "unknown C12 case kind" }

end Drv
