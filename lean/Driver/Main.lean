import Driver.Util
import Driver.C13
import Driver.C14
import Driver.C12
import Driver.PubProps
import Driver.C18
import Driver.C19
import Driver.C08
import Driver.C01
open Lean

def dispatch (p : String) (inp obs : Json) : Drv.Res :=
  match p with
  | "C13" => Drv.c13 inp obs
  | "C14" => Drv.c14 inp obs
  | "C12" => Drv.c12 inp obs
  | "C01" => Drv.c01 inp obs
  | "C08" => Drv.c08 inp obs
  | "C18" => Drv.c18 inp obs
  | "C19" => Drv.c19 inp obs
  | "PUB" => Drv.pubGeneric p inp obs
  | "C09" => Drv.c09 inp obs
  | "C07" => Drv.c07 inp obs
  | "C10" => Drv.c10 inp obs
  | "C11" => Drv.c11 inp obs
  | "C17" => Drv.c17 inp obs
  | "C20" => Drv.c20 inp obs
  | "C03" => Drv.c03 inp obs
  | "C02" => Drv.c02 inp obs
  | "C04" => Drv.c04 inp obs
  | "C16" => Drv.c16 inp obs
  | "C05" => Drv.c05 inp obs
  | "C06" => Drv.c06 inp obs
  | _ => { agree := false, specOk := false, why := s!"unknown property {p}" }

def handleLine (line : String) : String :=
  match Json.parse line with
  | .error e => (Json.mkObj [("case", (0 : Nat)), ("agree", false), ("specOk", false), ("why", s!"driver: bad json: {e}")]).compress
  | .ok j =>
    let p := Drv.jstr j "p"
    let obs := Drv.jget j "obs"
    let r := dispatch p (Drv.jget j "in") obs
    -- what the application was handed (a payload, a recipient list, the id list of the block check) is its own from then
    -- on: a queueing transport or an audit log reads it later
    let kept : Option String := (Drv.stepsOf obs).findSome? fun (_, o) => match Drv.jget o "keptTrouble" with
      | .arr xs => (xs[0]?).bind fun x => x.getStr?.toOption
      | _ => none
    let r := if ["C02", "C03", "C05", "C06", "C17"].contains p && r.specOk then
        (match kept with
         | some m => { r with specOk := false, why := "what the application was handed changed after the call had returned: " ++ m }
         | none => r)
      else r
    (r.toJson (Drv.jnat j "case")).compress

partial def loop (h : IO.FS.Stream) (out : IO.FS.Stream) : IO Unit := do
  let line ← h.getLine
  if line.isEmpty then return ()
  if line.trimAscii.isEmpty then loop h out else
  out.putStrLn (handleLine line)
  loop h out

def main : IO Unit := do
  let stdin ← IO.getStdin
  let stdout ← IO.getStdout
  loop stdin stdout
  stdout.flush
