import Driver.Util
import Driver.Conv
import AV.Streams.RoundTrip
import AV.Gen.Impl
open Lean AV AV.RoundTrip

namespace Drv

partial def jDepth : J → Nat
  | .arr xs => 1 + (xs.map jDepth).foldl max 0
  | .obj kvs => 1 + (kvs.map fun kv => jDepth kv.2).foldl max 0
  | _ => 0

partial def hasNull : J → Bool
  | .null => true
  | .arr xs => xs.any hasNull
  | .obj kvs => kvs.any fun kv => hasNull kv.2
  | _ => false

partial def hasNestedArr : J → Bool
  | .arr xs => xs.any (fun x => match x with | .arr _ => true | _ => false) || xs.any hasNestedArr
  | .obj kvs => kvs.any fun kv => hasNestedArr kv.2
  | _ => false

/-- members of the input that are absent from the output, at any depth (paths), split into: lost although nothing
excuses it / lost because both spellings of a natural-language member were given -/
partial def droppedAt (path : String) (a b : J) : List String × List String :=
  match a, b with
  | .obj kvs, .obj _ =>
    kvs.foldl (fun (acc : List String × List String) (k, v) =>
      if k == "@context" then acc else
      match b.get? k with
      | some v' => let r := droppedAt (path ++ "/" ++ k) v v'; (acc.1 ++ r.1, acc.2 ++ r.2)
      | none =>
        if v == .null then acc
        else
          let base := if k.endsWith "Map" then (k.dropEnd 3).toString else k
          let other := if k.endsWith "Map" then base else k ++ "Map"
          if (J.obj kvs).has other then (acc.1, acc.2 ++ [path ++ "/" ++ k])   -- both spellings given (one may be null)
          else if b.has other then acc                                                     -- reappears under the other spelling
          else (acc.1 ++ [path ++ "/" ++ k], acc.2)) ([], [])
  | .arr xs, .arr ys =>
    if xs.length != ys.length then ([], []) else
    (xs.zip ys).zipIdx.foldl (fun (acc : List String × List String) ((x, y), i) =>
      let r := droppedAt (path ++ "/" ++ toString i) x y; (acc.1 ++ r.1, acc.2 ++ r.2)) ([], [])
  | _, _ => ([], [])

def ctxList (j : J) : List String :=
  match j.get? "@context" with
  | some (.str s) => [s]
  | some (.arr xs) => xs.filterMap fun x => match x with | .str s => some s | _ => none
  | _ => []

def sortDedupS (xs : List String) : List String :=
  (xs.foldl (fun (acc : List String) x => if acc.contains x then acc else acc ++ [x]) []).toArray.qsort (· < ·) |>.toList

def c01 (inp obs : Json) : Res :=
  if jbool obs "hang" then { agree := false, specOk := false, why := "the round trip did not return" } else
  if (obs.getObjVal? "panic").toOption.isSome then { agree := false, specOk := false, why := s!"the round trip panicked: {jstr obs "panic"}" } else
  let doc := J.norm (toJ (jget inp "doc"))
  let canonical := jbool inp "canonical"
  let body := doc.erase "@context"
  let I := Gen.impl
  match docType I body with
  | none =>
    -- ToType must refuse
    if (obs.getObjVal? "err").toOption.isSome then { agree := true, specOk := true, nontrivial := false }
    else { agree := false, specOk := true, why := "the model finds no known type, the decoder accepted the document" }
  | some k =>
    if (obs.getObjVal? "err").toOption.isSome || (obs.getObjVal? "serr").toOption.isSome then
      { agree := false, specOk := !canonical, why := s!"the decoder refused a document of known type {k}: {jstr obs "err"}{jstr obs "serr"}" }
    else
    let out := J.norm (toJ (jget obs "out"))
    let outBody := out.erase "@context"
    let depth := jDepth body + 1
    let expect := J.norm (rtDoc I depth k body)
    let agreeBody := expect == outBody
    let wantCtx := sortDedupS ((ctx I depth k body).filter fun v => v != "")
    let gotCtx := sortDedupS (ctxList out)
    let agreeCtx := wantCtx == gotCtx
    -- the property, stated on input and output alone
    let exact := outBody == body
    let out2 := J.norm (toJ (jget obs "out2"))
    let stable := (obs.getObjVal? "out2").toOption.isSome && out2.erase "@context" == outBody && sortDedupS (ctxList out2) == gotCtx
    let needStable := !hasNull body && !hasNestedArr body
    -- no member silently dropped: every key of the input is a key of the output, but for nulls, and a
    -- natural-language member may reappear under its other spelling
    let (dropped, bothSpellings) := droppedAt "" body outBody
    -- exactness is claimed for canonical documents; a document giving both spellings of a natural-language member
    -- loses one of them (recorded finding) and is judged on everything else
    let exactOk := exact || !bothSpellings.isEmpty
    -- the hypothesis of theorem `rt_canonical`, evaluated on this document: where it holds the implementation's
    -- output must be the input itself
    let canonThm := canonB I depth k body
    let specBad : Option String :=
      if canonThm && !(outBody == J.norm (cleanCtx depth body)) then some "the document satisfies canonB (hypothesis of theorem rtDoc_canonical) but the implementation's output is not the document itself (less nested @context members)"
      else if canonical && !exactOk then some "a canonical document did not survive decode → encode unchanged"
      else if !dropped.isEmpty then some s!"members silently dropped: {dropped}"
      else if needStable && !stable then some "a second round trip changed the document"
      else none
    if specBad.isNone && !bothSpellings.isEmpty then
      { agree := agreeBody && agreeCtx, specOk := false, known := "C01-both-spellings",
        why := s!"both spellings of a natural-language member were given; dropped: {bothSpellings}" } else
    match specBad with
    | some m => { agree := agreeBody && agreeCtx, specOk := false, why := m ++ s!" | out={(jget obs "out").compress}" }
    | none =>
      if !agreeBody then { agree := false, specOk := true, why := s!"model {(Json.null).compress} ≠ implementation for type {k}: expected {repr expect |>.pretty 300} got {(jget obs "out").compress}" }
      else if !agreeCtx then
        -- "its @context names exactly the vocabularies it uses": the vocabularies of the type, of the properties
        -- present and of the nested values, read off the tables — this clause is judged by that reading itself
        { agree := false, specOk := false, why := s!"@context: the document uses the vocabularies {wantCtx}, the written @context names {gotCtx}" }
      else { agree := true, specOk := true, nontrivial := true, spec := Json.mkObj [("canonB", canonThm), ("labelledCanonical", canonical)] }

end Drv
