import Driver.Util
import AV.Spec.C19
import AV.Core.Iri
open Lean AV AV.Spec.C19

namespace Drv

def hdr1 (h : Json) (k : String) : Option String :=
  match jget h k with
  | .arr xs => if xs.size == 1 then (xs[0]!).getStr?.toOption else none
  | _ => none

/-- does the recorded header map carry exactly these (key, value) pairs (each once)? -/
def hasHeaders (h : Json) (want : List (String × String)) : Bool :=
  want.all fun (k, v) => hdr1 h k == some v

def respOfScript (a : Json) : Resp :=
  match a.getStr?.toOption with
  | some s => .err ("transport error: " ++ s)
  | none => .status (a.getNat?.toOption.getD 200) ""

def c19 (inp obs : Json) : Res :=
  if (obs.getObjVal? "setupError").toOption.isSome then { agree := false, specOk := false, why := s!"harness setup: {jstr obs "setupError"}" } else
  if jbool obs "hang" then { agree := false, specOk := false, why := "the transport call never returned (an attempt blocks forever: the batch is not finished)" } else
  if (obs.getObjVal? "panic").toOption.isSome then { agree := false, specOk := false, why := s!"the transport panicked: {jstr obs "panic"}" } else
  let call := jstr inp "call"
  let cfg : Cfg := { appAgent := jstr inp "appAgent", gofedAgent := "", keyId := "https://a.example/users/alice#main-key" }
  let now : Int := (jget inp "now").getInt?.toOption.getD 0
  let dos := match jget obs "do" with | .arr xs => xs.toList | _ => []
  let sigs := match jget obs "sign" with | .arr xs => xs.toList | _ => []
  let recSigner := jstr inp "signer" != "rsa"
  let signerFails := (inp.getObjVal? "signerFails").toOption.isSome
  let payload := jstr inp "payload"
  let conc := let c := jnat inp "concurrent"; if c == 0 then 1 else c
  let recipients : List String := if call == "batch" then (match jget inp "recipients" with | .arr xs => (xs.toList.map fun x => x.getStr?.toOption.getD "") | _ => [])
    else [jstr inp "url"]
  let isGet := call == "deref"
  -- what each request must look like when it reaches the signer
  let wantReq (u : String) : Req :=
    let host := Iri.hostOf u
    if isGet then mkGet cfg u host now else mkPost cfg u host now payload
  -- User-Agent: "<app> <library>"; the library part is whatever version string the code has — it must follow the app's
  let uaOk (h : Json) : Bool := match hdr1 h "User-Agent" with
    | some ua => ua.startsWith (cfg.appAgent ++ " (go-fed/activity ") && ua.endsWith ")"
    | none => false
  let headersOk (h : Json) (u : String) : Bool :=
    let w := wantReq u
    hasHeaders h (w.headers.filter fun kv => kv.1 != "User-Agent") && uaOk h
  -- signer: one call per attempt, with the actor's key and key id, headers already set, POST body = payload
  let signBad : Option String :=
    if !recSigner then none else
    if sigs.length != recipients.length * conc then some s!"the signer was called {sigs.length} times for {recipients.length * conc} attempts" else
    sigs.findSome? fun s =>
      let u := jstr s "url"
      if jstr s "key" != "the-actor-key" || jstr s "keyId" != cfg.keyId then some "the signer was not given the actor's key and key id"
      else if !headersOk (jget s "headers") u then some s!"the request for {u} reached the signer without Date / User-Agent / media-type headers as specified: {(jget s "headers").compress}"
      else if (hdr1 (jget s "headers") "Host").isNone && false then some "no Host"
      else if isGet && jbool s "hasBody" then some "a GET was signed with a body"
      else if !isGet && jstr s "body" != payload then some "the signer was not given exactly the bytes that are sent"
      else none
  -- HTTP client: receives what was signed, unaltered (plus what the signer added)
  let doBad : Option String :=
    let expectN := if signerFails then 0 else recipients.length * conc
    if dos.length != expectN then some s!"{dos.length} requests reached the HTTP client for {expectN} expected attempts" else
    dos.findSome? fun d =>
      let u := jstr d "url"
      if !headersOk (jget d "headers") u then some s!"the request for {u} reached the HTTP client with altered headers"
      else if !isGet && jstr d "body" != payload then some "the body sent differs from the payload"
      else if recSigner && hdr1 (jget d "headers") "Signature" != some "recorded" then some "the signer's header did not reach the HTTP client"
      else if jstr d "method" != (if isGet then "GET" else "POST") then some "wrong method"
      else none
  let multiset := (dos.map fun d => jstr d "url").toArray.qsort (· < ·) |>.toList
  let wantMultiset := ((List.replicate conc recipients).flatten).toArray.qsort (· < ·) |>.toList
  let attemptsBad : Option String := if signerFails then none else
    if multiset != wantMultiset then some s!"attempted {multiset}, recipients are {wantMultiset}" else none
  let verifyBad : Option String := match jget obs "verifyErrors" with
    | .arr xs => if xs.isEmpty then none else some s!"the signature does not verify on what the HTTP client received: {(xs[0]!).compress}"
    | _ => none
  -- outcome
  let script := jget inp "script"
  let outcomeBad : Option String :=
    if signerFails then (if jbool obs "ok" && !recipients.isEmpty then some "the signer failed, yet success was reported" else none) else
    if call == "deref" then
      let r := respOfScript (match jget script (jstr inp "url") with | .arr xs => xs[0]! | _ => Json.null)
      (match derefOutcome r with
       | .ok _ => if jbool obs "ok" && jstr obs "body" == "body-of-" ++ jstr inp "url" then none else some "status 200 but no body returned"
       | .error _ => if jbool obs "ok" then some "a body was returned for a status other than 200" else none)
    else if call == "deliver" then
      let r := respOfScript (match jget script (jstr inp "url") with | .arr xs => xs[0]! | _ => Json.null)
      (match deliverOutcome (jstr inp "url") r with
       | .ok _ => if jbool obs "ok" then none else some "200/201/202 but Deliver failed"
       | .error _ => if jbool obs "ok" then some "Deliver succeeded for a status other than 200, 201, 202" else none)
    else if conc > 1 then none  -- which answer a duplicate recipient gets depends on arrival order across batches
    else
      -- a recipient listed k times gets the first k scripted answers (in some order): the multiset of outcomes is determined
      let counts := recipients.foldl (fun (acc : List (String × Nat)) u => match acc.find? (·.1 == u) with
        | some _ => acc.map fun (k, n) => if k == u then (k, n + 1) else (k, n)
        | none => acc ++ [(u, 1)]) []
      let attempts : List (String × Resp) := counts.flatMap fun (u, k) =>
        let as := match jget script u with | .arr xs => xs.toList | _ => []
        (List.range k).map fun i => (u, respOfScript (if as.isEmpty then Json.null else as[i % as.length]!))
      let fails := batchFailures attempts
      let err := jstr obs "err"
      (match batchOutcome attempts with
       | .ok _ => if jbool obs "ok" then none else some s!"every attempt succeeded but the batch reported {err}"
       | .error _ =>
         if jbool obs "ok" then some "an attempt failed but the batch reported success"
         else
           -- each failure is named: the message mentions every failing recipient (status failures name URL and code)
           let named := attempts.all fun (u, r) => match r with
             | .status c _ => isSuccess c || ((err.splitOn s!"{u} failed ({c})").length > 1)
             | .err m => (err.splitOn m).length > 1
           let count := (err.splitOn "; ").length
           if !named then some s!"the batch error does not name every failure: {err}"
           else if count != fails.length then some s!"the batch error lists {count} failures, {fails.length} attempts failed"
           else none)
  match signBad <|> doBad <|> attemptsBad <|> verifyBad <|> outcomeBad with
  | none => { agree := true, specOk := true, nontrivial := !dos.isEmpty }
  | some m => { agree := false, specOk := false, why := m }

end Drv
