import Driver.Util
import Driver.Conv
import AV.Core.Prog
open Lean AV

/-! JSON ⇄ `Call`/`Resp` for trace replay, and canonicalisation of values. -/
namespace Drv

def setLike : List String := ["to", "bto", "cc", "bcc", "audience", "actor", "attributedTo"]

/-- arrays of the set-like properties are compared as multisets (the code appends in Go-map order) -/
partial def canonVal : J → J
  | .obj kvs => .obj (kvs.map fun (k, v) =>
      let v' := canonVal v
      if setLike.contains k then
        match v' with
        | .arr xs => (k, .arr ((xs.toArray.qsort fun a b => (ofJ a).compress < (ofJ b).compress).toList))
        | _ => (k, v')
      else (k, v'))
  | .arr xs => .arr (xs.map canonVal)
  | j => j

def cv (j : J) : Json := ofJ (canonVal (J.norm j))
def cvj (j : Json) : Json := cv (toJ j)
def iris (xs : List Iri) : Json := Json.arr (xs.map Json.str).toArray

/-- a call as (name, canonical argument list) — the same shape the Go fakes record -/
def encCall : Call → String × List Json
  | .lock k => ("lock", [k]) | .unlock k => ("unlock", [k])
  | .inboxContains i d => ("inboxContains", [i, d]) | .getInbox i => ("getInbox", [i]) | .setInbox v => ("setInbox", [cv v])
  | .owns k => ("owns", [k]) | .actorForOutbox o => ("actorForOutbox", [o]) | .actorForInbox i => ("actorForInbox", [i])
  | .outboxForInbox i => ("outboxForInbox", [i]) | .inboxForActor a => ("inboxForActor", [a])
  | .exists_ k => ("exists", [k]) | .get k => ("get", [k]) | .create v => ("create", [cv v]) | .update v => ("update", [cv v])
  | .delete k => ("delete", [k]) | .getOutbox o => ("getOutbox", [o]) | .setOutbox v => ("setOutbox", [cv v])
  | .newID v => ("newID", [cv v]) | .followers a => ("followers", [a]) | .following a => ("following", [a]) | .liked a => ("liked", [a])
  | .newTransport b => ("newTransport", [b]) | .deref u => ("deref", [u])
  | .batchDeliver p r => ("batchDeliver", [cv p, iris r])
  | .authGetInbox => ("authGetInbox", []) | .authGetOutbox => ("authGetOutbox", []) | .appGetOutbox => ("appGetOutbox", [])
  | .authPostInbox => ("authPostInbox", []) | .appGetInbox => ("appGetInbox", []) | .hookInbox a => ("hookInbox", [cv a])
  | .blocked ids => ("blocked", [iris ids]) | .fedCallbacks => ("fedCallbacks", []) | .fedDefault a => ("fedDefault", [cv a])
  | .maxFwdDepth => ("maxFwdDepth", []) | .maxDeliveryDepth => ("maxDeliveryDepth", [])
  | .filterForwarding cols a => ("filterForwarding", [iris cols, cv a])
  | .authPostOutbox => ("authPostOutbox", []) | .hookOutbox v => ("hookOutbox", [cv v])
  | .socialCallbacks => ("socialCallbacks", []) | .socialDefault a => ("socialDefault", [cv a])
  | .appCb fed ty a => ("appCb", [fed, ty, cv a]) | .otherCb fed i a => ("otherCb", [fed, i, cv a])
  | .now => ("now", []) | .writeHeader c => ("writeHeader", [c]) | .setHeader k v => ("setHeader", [k, v])
  | .writeBody b => ("writeBody", [cv b])

def jIris (j : Json) : List Iri :=
  match j with
  | .arr xs => xs.toList.map fun x => x.getStr?.toOption.getD "<?>"
  | _ => []

/-- recorded (name, args) back into a `Call` (for running monitors over the implementation's trace) -/
def decCall (name : String) (a : List Json) : Option Call :=
  let s (i : Nat) : String := ((a.getD i Json.null).getStr?).toOption.getD "<?>"
  let v (i : Nat) : J := toJ (a.getD i Json.null)
  match name with
  | "lock" => some (.lock (s 0)) | "unlock" => some (.unlock (s 0))
  | "inboxContains" => some (.inboxContains (s 0) (s 1)) | "getInbox" => some (.getInbox (s 0)) | "setInbox" => some (.setInbox (v 0))
  | "owns" => some (.owns (s 0)) | "actorForOutbox" => some (.actorForOutbox (s 0)) | "actorForInbox" => some (.actorForInbox (s 0))
  | "outboxForInbox" => some (.outboxForInbox (s 0)) | "inboxForActor" => some (.inboxForActor (s 0))
  | "exists" => some (.exists_ (s 0)) | "get" => some (.get (s 0)) | "create" => some (.create (v 0)) | "update" => some (.update (v 0))
  | "delete" => some (.delete (s 0)) | "getOutbox" => some (.getOutbox (s 0)) | "setOutbox" => some (.setOutbox (v 0))
  | "newID" => some (.newID (v 0)) | "followers" => some (.followers (s 0)) | "following" => some (.following (s 0)) | "liked" => some (.liked (s 0))
  | "newTransport" => some (.newTransport (s 0)) | "deref" => some (.deref (s 0))
  | "batchDeliver" => some (.batchDeliver (v 0) (jIris (a.getD 1 Json.null)))
  | "authGetInbox" => some .authGetInbox | "authGetOutbox" => some .authGetOutbox | "appGetOutbox" => some .appGetOutbox
  | "authPostInbox" => some .authPostInbox | "appGetInbox" => some .appGetInbox | "hookInbox" => some (.hookInbox (v 0))
  | "blocked" => some (.blocked (jIris (a.getD 0 Json.null))) | "fedCallbacks" => some .fedCallbacks | "fedDefault" => some (.fedDefault (v 0))
  | "maxFwdDepth" => some .maxFwdDepth | "maxDeliveryDepth" => some .maxDeliveryDepth
  | "filterForwarding" => some (.filterForwarding (jIris (a.getD 0 Json.null)) (v 1))
  | "authPostOutbox" => some .authPostOutbox | "hookOutbox" => some (.hookOutbox (v 0))
  | "socialCallbacks" => some .socialCallbacks | "socialDefault" => some (.socialDefault (v 0))
  | "appCb" => some (.appCb ((a.getD 0 Json.null).getBool?.toOption.getD false) (s 1) (v 2))
  | "otherCb" => some (.otherCb ((a.getD 0 Json.null).getBool?.toOption.getD false) ((a.getD 1 Json.null).getNat?.toOption.getD 0) (v 2))
  | "now" => some .now | "writeHeader" => some (.writeHeader ((a.getD 0 Json.null).getNat?.toOption.getD 0))
  | "writeBody" => some (.writeBody (v 0))
  | _ => none

def okOf (j : Json) : Option Json :=
  match j.getObjVal? "ok" with
  | .ok v => some v
  | .error _ => none

def isErr (j : Json) : Bool := (j.getObjVal? "err").toOption.isSome

def eUnit (j : Json) : Option (E Unit) := if isErr j then some (.error .injected) else (okOf j).map fun _ => .ok ()
def eBool (j : Json) : Option (E Bool) :=
  if isErr j then some (.error .injected) else (okOf j).bind fun v => v.getBool?.toOption.map .ok
def eJ (j : Json) : Option (E J) := if isErr j then some (.error .injected) else (okOf j).map fun v => .ok (toJ v)
def eOptJ (j : Json) : Option (E (Option J)) :=
  if isErr j then some (.error .injected) else (okOf j).map fun v => match v with | .null => .ok none | v => .ok (some (toJ v))
def eIri (j : Json) : Option (E Iri) :=
  if isErr j then some (.error .injected) else (okOf j).bind fun v => v.getStr?.toOption.map .ok
def eOptIri (j : Json) : Option (E (Option Iri)) :=
  if isErr j then some (.error .injected) else (okOf j).map fun v => match v with | .str s => .ok (some s) | _ => .ok none
def eDoc (j : Json) : Option (E Doc) :=
  if isErr j then some (.error .injected) else (okOf j).map fun v =>
    match jstr v "doc" with
    | "badJson" => .ok .badJson
    | "undecodable" => .ok (.undecodable (jbool v "unmatched"))
    | _ => .ok (.val (J.norm (toJ (jget v "v"))))
def eCfg (j : Json) : Option (E CbConfig) :=
  if isErr j then some (.error .injected) else (okOf j).map fun v =>
    .ok { wrapped := jIris (jget v "wrapped"), onFollow := jnat v "onFollow", other := jIris (jget v "other") }
def eIris (j : Json) : Option (E (List Iri)) :=
  if isErr j then some (.error .injected) else (okOf j).map fun v => .ok (jIris v)

/-- the recorded answer as a value of the call's response type -/
def parseResp : (c : Call) → Json → Option c.Resp
  | .lock _, j | .unlock _, j | .setInbox _, j | .create _, j | .update _, j | .delete _, j | .setOutbox _, j => eUnit j
  | .inboxContains _ _, j | .owns _, j | .exists_ _, j => eBool j
  | .getInbox _, j | .getOutbox _, j | .followers _, j | .following _, j | .liked _, j | .appGetInbox, j | .appGetOutbox, j =>
    (eJ j).map fun r => match r with | .ok v => .ok (J.norm v) | .error e => .error e
  | .get _, j => (eOptJ j).map fun r => match r with | .ok (some v) => .ok (some (J.norm v)) | .ok none => .ok none | .error e => .error e
  | .actorForOutbox _, j | .actorForInbox _, j | .outboxForInbox _, j | .newID _, j => eIri j
  | .inboxForActor _, j => eOptIri j
  | .newTransport _, j | .batchDeliver _ _, j => eUnit j
  | .deref _, j => eDoc j
  | .authGetInbox, j | .authGetOutbox, j | .authPostInbox, j | .authPostOutbox, j => eBool j
  | .hookInbox _, j | .hookOutbox _, j => eUnit j
  | .blocked _, j => eBool j
  | .fedCallbacks, j | .socialCallbacks, j => eCfg j
  | .fedDefault _, j | .socialDefault _, j | .appCb _ _ _, j | .otherCb _ _ _, j => eUnit j
  | .maxFwdDepth, j | .maxDeliveryDepth, j => j.getInt?.toOption
  | .filterForwarding _ _, j => eIris j
  | .now, j => match j with
    | .arr xs => some ((xs.getD 0 Json.null).getInt?.toOption.getD 0, (xs.getD 1 Json.null).getInt?.toOption.getD 0)
    | _ => none
  | .writeHeader _, _ => some ()
  | .setHeader _ _, _ => some ()
  | .writeBody _, j => eBool j

end Drv
