import Driver.Util
import AV.Props.C18
open Lean AV.Container AV.Props.C18

namespace Drv

/-- one recorded operation as operations of the plain list; starting from a container decoded from a JSON array is
starting from that many appends -/
def parseOp18 (j : Json) : Option (List (Op String)) :=
  let tok := jstr j "tok"
  match jstr j "op" with
  | "append" => some [.append tok]
  | "prepend" => some [.prepend tok]
  | "insert" => some [.insert (jnat j "i") tok]
  | "set" => some [.set (jnat j "i") tok]
  | "remove" => some [.remove (jnat j "i")]
  | "swap" => some [.swap (jnat j "i") (jnat j "j")]
  | "badtype" => some []   -- a value outside the range, refused by the generic setter: nothing changes
  | "decoded" => some ((match jget j "toks" with | .arr xs => xs.toList | _ => []).map fun (t : Json) => Op.append (t.getStr?.toOption.getD "<?>"))
  | _ => none

def strList18 (j : Json) : List String :=
  match j with
  | .arr xs => xs.toList.map fun x => x.getStr?.toOption.getD "<?>"
  | _ => []

/-- run the ops on the model, reporting the index of the op that fails (Go: index out of range) -/
def runModel18 (ops : List (Op String)) : Except Nat (NF String) :=
  let rec go (cs : NF String) (i : Nat) : List (Op String) → Except Nat (NF String)
    | [] => .ok cs
    | op :: rest => match applyOp cs op with
      | some cs' => go cs' (i + 1) rest
      | none => .error i
  go [] 0 ops

def runSpec18 (ops : List (Op String)) : Except Nat (List String) :=
  let rec go (l : List String) (i : Nat) : List (Op String) → Except Nat (List String)
    | [] => .ok l
    | op :: rest => match specOp l op with
      | some l' => go l' (i + 1) rest
      | none => .error i
  go [] 0 ops

def c18 (inp obs : Json) : Res :=
  let opsJ := match jget inp "ops" with | .arr xs => xs.toList | _ => []
  if jbool inp "functional" then
    -- the slot: last set value or none
    let ops : List (SlotOp String) := opsJ.filterMap fun j => match jstr j "op" with
      | "set" => some (.set (jstr j "tok"))
      | "clear" => some .clear
      | _ => none
    let model := ops.foldl applySlot none
    let expect := match model with | some t => t | none => "<none>"
    let got := jstr obs "slot"
    let ok := got == expect && (jbool obs "serNil" == model.isNone) && !(jbool obs "serErr")
    { agree := ok, specOk := ok, why := if ok then "" else s!"slot reports {got}, last set was {expect}", nontrivial := !ops.isEmpty }
  else
  let parsed := opsJ.map parseOp18
  if parsed.any (·.isNone) then { agree := false, specOk := false, why := "driver: unreadable op" } else
  let groups : List (List (Op String)) := parsed.map fun o => o.getD []
  let ops := groups.flatten
  -- index of the recorded operation an index into the flattened list belongs to
  let recIdx (i : Nat) : Nat :=
    (groups.foldl (fun (acc : Nat × Nat × Option Nat) g =>
      let (pos, k, found) := acc
      if found.isSome then acc else
      if i < pos + g.length || (g.isEmpty && false) then (pos, k, some k) else (pos + g.length, k + 1, none)) (0, 0, none)).2.2.getD 0
  let panicAt : Int := (jget obs "panicAt").getInt?.toOption.getD (-1)
  match runModel18 ops, runSpec18 ops with
  | .error i, .error i' =>
    let ok := panicAt == (recIdx i : Int) && i == i'
    { agree := panicAt == (recIdx i : Int), specOk := ok, why := if ok then "" else s!"an index out of range at op {recIdx i'} of the plain list; implementation panicAt={panicAt}, model {recIdx i}" }
  | .ok cs, .ok l =>
    if panicAt != -1 then { agree := false, specOk := false, why := s!"the implementation panicked at op {panicAt}; the plain list accepts all operations" } else
    if (obs.getObjVal? "observePanic").toOption.isSome then { agree := false, specOk := false, why := s!"observing the container panicked: {jstr obs "observePanic"}" } else
    let atL := strList18 (jget obs "at")
    let fwd := strList18 (jget obs "fwd")
    let bwd := strList18 (jget obs "bwd")
    let len := jnat obs "len"
    let specOk := len == l.length && atL == l && fwd == l && bwd == l.reverse && jnat obs "serLen" == l.length
    let agree := len == cs.length && atL == values cs && fwd == forward cs && bwd == backward cs
    { agree := agree, specOk := specOk,
      why := if specOk && agree then "" else s!"list {l}; implementation len={len} at={atL} forward={fwd} backward={bwd}; model forward={forward cs}",
      nontrivial := l.length > 0 }
  | .error i, .ok _ => { agree := false, specOk := false, why := s!"model fails at op {i} where the plain list does not" }
  | .ok _, .error i => { agree := false, specOk := false, why := s!"plain list fails at op {i} where the model does not" }

end Drv
