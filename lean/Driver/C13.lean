import Driver.Util
import AV.Spec.C13
import AV.Gen.Impl
import AV.Gen.Ontology
open Lean AV

namespace Drv

def c13 (inp obs : Json) : Res :=
  let a := jstr inp "a"
  let b := jstr inp "b"
  match Gen.impl.findType a, Gen.impl.findType b with
  | some tA, some tB =>
    let mExt := tA.extendsP b
    let model := Json.mkObj [("ext", mExt), ("extBy", tB.isExtendedByP a), ("isOr", tB.isOrExtendsP a),
      ("disj", tA.disjointP b), ("isExtending", mExt)]
    let sExt := (anc Gen.ontology a).contains b
    let spec := Json.mkObj [("ext", sExt), ("extBy", sExt), ("isOr", a == b || sExt),
      ("disj", disjB Gen.ontology a b), ("isExtending", sExt)]
    { agree := obs == model, specOk := obs == spec, model := model, spec := spec,
      nontrivial := sExt || disjB Gen.ontology a b || a == b }
  | _, _ => { agree := false, specOk := false, why := "type not in Impl table" }

end Drv
