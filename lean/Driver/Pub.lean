import Driver.PubCodec
import AV.Pub.BaseActor
import AV.Gen.Impl
open Lean AV AV.Pub

/-! Trace replay of the `pub` model against a recorded implementation trace. -/
namespace Drv

/-- vocabulary facts from the regenerated tables -/
def facts : TFacts where
  hasProp tn p := match Gen.impl.findType tn with | some t => t.props.contains p | none => false
  isOrExt T n := n == T || (match Gen.impl.findType T with | some t => t.extBy.contains n | none => false)
  known n := match Gen.impl.findType n with | some t => !t.typeless | none => false

structure RecEv where
  name : String
  args : List Json
  resp : Json
  deriving Inhabited

def parseTrace (j : Json) : List RecEv :=
  match j with
  | .arr xs => xs.toList.map fun e =>
      let args := match jget e "a" with | .arr as => as.toList | _ => []
      { name := jstr e "c", args := args, resp := jget e "r" }
  | _ => []

/-- canonical form of a recorded event's arguments (values re-canonicalised like the model's) -/
def canonArgs (name : String) (args : List Json) : List Json :=
  match decCall name args with
  | some c => (encCall c).2
  | none => args

structure ReplayOut where
  ok : Bool
  why : String := ""
  outcome : String := ""      -- "ret" / error class / "panic:<site>"
  ret : Json := Json.null
  consumed : Nat := 0
  sites : List String := []

def errName : Err → String
  | .objectRequired => "objectRequired" | .targetRequired => "targetRequired" | .notFound => "notFound"
  | .injected => "injected" | .lib => "lib"

structure RSt where
  evs : Array RecEv
  used : Array Bool
  pos : Nat := 0
  headers : List (String × String) := []
  strict : Bool := true

def findEv (st : RSt) (name : String) (args : List Json) : Option Nat :=
  if st.strict then
    match st.evs[st.pos]? with
    | some ev => if ev.name == name && canonArgs ev.name ev.args == args then some st.pos else none
    | none => none
  else
    (List.range st.evs.size).find? fun i =>
      !(st.used.getD i true) && (match st.evs[i]? with
        | some ev => ev.name == name && canonArgs ev.name ev.args == args
        | none => false)

/-- when the call order is not fixed (Go-map iteration), neither is the order of the recipient list handed to
`BatchDeliver`: compare it as a sorted list -/
def looseArgs (name : String) (args : List Json) : List Json :=
  if name == "batchDeliver" then
    args.zipIdx.map fun (a, i) =>
      if i == 1 then
        match a with
        | .arr xs => Json.arr (xs.qsort fun x y => x.compress < y.compress)
        | j => j
      else a
  else args

def showArgs (args : List Json) : String := ((Json.arr args.toArray).compress.take 400).toString

def headersMatch (model : List (String × String)) (rec : Json) : Bool :=
  let recKvs : List (String × String) := match rec with
    | .obj kvs => kvs.foldl (fun acc k v => acc ++ [(k, v.getStr?.toOption.getD "")]) []
    | _ => []
  let m := model.foldl (fun (acc : List (String × String)) kv => (acc.filter (·.1 != kv.1)) ++ [kv]) []
  m.length == recKvs.length && m.all fun (k, v) =>
    match recKvs.find? (·.1 == k) with
    | some (_, rv) => if k == "Digest" then rv.startsWith "SHA-256=" else rv == v
    | none => false

/-- feed the recorded answers to the model; the model must issue exactly the recorded calls -/
def replay (toJson : α → Json) : Prog α → RSt → ReplayOut
  | .ret a, st =>
    let unused := (List.range st.evs.size).filter fun i => !(st.used.getD i true)
    if unused.isEmpty then { ok := true, outcome := "ret", ret := toJson a, consumed := st.evs.size }
    else
      let ev := st.evs[unused.head!]!
      { ok := false, outcome := "ret", ret := toJson a, why := s!"model returned but the implementation went on with {ev.name} {showArgs ev.args}" }
  | .fail e, st =>
    let unused := (List.range st.evs.size).filter fun i => !(st.used.getD i true)
    if unused.isEmpty then { ok := true, outcome := errName e, consumed := st.evs.size }
    else
      let ev := st.evs[unused.head!]!
      { ok := false, outcome := errName e, why := s!"model failed ({errName e}) but the implementation went on with {ev.name} {showArgs ev.args}" }
  | .panic site, st =>
    let unused := (List.range st.evs.size).filter fun i => !(st.used.getD i true)
    -- Go runs deferred calls while a panic unwinds: the only calls that may follow are deferred Unlocks
    let rest := unused.filter fun i => (st.evs[i]!).name != "unlock"
    { ok := rest.isEmpty, outcome := "panic:" ++ site, why := if rest.isEmpty then "" else "model panics but the implementation went on" }
  | .call (.setHeader hk hv) k, st => replay toJson (k ()) { st with headers := st.headers ++ [(hk, hv)] }
  | .call c k, st =>
    let (name, args) := encCall c
    -- writeHeader: the recorded event carries the header snapshot
    let args' := match c with
      | .writeHeader _ => args
      | _ => args
    let cand := if name == "writeHeader" || name == "writeBody" || name == "batchDeliver" then
        -- compare only the model-visible prefix of the recorded arguments
        (if st.strict then
          match st.evs[st.pos]? with
          | some ev => if ev.name == name && (canonArgs ev.name ev.args).take args'.length == args' then some st.pos else none
          | none => none
        else (List.range st.evs.size).find? fun i =>
          !(st.used.getD i true) && (match st.evs[i]? with
            | some ev => ev.name == name && looseArgs name ((canonArgs ev.name ev.args).take args'.length) == looseArgs name args'
            | none => false))
      else findEv st name args
    match cand with
    | none =>
      let next := match st.evs[st.pos]? with
        | some ev => s!"{ev.name} {showArgs (canonArgs ev.name ev.args)}"
        | none => "<end of trace>"
      { ok := false, why := s!"model calls {name} {showArgs args} but the implementation's next call is {next}" }
    | some i =>
      let ev := st.evs[i]!
      if name == "writeHeader" && !headersMatch st.headers (ev.args.getD 1 Json.null) then
        { ok := false, why := s!"headers at WriteHeader differ: model {st.headers} implementation {(ev.args.getD 1 Json.null).compress}" }
      else
      match parseResp c ev.resp with
      | none => { ok := false, why := s!"cannot read the recorded answer of {name}: {ev.resp.compress}" }
      | some r => replay toJson (k r) { st with used := st.used.set! i true, pos := if st.strict then st.pos + 1 else st.pos }

def bodyOf (j : Json) : Body :=
  match jstr j "k" with
  | "readErr" => .readErr
  | "badJson" => .badJson
  | "jnull" => .jnull
  | "undecodable" => .undecodable (J.norm (toJ (jget j "raw"))) (jbool j "unmatched")
  | _ => .val (J.norm (toJ (jget j "raw"))) (J.norm (toJ (jget j "v")))

def cfgOf (kind : String) : BaseCfg :=
  match kind with
  | "social" => { social := true, federated := false, delegate := { social := true, federating := false } }
  | "federating" => { social := false, federated := true, delegate := { social := false, federating := true } }
  | "none" => { social := false, federated := false, delegate := { social := false, federating := false } }
  | _ => { social := true, federated := true, delegate := { social := true, federating := true } }

def handledJson : Handled → Json
  | .handled => Json.bool true
  | .notHandled => Json.bool false

/-- replay one recorded step; returns the replay verdict and the outcome comparison -/
def replayStep (inp obs : Json) (strict : Bool) : ReplayOut × Bool × String :=
  let entry := jstr inp "entry"
  let cfg := cfgOf (jstr inp "kind")
  let req : Request := { method := jstr inp "method", header := jstr inp "header", body := bodyOf (jget inp "body"), box := jstr inp "box" }
  let evs := ((parseTrace (jget obs "trace")).filter fun ev => !ev.name.startsWith "app:").toArray
  let st : RSt := { evs := evs, used := Array.replicate evs.size false, strict := strict }
  let out := match entry with
    | "postInbox" => replay handledJson (postInboxScheme facts cfg req) st
    | "postOutbox" => replay handledJson (postOutboxScheme facts cfg req) st
    | "getInbox" => replay handledJson (getInboxH facts cfg req) st
    | "getOutbox" => replay handledJson (getOutboxH req) st
    | "handler" => replay handledJson (handler facts req) st
    | "send" => replay cv (send facts cfg req.box (J.norm (toJ (jget inp "value")))) st
    | _ => { ok := false, why := "unknown entry" }
  -- outcome comparison
  let obsPanic := (obs.getObjVal? "panic").toOption.isSome
  let obsErr := jstr obs "err"
  let outcomeOk :=
    if out.outcome.startsWith "panic:" then obsPanic
    else if obsPanic then false
    else if out.outcome == "ret" then
      obsErr == "nil" && (if entry == "send" then cvj (jget obs "returned") == out.ret else jget obs "handled" == out.ret)
    else obsErr == out.outcome && (entry == "send" || jbool obs "handled")
  let why := if outcomeOk then "" else s!"outcome differs: model {out.outcome} {out.ret.compress}; implementation err={obsErr} handled={(jget obs "handled").compress} panic={obsPanic}"
  (out, outcomeOk, why)

end Drv
