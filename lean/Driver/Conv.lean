import Lean.Data.Json
import AV.Core.Json
open Lean AV

namespace Drv

/-- normalise a JsonNumber (strip trailing zeros of the fraction) -/
def normNum (m : Int) (e : Nat) : Int × Nat := Id.run do
  let mut m := m
  let mut e := e
  while e > 0 && m % 10 == 0 do
    m := m / 10
    e := e - 1
  return (m, e)

partial def toJ : Json → J
  | .null => .null
  | .bool b => .bool b
  | .num n => let (m, e) := normNum n.mantissa n.exponent; .num m e
  | .str s => .str s
  | .arr xs => .arr (xs.toList.map toJ)
  | .obj kvs => .obj (kvs.foldl (fun acc k v => acc ++ [(k, toJ v)]) [])   -- TreeMap fold: ascending keys

partial def ofJ : J → Json
  | .null => .null
  | .bool b => .bool b
  | .num m e => .num ⟨m, e⟩
  | .str s => .str s
  | .arr xs => .arr (xs.map ofJ).toArray
  | .obj kvs => Json.mkObj (kvs.map fun (k, v) => (k, ofJ v))

end Drv
