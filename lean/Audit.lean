import Lean
open Lean

/-- usage: lake env lean --run Audit.lean Mod1 Mod2 …
Prints one JSON line per theorem declared in the given modules with the axioms
it depends on. -/
def main (args : List String) : IO UInt32 := do
  initSearchPath (← findSysroot)
  let mods := args.map String.toName
  let env ← importModules (mods.toArray.map fun m => ({ module := m } : Import)) {}
  let mut bad : UInt32 := 0
  for m in mods do
    match env.getModuleIdx? m with
    | none => IO.eprintln s!"audit: module {m} not found"; bad := 2
    | some idx =>
      let names := env.header.moduleData[idx.toNat]!.constNames
      for n in names do
        match env.find? n with
        | some (.thmInfo _) =>
          if n.isInternal then continue
          let ctx : Core.Context := { fileName := "<audit>", fileMap := default }
          let st : Core.State := { env := env }
          let (axsN, _) ← (collectAxioms n : CoreM (Array Name)).toIO ctx st
          let axs := axsN.toList.map toString
          IO.println (Json.mkObj [("module", toString m), ("theorem", toString n), ("axioms", Json.arr (axs.map Json.str).toArray)]).compress
        | _ => pure ()
  return bad
