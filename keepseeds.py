#!/usr/bin/env python3
"""keepseeds.py <Cxx> ...: copy confirmed seeds from /var/tmp/wt/<Cxx>/seeded/N to /verif/seeded/<Cxx>-N/"""
import sys, os, json, shutil, re
conf = {}
for l in open('/var/tmp/wt/confirm.log'):
    m = re.match(r'RESULT /var/tmp/wt/(C\d+)/(\d) (.*)', l)
    if m: conf[(m.group(1), m.group(2))] = m.group(3)
for cid in sys.argv[1:]:
    for v in ("1", "2"):
        src = f"/var/tmp/wt/{cid}/seeded/{v}"
        if not os.path.isdir(src): continue
        c = conf.get((cid, v), "")
        if c != "clean-demo=pass build=ok tests=same mutant-demo=fail":
            print("NOT CONFIRMED", cid, v, c); continue
        dst = f"/verif/seeded/{cid}-{v}"
        if os.path.isdir(dst): shutil.rmtree(dst)
        shutil.copytree(src, dst)
        meta = json.load(open(os.path.join(dst, "meta.json")))
        meta["property"] = cid
        meta["confirmed"] = {"what_ran": "confirm_seed.sh in a scratch worktree of /repo@HEAD: demo on clean tree (pass); git apply patch.diff; go build ./...; go test -json ./... pass-set compared with baseline (identical, 700 pass); demo again (fails)", "result": c}
        meta["demo_cmd"] = meta.get("demo_cmd", "").replace(f"/var/tmp/wt/{cid}", "<worktree>")
        json.dump(meta, open(os.path.join(dst, "meta.json"), "w"), indent=1)
        print("kept", dst)
