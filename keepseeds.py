#!/usr/bin/env python3
"""keepseeds.py [--root DIR --offset K] <Cxx> ...: copy confirmed seeds from DIR/<Cxx>/seeded/N to /verif/seeded/<Cxx>-(N+K)/"""
import sys, os, json, shutil, re
ROOT='/var/tmp/wt'; OFF=0
args=sys.argv[1:]
while args and args[0].startswith('--'):
    if args[0]=='--root': ROOT=args[1]
    if args[0]=='--offset': OFF=int(args[1])
    args=args[2:]
conf = {}
for l in open(ROOT+'/confirm.log'):
    m = re.match(r'RESULT '+re.escape(ROOT)+r'/(C\d+)/(\d) (.*)', l)
    if m: conf[(m.group(1), m.group(2))] = m.group(3)
for cid in args:
    for v in ("1", "2"):
        src = f"{ROOT}/{cid}/seeded/{v}"
        if not os.path.isdir(src): continue
        c = conf.get((cid, v), "")
        if c != "clean-demo=pass build=ok tests=same mutant-demo=fail":
            print("NOT CONFIRMED", cid, v, c); continue
        dst = f"/verif/seeded/{cid}-{int(v)+OFF}"
        if os.path.isdir(dst): shutil.rmtree(dst)
        shutil.copytree(src, dst)
        meta = json.load(open(os.path.join(dst, "meta.json")))
        meta["property"] = cid
        meta["confirmed"] = {"what_ran": "confirm_seed.sh in a scratch worktree of /repo@HEAD: demo on clean tree (pass); git apply patch.diff; go build ./...; go test -json ./... pass-set compared with baseline (identical, 700 pass); demo again (fails)", "result": c}
        meta["demo_cmd"] = meta.get("demo_cmd", "").replace(f"{ROOT}/{cid}", "<worktree>")
        json.dump(meta, open(os.path.join(dst, "meta.json"), "w"), indent=1)
        print("kept", dst)
