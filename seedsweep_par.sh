#!/bin/sh
# usage: seedsweep_par.sh [workers]   — every kept seed against its property's quick check, in parallel:
# each worker has its own copy of /verif and its own scratch worktree of /repo (VERIF_REPO), both under /var/tmp and
# removed at the end.  Writes seeded/RESULTS.txt.  /repo and /verif themselves are not touched while it runs.
# SEEDS="seeded/C01-9 …" restricts the sweep to those seeds and OUT=<file> redirects the result (for a new round).
cd "$(dirname "$0")"
N=${1:-5}
ROOT=$(pwd)
OUT=${OUT:-seeded/RESULTS.txt}
if [ -n "${SEEDS:-}" ]; then for d in $SEEDS; do echo $d; done > /var/tmp/sw.seeds; else ls -d seeded/C*-* | sort > /var/tmp/sw.seeds; fi
i=0
for k in $(seq 1 $N); do : > /var/tmp/sw.list.$k; done
while read d; do k=$(( i % N + 1 )); echo "$d" >> /var/tmp/sw.list.$k; i=$((i+1)); done < /var/tmp/sw.seeds
for k in $(seq 1 $N); do
  (
    W=/var/tmp/sw$k; R=/var/tmp/swrepo$k
    rm -rf $W; git -C /repo worktree remove --force $R 2>/dev/null; rm -rf $R
    cp -a $ROOT $W && git -C /repo worktree add -q --detach $R HEAD || exit 1
    cd $W; export VERIF_REPO=$R
    ./setup.sh > work/sw.setup.log 2>&1
    : > $W/sw.out
    while read d; do
      id=$(basename $d); prop=${id%-*}
      if ! git -C $R apply --check $ROOT/$d/patch.diff 2>/dev/null; then echo "$id: patch does not apply to the current tree" >> $W/sw.out; continue; fi
      git -C $R apply $ROOT/$d/patch.diff
      ./check $prop > work/sw.log 2>&1; rc=$?
      git -C $R checkout -q -- . ; git -C $R clean -fdq -- pub streams astool
      ./regen.sh > /dev/null 2>&1
      r=$(grep -E 'VIOLATION|\[check\]' work/sw.log | head -4 | sed "s#$W#/verif#g" | tr '\n' ' ')
      echo "$id: $r rc=$rc" >> $W/sw.out
    done < /var/tmp/sw.list.$k
  ) &
done
wait
cat /var/tmp/sw*/sw.out | sort > $OUT
for k in $(seq 1 $N); do git -C /repo worktree remove --force /var/tmp/swrepo$k 2>/dev/null; rm -rf /var/tmp/sw$k /var/tmp/swrepo$k /var/tmp/sw.list.$k; done
git -C /repo worktree prune; rm -f /var/tmp/sw.seeds
grep -c . $OUT; grep -v VIOLATION $OUT
