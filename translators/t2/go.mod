module t2

go 1.21
