// T2: reads the generated Go code under <repo>/streams with go/ast and extracts
// the tables the Lean model of the jennifer templates is parameterised by.
// Any shape it does not recognise is recorded under "errors" (never defaulted).
//
// usage: t2 <repo-root> > impl.json
package main

import (
	"bytes"
	"crypto/sha1"
	"encoding/hex"
	"encoding/json"
	"fmt"
	"go/ast"
	"go/parser"
	"go/printer"
	"go/token"
	"os"
	"path/filepath"
	"regexp"
	"sort"
	"strconv"
	"strings"
)

type Field struct {
	Field string `json:"field"`
	Iface string `json:"iface"`
}

type Step struct {
	Kind string `json:"kind"` // iri | type | lit
	Name string `json:"name"` // mgr method name or literal deserializer "pkg.Fn"
}

func relDir(d string) string {
	if i := strings.Index(d, "/streams/"); i >= 0 {
		return d[i+len("/streams/"):]
	}
	return d
}

type TypeInfo struct {
	Dir        string   `json:"dir"`
	Pkg        string   `json:"pkg"`
	Struct     string   `json:"struct"`
	Name       string   `json:"name"`
	Vocab      string   `json:"vocab"`
	Typeless   bool     `json:"typeless"`
	Fields     []Field  `json:"fields"`
	Plan       []string `json:"plan"`      // mgr.Deserialize<X>Property<Vocab> in order
	SerOrder   []string `json:"serOrder"`  // fields serialised, in order
	KnownKeys  []string `json:"knownKeys"` // skip list
	Extends    []string `json:"extends"`
	ExtendedBy []string `json:"extendedBy"`
	Disjoint   []string `json:"disjoint"`
	IsOrName   string   `json:"isOrName"`   // literal compared in IsOrExtends
	IsOrDeleg  string   `json:"isOrDeleg"`  // function delegated to
	IsExtDeleg string   `json:"isExtDeleg"` // function IsExtending delegates to
	VocabURI   string   `json:"vocabURI"`   // literal returned by VocabularyURI()
	CtxFields  []string `json:"ctxFields"`  // fields visited by JSONLDContext
	CtxVocab   string   `json:"ctxVocab"`
	Getters    []string `json:"getters"` // Get<Vocab><Prop> method names
}

type PropInfo struct {
	Dir        string            `json:"dir"`
	Pkg        string            `json:"pkg"`
	Struct     string            `json:"struct"`
	Name       string            `json:"name"`
	Vocab      string            `json:"vocab"`
	Functional bool              `json:"functional"`
	NatLang    bool              `json:"natLang"`
	MapLookup  bool              `json:"mapLookup"` // reads name+"Map" when absent
	Plan       []Step            `json:"plan"`
	Members    []Field           `json:"members"` // member fields of slot/iterator
	Shapes     map[string]string `json:"shapes"`  // normalised method body hashes
	SerKinds   []string          `json:"serKinds"`
}

type ChainEntry struct {
	Vocab string `json:"vocab"`
	Name  string `json:"name"`
	Cb    string `json:"cb"`    // vocab.<Iface> in the callback assertion
	Deser string `json:"deser"` // json resolver only
	Cast  string `json:"cast"`  // type resolver: o.(vocab.X)
}

type Out struct {
	Types      []TypeInfo              `json:"types"`
	Props      []PropInfo              `json:"props"`
	Resolvers  map[string][]ChainEntry `json:"resolvers"`
	CtorCases  map[string][]string     `json:"ctorCases"`
	ToTypeCbs  []string                `json:"toTypeCbs"`
	Unmatched  []string                `json:"unmatched"` // errors IsUnmatchedErr accepts
	PkgPreds   map[string]string       `json:"pkgPreds"`  // streams.<Fn> -> delegated "pkg.Fn"
	JsonAlias  map[string][]string     `json:"jsonAlias"` // alias variable of the JSON resolver -> [first uri, fallback uri]
	MgrMethods map[string]string       `json:"mgrMethods"`
	Errors     []string                `json:"errors"`
	Files      int                     `json:"files"`
}

var out Out
var fset = token.NewFileSet()

func errf(f string, a ...interface{}) { out.Errors = append(out.Errors, fmt.Sprintf(f, a...)) }

func parse(path string) *ast.File {
	f, err := parser.ParseFile(fset, path, nil, 0)
	if err != nil {
		errf("parse %s: %v", path, err)
		return nil
	}
	out.Files++
	return f
}

var pcfg = printer.Config{Mode: printer.UseSpaces | printer.TabIndent, Tabwidth: 8}
var srcCache = map[ast.Node]string{}

func src(n ast.Node) string {
	if s, ok := srcCache[n]; ok {
		return s
	}
	var b bytes.Buffer
	pcfg.Fprint(&b, fset, n)
	srcCache[n] = b.String()
	return b.String()
}

var kvLine = regexp.MustCompile(`^\w+: .*,$`)
var wsRe = regexp.MustCompile(`\s+`)

// canon collapses whitespace per line and sorts each run of `key: value,` lines
// (gofmt orders composite-literal keys alphabetically, which depends on names).
func canon(s string) string {
	lines := strings.Split(s, "\n")
	for i := range lines {
		lines[i] = strings.TrimSpace(wsRe.ReplaceAllString(lines[i], " "))
	}
	i := 0
	for i < len(lines) {
		j := i
		for j < len(lines) && kvLine.MatchString(lines[j]) {
			j++
		}
		if j > i+1 {
			sort.Strings(lines[i:j])
		}
		if j == i {
			j++
		}
		i = j
	}
	return strings.Join(lines, "\n")
}

func nilable(t string) bool {
	return strings.HasPrefix(t, "vocab.") || strings.HasPrefix(t, "*") || strings.HasPrefix(t, "map[") || strings.HasPrefix(t, "[]") || t == "interface{}"
}

func checkClear(file, body string, members []Field) {
	for _, m := range members {
		if strings.HasPrefix(m.Field, "has") && m.Iface == "bool" {
			if !strings.Contains(body, "this."+m.Field+" = false") {
				errf("%s: clear does not reset %s", file, m.Field)
			}
		} else if nilable(m.Iface) {
			if !strings.Contains(body, "this."+m.Field+" = nil") {
				errf("%s: clear does not nil %s", file, m.Field)
			}
		}
	}
}

func strLit(e ast.Expr) (string, bool) {
	if bl, ok := e.(*ast.BasicLit); ok && bl.Kind == token.STRING {
		s, err := strconv.Unquote(bl.Value)
		return s, err == nil
	}
	return "", false
}

func funcs(f *ast.File) map[string]*ast.FuncDecl {
	m := map[string]*ast.FuncDecl{}
	for _, d := range f.Decls {
		if fd, ok := d.(*ast.FuncDecl); ok {
			name := fd.Name.Name
			if fd.Recv != nil && len(fd.Recv.List) == 1 {
				t := fd.Recv.List[0].Type
				if s, ok := t.(*ast.StarExpr); ok {
					t = s.X
				}
				name = src(t) + "." + name
			}
			m[name] = fd
		}
	}
	return m
}

func structs(f *ast.File) map[string]*ast.StructType {
	m := map[string]*ast.StructType{}
	for _, d := range f.Decls {
		if gd, ok := d.(*ast.GenDecl); ok && gd.Tok == token.TYPE {
			for _, s := range gd.Specs {
				ts := s.(*ast.TypeSpec)
				if st, ok := ts.Type.(*ast.StructType); ok {
					m[ts.Name.Name] = st
				}
			}
		}
	}
	return m
}

// string-slice literal assigned to a variable of the given name inside fd
func sliceLit(fd *ast.FuncDecl, varName string) ([]string, bool) {
	var res []string
	found := false
	ast.Inspect(fd, func(n ast.Node) bool {
		as, ok := n.(*ast.AssignStmt)
		if !ok || len(as.Lhs) != 1 || len(as.Rhs) != 1 {
			return true
		}
		id, ok := as.Lhs[0].(*ast.Ident)
		if !ok || id.Name != varName {
			return true
		}
		cl, ok := as.Rhs[0].(*ast.CompositeLit)
		if !ok {
			return true
		}
		found = true
		for _, e := range cl.Elts {
			if s, ok := strLit(e); ok {
				res = append(res, s)
			} else {
				errf("%s: non-literal in %s", fd.Name.Name, varName)
			}
		}
		return false
	})
	return res, found
}

// the predicate template: `lits := []string{..}; for _, x := range lits { if x == other.GetTypeName() { return true } }; return false`
// or the shortcut `return false`.
var predTmplFull = regexp.MustCompile(`^\{\s*(\w+) := \[\]string\{[^}]*\}\s*for _, (\w+) := range (\w+) \{\s*if (\w+) == other\.GetTypeName\(\) \{\s*return true\s*\}\s*\}\s*return false\s*\}$`)
var predTmplEmpty = regexp.MustCompile(`^\{\s*return false\s*\}$`)

func predList(fd *ast.FuncDecl, varName string, what string) []string {
	body := src(fd.Body)
	// strip comments are not printed by printer for Body-only nodes
	if predTmplEmpty.MatchString(body) {
		return []string{}
	}
	m := predTmplFull.FindStringSubmatch(body)
	if m == nil || m[1] != varName || m[3] != varName || m[2] != m[4] {
		errf("%s: predicate body shape not recognised (%s)", fd.Name.Name, what)
		return nil
	}
	l, _ := sliceLit(fd, varName)
	if l == nil {
		l = []string{}
	}
	return l
}

func vocabFromAlias(fd *ast.FuncDecl) string {
	// aliasMap["<uri>"]
	uri := ""
	ast.Inspect(fd, func(n ast.Node) bool {
		ix, ok := n.(*ast.IndexExpr)
		if !ok {
			return true
		}
		if id, ok := ix.X.(*ast.Ident); ok && id.Name == "aliasMap" {
			if s, ok := strLit(ix.Index); ok && uri == "" {
				uri = s
			}
		}
		return true
	})
	return uri
}

func doType(dir string) {
	files, _ := filepath.Glob(filepath.Join(dir, "gen_type_*.go"))
	if len(files) != 1 {
		errf("%s: expected one gen_type file, got %d", dir, len(files))
		return
	}
	f := parse(files[0])
	if f == nil {
		return
	}
	ti := TypeInfo{Pkg: f.Name.Name, Dir: relDir(dir)}
	sts := structs(f)
	if len(sts) != 1 {
		errf("%s: expected one struct", files[0])
		return
	}
	for name, st := range sts {
		ti.Struct = name
		for _, fl := range st.Fields.List {
			for _, n := range fl.Names {
				if n.Name == "alias" || n.Name == "unknown" {
					continue
				}
				ti.Fields = append(ti.Fields, Field{n.Name, src(fl.Type)})
			}
		}
	}
	fs := funcs(f)
	// type name
	if fd := fs[ti.Struct+".GetTypeName"]; fd != nil && len(fd.Body.List) == 1 {
		if r, ok := fd.Body.List[0].(*ast.ReturnStmt); ok && len(r.Results) == 1 {
			ti.Name, _ = strLit(r.Results[0])
		}
	}
	if ti.Name == "" {
		errf("%s: no GetTypeName literal", files[0])
		return
	}
	if fd := fs[ti.Struct+".VocabularyURI"]; fd != nil && len(fd.Body.List) == 1 {
		if r, ok := fd.Body.List[0].(*ast.ReturnStmt); ok && len(r.Results) == 1 {
			ti.VocabURI, _ = strLit(r.Results[0])
		}
	}
	if ti.VocabURI == "" {
		errf("%s: no VocabularyURI literal", files[0])
	}
	des := fs["Deserialize"+ti.Name]
	if des == nil {
		errf("%s: no Deserialize%s", files[0], ti.Name)
		return
	}
	ti.Vocab = vocabFromAlias(des)
	if ti.VocabURI != "" && ti.Vocab != ti.VocabURI {
		errf("%s: VocabularyURI() %q differs from the deserializer's vocabulary %q", files[0], ti.VocabURI, ti.Vocab)
	}
	// typeless: does the deserializer look at m["type"]?
	hasTypeCheck := false
	ast.Inspect(des, func(n ast.Node) bool {
		if ix, ok := n.(*ast.IndexExpr); ok {
			if id, ok := ix.X.(*ast.Ident); ok && id.Name == "m" {
				if s, ok := strLit(ix.Index); ok && s == "type" {
					hasTypeCheck = true
				}
			}
		}
		return true
	})
	ti.Typeless = !hasTypeCheck
	if hasTypeCheck {
		// the literal compared must be the type name, both in the string and array branch
		cnt := 0
		ast.Inspect(des, func(n ast.Node) bool {
			if be, ok := n.(*ast.BinaryExpr); ok && (be.Op == token.NEQ || be.Op == token.EQL) {
				if s, ok := strLit(be.Y); ok && s == ti.Name {
					cnt++
				}
			}
			return true
		})
		if cnt != 2 {
			errf("%s: type-name test shape (found %d comparisons with %q)", files[0], cnt, ti.Name)
		}
	}
	// plan: mgr.DeserializeXxx()(m, aliasMap) in order, each assigned to this.<Field>
	for _, st := range des.Body.List {
		ifs, ok := st.(*ast.IfStmt)
		if !ok || ifs.Init == nil {
			continue
		}
		as, ok := ifs.Init.(*ast.AssignStmt)
		if !ok || len(as.Rhs) != 1 {
			continue
		}
		call, ok := as.Rhs[0].(*ast.CallExpr)
		if !ok {
			continue
		}
		inner, ok := call.Fun.(*ast.CallExpr)
		if !ok {
			continue
		}
		sel, ok := inner.Fun.(*ast.SelectorExpr)
		if !ok || src(sel.X) != "mgr" {
			continue
		}
		// target field
		target := ""
		ast.Inspect(ifs, func(n ast.Node) bool {
			if a, ok := n.(*ast.AssignStmt); ok && len(a.Lhs) == 1 {
				if s, ok := a.Lhs[0].(*ast.SelectorExpr); ok && src(s.X) == "this" && src(a.Rhs[0]) == "p" {
					target = s.Sel.Name
				}
			}
			return true
		})
		ti.Plan = append(ti.Plan, sel.Sel.Name+"->"+target)
	}
	// known keys
	ast.Inspect(des, func(n ast.Node) bool {
		if be, ok := n.(*ast.BinaryExpr); ok && be.Op == token.EQL {
			if id, ok := be.X.(*ast.Ident); ok && id.Name == "k" {
				if s, ok := strLit(be.Y); ok {
					ti.KnownKeys = append(ti.KnownKeys, s)
				}
			}
		}
		return true
	})
	// the unknown copy must be present: this.unknown[k] = v
	if !strings.Contains(src(des.Body), "this.unknown[k] = v") {
		errf("%s: unknown-member copy missing", files[0])
	}
	// predicates
	find := func(suffix string) *ast.FuncDecl {
		var r *ast.FuncDecl
		for n, fd := range fs {
			if !strings.Contains(n, ".") && strings.HasSuffix(n, suffix) && strings.Contains(n, ti.Name) {
				if r != nil && len(n) > len(r.Name.Name) {
					continue
				}
				r = fd
			}
		}
		return r
	}
	if fd := find(ti.Name + "Extends"); fd != nil {
		ti.Extends = predList(fd, "extensions", "extends")
	} else {
		errf("%s: no Extends", files[0])
	}
	if fd := fs[ti.Name+"IsExtendedBy"]; fd != nil {
		ti.ExtendedBy = predList(fd, "extensions", "extendedBy")
	} else {
		errf("%s: no IsExtendedBy", files[0])
	}
	if fd := fs[ti.Name+"IsDisjointWith"]; fd != nil {
		ti.Disjoint = predList(fd, "disjointWith", "disjoint")
	} else {
		errf("%s: no IsDisjointWith", files[0])
	}
	if fd := fs["IsOrExtends"+ti.Name]; fd != nil {
		re := regexp.MustCompile(`^\{\s*if other\.GetTypeName\(\) == "(\w+)" \{\s*return true\s*\}\s*return (\w+)\(other\)\s*\}$`)
		if m := re.FindStringSubmatch(src(fd.Body)); m != nil {
			ti.IsOrName, ti.IsOrDeleg = m[1], m[2]
		} else {
			errf("%s: IsOrExtends shape", files[0])
		}
	} else {
		errf("%s: no IsOrExtends", files[0])
	}
	if fd := fs[ti.Struct+".IsExtending"]; fd != nil {
		re := regexp.MustCompile(`^\{\s*return (\w+)\(other\)\s*\}$`)
		if m := re.FindStringSubmatch(src(fd.Body)); m != nil {
			ti.IsExtDeleg = m[1]
		} else {
			errf("%s: IsExtending shape", files[0])
		}
	} else {
		errf("%s: no IsExtending", files[0])
	}
	// serialisation order + shape
	if fd := fs[ti.Struct+".Serialize"]; fd != nil {
		re := regexp.MustCompile(`if this\.(\w+) != nil \{\s*if i, err := this\.(\w+)\.Serialize\(\); err != nil \{\s*return nil, err\s*\} else if i != nil \{\s*m\[this\.(\w+)\.Name\(\)\] = i\s*\}\s*\}`)
		body := src(fd.Body)
		for _, m := range re.FindAllStringSubmatch(body, -1) {
			if m[1] != m[2] || m[2] != m[3] {
				errf("%s: Serialize field mix %v", files[0], m[1:])
			}
			ti.SerOrder = append(ti.SerOrder, m[1])
		}
		if !strings.Contains(body, "if _, has := m[k]; !has {") {
			errf("%s: Serialize unknown guard missing", files[0])
		}
		if !ti.Typeless && !strings.Contains(body, `m["type"] = typeName`) {
			errf("%s: Serialize does not set type", files[0])
		}
	} else {
		errf("%s: no Serialize", files[0])
	}
	if fd := fs[ti.Struct+".JSONLDContext"]; fd != nil {
		re := regexp.MustCompile(`m = this\.helperJSONLDContext\(this\.(\w+), m\)`)
		for _, m := range re.FindAllStringSubmatch(src(fd.Body), -1) {
			ti.CtxFields = append(ti.CtxFields, m[1])
		}
		re2 := regexp.MustCompile(`m := map\[string\]string\{"([^"]+)": this\.alias\}`)
		if m := re2.FindStringSubmatch(src(fd.Body)); m != nil {
			ti.CtxVocab = m[1]
		} else {
			errf("%s: JSONLDContext head shape", files[0])
		}
	}
	for n := range fs {
		if strings.HasPrefix(n, ti.Struct+".Get") {
			g := strings.TrimPrefix(n, ti.Struct+".")
			if g != "GetTypeName" && g != "GetUnknownProperties" {
				ti.Getters = append(ti.Getters, g)
			}
		}
	}
	sort.Strings(ti.Getters)
	out.Types = append(out.Types, ti)
}

var identRe = regexp.MustCompile(`[A-Za-z_][A-Za-z0-9_]*`)

// normalise a method body: replace the property's own identifiers and the
// per-kind member names by placeholders so all instances of one template agree.
func normBody(fd *ast.FuncDecl, structName, iterName string, member string, iface string) string {
	s := src(fd.Type) + src(fd.Body)
	s = strings.ReplaceAll(s, iterName, "ITER")
	s = strings.ReplaceAll(s, structName, "PROP")
	if member != "" {
		s = strings.ReplaceAll(s, member, "MEMBER")
	}
	if iface != "" {
		// only the type of the value parameter `v` (an `int`-valued kind must not rename `idx int`)
		s = regexp.MustCompile(`\bv `+regexp.QuoteMeta(iface)+`\)`).ReplaceAllString(s, "v IFACE)")
		if !strings.Contains(iface, " ") && len(iface) > 6 {
			s = strings.ReplaceAll(s, iface, "IFACE")
		}
	}
	return s
}

func hash(s string) string {
	h := sha1.Sum([]byte(s))
	return hex.EncodeToString(h[:6])
}

func doProp(dir string) {
	files, _ := filepath.Glob(filepath.Join(dir, "gen_property_*.go"))
	if len(files) != 1 {
		errf("%s: expected one gen_property file", dir)
		return
	}
	f := parse(files[0])
	if f == nil {
		return
	}
	pi := PropInfo{Pkg: f.Name.Name, Dir: relDir(dir), Shapes: map[string]string{}}
	sts := structs(f)
	fs := funcs(f)
	iter := ""
	for n := range sts {
		if strings.HasSuffix(n, "PropertyIterator") {
			iter = n
		} else if strings.HasSuffix(n, "Property") {
			pi.Struct = n
		}
	}
	if pi.Struct == "" {
		errf("%s: no property struct", files[0])
		return
	}
	pi.Functional = iter == ""
	holder := pi.Struct
	if !pi.Functional {
		holder = iter
	}
	for _, fl := range sts[holder].Fields.List {
		for _, n := range fl.Names {
			switch n.Name {
			case "unknown", "iri", "alias", "myIdx", "parent":
			default:
				pi.Members = append(pi.Members, Field{n.Name, src(fl.Type)})
			}
		}
	}
	// name: propName := "<lit>" in Deserialize<X>Property
	var des *ast.FuncDecl
	for n, fd := range fs {
		if strings.HasPrefix(n, "Deserialize") && strings.HasSuffix(n, "Property") && !strings.Contains(n, ".") {
			des = fd
		}
	}
	if des == nil {
		errf("%s: no Deserialize*Property", files[0])
		return
	}
	pi.Vocab = vocabFromAlias(des)
	ast.Inspect(des, func(n ast.Node) bool {
		if as, ok := n.(*ast.AssignStmt); ok && len(as.Lhs) == 1 && src(as.Lhs[0]) == "propName" && as.Tok == token.DEFINE {
			pi.Name, _ = strLit(as.Rhs[0])
		}
		return true
	})
	if pi.Name == "" {
		errf("%s: no propName literal", files[0])
		return
	}
	pi.MapLookup = strings.Contains(src(des.Body), `m[propName+"Map"]`)
	// Name() shape
	if fd := fs[pi.Struct+".Name"]; fd != nil {
		body := src(fd.Body)
		plain := regexp.MustCompile(`^\{\s*if len\(this\.alias\) > 0 \{\s*return this\.alias \+ ":" \+ "(\w+)"\s*\} else \{\s*return "(\w+)"\s*\}\s*\}$`)
		nlNF := regexp.MustCompile(`^\{\s*if this\.Len\(\) == 1 && this\.At\(0\)\.IsRDFLangString\(\) \{\s*return "(\w+)Map"\s*\} else \{\s*return "(\w+)"\s*\}\s*\}$`)
		nlF := regexp.MustCompile(`^\{\s*if this\.IsRDFLangString\(\) \{\s*return "(\w+)Map"\s*\} else \{\s*return "(\w+)"\s*\}\s*\}$`)
		if m := plain.FindStringSubmatch(body); m != nil && m[1] == pi.Name && m[2] == pi.Name {
			pi.NatLang = false
		} else if m := nlNF.FindStringSubmatch(body); m != nil && m[1] == pi.Name && m[2] == pi.Name && !pi.Functional {
			pi.NatLang = true
		} else if m := nlF.FindStringSubmatch(body); m != nil && m[1] == pi.Name && m[2] == pi.Name && pi.Functional {
			pi.NatLang = true
		} else {
			errf("%s: Name() shape not recognised", files[0])
		}
	} else {
		errf("%s: no Name()", files[0])
	}
	if pi.NatLang != pi.MapLookup {
		errf("%s: natLang(%v) vs Map lookup(%v) mismatch", files[0], pi.NatLang, pi.MapLookup)
	}
	// plan
	planFn := des
	if !pi.Functional {
		planFn = nil
		for n, fd := range fs {
			if strings.HasPrefix(n, "deserialize") && strings.HasSuffix(n, "PropertyIterator") {
				planFn = fd
			}
		}
		if planFn == nil {
			errf("%s: no iterator deserializer", files[0])
			return
		}
	}
	ast.Inspect(planFn, func(n ast.Node) bool {
		call, ok := n.(*ast.CallExpr)
		if !ok {
			return true
		}
		if sel, ok := call.Fun.(*ast.SelectorExpr); ok {
			x := src(sel.X)
			if x == "url" && sel.Sel.Name == "Parse" {
				pi.Plan = append(pi.Plan, Step{"iri", ""})
			} else if x != "mgr" && x != "fmt" && strings.HasPrefix(sel.Sel.Name, "Deserialize") {
				pi.Plan = append(pi.Plan, Step{"lit", x + "." + sel.Sel.Name})
			}
		}
		if inner, ok := call.Fun.(*ast.CallExpr); ok {
			if sel, ok := inner.Fun.(*ast.SelectorExpr); ok && src(sel.X) == "mgr" {
				pi.Plan = append(pi.Plan, Step{"type", sel.Sel.Name})
			}
		}
		return true
	})
	if !strings.Contains(src(planFn.Body), "unknown: i,") {
		errf("%s: plan does not end in unknown", files[0])
	}
	// serialize kinds order (iterator serialize / functional Serialize)
	serFn := fs[holder+".serialize"]
	if pi.Functional {
		serFn = fs[pi.Struct+".Serialize"]
	}
	if serFn != nil {
		re := regexp.MustCompile(`this\.Is(\w+)\(\)`)
		for _, m := range re.FindAllStringSubmatch(src(serFn.Body), -1) {
			pi.SerKinds = append(pi.SerKinds, m[1])
		}
		if !strings.Contains(src(serFn.Body), "return this.unknown, nil") {
			errf("%s: serialize does not fall back to unknown", files[0])
		}
	} else {
		errf("%s: no serialize", files[0])
	}
	// shapes of container methods (non-functional) / slot methods (functional)
	if !pi.Functional {
		generic := []string{"At", "Begin", "Empty", "End", "Len", "Remove", "Swap", "Serialize", "AppendIRI", "PrependIRI", "InsertIRI", "SetIRI", "AppendType", "PrependType", "InsertType", "SetType"}
		hasTypeKind := false
		for _, m := range pi.Members {
			if strings.HasPrefix(m.Iface, "vocab.") {
				hasTypeKind = true
			}
		}
		for _, g := range generic {
			if strings.HasSuffix(g, "Type") && !hasTypeKind {
				continue
			}
			if fd := fs[pi.Struct+"."+g]; fd != nil {
				pi.Shapes[g] = hash(canon(normBody(fd, pi.Struct, iter, "", "")))
			} else {
				errf("%s: missing method %s", files[0], g)
			}
		}
		// the constructor from JSON: builds the element list and sets every element's parent and index
		for n, fd := range fs {
			if strings.HasPrefix(n, "Deserialize") && strings.HasSuffix(n, "Property") && fd.Recv == nil {
				body := normBody(fd, pi.Struct, iter, "", "")
				body = regexp.MustCompile(`func DESER\(|func Deserialize\w*\(`).ReplaceAllString(body, "func DESER(")
				body = regexp.MustCompile(`Deserialize\w+Property\b`).ReplaceAllString(body, "DESER")
				body = regexp.MustCompile(`aliasMap\["[^"]+"\]`).ReplaceAllString(body, `aliasMap["URI"]`)
				if m := regexp.MustCompile(`propName := "(\w+)"`).FindStringSubmatch(body); m != nil {
					body = strings.ReplaceAll(body, `"`+m[1]+`"`, `"NAME"`)
					body = strings.ReplaceAll(body, `"`+m[1]+`Map"`, `"NAMEMap"`)
				}
				pi.Shapes["Deserialize"] = hash(canon(body))
			}
		}
		if _, ok := pi.Shapes["Deserialize"]; !ok {
			errf("%s: no Deserialize…Property constructor", files[0])
		}
		for _, g := range []string{"Next", "Prev", "GetIRI", "IsIRI", "SetIRI", "clear:"} {
			g2 := strings.TrimSuffix(g, ":")
			if fd := fs[iter+"."+g2]; fd != nil {
				if g2 == "clear" {
					// clear must nil every member + unknown + iri (+ has-flags)
					body := src(fd.Body)
					checkClear(files[0], body, pi.Members)
					hasIri := strings.Contains(src(sts[iter]), "iri ")
					if !strings.Contains(body, "this.unknown = nil") || (hasIri && !strings.Contains(body, "this.iri = nil")) {
						errf("%s: iterator clear misses unknown/iri", files[0])
					}
				} else {
					pi.Shapes["it."+g2] = hash(canon(normBody(fd, pi.Struct, iter, "", "")))
				}
			} else {
				errf("%s: missing iterator method %s", files[0], g2)
			}
		}
		// per-kind mutators: Append<K>/Prepend<K>/Insert<K>/Set<K> for each member
		memRe := regexp.MustCompile(`\b(\w+Member):\s+v,`)
		byMember := map[string]map[string]*ast.FuncDecl{}
		for n, fd := range fs {
			for _, op := range []string{"Append", "Prepend", "Insert", "Set"} {
				if strings.HasPrefix(n, pi.Struct+"."+op) && !strings.HasSuffix(n, "IRI") && !strings.HasSuffix(n, "Type") {
					if m := memRe.FindStringSubmatch(src(fd.Body)); m != nil {
						if byMember[m[1]] == nil {
							byMember[m[1]] = map[string]*ast.FuncDecl{}
						}
						if byMember[m[1]][op] != nil {
							errf("%s: two %s mutators assign %s", files[0], op, m[1])
						}
						byMember[m[1]][op] = fd
					}
				}
			}
		}
		for _, m := range pi.Members {
			if strings.HasPrefix(m.Field, "has") {
				continue
			}
			for _, op := range []string{"Append", "Prepend", "Insert", "Set"} {
				hit := byMember[m.Field][op]
				if hit == nil {
					errf("%s: no %s mutator for member %s", files[0], op, m.Field)
					continue
				}
				flag := ""
				body := normBody(hit, pi.Struct, iter, m.Field, m.Iface)
				// literal kinds also set a has<Kind>Member flag
				if fl := regexp.MustCompile(`\b(has\w+Member):\s+true,`).FindStringSubmatch(body); fl != nil {
					flag = fl[1]
					body = strings.ReplaceAll(body, flag, "FLAG")
				}
				body = regexp.MustCompile(`func \(this \*PROP\) `+op+`\w+\(`).ReplaceAllString(body, "func (this *PROP) "+op+"K(")
				key := op + "K"
				if flag != "" {
					key = op + "L"
				}
				h := hash(canon(body))
				if old, ok := pi.Shapes[key]; ok && old != h {
					errf("%s: %s mutators of different kinds differ in shape (%s)", files[0], op, m.Field)
				}
				pi.Shapes[key] = h
			}
		}
	} else {
		if fd := fs[pi.Struct+".Clear"]; fd != nil {
			body := src(fd.Body)
			checkClear(files[0], body, pi.Members)
			if !strings.Contains(body, "this.unknown = nil") {
				errf("%s: Clear misses unknown", files[0])
			}
			if strings.Contains(src(sts[pi.Struct]), "iri ") && !strings.Contains(body, "this.iri = nil") {
				errf("%s: Clear misses iri", files[0])
			}
		} else {
			errf("%s: no Clear", files[0])
		}
		// every Set* must call this.Clear() first
		for n, fd := range fs {
			if strings.HasPrefix(n, pi.Struct+".Set") && n != pi.Struct+".SetType" && n != pi.Struct+".SetLanguage" {
				if len(fd.Body.List) == 0 || src(fd.Body.List[0]) != "this.Clear()" {
					errf("%s: %s does not start with Clear()", files[0], n)
				}
			}
		}
	}
	out.Props = append(out.Props, pi)
}

func doResolvers(root string) {
	out.Resolvers = map[string][]ChainEntry{}
	out.CtorCases = map[string][]string{}
	// JSON resolver
	if f := parse(filepath.Join(root, "gen_json_resolver.go")); f != nil {
		fs := funcs(f)
		body := src(fs["JSONResolver.Resolve"].Body)
		re := regexp.MustCompile(`typeString == (\w+)Alias\+"(\w+)" \{\s*v, err := mgr\.(\w+)\(\)\(m, aliasMap\)\s*if err != nil \{\s*return err\s*\}\s*for _, i := range this\.callbacks \{\s*if fn, ok := i\.\(func\(context\.Context, (vocab\.\w+)\) error\); ok \{\s*return fn\(ctx, v\)\s*\}\s*\}\s*return ErrNoCallbackMatch\s*\}`)
		for _, m := range re.FindAllStringSubmatch(body, -1) {
			out.Resolvers["json"] = append(out.Resolvers["json"], ChainEntry{Vocab: m[1], Name: m[2], Deser: m[3], Cb: m[4]})
		}
		out.JsonAlias = map[string][]string{}
		reA := regexp.MustCompile(`(\w+)Alias, ok := aliasMap\["([^"]+)"\]\s*if !ok \{\s*(\w+)Alias = aliasMap\["([^"]+)"\]\s*\}\s*if len\((\w+)Alias\) > 0 \{\s*(\w+)Alias \+= ":"\s*\}`)
		for _, m := range reA.FindAllStringSubmatch(body, -1) {
			if m[1] != m[3] || m[1] != m[5] || m[1] != m[6] {
				errf("json resolver: alias block mixes variables %v", m[1:])
			}
			out.JsonAlias[m[1]] = []string{m[2], m[4]}
		}
		if strings.Count(body, "Alias, ok := aliasMap[") != len(out.JsonAlias) {
			errf("json resolver: alias blocks not all recognised")
		}
		if n := strings.Count(body, "typeString == "); n != len(out.Resolvers["json"]) {
			errf("json resolver: %d chain tests but %d recognised", n, len(out.Resolvers["json"]))
		}
		if !strings.Contains(body, "} else {\n\t\t\treturn ErrUnhandledType\n\t\t}") {
			errf("json resolver: chain does not end in ErrUnhandledType")
		}
		out.CtorCases["json"] = ctorCases(fs["NewJSONResolver"])
	}
	if f := parse(filepath.Join(root, "gen_type_resolver.go")); f != nil {
		fs := funcs(f)
		body := src(fs["TypeResolver.Resolve"].Body)
		re := regexp.MustCompile(`o\.VocabularyURI\(\) == "([^"]+)" && o\.GetTypeName\(\) == "(\w+)" \{\s*if fn, ok := i\.\(func\(context\.Context, (vocab\.\w+)\) error\); ok \{\s*if v, ok := o\.\((vocab\.\w+)\); ok \{\s*return fn\(ctx, v\)\s*\} else \{\s*return errCannotTypeAssertType\s*\}\s*\}\s*\}`)
		for _, m := range re.FindAllStringSubmatch(body, -1) {
			out.Resolvers["type"] = append(out.Resolvers["type"], ChainEntry{Vocab: m[1], Name: m[2], Cb: m[3], Cast: m[4]})
		}
		if n := strings.Count(body, "o.VocabularyURI() == "); n != len(out.Resolvers["type"]) {
			errf("type resolver: %d chain tests but %d recognised", n, len(out.Resolvers["type"]))
		}
		if !regexp.MustCompile(`\} else \{\s*return ErrUnhandledType\s*\}\s*\}\s*return ErrNoCallbackMatch\s*\}$`).MatchString(body) {
			errf("type resolver: tail shape")
		}
		out.CtorCases["type"] = ctorCases(fs["NewTypeResolver"])
	}
	if f := parse(filepath.Join(root, "gen_type_predicated_resolver.go")); f != nil {
		fs := funcs(f)
		body := src(fs["TypePredicatedResolver.Apply"].Body)
		re := regexp.MustCompile(`o\.VocabularyURI\(\) == "([^"]+)" && o\.GetTypeName\(\) == "(\w+)" \{\s*if fn, ok := this\.predicate\.\(func\(context\.Context, (vocab\.\w+)\) \(bool, error\)\); ok \{\s*if v, ok := o\.\((vocab\.\w+)\); ok \{\s*predicatePasses, err = fn\(ctx, v\)\s*\} else \{\s*return false, errCannotTypeAssertType\s*\}\s*\} else \{\s*return false, ErrPredicateUnmatched\s*\}\s*\}`)
		for _, m := range re.FindAllStringSubmatch(body, -1) {
			out.Resolvers["pred"] = append(out.Resolvers["pred"], ChainEntry{Vocab: m[1], Name: m[2], Cb: m[3], Cast: m[4]})
		}
		if n := strings.Count(body, "o.VocabularyURI() == "); n != len(out.Resolvers["pred"]) {
			errf("pred resolver: %d chain tests but %d recognised", n, len(out.Resolvers["pred"]))
		}
		if !regexp.MustCompile(`\} else \{\s*return false, ErrUnhandledType\s*\}\s*if err != nil \{\s*return predicatePasses, err\s*\}\s*if predicatePasses \{\s*return true, this\.delegate\.Resolve\(ctx, o\)\s*\} else \{\s*return false, nil\s*\}\s*\}$`).MatchString(body) {
			errf("pred resolver: tail shape")
		}
		out.CtorCases["pred"] = ctorCases(fs["NewTypePredicatedResolver"])
	}
	if f := parse(filepath.Join(root, "gen_resolver_utils.go")); f != nil {
		fs := funcs(f)
		if fd := fs["IsUnmatchedErr"]; fd != nil {
			re := regexp.MustCompile(`err == (\w+)`)
			for _, m := range re.FindAllStringSubmatch(src(fd.Body), -1) {
				out.Unmatched = append(out.Unmatched, m[1])
			}
			if strings.Contains(src(fd.Body), "&&") || strings.Contains(src(fd.Body), "!") {
				errf("IsUnmatchedErr: shape")
			}
		}
		if fd := fs["ToType"]; fd != nil {
			re := regexp.MustCompile(`func\(ctx context\.Context, i (vocab\.\w+)\) error \{\s*t = i\s*return nil\s*\}`)
			for _, m := range re.FindAllStringSubmatch(src(fd.Body), -1) {
				out.ToTypeCbs = append(out.ToTypeCbs, m[1])
			}
			if strings.Count(src(fd.Body), "func(ctx") != len(out.ToTypeCbs) {
				errf("ToType: callback shape")
			}
		}
	}
}

func ctorCases(fd *ast.FuncDecl) []string {
	var res []string
	if fd == nil {
		errf("constructor missing")
		return nil
	}
	ast.Inspect(fd, func(n ast.Node) bool {
		if cc, ok := n.(*ast.CaseClause); ok {
			for _, e := range cc.List {
				res = append(res, src(e))
			}
		}
		return true
	})
	return res
}

func doPkgPreds(root string) {
	out.PkgPreds = map[string]string{}
	files, _ := filepath.Glob(filepath.Join(root, "gen_pkg_*_*.go"))
	re := regexp.MustCompile(`^\{\s*return (\w+\.\w+)\(other\)\s*\}$`)
	for _, p := range files {
		b := filepath.Base(p)
		if !(strings.HasSuffix(b, "_disjoint.go") || strings.HasSuffix(b, "_extendedby.go") || strings.HasSuffix(b, "_extends.go") || strings.HasSuffix(b, "_isorextends.go")) {
			continue
		}
		f := parse(p)
		if f == nil {
			continue
		}
		for n, fd := range funcs(f) {
			if m := re.FindStringSubmatch(src(fd.Body)); m != nil {
				out.PkgPreds[n] = m[1]
			} else {
				errf("%s: %s shape", b, n)
			}
		}
	}
}

func doManager(root string) {
	out.MgrMethods = map[string]string{}
	f := parse(filepath.Join(root, "gen_manager.go"))
	if f == nil {
		return
	}
	imports := map[string]string{}
	for _, im := range f.Imports {
		p, _ := strconv.Unquote(im.Path.Value)
		alias := filepath.Base(p)
		if im.Name != nil {
			alias = im.Name.Name
		}
		if i := strings.Index(p, "/streams/"); i >= 0 {
			p = p[i+len("/streams/"):]
		}
		imports[alias] = p
	}
	re := regexp.MustCompile(`i, err := (\w+)\.(\w+)\(m, aliasMap\)`)
	for n, fd := range funcs(f) {
		if !strings.HasPrefix(n, "Manager.Deserialize") {
			continue
		}
		if m := re.FindStringSubmatch(src(fd.Body)); m != nil {
			out.MgrMethods[strings.TrimPrefix(n, "Manager.")] = imports[m[1]] + "." + m[2]
		} else {
			errf("manager: %s shape", n)
		}
	}
}

func main() {
	if len(os.Args) < 2 {
		fmt.Fprintln(os.Stderr, "usage: t2 <repo-root>")
		os.Exit(2)
	}
	root := filepath.Join(os.Args[1], "streams")
	dirs, _ := filepath.Glob(filepath.Join(root, "impl", "*", "*"))
	sort.Strings(dirs)
	for _, d := range dirs {
		b := filepath.Base(d)
		if strings.HasPrefix(b, "type_") {
			doType(d)
		} else if strings.HasPrefix(b, "property_") {
			doProp(d)
		}
	}
	doResolvers(root)
	doPkgPreds(root)
	doManager(root)
	if out.Errors == nil {
		out.Errors = []string{}
	}
	enc := json.NewEncoder(os.Stdout)
	enc.SetIndent("", " ")
	enc.Encode(out)
}
