#!/usr/bin/env python3
"""T1: read the four shipped vocabulary files with plain json (nothing shared
with astool's RDF parser) and write what they *declare*:
types (subClassOf, disjointWith, typeless) and properties (domain, range,
functional, withheld-from).  usage: t1_ontology.py <repo> <out.json>"""
import json, sys, os

FILES = ["activitystreams.jsonld", "security-v1.jsonld", "toot.jsonld", "forgefed.jsonld"]
# an extension vocabulary layered on the shipped ones (C15)
FILES = FILES + [f for f in os.environ.get("T1_EXTRA", "").split(",") if f]


def aslist(x):
    if x is None:
        return []
    return x if isinstance(x, list) else [x]


def local(name):
    # "as:Object" -> "Object"; "xsd:string" stays (literal kinds keep prefix)
    if ":" in name:
        pfx, rest = name.split(":", 1)
        if pfx in ("xsd", "rdf", "rfc", "owl", "rdfs", "schema"):
            return name
        return rest
    return name


def refs(x):
    """names referenced by a subClassOf/disjointWith/domain/range/without value"""
    out = []
    for e in aslist(x):
        if isinstance(e, str):
            out.append(local(e))
        elif isinstance(e, dict):
            if "unionOf" in e:
                out += refs(e["unionOf"])
            elif "name" in e:
                out.append(local(e["name"]))
            else:
                raise SystemExit("T1: reference without name: %r" % (e,))
        else:
            raise SystemExit("T1: odd reference %r" % (e,))
    return out


def main():
    repo, outp = sys.argv[1], sys.argv[2]
    vocabs, types, props, examples = [], [], [], []
    for fn in FILES:
        d = json.load(open(os.path.join(repo, "astool", fn)))
        vname, uri = d["name"], d["id"]
        vocabs.append({"name": vname, "uri": uri, "file": fn})
        members = []
        if "sections" in d:
            for sec in d["sections"].values():
                members += sec["members"]
        else:
            members = d["members"]
        for m in members:
            t = aslist(m["type"])
            for ex in aslist(m.get("example")):
                if isinstance(ex, dict) and "mainEntity" in ex:
                    examples.append(ex["mainEntity"])
            if "owl:Class" in t:
                types.append({
                    "name": m["name"], "vocab": vname, "uri": uri,
                    "parents": refs(m.get("subClassOf")),
                    "disjoint": refs(m.get("disjointWith")),
                    "typeless": bool(m.get("@wtf_typeless", False)),
                })
            elif "rdf:Property" in t:
                props.append({
                    "name": m["name"], "vocab": vname, "uri": uri,
                    "functional": "owl:FunctionalProperty" in t,
                    "domain": refs(m.get("domain")),
                    "range": refs(m.get("range")),
                    "without": refs(m.get("@wtf_without_property")),
                })
            else:
                raise SystemExit("T1: member %r is neither class nor property" % m.get("name"))
    json.dump({"vocabs": vocabs, "types": types, "props": props, "examples": examples},
              open(outp, "w"), indent=1, sort_keys=True)


if __name__ == "__main__":
    main()
