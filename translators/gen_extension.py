#!/usr/bin/env python3
"""A random well-formed extension vocabulary layered on ActivityStreams (C15).
usage: gen_extension.py <seed> <out.jsonld>
1..6 new types extending random existing or new types (multiple parents allowed), 1..8 new properties with random
domains, ranges mixing types and literal kinds, functional or not, with or without a withheld-from list naming the
extension's own types; all new names distinct from existing ones."""
import json, random, sys

AS_TYPES = ["Object", "Activity", "Note", "Collection", "Link", "Person", "Create", "Document", "Place", "IntransitiveActivity", "Question", "Image"]
LITERALS = ["xsd:string", "xsd:boolean", "xsd:nonNegativeInteger", "xsd:dateTime", "xsd:anyURI", "xsd:duration", "xsd:float"]


def ref(name, ext):
    if name in ext:
        return {"type": "owl:Class", "url": "http://ext.example/ns#" + name, "name": name}
    return {"type": "owl:Class", "url": "https://www.w3.org/ns/activitystreams#" + name, "name": "as:" + name}


def main():
    seed, out = int(sys.argv[1]), sys.argv[2]
    r = random.Random(seed)
    nt, npr = r.randint(1, 6), r.randint(1, 8)
    tnames = ["Ext%sT%d" % (chr(65 + seed % 26), i) for i in range(nt)]
    pnames = ["ext%sP%d" % (chr(97 + seed % 26), i) for i in range(npr)]
    members = []
    for i, tn in enumerate(tnames):
        pool = AS_TYPES + tnames[:i]
        parents = r.sample(pool, 1 if r.random() < 0.7 else min(2, len(pool)))
        # Link and Object are disjoint: never extend both sides
        if any(p == "Link" for p in parents):
            parents = ["Link"]
        sub = [ref(p, tnames) for p in parents]
        members.append({"id": "http://ext.example/ns#" + tn, "type": "owl:Class", "subClassOf": sub if len(sub) > 1 else sub[0],
                        "disjointWith": [], "name": tn, "url": "http://ext.example/doc#" + tn, "notes": "A generated type."})
    for i, pn in enumerate(pnames):
        dom = [ref(t, tnames) for t in r.sample(AS_TYPES[:4] + tnames, r.randint(1, min(3, 4 + nt)))]
        rng = []
        for _ in range(r.randint(1, 3)):
            if r.random() < 0.5:
                lit = r.choice(LITERALS)
                if lit not in rng:
                    rng.append(lit)
            else:
                t = ref(r.choice(AS_TYPES[:6] + tnames), tnames)
                if t not in rng:
                    rng.append(t)
        # a natural-language property is exactly {xsd:string, rdf:langString} (as name/summary/content are)
        if r.random() < 0.2:
            rng = ["xsd:string", "rdf:langString"]
        ty = ["rdf:Property"] + (["owl:FunctionalProperty"] if r.random() < 0.5 else [])
        m = {"id": "http://ext.example/ns#" + pn, "type": ty if len(ty) > 1 else ty[0],
             "domain": {"type": "owl:Class", "unionOf": dom}, "range": {"type": "owl:Class", "unionOf": rng if len(rng) > 1 else rng[0]},
             "name": pn, "url": "http://ext.example/doc#" + pn, "notes": "A generated property.", "example": {}}
        if tnames and r.random() < 0.3:
            m["@wtf_without_property"] = [ref(r.choice(tnames), tnames)]
        members.append(m)
    doc = {"@context": [
        {"as": "https://www.w3.org/ns/activitystreams", "owl": "http://www.w3.org/2002/07/owl#", "rdf": "http://www.w3.org/1999/02/22-rdf-syntax-ns#",
         "rdfs": "http://www.w3.org/2000/01/rdf-schema#", "rfc": "https://tools.ietf.org/html/", "schema": "http://schema.org/", "xsd": "http://www.w3.org/2001/XMLSchema#"},
        {"domain": "rdfs:domain", "example": "schema:workExample", "isDefinedBy": "rdfs:isDefinedBy", "mainEntity": "schema:mainEntity", "members": "owl:members",
         "name": "schema:name", "notes": "rdfs:comment", "range": "rdfs:range", "subClassOf": "rdfs:subClassOf", "disjointWith": "owl:disjointWith",
         "subPropertyOf": "rdfs:subPropertyOf", "unionOf": "owl:unionOf", "url": "schema:URL"}],
        "id": "http://ext.example/ns#", "type": "owl:Ontology", "name": "ExtVocab", "members": members}
    json.dump(doc, open(out, "w"), indent=1)


if __name__ == "__main__":
    main()
