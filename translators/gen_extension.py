#!/usr/bin/env python3
"""A random well-formed extension vocabulary layered on ActivityStreams (C15).
usage: gen_extension.py <seed> <out.jsonld>
1..6 new types extending random existing or new types (multiple parents allowed), 1..8 new properties with random
domains, ranges mixing types and literal kinds, functional or not, with or without a withheld-from list naming the
extension's own types; all new names distinct from existing ones."""
import json, random, sys

AS_TYPES = ["Object", "Activity", "Note", "Collection", "Link", "Person", "Create", "Document", "Place", "IntransitiveActivity", "Question", "Image"]  # (the structured mode also uses Event)
LITERALS = ["xsd:string", "xsd:boolean", "xsd:nonNegativeInteger", "xsd:dateTime", "xsd:anyURI", "xsd:duration", "xsd:float"]


CONTEXT = [
    {"as": "https://www.w3.org/ns/activitystreams", "owl": "http://www.w3.org/2002/07/owl#", "rdf": "http://www.w3.org/1999/02/22-rdf-syntax-ns#",
     "rdfs": "http://www.w3.org/2000/01/rdf-schema#", "rfc": "https://tools.ietf.org/html/", "schema": "http://schema.org/", "xsd": "http://www.w3.org/2001/XMLSchema#"},
    {"domain": "rdfs:domain", "example": "schema:workExample", "isDefinedBy": "rdfs:isDefinedBy", "mainEntity": "schema:mainEntity", "members": "owl:members",
     "name": "schema:name", "notes": "rdfs:comment", "range": "rdfs:range", "subClassOf": "rdfs:subClassOf", "disjointWith": "owl:disjointWith",
     "subPropertyOf": "rdfs:subPropertyOf", "unionOf": "owl:unionOf", "url": "schema:URL"}]


def ref(name, ext):
    if name in ext:
        return {"type": "owl:Class", "url": "http://ext.example/ns#" + name, "name": name}
    return {"type": "owl:Class", "url": "https://www.w3.org/ns/activitystreams#" + name, "name": "as:" + name}


def structured(seed, out):
    """Directed shapes the random generator rarely hits: types with several parents mixing the extension's own types
    and ActivityStreams types (an ancestor named before or after one of its descendants), a property withheld from an own
    type that another type reaches the property's domain through as well."""
    r = random.Random(seed)
    L = chr(65 + seed % 26)
    A, B, V, C, D, V2, C2, C3, C4 = ["Ext%sS%d" % (L, i) for i in range(9)]
    own = [A, B, V, C, D, V2, C2, C3, C4]
    x = r.choice(["Image", "Place", "Document", "Note"])
    def cls(tn, parents):
        sub = [ref(p, own) for p in parents]
        return {"id": "http://ext.example/ns#" + tn, "type": "owl:Class", "subClassOf": sub if len(sub) > 1 else sub[0],
                "disjointWith": [], "name": tn, "url": "http://ext.example/doc#" + tn, "notes": "A generated type."}
    def order(ps):
        ps = list(ps)
        if r.random() < 0.5:
            ps.reverse()
        return ps
    # every order of "an ancestor and one of its descendants" as parents, reached before and after a sibling parent
    members = [cls(A, ["Object"]), cls(B, order([A, x])), cls(V, ["Object", "Place"]), cls(V2, ["Place", "Object"]),
               cls(C, ["Event", V]), cls(C2, [V2, "Event"]), cls(C3, ["Event", V2]), cls(C4, [V, "Event"]),
               cls(D, order([V, "Event", A]) if r.random() < 0.5 else order([B, V2]))]
    def prop(pn, dom, rng, functional, withheld=None):
        ty = ["rdf:Property"] + (["owl:FunctionalProperty"] if functional else [])
        m = {"id": "http://ext.example/ns#" + pn, "type": ty if len(ty) > 1 else ty[0],
             "domain": {"type": "owl:Class", "unionOf": [ref(t, own) for t in dom]},
             "range": {"type": "owl:Class", "unionOf": rng if len(rng) > 1 else rng[0]},
             "name": pn, "url": "http://ext.example/doc#" + pn, "notes": "A generated property.", "example": {}}
        if withheld:
            m["@wtf_without_property"] = [ref(t, own) for t in withheld]
        return m
    l = chr(97 + seed % 26)
    members += [prop("ext%sQ0" % l, ["Object"], ["xsd:boolean"], True, [A]),
                prop("ext%sQ1" % l, [A], ["xsd:string"], r.random() < 0.5),
                prop("ext%sQ2" % l, ["Place"], ["xsd:float"], True, [V] if r.random() < 0.4 else None),
                prop("ext%sQ3" % l, [V, "Event"], [ref(A, own), "xsd:anyURI"], False)]
    # this mode spells the ActivityStreams namespace with http (the random mode with https): the same vocabulary
    ctx = [dict(CONTEXT[0], **{"as": "http://www.w3.org/ns/activitystreams"}), CONTEXT[1]]
    doc = {"@context": ctx, "id": "http://ext.example/ns#", "type": "owl:Ontology", "name": "ExtVocab", "members": members}
    json.dump(doc, open(out, "w"), indent=1)


def main():
    seed, out = int(sys.argv[1]), sys.argv[2]
    if len(sys.argv) > 3 and sys.argv[3] == "structured":
        return structured(seed, out)
    r = random.Random(seed)
    nt, npr = r.randint(1, 6), r.randint(1, 8)
    tnames = ["Ext%sT%d" % (chr(65 + seed % 26), i) for i in range(nt)]
    pnames = ["ext%sP%d" % (chr(97 + seed % 26), i) for i in range(npr)]
    members = []
    for i, tn in enumerate(tnames):
        pool = AS_TYPES + tnames[:i]
        parents = r.sample(pool, 1 if r.random() < 0.7 else min(2, len(pool)))
        # Link and Object are disjoint: never extend both sides
        if any(p == "Link" for p in parents):
            parents = ["Link"]
        sub = [ref(p, tnames) for p in parents]
        members.append({"id": "http://ext.example/ns#" + tn, "type": "owl:Class", "subClassOf": sub if len(sub) > 1 else sub[0],
                        "disjointWith": [], "name": tn, "url": "http://ext.example/doc#" + tn, "notes": "A generated type."})
    for i, pn in enumerate(pnames):
        dom = [ref(t, tnames) for t in r.sample(AS_TYPES[:4] + tnames, r.randint(1, min(3, 4 + nt)))]
        rng = []
        for _ in range(r.randint(1, 3)):
            if r.random() < 0.5:
                lit = r.choice(LITERALS)
                if lit not in rng:
                    rng.append(lit)
            else:
                t = ref(r.choice(AS_TYPES[:6] + tnames), tnames)
                if t not in rng:
                    rng.append(t)
        # a natural-language property is exactly {xsd:string, rdf:langString} (as name/summary/content are)
        if r.random() < 0.2:
            rng = ["xsd:string", "rdf:langString"]
        ty = ["rdf:Property"] + (["owl:FunctionalProperty"] if r.random() < 0.5 else [])
        m = {"id": "http://ext.example/ns#" + pn, "type": ty if len(ty) > 1 else ty[0],
             "domain": {"type": "owl:Class", "unionOf": dom}, "range": {"type": "owl:Class", "unionOf": rng if len(rng) > 1 else rng[0]},
             "name": pn, "url": "http://ext.example/doc#" + pn, "notes": "A generated property.", "example": {}}
        if tnames and r.random() < 0.3:
            m["@wtf_without_property"] = [ref(r.choice(tnames), tnames)]
        members.append(m)
    doc = {"@context": CONTEXT,
        "id": "http://ext.example/ns#", "type": "owl:Ontology", "name": "ExtVocab", "members": members}
    json.dump(doc, open(out, "w"), indent=1)


if __name__ == "__main__":
    main()
