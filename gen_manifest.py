#!/usr/bin/env python3
"""Writes MANIFEST.json from props.py + manifest_meta.py (kept in sync by hand-run)."""
import json, sys, os
sys.path.insert(0, os.path.dirname(os.path.abspath(__file__)))
from props import PROPS
from manifest_meta import META, NOT_APPLICABLE, HOOK_COMMITS

checks = []
for pid in sorted(PROPS):
    m = META[pid]
    checks.append({
        "property_id": pid,
        "quick_cmd": f"./check {pid} --tier quick",
        "thorough_cmd": f"./check {pid} --tier thorough",
        "evidence_file": f"/verif/evidence/{pid}.json",
        "replay_cmd_template": f"./check {pid} --replay {{path}}",
        "engine": "lean4-av",
        "level_claimed": {"category": m["category"], "text": m["text"], "design_ref": m["design_ref"]},
        "level_note": m["note"],
        "technique": m["technique"],
    })
man = {
    "version": 1,
    "setup_cmd": "./setup.sh",
    "hooks": {
        "guard": "verif",
        "enable": "go build -tags verif (the harness module builds /repo's packages with the tag on)",
        "baseline_off_cmd": "cd /repo && go test -mod=mod -json -vet=off -count=1 -timeout 25m ./...",
        "source_commits": HOOK_COMMITS,
        "add_only": True,
    },
    "engines": [{
        "name": "lean4-av", "path": "/verif/lean",
        "serves_properties": sorted(PROPS),
        "kind_free_text": "Lean 4 library AV (models, specs, theorems) + tables regenerated from /repo by translators T1/T2 + Go correspondence harness piped through the compiled model driver avdrv",
    }],
    "checks": checks,
    "not_applicable": NOT_APPLICABLE,
    "notes": "See DESIGN.md. Every check rebuilds translators/harness against /repo's working tree, regenerates lean/AV/Gen, re-checks the theorems (lake build + axiom audit) and runs the correspondence.",
}
json.dump(man, open(os.path.join(os.path.dirname(os.path.abspath(__file__)), "MANIFEST.json"), "w"), indent=1)
print("MANIFEST.json:", len(checks), "checks,", len(NOT_APPLICABLE), "not applicable")
