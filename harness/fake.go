package main

import (
	"bytes"
	"context"
	"encoding/json"
	"errors"
	"fmt"
	"hash/fnv"
	"net/http"
	"net/url"
	"sort"
	"strings"
	"sync"
	"time"

	"github.com/go-fed/activity/pub"
	"github.com/go-fed/activity/streams"
	"github.com/go-fed/activity/streams/vocab"
)

// Fakes for every application interface of pub. Every call is recorded as a
// trace event {"c": name, "a": args, "r": response}; values are snapshotted at
// call time (Serialize -> JSON) and handed out as fresh copies, so the model's
// immutable values and Go's in-place mutation cannot be confused (DESIGN §2.3).

var errInjected = errors.New("injected fault")

type event struct {
	C string        `json:"c"`
	A []interface{} `json:"a"`
	R interface{}   `json:"r"`
}

type world struct {
	mu     sync.Mutex
	spec   J // the scenario's world description
	trace  []event
	nFall  int // fallible calls so far
	fault  int // 1-based index of the fallible call that fails (0 = none)
	faults map[int]bool
	// mutable state (a well-behaved store)
	store       map[string]J
	inboxes     map[string]J
	outboxes    map[string]J
	followers   map[string]J
	following   map[string]J
	liked       map[string]J
	exists      map[string]bool
	newIDs      []string
	nextID      int
	genSeen     map[string]int
	held        map[string]int
	lockTrouble []string // lock-discipline problems seen by the store itself
	sched       *scheduler
	// C08: request index -> id whose next Lock by that request fails (the lock is then NOT taken)
	lockFaults map[int]string
	curReq     int // the request running (sequential runs)
	// arguments the application keeps after the call returned (a queueing transport, an audit log): what they were at
	// the call, and how to read them again later
	kept []keptArg
}

type keptArg struct {
	what string
	was  string
	live func() string
}

// keep remembers an argument handed to the application; keptTrouble reports those that changed after their call
func (w *world) keep(what string, live func() string) {
	w.mu.Lock()
	w.kept = append(w.kept, keptArg{what: what, was: live(), live: live})
	w.mu.Unlock()
}

func (w *world) keptTrouble() []interface{} {
	w.mu.Lock()
	defer w.mu.Unlock()
	var out []interface{}
	for _, k := range w.kept {
		if now := k.live(); now != k.was {
			out = append(out, fmt.Sprintf("%s was %s at the call and reads %s afterwards", k.what, k.was, now))
		}
	}
	return out
}

func jmap(x interface{}) J {
	if m, ok := x.(map[string]interface{}); ok {
		return m
	}
	return J{}
}

func jstrs(x interface{}) []string {
	var out []string
	if l, ok := x.([]interface{}); ok {
		for _, e := range l {
			if s, ok := e.(string); ok {
				out = append(out, s)
			}
		}
	}
	return out
}

func deepCopy(x interface{}) interface{} {
	b, _ := json.Marshal(x)
	var y interface{}
	json.Unmarshal(b, &y)
	return y
}

func newWorld(spec J, fault int) *world {
	w := &world{spec: spec, fault: fault, store: map[string]J{}, inboxes: map[string]J{}, outboxes: map[string]J{},
		followers: map[string]J{}, following: map[string]J{}, liked: map[string]J{}, exists: map[string]bool{}, held: map[string]int{}, faults: map[int]bool{}}
	for k, v := range jmap(spec["store"]) {
		w.store[k] = jmap(deepCopy(v))
	}
	for k, v := range jmap(spec["inboxes"]) {
		w.inboxes[k] = jmap(deepCopy(v))
	}
	for k, v := range jmap(spec["outboxes"]) {
		w.outboxes[k] = jmap(deepCopy(v))
	}
	for k, v := range jmap(spec["followers"]) {
		w.followers[k] = jmap(deepCopy(v))
	}
	for k, v := range jmap(spec["following"]) {
		w.following[k] = jmap(deepCopy(v))
	}
	for k, v := range jmap(spec["liked"]) {
		w.liked[k] = jmap(deepCopy(v))
	}
	for _, k := range jstrs(spec["exists"]) {
		w.exists[k] = true
	}
	w.newIDs = jstrs(spec["newIds"])
	if l, ok := spec["faults"].([]interface{}); ok {
		for _, f := range l {
			if n, ok := f.(float64); ok {
				w.faults[int(n)] = true
			}
		}
	}
	return w
}

func us(u *url.URL) interface{} {
	if u == nil {
		return "<nil>"
	}
	return u.String()
}

func uss(us_ []*url.URL) []interface{} {
	out := []interface{}{}
	for _, u := range us_ {
		out = append(out, us(u))
	}
	return out
}

// snap: the member map of a value at this moment, without @context
func snap(v vocab.Type) interface{} {
	if v == nil || isNilValueIface(v) {
		return nil
	}
	m, err := v.Serialize()
	if err != nil {
		return J{"__serializeError": err.Error()}
	}
	return stripContext(deepCopy(m))
}

// @context (top-level and nested) is C01's business; pub never looks at it
func stripContext(x interface{}) interface{} {
	switch v := x.(type) {
	case map[string]interface{}:
		delete(v, "@context")
		for k, e := range v {
			v[k] = stripContext(e)
		}
		return v
	case []interface{}:
		for i, e := range v {
			v[i] = stripContext(e)
		}
		return v
	}
	return x
}

func isNilValueIface(v interface{}) bool {
	defer func() { recover() }()
	return v == nil
}

// mkValue builds a fresh typed value from a stored member map
func mkValue(doc J) (vocab.Type, error) {
	m := jmap(deepCopy(doc))
	if _, ok := m["@context"]; !ok {
		m["@context"] = allCtx
	}
	return streams.ToType(context.Background(), m)
}

func (w *world) yield(name string) {
	if w.sched != nil {
		w.sched.yield(name)
	}
}

// record a call; fallible calls may be made to fail here
func (w *world) call(name string, fallible bool, args ...interface{}) (fail bool) {
	w.yield(name)
	w.mu.Lock()
	defer w.mu.Unlock()
	if fallible {
		w.nFall++
		if w.nFall == w.fault || w.faults[w.nFall] {
			fail = true
		}
	}
	w.trace = append(w.trace, event{C: name, A: args})
	return
}

func (w *world) resp(r interface{}) {
	w.mu.Lock()
	defer w.mu.Unlock()
	w.trace[len(w.trace)-1].R = deepCopy(r)
}

func okR(v interface{}) J      { return J{"ok": v} }
func errR() J                  { return J{"err": "injected"} }
func (w *world) failed() error { w.resp(errR()); return errInjected }

// ---------------------------------------------------------------- Database

type fakeDB struct{ w *world }

func (d fakeDB) Lock(c context.Context, id *url.URL) error {
	if d.w.call("lock", true, us(id)) {
		return d.w.failed()
	}
	if d.w.lockFaults != nil {
		req := d.w.curReq
		if d.w.sched != nil {
			d.w.sched.mu.Lock()
			if me, ok := d.w.sched.me(); ok {
				req = me
			}
			d.w.sched.mu.Unlock()
		}
		d.w.mu.Lock()
		k, hit := d.w.lockFaults[req]
		if hit && k == fmt.Sprint(us(id)) {
			delete(d.w.lockFaults, req)
		} else {
			hit = false
		}
		d.w.mu.Unlock()
		if hit {
			return d.w.failed()
		}
	}
	if d.w.sched != nil {
		d.w.sched.acquire(fmt.Sprint(us(id)))
	}
	d.w.mu.Lock()
	k := fmt.Sprint(us(id))
	if d.w.held[k] > 0 && d.w.sched == nil {
		d.w.lockTrouble = append(d.w.lockTrouble, "relock "+k)
	}
	d.w.held[k]++
	d.w.mu.Unlock()
	d.w.resp(okR(nil))
	return nil
}

func (d fakeDB) Unlock(c context.Context, id *url.URL) error {
	d.w.call("unlock", false, us(id))
	d.w.mu.Lock()
	k := fmt.Sprint(us(id))
	if d.w.held[k] <= 0 {
		d.w.lockTrouble = append(d.w.lockTrouble, "unlock-unheld "+k)
	} else {
		d.w.held[k]--
	}
	d.w.mu.Unlock()
	if d.w.sched != nil {
		d.w.sched.release(k)
	}
	if d.w.spec["unlockFails"] == true {
		// the lock is released, yet the application reports an error: nothing in the library depends on Unlock's result
		return d.w.failed()
	}
	d.w.resp(okR(nil))
	return nil
}

func pageItems(page J) []interface{} {
	switch v := page["orderedItems"].(type) {
	case []interface{}:
		return v
	case nil:
		return nil
	default:
		return []interface{}{v}
	}
}

func (d fakeDB) InboxContains(c context.Context, inbox, id *url.URL) (bool, error) {
	if d.w.call("inboxContains", true, us(inbox), us(id)) {
		return false, d.w.failed()
	}
	d.w.mu.Lock()
	found := false
	for _, it := range pageItems(d.w.inboxes[fmt.Sprint(us(inbox))]) {
		if s, ok := it.(string); ok && s == fmt.Sprint(us(id)) {
			found = true
		}
	}
	d.w.mu.Unlock()
	d.w.resp(okR(found))
	return found, nil
}

func (d fakeDB) page(kind string, m map[string]J, key string) (vocab.ActivityStreamsOrderedCollectionPage, error) {
	d.w.mu.Lock()
	doc, ok := m[key]
	d.w.mu.Unlock()
	if !ok {
		doc = J{"type": "OrderedCollectionPage", "id": key}
	}
	v, err := mkValue(doc)
	if err != nil {
		return nil, d.w.failed()
	}
	p, ok := v.(vocab.ActivityStreamsOrderedCollectionPage)
	if !ok {
		return nil, d.w.failed()
	}
	d.w.resp(okR(snap(p)))
	return p, nil
}

func (d fakeDB) GetInbox(c context.Context, inboxIRI *url.URL) (vocab.ActivityStreamsOrderedCollectionPage, error) {
	if d.w.call("getInbox", true, us(inboxIRI)) {
		return nil, d.w.failed()
	}
	return d.page("inbox", d.w.inboxes, fmt.Sprint(us(inboxIRI)))
}

func (d fakeDB) SetInbox(c context.Context, inbox vocab.ActivityStreamsOrderedCollectionPage) error {
	s := snap(inbox)
	if d.w.call("setInbox", true, s) {
		return d.w.failed()
	}
	d.w.mu.Lock()
	if id, ok := jmap(s)["id"].(string); ok {
		d.w.inboxes[id] = jmap(s)
	}
	d.w.mu.Unlock()
	d.w.resp(okR(nil))
	return nil
}

func (d fakeDB) Owns(c context.Context, id *url.URL) (bool, error) {
	if d.w.call("owns", true, us(id)) {
		return false, d.w.failed()
	}
	owns := false
	for _, o := range jstrs(d.w.spec["owned"]) {
		if o == fmt.Sprint(us(id)) {
			owns = true
		}
	}
	d.w.resp(okR(owns))
	return owns, nil
}

func (d fakeDB) mapped(name, key string, id *url.URL) (*url.URL, error) {
	if d.w.call(name, true, us(id)) {
		return nil, d.w.failed()
	}
	s, ok := jmap(d.w.spec[key])[fmt.Sprint(us(id))].(string)
	if !ok {
		return nil, d.w.failed()
	}
	u, err := url.Parse(s)
	if err != nil {
		return nil, d.w.failed()
	}
	d.w.resp(okR(s))
	return u, nil
}

func (d fakeDB) ActorForOutbox(c context.Context, outboxIRI *url.URL) (*url.URL, error) {
	return d.mapped("actorForOutbox", "actorForOutbox", outboxIRI)
}
func (d fakeDB) ActorForInbox(c context.Context, inboxIRI *url.URL) (*url.URL, error) {
	return d.mapped("actorForInbox", "actorForInbox", inboxIRI)
}
func (d fakeDB) OutboxForInbox(c context.Context, inboxIRI *url.URL) (*url.URL, error) {
	return d.mapped("outboxForInbox", "outboxForInbox", inboxIRI)
}

func (d fakeDB) InboxForActor(c context.Context, actorIRI *url.URL) (*url.URL, error) {
	if d.w.call("inboxForActor", true, us(actorIRI)) {
		return nil, d.w.failed()
	}
	s, ok := jmap(d.w.spec["inboxFor"])[fmt.Sprint(us(actorIRI))].(string)
	if !ok {
		d.w.resp(okR(nil))
		return nil, nil
	}
	u, _ := url.Parse(s)
	d.w.resp(okR(s))
	return u, nil
}

func (d fakeDB) Exists(c context.Context, id *url.URL) (bool, error) {
	if d.w.call("exists", true, us(id)) {
		return false, d.w.failed()
	}
	d.w.mu.Lock()
	k := fmt.Sprint(us(id))
	_, inStore := d.w.store[k]
	ex := d.w.exists[k] || inStore
	d.w.mu.Unlock()
	d.w.resp(okR(ex))
	return ex, nil
}

func (d fakeDB) Get(c context.Context, id *url.URL) (vocab.Type, error) {
	if d.w.call("get", true, us(id)) {
		return nil, d.w.failed()
	}
	d.w.mu.Lock()
	doc, ok := d.w.store[fmt.Sprint(us(id))]
	d.w.mu.Unlock()
	if !ok {
		if d.w.spec["getMissing"] == "nil" {
			d.w.resp(okR(nil))
			return nil, nil
		}
		return nil, d.w.failed()
	}
	v, err := mkValue(doc)
	if err != nil {
		return nil, d.w.failed()
	}
	d.w.resp(okR(snap(v)))
	return v, nil
}

func (d fakeDB) put(name string, v vocab.Type) error {
	s := snap(v)
	if d.w.call(name, true, s) {
		return d.w.failed()
	}
	d.w.mu.Lock()
	if id, ok := jmap(s)["id"].(string); ok {
		d.w.store[id] = jmap(s)
		// collections addressed by actor are kept in their own maps too
		for _, m := range []map[string]J{d.w.followers, d.w.following, d.w.liked} {
			for k, old := range m {
				if old["id"] == id {
					m[k] = jmap(s)
				}
			}
		}
	}
	d.w.mu.Unlock()
	d.w.resp(okR(nil))
	return nil
}

func (d fakeDB) Create(c context.Context, asType vocab.Type) error { return d.put("create", asType) }
func (d fakeDB) Update(c context.Context, asType vocab.Type) error { return d.put("update", asType) }

func (d fakeDB) Delete(c context.Context, id *url.URL) error {
	if d.w.call("delete", true, us(id)) {
		return d.w.failed()
	}
	d.w.mu.Lock()
	delete(d.w.store, fmt.Sprint(us(id)))
	d.w.mu.Unlock()
	d.w.resp(okR(nil))
	return nil
}

func (d fakeDB) GetOutbox(c context.Context, outboxIRI *url.URL) (vocab.ActivityStreamsOrderedCollectionPage, error) {
	if d.w.call("getOutbox", true, us(outboxIRI)) {
		return nil, d.w.failed()
	}
	return d.page("outbox", d.w.outboxes, fmt.Sprint(us(outboxIRI)))
}

func (d fakeDB) SetOutbox(c context.Context, outbox vocab.ActivityStreamsOrderedCollectionPage) error {
	s := snap(outbox)
	if d.w.call("setOutbox", true, s) {
		return d.w.failed()
	}
	d.w.mu.Lock()
	if id, ok := jmap(s)["id"].(string); ok {
		d.w.outboxes[id] = jmap(s)
	}
	d.w.mu.Unlock()
	d.w.resp(okR(nil))
	return nil
}

func (d fakeDB) NewID(c context.Context, t vocab.Type) (*url.URL, error) {
	if d.w.call("newID", true, snap(t)) {
		return nil, d.w.failed()
	}
	d.w.mu.Lock()
	var s string
	if d.w.nextID < len(d.w.newIDs) {
		s = d.w.newIDs[d.w.nextID]
	} else {
		// named after what is being identified (and how often that was seen), not after the order of the requests
		b, _ := json.Marshal(snap(t))
		h := fnv.New32a()
		h.Write(b)
		key := fmt.Sprintf("%08x", h.Sum32())
		if d.w.genSeen == nil {
			d.w.genSeen = map[string]int{}
		}
		s = fmt.Sprintf("https://gen.example/id/%s-%d", key, d.w.genSeen[key])
		d.w.genSeen[key]++
	}
	d.w.nextID++
	d.w.mu.Unlock()
	u, _ := url.Parse(s)
	d.w.resp(okR(s))
	return u, nil
}

func (d fakeDB) coll(name string, m map[string]J, actorIRI *url.URL) (vocab.ActivityStreamsCollection, error) {
	if d.w.call(name, true, us(actorIRI)) {
		return nil, d.w.failed()
	}
	d.w.mu.Lock()
	doc, ok := m[fmt.Sprint(us(actorIRI))]
	d.w.mu.Unlock()
	if !ok {
		return nil, d.w.failed()
	}
	v, err := mkValue(doc)
	if err != nil {
		return nil, d.w.failed()
	}
	col, ok := v.(vocab.ActivityStreamsCollection)
	if !ok {
		return nil, d.w.failed()
	}
	d.w.resp(okR(snap(col)))
	return col, nil
}

func (d fakeDB) Followers(c context.Context, a *url.URL) (vocab.ActivityStreamsCollection, error) {
	return d.coll("followers", d.w.followers, a)
}
func (d fakeDB) Following(c context.Context, a *url.URL) (vocab.ActivityStreamsCollection, error) {
	return d.coll("following", d.w.following, a)
}
func (d fakeDB) Liked(c context.Context, a *url.URL) (vocab.ActivityStreamsCollection, error) {
	return d.coll("liked", d.w.liked, a)
}

// ---------------------------------------------------------------- Transport

type fakeTransport struct{ w *world }

// classify bytes the way the library will see them
func classifyDoc(b []byte) J {
	var m map[string]interface{}
	if err := json.Unmarshal(b, &m); err != nil {
		return J{"doc": "badJson"}
	}
	t, err := streams.ToType(context.Background(), m)
	if err != nil {
		return J{"doc": "undecodable", "unmatched": streams.IsUnmatchedErr(err)}
	}
	return J{"doc": "val", "v": snap(t)}
}

func (t fakeTransport) Dereference(c context.Context, iri *url.URL) ([]byte, error) {
	if t.w.call("deref", true, us(iri)) {
		return nil, t.w.failed()
	}
	doc, ok := jmap(t.w.spec["remote"])[fmt.Sprint(us(iri))]
	if !ok {
		t.w.resp(J{"err": "injected"})
		return nil, errInjected
	}
	b := docBytes(doc)
	t.w.resp(okR(classifyDoc(b)))
	return b, nil
}

// the bytes a remote document is served as
func docBytes(doc interface{}) []byte {
	var b []byte
	if m, ok := doc.(map[string]interface{}); ok {
		if raw, ok := m["__raw"].(string); ok {
			b = []byte(raw)
		} else {
			mm := jmap(deepCopy(m))
			if _, ok := mm["@context"]; !ok && mm["__nocontext"] == nil {
				mm["@context"] = allCtx
			}
			delete(mm, "__nocontext")
			b, _ = json.Marshal(mm)
		}
	} else {
		b, _ = json.Marshal(doc)
	}
	return b
}

func (t fakeTransport) Deliver(c context.Context, b []byte, to *url.URL) error {
	return t.BatchDeliver(c, b, []*url.URL{to})
}

func (t fakeTransport) BatchDeliver(c context.Context, b []byte, recipients []*url.URL) error {
	t.w.keep("the payload given to BatchDeliver", func() string { return string(b) })
	t.w.keep("the recipient list given to BatchDeliver", func() string { return fmt.Sprint(uss(recipients)) })
	var payload interface{}
	json.Unmarshal(b, &payload)
	payload = stripContext(payload)
	if t.w.call("batchDeliver", true, payload, uss(recipients)) {
		return t.w.failed()
	}
	t.w.mu.Lock()
	t.w.trace[len(t.w.trace)-1].A = append(t.w.trace[len(t.w.trace)-1].A, string(b))
	t.w.mu.Unlock()
	t.w.resp(okR(nil))
	return nil
}

// ---------------------------------------------------------------- protocols

type fakeCommon struct{ w *world }

func (f fakeCommon) auth(name string, rw http.ResponseWriter) (bool, error) {
	if f.w.call(name, true) {
		// the flag that accompanies an error means nothing ("authenticated is ignored"): the adversarial value is returned
		return true, f.w.failed()
	}
	switch f.w.spec["auth"] {
	case "denied":
		f.w.resp(okR(false))
		// "it is expected that the implementation handles writing to the ResponseWriter"
		if cw, ok := rw.(*countingWriter); ok && f.w.spec["authSilent"] == nil {
			f.w.call("app:writeHeader", false, 401.0)
			f.w.resp(nil)
			_ = cw
		}
		return false, nil
	case "error":
		return true, f.w.failed()
	}
	f.w.resp(okR(true))
	return true, nil
}

func (f fakeCommon) AuthenticateGetInbox(c context.Context, w http.ResponseWriter, r *http.Request) (context.Context, bool, error) {
	ok, err := f.auth("authGetInbox", w)
	return c, ok, err
}
func (f fakeCommon) AuthenticateGetOutbox(c context.Context, w http.ResponseWriter, r *http.Request) (context.Context, bool, error) {
	ok, err := f.auth("authGetOutbox", w)
	return c, ok, err
}

func (f fakeCommon) servePage(name, key string) (vocab.ActivityStreamsOrderedCollectionPage, error) {
	if f.w.call(name, true) {
		return nil, f.w.failed()
	}
	doc, ok := f.w.spec[key].(map[string]interface{})
	if !ok {
		return nil, f.w.failed()
	}
	v, err := mkValue(doc)
	if err != nil {
		return nil, f.w.failed()
	}
	p, ok := v.(vocab.ActivityStreamsOrderedCollectionPage)
	if !ok {
		return nil, f.w.failed()
	}
	f.w.resp(okR(snap(p)))
	return p, nil
}

func (f fakeCommon) GetOutbox(c context.Context, r *http.Request) (vocab.ActivityStreamsOrderedCollectionPage, error) {
	return f.servePage("appGetOutbox", "servedOutbox")
}

func (f fakeCommon) NewTransport(c context.Context, actorBoxIRI *url.URL, gofedAgent string) (pub.Transport, error) {
	if f.w.call("newTransport", true, us(actorBoxIRI)) {
		return nil, f.w.failed()
	}
	f.w.resp(okR(nil))
	if f.w.spec["bundledTransport"] != nil {
		return newBundledTransport(f.w), nil
	}
	return fakeTransport{f.w}, nil
}

type fakeFed struct {
	fakeCommon
}

func (f fakeFed) PostInboxRequestBodyHook(c context.Context, r *http.Request, activity pub.Activity) (context.Context, error) {
	if f.w.call("hookInbox", true, snap(activity)) {
		return c, f.w.failed()
	}
	f.w.resp(okR(nil))
	return c, nil
}

func (f fakeFed) AuthenticatePostInbox(c context.Context, w http.ResponseWriter, r *http.Request) (context.Context, bool, error) {
	ok, err := f.auth("authPostInbox", w)
	return c, ok, err
}

func (f fakeFed) Blocked(c context.Context, actorIRIs []*url.URL) (bool, error) {
	f.w.keep("the id list given to Blocked", func() string { return fmt.Sprint(uss(actorIRIs)) })
	if f.w.call("blocked", true, uss(actorIRIs)) {
		return false, f.w.failed()
	}
	switch f.w.spec["blocked"] {
	case "yes":
		f.w.resp(okR(true))
		return true, nil
	case "error":
		return false, f.w.failed()
	}
	// blocked ids listed explicitly
	for _, b := range jstrs(f.w.spec["blockedIds"]) {
		for _, a := range actorIRIs {
			if fmt.Sprint(us(a)) == b {
				f.w.resp(okR(true))
				return true, nil
			}
		}
	}
	f.w.resp(okR(false))
	return false, nil
}

func cbConfigOf(spec interface{}) J {
	m := jmap(spec)
	out := J{"wrapped": []interface{}{}, "onFollow": 0.0, "other": []interface{}{}}
	if v, ok := m["wrapped"]; ok {
		out["wrapped"] = v
	}
	if v, ok := m["onFollow"]; ok {
		out["onFollow"] = v
	}
	if v, ok := m["other"]; ok {
		out["other"] = v
	}
	return out
}

func (f fakeFed) FederatingCallbacks(c context.Context) (pub.FederatingWrappedCallbacks, []interface{}, error) {
	if f.w.call("fedCallbacks", true) {
		return pub.FederatingWrappedCallbacks{}, nil, f.w.failed()
	}
	cfg := cbConfigOf(f.w.spec["fedCallbacks"])
	f.w.resp(okR(cfg))
	wr, other := buildFedCallbacks(f.w, cfg)
	return wr, other, nil
}

func (f fakeFed) DefaultCallback(c context.Context, activity pub.Activity) error {
	if f.w.call("fedDefault", true, snap(activity)) {
		return f.w.failed()
	}
	f.w.resp(okR(nil))
	return nil
}

func intOf(x interface{}, def int) int {
	switch n := x.(type) {
	case float64:
		return int(n)
	case int:
		return n
	case int64:
		return int(n)
	}
	return def
}

func (f fakeFed) MaxInboxForwardingRecursionDepth(c context.Context) int {
	f.w.call("maxFwdDepth", false)
	n := intOf(f.w.spec["maxFwdDepth"], 3)
	f.w.resp(n)
	return n
}

func (f fakeFed) MaxDeliveryRecursionDepth(c context.Context) int {
	f.w.call("maxDeliveryDepth", false)
	n := intOf(f.w.spec["maxDeliveryDepth"], 3)
	f.w.resp(n)
	return n
}

func (f fakeFed) FilterForwarding(c context.Context, potentialRecipients []*url.URL, a pub.Activity) ([]*url.URL, error) {
	if f.w.call("filterForwarding", true, uss(potentialRecipients), snap(a)) {
		return nil, f.w.failed()
	}
	var out []*url.URL
	switch v := f.w.spec["filter"].(type) {
	case string:
		if v == "none" {
			out = nil
		} else {
			out = potentialRecipients
		}
	case []interface{}:
		// filtering in place is allowed (only the activity must not be modified): the caller's slice is overwritten
		out = potentialRecipients[:0]
		for _, e := range v {
			if s, ok := e.(string); ok {
				u, _ := url.Parse(s)
				out = append(out, u)
			}
		}
	default:
		out = potentialRecipients
	}
	f.w.resp(okR(uss(out)))
	return out, nil
}

func (f fakeFed) GetInbox(c context.Context, r *http.Request) (vocab.ActivityStreamsOrderedCollectionPage, error) {
	return f.servePage("appGetInbox", "servedInbox")
}

type fakeSocial struct{ w *world }

func (f fakeSocial) PostOutboxRequestBodyHook(c context.Context, r *http.Request, data vocab.Type) (context.Context, error) {
	if f.w.call("hookOutbox", true, snap(data)) {
		return c, f.w.failed()
	}
	f.w.resp(okR(nil))
	return c, nil
}

func (f fakeSocial) AuthenticatePostOutbox(c context.Context, w http.ResponseWriter, r *http.Request) (context.Context, bool, error) {
	ok, err := fakeCommon{f.w}.auth("authPostOutbox", w)
	return c, ok, err
}

func (f fakeSocial) SocialCallbacks(c context.Context) (pub.SocialWrappedCallbacks, []interface{}, error) {
	if f.w.call("socialCallbacks", true) {
		return pub.SocialWrappedCallbacks{}, nil, f.w.failed()
	}
	cfg := cbConfigOf(f.w.spec["socialCallbacks"])
	f.w.resp(okR(cfg))
	wr, other := buildSocialCallbacks(f.w, cfg)
	return wr, other, nil
}

func (f fakeSocial) DefaultCallback(c context.Context, activity pub.Activity) error {
	if f.w.call("socialDefault", true, snap(activity)) {
		return f.w.failed()
	}
	f.w.resp(okR(nil))
	return nil
}

// application callbacks (wrapped.<T> and other[idx])
func (w *world) appCb(fed bool, ty string, v vocab.Type) error {
	if w.call("appCb", true, fed, ty, snap(v)) {
		return w.failed()
	}
	w.resp(okR(nil))
	return nil
}

func (w *world) otherCb(fed bool, idx int, v vocab.Type) error {
	if w.call("otherCb", true, fed, float64(idx), snap(v)) {
		return w.failed()
	}
	w.resp(okR(nil))
	return nil
}

// ---------------------------------------------------------------- Clock, ResponseWriter

type fakeClock struct{ w *world }

func (f fakeClock) Now() time.Time {
	f.w.call("now", false)
	unix := int64(intOf(f.w.spec["now"], 1600000000))
	if s, ok := f.w.spec["now"].(float64); ok {
		unix = int64(s)
	}
	zone := intOf(f.w.spec["zoneMin"], 0)
	f.w.resp([]interface{}{float64(unix), float64(zone)})
	loc := time.UTC
	if zone != 0 {
		loc = time.FixedZone("", zone*60)
	}
	// the instant has a sub-second part (derived from the second, anywhere in [0.000000999, 0.999000999]): every
	// documented use of the clock truncates it
	nanos := ((unix%1000+1000)%1000*7919%1000)*1000000 + 999
	return time.Unix(unix, nanos).In(loc)
}

type countingWriter struct {
	w      *world
	header http.Header
	short  bool // Write reports fewer bytes than given
}

func (c *countingWriter) Header() http.Header { return c.header }

func (c *countingWriter) WriteHeader(code int) {
	hs := J{}
	keys := []string{}
	for k := range c.header {
		keys = append(keys, k)
	}
	sort.Strings(keys)
	for _, k := range keys {
		hs[k] = strings.Join(c.header.Values(k), " | ")
	}
	c.w.call("writeHeader", false, float64(code), hs)
	c.w.resp(nil)
}

func (c *countingWriter) Write(b []byte) (int, error) {
	var body interface{}
	dec := json.NewDecoder(bytes.NewReader(b))
	dec.Decode(&body)
	body = stripContext(body)
	if c.w.call("writeBody", true, body, string(b)) {
		return 0, c.w.failed()
	}
	if c.short {
		c.w.resp(okR(false))
		return len(b) / 2, nil
	}
	c.w.resp(okR(true))
	return len(b), nil
}

// ---------------------------------------------------------------- a custom DelegateActor (for an actor with both
// protocols disabled: whatever it is asked is recorded)

type fakeDelegate struct{ w *world }

func (d fakeDelegate) note(name string) {
	d.w.call(name, false)
	d.w.resp(okR(nil))
}
func (d fakeDelegate) PostInboxRequestBodyHook(c context.Context, r *http.Request, activity pub.Activity) (context.Context, error) {
	d.note("hookInbox")
	return c, nil
}
func (d fakeDelegate) PostOutboxRequestBodyHook(c context.Context, r *http.Request, data vocab.Type) (context.Context, error) {
	d.note("hookOutbox")
	return c, nil
}
func (d fakeDelegate) AuthenticatePostInbox(c context.Context, w http.ResponseWriter, r *http.Request) (context.Context, bool, error) {
	d.note("authPostInbox")
	return c, true, nil
}
func (d fakeDelegate) AuthenticateGetInbox(c context.Context, w http.ResponseWriter, r *http.Request) (context.Context, bool, error) {
	d.note("authGetInbox")
	return c, true, nil
}
func (d fakeDelegate) AuthorizePostInbox(c context.Context, w http.ResponseWriter, activity pub.Activity) (bool, error) {
	d.note("delegate:AuthorizePostInbox")
	return true, nil
}
func (d fakeDelegate) PostInbox(c context.Context, inboxIRI *url.URL, activity pub.Activity) error {
	d.note("delegate:PostInbox")
	return nil
}
func (d fakeDelegate) InboxForwarding(c context.Context, inboxIRI *url.URL, activity pub.Activity) error {
	d.note("delegate:InboxForwarding")
	return nil
}
func (d fakeDelegate) PostOutbox(c context.Context, a pub.Activity, outboxIRI *url.URL, rawJSON map[string]interface{}) (bool, error) {
	d.note("delegate:PostOutbox")
	return true, nil
}
func (d fakeDelegate) AddNewIDs(c context.Context, a pub.Activity) error {
	d.note("delegate:AddNewIDs")
	u, _ := url.Parse("https://a.example/activities/delegate-id")
	id := streams.NewJSONLDIdProperty()
	id.Set(u)
	a.SetJSONLDId(id)
	return nil
}
func (d fakeDelegate) Deliver(c context.Context, outbox *url.URL, activity pub.Activity) error {
	d.note("delegate:Deliver")
	return nil
}
func (d fakeDelegate) AuthenticatePostOutbox(c context.Context, w http.ResponseWriter, r *http.Request) (context.Context, bool, error) {
	d.note("authPostOutbox")
	return c, true, nil
}
func (d fakeDelegate) AuthenticateGetOutbox(c context.Context, w http.ResponseWriter, r *http.Request) (context.Context, bool, error) {
	d.note("authGetOutbox")
	return c, true, nil
}
func (d fakeDelegate) WrapInCreate(c context.Context, value vocab.Type, outboxIRI *url.URL) (vocab.ActivityStreamsCreate, error) {
	d.note("delegate:WrapInCreate")
	return streams.NewActivityStreamsCreate(), nil
}
func (d fakeDelegate) GetOutbox(c context.Context, r *http.Request) (vocab.ActivityStreamsOrderedCollectionPage, error) {
	d.note("appGetOutbox")
	return streams.NewActivityStreamsOrderedCollectionPage(), nil
}
func (d fakeDelegate) GetInbox(c context.Context, r *http.Request) (vocab.ActivityStreamsOrderedCollectionPage, error) {
	d.note("appGetInbox")
	return streams.NewActivityStreamsOrderedCollectionPage(), nil
}
