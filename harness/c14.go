package main

import (
	"context"
	"errors"

	"github.com/go-fed/activity/streams"
	"github.com/go-fed/activity/streams/vocab"
)

// C14: resolvers. One case = (resolver kind, value type or JSON document,
// callback list with the error each returns, optional predicate / wrong-shape
// constructor argument).

var errApp = errors.New("application error E")

func errClass(err error) string {
	switch err {
	case nil:
		return "nil"
	case errApp:
		return "E"
	case streams.ErrNoCallbackMatch:
		return "NoCallbackMatch"
	case streams.ErrUnhandledType:
		return "UnhandledType"
	case streams.ErrPredicateUnmatched:
		return "PredicateUnmatched"
	}
	return "other"
}

func cbByName(n string) *cbMaker {
	for i := range cbMakers {
		if cbMakers[i].Name == n {
			return &cbMakers[i]
		}
	}
	return nil
}

// constructor arguments of illegal shapes
func wrongShape(k int) interface{} {
	switch k {
	case 0:
		return func() {}
	case 1:
		return func(c context.Context, v vocab.ActivityStreamsNote) {}
	case 2:
		return func(v vocab.ActivityStreamsNote) error { return nil }
	case 3:
		return func(c context.Context, v vocab.Type) error { return nil }
	case 4:
		return 42
	case 5:
		return nil
	case 6:
		return func(c context.Context, v vocab.ActivityStreamsNote, extra int) error { return nil }
	case 7:
		return func(c context.Context, v vocab.ActivityStreamsNote) (error, bool) { return nil, false }
	case 8:
		return "vocab.ActivityStreamsNote"
	case 9:
		return func(c context.Context, v vocab.ActivityStreamsNameProperty) error { return nil }
	}
	return struct{}{}
}

const nWrong = 10

func strs(x interface{}) []string {
	var out []string
	if l, ok := x.([]interface{}); ok {
		for _, e := range l {
			s, _ := e.(string)
			out = append(out, s)
		}
	}
	return out
}

func runC14(in J) interface{} {
	kind, _ := in["resolver"].(string)
	var log []int
	var cbs []interface{}
	rets := strs(in["ret"])
	for idx, n := range strs(in["cbs"]) {
		m := cbByName(n)
		if m == nil {
			return J{"error": "no such callback type " + n}
		}
		var ret error
		if idx < len(rets) && rets[idx] == "E" {
			ret = errApp
		} else if idx < len(rets) && rets[idx] == "NCM" {
			ret = streams.ErrNoCallbackMatch
		} else if idx < len(rets) && rets[idx] == "UT" {
			ret = streams.ErrUnhandledType
		}
		cbs = append(cbs, m.MkCb(&log, idx, ret))
	}
	if w, ok := in["wrong"].(float64); ok {
		// insert the wrong-shaped argument at position wrongAt
		at := 0
		if a, ok := in["wrongAt"].(float64); ok {
			at = int(a)
		}
		if at > len(cbs) {
			at = len(cbs)
		}
		ws := wrongShape(int(w))
		if int(w) == 100 { // a predicate signature given to a callback resolver
			pc := 0
			ws = cbByName("Note").MkPred(&pc, true, nil)
		}
		cbs = append(cbs[:at], append([]interface{}{ws}, cbs[at:]...)...)
	}
	obs := J{}
	c := context.Background()
	var err error
	switch kind {
	case "type":
		r, cerr := streams.NewTypeResolver(cbs...)
		obs["ctorErr"] = cerr != nil
		if cerr != nil {
			break
		}
		v := typeByName(in["value"].(string)).New()
		err = r.Resolve(c, v)
	case "json":
		r, cerr := streams.NewJSONResolver(cbs...)
		obs["ctorErr"] = cerr != nil
		if cerr != nil {
			break
		}
		doc, _ := in["doc"].(map[string]interface{})
		err = r.Resolve(c, doc)
	case "totype":
		// ToType: the library's own JSON resolver with one callback per type; "invoked" is the position of the returned
		// value's type in the list given as cbs (all type names)
		doc, _ := in["doc"].(map[string]interface{})
		obs["ctorErr"] = false
		var t vocab.Type
		t, err = streams.ToType(c, doc)
		if err == nil && t != nil {
			for idx, n := range strs(in["cbs"]) {
				if n == t.GetTypeName() {
					log = append(log, idx)
				}
			}
		}
	case "pred":
		d, cerr := streams.NewTypeResolver(cbs...)
		if cerr != nil {
			return J{"error": "delegate ctor failed"}
		}
		called := 0
		var pred interface{}
		if w, ok := in["predWrong"].(float64); ok {
			pred = wrongShape(int(w))
			if int(w) == 100 {
				var l2 []int
				pred = cbByName("Note").MkCb(&l2, 0, nil)
			}
		} else {
			var pret error
			if in["predRet"] == "E" {
				pret = errApp
			}
			pass, _ := in["pass"].(bool)
			pred = cbByName(in["pred"].(string)).MkPred(&called, pass, pret)
		}
		r, cerr := streams.NewTypePredicatedResolver(d, pred)
		obs["ctorErr"] = cerr != nil
		if cerr != nil {
			break
		}
		v := typeByName(in["value"].(string)).New()
		var applied bool
		applied, err = r.Apply(c, v)
		obs["applied"] = applied
		obs["predCalled"] = called
	default:
		return J{"error": "unknown resolver kind"}
	}
	if log == nil {
		log = []int{}
	}
	obs["invoked"] = log
	obs["err"] = errClass(err)
	obs["unmatched"] = streams.IsUnmatchedErr(err)
	return obs
}

func genC14(r *rng, thorough bool, args []string, yield func(in J)) {
	names := make([]string, len(typeTable))
	for i, t := range typeTable {
		names[i] = t.Name
	}
	// exhaustive (value type x callback type) for type and pred resolvers
	for _, v := range names {
		for _, cb := range names {
			yield(J{"resolver": "type", "value": v, "cbs": []string{cb}, "ret": []string{"nil"}})
			yield(J{"resolver": "pred", "value": v, "pred": cb, "pass": true, "cbs": []string{v}, "ret": []string{"nil"}})
		}
	}
	asURI := "https://www.w3.org/ns/activitystreams"
	ctxs := []interface{}{
		asURI,
		"http://www.w3.org/ns/activitystreams",
		[]interface{}{asURI, "https://w3id.org/security/v1", "http://joinmastodon.org/ns", "https://forgefed.peers.community/ns"},
	}
	// exhaustive (document type x callback type) for the JSON resolver
	for _, v := range names {
		for _, cb := range names {
			doc := J{"@context": ctxs[r.intn(len(ctxs))], "type": v, "id": "https://x.example/o/1"}
			yield(J{"resolver": "json", "doc": doc, "cbs": []string{cb}, "ret": []string{"nil"}})
		}
	}
	// random callback lists (0..8, duplicates, mixed vocabularies), errors returned
	n := 3000
	if thorough {
		n = 60000
	}
	for k := 0; k < n; k++ {
		v := r.pick(names)
		l := r.intn(9)
		var cbs, rets []string
		for j := 0; j < l; j++ {
			if r.chance(35) {
				cbs = append(cbs, v)
			} else {
				cbs = append(cbs, r.pick(names))
			}
			if r.chance(25) {
				rets = append(rets, "E")
			} else if r.chance(10) {
				rets = append(rets, "NCM")
			} else if r.chance(8) {
				rets = append(rets, "UT")
			} else {
				rets = append(rets, "nil")
			}
		}
		if cbs == nil {
			cbs, rets = []string{}, []string{}
		}
		switch r.intn(3) {
		case 0:
			yield(J{"resolver": "type", "value": v, "cbs": cbs, "ret": rets})
		case 1:
			var ty interface{} = v
			switch r.intn(6) {
			case 0:
				ty = []interface{}{"NoSuchType", v}
			case 1:
				ty = []interface{}{v, r.pick(names)}
			case 4:
				ty = []interface{}{r.pick(names), v, "NoSuchType"}
			case 2:
				ty = []interface{}{5.0, v}
			case 3:
				ty = "NoSuchType"
			}
			var ctx interface{} = ctxs[r.intn(len(ctxs))]
			switch r.intn(8) {
			case 0:
				ctx = J{asURI: "as"}
				if s, ok := ty.(string); ok && r.bool() {
					ty = "as:" + s
				}
			case 1:
				ctx = J{"as": asURI}
				if s, ok := ty.(string); ok && r.bool() {
					ty = "as:" + s
				}
			}
			// a `type` that is neither a string nor an array of strings names no type at all
			if r.chance(12) {
				ty = []interface{}{42.0, true, nil, J{"name": v}, []interface{}{}, []interface{}{7.0, false}, []interface{}{nil, J{}}, 0.0, ""}[r.intn(9)]
			}
			if r.chance(30) {
				// ToType is a JSON resolver with a callback for every type
				all := make([]string, len(names))
				copy(all, names)
				nils := make([]string, len(names))
				for q := range nils {
					nils[q] = "nil"
				}
				yield(J{"resolver": "totype", "doc": J{"@context": ctx, "type": ty, "id": "https://x.example/o/3"}, "cbs": all, "ret": nils})
				break
			}
			yield(J{"resolver": "json", "doc": J{"@context": ctx, "type": ty, "id": "https://x.example/o/2"}, "cbs": cbs, "ret": rets})
		case 2:
			p := v
			if r.chance(40) {
				p = r.pick(names)
			}
			in := J{"resolver": "pred", "value": v, "pred": p, "pass": r.chance(70), "cbs": cbs, "ret": rets}
			if r.chance(15) {
				in["predRet"] = "E"
			}
			yield(in)
		}
	}
	// wrong-shaped constructor arguments
	for w := 0; w <= nWrong; w++ {
		ww := w
		if w == nWrong {
			ww = 100
		}
		for _, kind := range []string{"type", "json"} {
			for at := 0; at < 3; at++ {
				yield(J{"resolver": kind, "value": "Note", "doc": J{"@context": asURI, "type": "Note"}, "cbs": []string{"Note", "Person"}, "ret": []string{"nil", "nil"}, "wrong": ww, "wrongAt": at})
			}
		}
		yield(J{"resolver": "pred", "value": "Note", "cbs": []string{"Note"}, "ret": []string{"nil"}, "predWrong": ww})
	}
	// missing type / @context
	yield(J{"resolver": "json", "doc": J{"type": "Note"}, "cbs": []string{"Note"}, "ret": []string{"nil"}})
	yield(J{"resolver": "json", "doc": J{"@context": asURI}, "cbs": []string{"Note"}, "ret": []string{"nil"}})
}

func init() {
	runners["c14"] = &runner{prop: "C14", gen: genC14, run: runC14}
}
