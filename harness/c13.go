package main

import "github.com/go-fed/activity/streams/vocab"

// C13: every ordered type pair × the four package-level predicate families and
// the IsExtending method, on real values.

type isExtender interface {
	IsExtending(other vocab.Type) bool
}

func typeByName(n string) *typeEntry {
	for i := range typeTable {
		if typeTable[i].Name == n {
			return &typeTable[i]
		}
	}
	return nil
}

func init() {
	runners["c13"] = &runner{
		prop: "C13",
		gen: func(r *rng, thorough bool, args []string, yield func(in J)) {
			for _, a := range typeTable {
				for _, b := range typeTable {
					yield(J{"a": a.Name, "b": b.Name})
				}
			}
		},
		run: func(in J) interface{} {
			a, b := typeByName(in["a"].(string)), typeByName(in["b"].(string))
			if a == nil || b == nil {
				return J{"error": "no such type"}
			}
			va, vb := a.New(), b.New()
			obs := J{
				"ext":   a.Extends(vb),
				"extBy": b.IsExtendedBy(va),
				"isOr":  b.IsOrExtends(va),
				"disj":  a.IsDisjointWith(vb),
			}
			if ie, ok := va.(isExtender); ok {
				obs["isExtending"] = ie.IsExtending(vb)
			} else {
				obs["isExtending"] = "missing"
			}
			return obs
		},
	}
}
